//! C20 — writing the same document twice gives identical bytes.
//! channels: dict (real serializers on two HashMap instances of one dictionary, entries handed to Coq in each
//! instance's actual iteration order), objstm (the private object-stream flush, hook), xdict (the xref-stream
//! dictionary cut out of written files), file (whole documents x configurations: same Document value twice,
//! rebuilt Document, >= 3 fresh child processes; clock fixed through the API; plus the masked real-clock path).
use crate::util::*;
use oxidize_pdf::objects::{Dictionary, Object, ObjectId};
use oxidize_pdf::writer::{verif_flush_object_streams, verif_write_object_value, verif_write_object_value_to_buffer};
use serde_json::{json, Value};
use std::io::Read;
#[path = "c20_docs.rs"]
mod docs;

fn fnv64(b: &[u8], seed: u64) -> u64 {
    let mut h: u64 = 0xcbf29ce484222325 ^ seed;
    for x in b {
        h ^= *x as u64;
        h = h.wrapping_mul(0x100000001b3);
    }
    h
}
fn digest(b: &[u8]) -> Vec<u8> {
    let mut v = fnv64(b, 0).to_be_bytes().to_vec();
    v.extend_from_slice(&fnv64(b, 0x5bd1e995).to_be_bytes());
    v.extend_from_slice(&(b.len() as u64).to_be_bytes());
    v
}

// ------------------------------------------------------------------ object trees (dict channel)
#[derive(Clone, Debug)]
enum T {
    Null,
    Bool(bool),
    Int(i64),
    Str(Vec<u8>), // ASCII only (Object::String holds a Rust String)
    Hex(Vec<u8>),
    Name(String),
    Arr(Vec<T>),
    Dict(Vec<(String, T)>), // in insertion order
    Ref(u32, u16),
}
fn gen_key(r: &mut Rng) -> String {
    let n = r.range(1, 6);
    (0..n).map(|_| *r.pick(&[b'A', b'B', b'a', b'b', b'Z', b'0', b'9', b'_', b'T', b'y']) as char).collect()
}
fn gen_t(r: &mut Rng, depth: u32) -> T {
    match r.below(if depth == 0 { 7 } else { 10 }) {
        0 => T::Null,
        1 => T::Bool(r.chance(1, 2)),
        2 => T::Int(r.range(0, 100000) as i64 - 500),
        3 => T::Str((0..r.below(8)).map(|_| *r.pick(b"ab() \\xyz")).collect()),
        4 => {
            let n = r.below(5) as usize;
            T::Hex(r.bytes(n))
        }
        5 => T::Name(gen_key(r)),
        6 => T::Ref(r.range(1, 999) as u32, 0),
        7 => T::Arr((0..r.below(4)).map(|_| gen_t(r, depth - 1)).collect()),
        _ => {
            let n = r.range(0, 7);
            gen_dict(r, depth - 1, n)
        }
    }
}
fn gen_dict(r: &mut Rng, depth: u32, n: u64) -> T {
    let mut keys: Vec<String> = vec![];
    while (keys.len() as u64) < n {
        let k = gen_key(r);
        if !keys.contains(&k) {
            keys.push(k);
        }
    }
    T::Dict(keys.into_iter().map(|k| (k, gen_t(r, depth))).collect())
}
/// a new instance of the same logical value: every dictionary is filled in a shuffled insertion order
fn reshuffle(t: &T, r: &mut Rng) -> T {
    match t {
        T::Arr(l) => T::Arr(l.iter().map(|x| reshuffle(x, r)).collect()),
        T::Dict(l) => {
            let mut v: Vec<(String, T)> = l.iter().map(|(k, x)| (k.clone(), reshuffle(x, r))).collect();
            for i in (1..v.len()).rev() {
                let j = r.below(i as u64 + 1) as usize;
                v.swap(i, j);
            }
            T::Dict(v)
        }
        o => o.clone(),
    }
}
fn to_obj(t: &T) -> Object {
    match t {
        T::Null => Object::Null,
        T::Bool(b) => Object::Boolean(*b),
        T::Int(i) => Object::Integer(*i),
        T::Str(s) => Object::String(String::from_utf8(s.clone()).unwrap()),
        T::Hex(s) => Object::ByteString(s.clone()),
        T::Name(n) => Object::Name(n.clone()),
        T::Arr(l) => Object::Array(l.iter().map(to_obj).collect()),
        T::Dict(l) => {
            let mut d = Dictionary::new();
            for (k, v) in l {
                d.set(k, to_obj(v));
            }
            Object::Dictionary(d)
        }
        T::Ref(n, g) => Object::Reference(ObjectId::new(*n, *g)),
    }
}
/// Coq term of the REAL object, dictionaries listed in the order `entries()` yields them
fn coq_of_obj(o: &Object) -> String {
    match o {
        Object::Null => "ONull".into(),
        Object::Boolean(b) => format!("(OBool {})", coq_bool(*b)),
        Object::Integer(i) => format!("(OInt {})", coq_z(*i as i128)),
        Object::String(s) => format!("(OStr {})", coq_bytes(s.as_bytes())),
        Object::ByteString(s) => format!("(OHex {})", coq_bytes(s)),
        Object::Name(n) => format!("(OName {})", coq_bytes(n.as_bytes())),
        Object::Array(l) => format!("(OArr ({}))", coq_seq(l.iter().map(coq_of_obj).collect())),
        Object::Dictionary(d) => format!("(ODict ({}))", coq_seq(d.entries().map(|(k, v)| format!("({}, {})", coq_bytes(k.as_bytes()), coq_of_obj(v))).collect())),
        Object::Reference(id) => format!("(ORef {} {})", id.number(), id.generation()),
        _ => "ONull".into(),
    }
}
fn coq_seq(v: Vec<String>) -> String {
    let mut s = String::new();
    for x in &v {
        s.push_str(x);
        s.push_str(" :: ");
    }
    s.push_str("nil");
    s
}
fn t_json(t: &T) -> Value {
    match t {
        T::Null => json!(null),
        T::Bool(b) => json!(b),
        T::Int(i) => json!(i),
        T::Str(s) => json!({"s": hex(s)}),
        T::Hex(s) => json!({"h": hex(s)}),
        T::Name(n) => json!({"n": n}),
        T::Arr(l) => Value::Array(l.iter().map(t_json).collect()),
        T::Dict(l) => json!({"d": l.iter().map(|(k, v)| json!([k, t_json(v)])).collect::<Vec<_>>()}),
        T::Ref(n, g) => json!({"r": [n, g]}),
    }
}
fn t_from(v: &Value) -> T {
    match v {
        Value::Null => T::Null,
        Value::Bool(b) => T::Bool(*b),
        Value::Number(n) => T::Int(n.as_i64().unwrap_or(0)),
        Value::Array(l) => T::Arr(l.iter().map(t_from).collect()),
        Value::Object(o) => {
            if let Some(s) = o.get("s") {
                T::Str(unhex(s.as_str().unwrap()))
            } else if let Some(s) = o.get("h") {
                T::Hex(unhex(s.as_str().unwrap()))
            } else if let Some(s) = o.get("n") {
                T::Name(s.as_str().unwrap().into())
            } else if let Some(s) = o.get("r") {
                T::Ref(s[0].as_u64().unwrap() as u32, s[1].as_u64().unwrap() as u16)
            } else {
                T::Dict(o["d"].as_array().unwrap().iter().map(|kv| (kv[0].as_str().unwrap().to_string(), t_from(&kv[1]))).collect())
            }
        }
        _ => T::Null,
    }
}
fn count_dict_entries(t: &T) -> usize {
    match t {
        T::Arr(l) => l.iter().map(count_dict_entries).sum(),
        T::Dict(l) => l.len() + l.iter().map(|(_, v)| count_dict_entries(v)).sum::<usize>(),
        _ => 0,
    }
}

fn emit_dict(out: &mut Out, t: &T, shuffle_seed: u64, class: &str) {
    let mut r = Rng::new(shuffle_seed);
    let a = to_obj(t);
    let b = to_obj(&reshuffle(t, &mut r));
    let js = json!({"chan": "dict", "tree": t_json(t), "shuffle": shuffle_seed});
    let res = catch(std::panic::AssertUnwindSafe(|| {
        Ok::<_, String>((
            verif_write_object_value(&a).map_err(|e| format!("{e:?}"))?,
            verif_write_object_value(&b).map_err(|e| format!("{e:?}"))?,
            verif_write_object_value_to_buffer(&a).map_err(|e| format!("{e:?}"))?,
            verif_write_object_value_to_buffer(&b).map_err(|e| format!("{e:?}"))?,
        ))
    }));
    match res {
        Ok(Ok((oa, ob, ba, bb))) => {
            let coq = format!(
                "{{| dc_a := {}; dc_b := {}; dc_out_a := {}; dc_out_b := {}; dc_buf_a := {}; dc_buf_b := {} |}}",
                coq_of_obj(&a),
                coq_of_obj(&b),
                coq_bytes(&oa),
                coq_bytes(&ob),
                coq_bytes(&ba),
                coq_bytes(&bb)
            );
            out.push(coq, js, class, count_dict_entries(t) >= 4);
        }
        Ok(Err(e)) => out.impl_failures.push(json!({"what": format!("serializer error: {e}"), "case": js})),
        Err(p) => out.impl_failures.push(json!({"what": format!("panic: {p}"), "case": js})),
    }
}

// ------------------------------------------------------------------ objstm channel
fn parse_objstms(bytes: &[u8]) -> Result<Vec<(u32, u64, u64, Vec<u8>)>, String> {
    // sequence of "<id> 0 obj\n<<...>>\nstream\n<data>\nendstream\nendobj\n"
    let mut res = vec![];
    let mut pos = 0usize;
    let find = |h: &[u8], n: &[u8], from: usize| h[from..].windows(n.len()).position(|w| w == n).map(|p| p + from);
    while pos < bytes.len() {
        let e = find(bytes, b" 0 obj\n", pos).ok_or("obj header")?;
        let id: u32 = std::str::from_utf8(&bytes[pos..e]).map_err(|_| "id")?.trim().parse().map_err(|_| "id parse")?;
        let s = find(bytes, b"\nstream\n", e).ok_or("stream")?;
        let dict = String::from_utf8_lossy(&bytes[e..s]).to_string();
        let num = |k: &str| -> Result<u64, String> {
            let i = dict.find(k).ok_or(format!("{k} missing"))? + k.len();
            dict[i..].trim_start().split(|c: char| !c.is_ascii_digit()).next().unwrap_or("").parse().map_err(|_| format!("{k} value"))
        };
        let len = num("/Length")? as usize;
        let first = num("/First")?;
        let n = num("/N")?;
        let d0 = s + 8;
        let data = &bytes[d0..d0 + len];
        let mut inflated = vec![];
        flate2::read::ZlibDecoder::new(data).read_to_end(&mut inflated).map_err(|e| format!("inflate: {e}"))?;
        if !bytes[d0 + len..].starts_with(b"\nendstream\nendobj\n") {
            return Err("endstream".into());
        }
        pos = d0 + len + 18;
        res.push((id, n, first, inflated));
    }
    Ok(res)
}
fn emit_objstm(out: &mut Out, objs: &[(u32, Vec<u8>)], shuffle_seed: u64, class: &str) {
    let mut r = Rng::new(shuffle_seed);
    let mut b: Vec<(u32, Vec<u8>)> = objs.to_vec();
    for i in (1..b.len()).rev() {
        let j = r.below(i as u64 + 1) as usize;
        b.swap(i, j);
    }
    let js = json!({"chan": "objstm", "objs": objs.iter().map(|(n, d)| json!([n, hex(d)])).collect::<Vec<_>>(), "shuffle": shuffle_seed});
    let run = |v: Vec<(u32, Vec<u8>)>| -> Result<(String, String), String> {
        let lookup: std::collections::HashMap<u32, Vec<u8>> = v.iter().cloned().collect();
        let (order, bytes, map) = verif_flush_object_streams(v).map_err(|e| format!("{e:?}"))?;
        let streams = parse_objstms(&bytes)?;
        // members of each stream from the compressed-object map (object -> stream, index)
        let mut tuples = vec![];
        for (sid, n, first, data) in &streams {
            let mut mem: Vec<(u32, u32)> = map.iter().filter(|(_, s, _)| s == sid).map(|(o, _, i)| (*i, *o)).collect();
            mem.sort();
            if mem.len() as u64 != *n {
                return Err(format!("/N {n} but {} members in the map", mem.len()));
            }
            tuples.push(format!("({}, ({}), {}, {})", sid, coq_seq(mem.iter().map(|(_, o)| o.to_string()).collect()), first, coq_bytes(data)));
        }
        let input = coq_seq(order.iter().map(|n| format!("({}, {})", n, coq_bytes(&lookup[n]))).collect());
        Ok((input, coq_seq(tuples)))
    };
    match catch(std::panic::AssertUnwindSafe(|| Ok::<_, String>((run(objs.to_vec())?, run(b)?)))) {
        Ok(Ok(((ia, oa), (ib, ob)))) => {
            let coq = format!("{{| oc_a := {ia}; oc_b := {ib}; oc_cap := 100; oc_out_a := {oa}; oc_out_b := {ob} |}}");
            out.push(coq, js, class, objs.len() >= 3);
        }
        Ok(Err(e)) => out.impl_failures.push(json!({"what": format!("object-stream flush: {e}"), "case": js})),
        Err(p) => out.impl_failures.push(json!({"what": format!("panic: {p}"), "case": js})),
    }
}

// ------------------------------------------------------------------ xdict channel
fn value_coq(v: &str) -> Option<String> {
    let v = v.trim();
    if let Some(n) = v.strip_prefix('/') {
        return Some(format!("(OName {})", coq_bytes(n.as_bytes())));
    }
    if v.starts_with('[') && v.ends_with(']') {
        let items: Vec<String> = v[1..v.len() - 1].split_whitespace().map(|x| x.parse::<i64>().ok().map(|i| format!("(OInt {})", coq_z(i as i128)))).collect::<Option<_>>()?;
        return Some(format!("(OArr ({}))", coq_seq(items)));
    }
    let w: Vec<&str> = v.split_whitespace().collect();
    if w.len() == 3 && w[2] == "R" {
        return Some(format!("(ORef {} {})", w[0].parse::<u32>().ok()?, w[1].parse::<u32>().ok()?));
    }
    v.parse::<i64>().ok().map(|i| format!("(OInt {})", coq_z(i as i128)))
}
fn emit_xdict(out: &mut Out, file: &[u8], js: Value, r: &mut Rng) {
    // the xref stream is the last object: "... obj\n<< ... >>\nstream\n"
    let find_last = |h: &[u8], n: &[u8]| h.windows(n.len()).rposition(|w| w == n);
    let (Some(s), Some(o)) = (find_last(file, b"stream\n").and_then(|e| find_last(&file[..e], b"stream\n").or(Some(e))), find_last(file, b" obj\n<<")) else {
        out.impl_failures.push(json!({"what": "xref stream object not found", "case": js}));
        return;
    };
    let _ = s;
    let start = o + 5;
    let Some(end) = file[start..].windows(7).position(|w| w == b"stream\n").map(|p| p + start) else {
        out.impl_failures.push(json!({"what": "xref stream dictionary end not found", "case": js}));
        return;
    };
    let emitted = &file[start..end];
    let text = String::from_utf8_lossy(emitted).to_string();
    let body = text.trim_start_matches("<<").trim_end().trim_end_matches(">>");
    let mut entries = vec![];
    for line in body.split("\n/").filter(|l| !l.trim().is_empty()) {
        let (k, v) = match line.split_once(' ') {
            Some(x) => x,
            None => continue,
        };
        match value_coq(v) {
            Some(c) => entries.push(format!("({}, {})", coq_bytes(k.as_bytes()), c)),
            None => {
                out.impl_failures.push(json!({"what": format!("xref stream dictionary value not understood: {v}"), "case": js}));
                return;
            }
        }
    }
    for i in (1..entries.len()).rev() {
        let j = r.below(i as u64 + 1) as usize;
        entries.swap(i, j);
    }
    let n = entries.len();
    out.push(format!("{{| xd_entries := {}; xd_emitted := {} |}}", coq_seq(entries), coq_bytes(emitted)), js, "xref-stream-dict", n >= 6);
}

// ------------------------------------------------------------------ file channel
fn mask_clock(b: &[u8]) -> Vec<u8> {
    let mut v = b.to_vec();
    let mask = |v: &mut Vec<u8>, open: &[u8], close: u8| {
        let mut i = 0;
        while i + open.len() < v.len() {
            if &v[i..i + open.len()] == open {
                let mut j = i + open.len();
                while j < v.len() && v[j] != close {
                    if v[j].is_ascii_digit() {
                        v[j] = b'#';
                    }
                    j += 1;
                }
                i = j;
            } else {
                i += 1;
            }
        }
    };
    mask(&mut v, b"/ModDate (", b')');
    mask(&mut v, b"<xmp:ModifyDate>", b'<');
    mask(&mut v, b"<xmp:MetadataDate>", b'<');
    v
}
fn write_modes(spec: &Value, cfg: u64, mode: &str) -> Result<Vec<Vec<u8>>, String> {
    let c = || docs::cfg_of(cfg);
    match mode {
        // the same Document value serialized three times
        "twice" => {
            let mut d = docs::build(spec)?;
            Ok(vec![docs::write_fixed(&mut d, c())?, docs::write_fixed(&mut d, c())?, docs::write_fixed(&mut d, c())?])
        }
        // the real entry point (re-stamps the modification date): time fields masked
        "clock" => {
            for _ in 0..4 {
                let mut d1 = docs::build(spec)?;
                let a = d1.to_bytes_with_config(c()).map_err(|e| format!("{e:?}"))?;
                std::thread::sleep(std::time::Duration::from_millis(3));
                let mut d2 = docs::build(spec)?;
                let b = d2.to_bytes_with_config(c()).map_err(|e| format!("{e:?}"))?;
                if a.len() == b.len() {
                    return Ok(vec![mask_clock(&a), mask_clock(&b)]);
                }
            }
            Err("two real-clock writes differ in length four times in a row".into())
        }
        // freshly built documents
        _ => {
            let mut d1 = docs::build(spec)?;
            let mut d2 = docs::build(spec)?;
            Ok(vec![docs::write_fixed(&mut d1, c())?, docs::write_fixed(&mut d2, c())?])
        }
    }
}

fn child(ctx: &Ctx) {
    let jobs: Vec<Value> = serde_json::from_str(&std::fs::read_to_string(ctx.opt("--jobs").unwrap()).unwrap()).unwrap();
    let mut res = vec![];
    for j in &jobs {
        let r = catch(std::panic::AssertUnwindSafe(|| write_modes(&j["spec"], j["cfg"].as_u64().unwrap(), "fresh")));
        res.push(match r {
            Ok(Ok(v)) => json!({"d": hex(&digest(&v[0]))}),
            Ok(Err(e)) => json!({"err": e}),
            Err(p) => json!({"err": format!("panic: {p}")}),
        });
    }
    std::fs::write(ctx.opt("--result").unwrap(), serde_json::to_string(&res).unwrap()).unwrap();
}

pub fn run(ctx: &Ctx) {
    if ctx.flag("--child") {
        return child(ctx);
    }
    let header = "From OxVerif Require Import Base.Util C09.Model C20.Model.";
    let replay = ctx.replay_cases();
    let in_chan = |c: &Value, ch: &str| c["chan"].as_str() == Some(ch);
    let mut r = Rng::new(ctx.seed);

    // ---------- dict ----------
    let mut out = Out::new(ctx, header, "dict_case", "dict_code");
    out.shard_size = 60;
    if let Some(cases) = &replay {
        for c in cases.iter().filter(|c| in_chan(c, "dict")) {
            emit_dict(&mut out, &t_from(&c["tree"]), c["shuffle"].as_u64().unwrap_or(1), "replay");
        }
    } else {
        let n = if ctx.thorough() { 1500 } else { 300 };
        for i in 0..n {
            let depth = 1 + (i % 4) as u32;
            let width = r.range(2, 9);
            let t = gen_dict(&mut r, depth, width);
            emit_dict(&mut out, &t, r.next(), &format!("depth{depth}"));
        }
    }
    out.finish("dict");

    // ---------- objstm ----------
    let mut out = Out::new(ctx, header, "os_case", "os_code");
    out.shard_size = 10;
    if let Some(cases) = &replay {
        for c in cases.iter().filter(|c| in_chan(c, "objstm")) {
            let objs: Vec<(u32, Vec<u8>)> = c["objs"].as_array().unwrap().iter().map(|p| (p[0].as_u64().unwrap() as u32, unhex(p[1].as_str().unwrap()))).collect();
            emit_objstm(&mut out, &objs, c["shuffle"].as_u64().unwrap_or(1), "replay");
        }
    } else {
        let n = if ctx.thorough() { 120 } else { 40 };
        for i in 0..n {
            let k = match i % 8 {
                0 => r.range(101, 230),
                1 => r.range(99, 101),
                _ => r.range(1, 40),
            };
            let mut ids: Vec<u32> = vec![];
            while (ids.len() as u64) < k {
                let id = r.range(1, 5000) as u32;
                if !ids.contains(&id) {
                    ids.push(id);
                }
            }
            let objs: Vec<(u32, Vec<u8>)> = ids.into_iter().map(|id| (id, format!("<< /K {} /L {} >>", r.below(100000), r.next() % 1000003).into_bytes())).collect();
            emit_objstm(&mut out, &objs, r.next(), if k > 100 { "multi-stream" } else { "one-stream" });
        }
    }
    out.finish("objstm");

    // ---------- file + xdict ----------
    let mut fout = Out::new(ctx, header, "file_case", "file_code");
    fout.shard_size = 400;
    let mut xout = Out::new(ctx, header, "xd_case", "xd_code");
    xout.shard_size = 50;
    let mut jobs: Vec<(Value, u64, String)> = vec![]; // spec, cfg, mode
    if let Some(cases) = &replay {
        for c in cases.iter().filter(|c| in_chan(c, "file") || in_chan(c, "xdict")) {
            jobs.push((c["spec"].clone(), c["cfg"].as_u64().unwrap_or(0), c["mode"].as_str().unwrap_or("fresh").to_string()));
        }
    } else {
        let ndocs = if ctx.thorough() { 14 } else { 4 };
        for d in 0..ndocs {
            let mut spec = docs::gen_spec(&mut r, d == 0);
            if d > 0 && !ctx.thorough() {
                // embedding the TrueType faces dominates the run time in the debug profile: quick tier keeps them in document 0 only
                let f: Vec<Value> = spec["feats"].as_array().unwrap().iter().filter(|x| x.as_str() != Some("ttf")).cloned().collect();
                spec["feats"] = json!(f);
            }
            let single = json!({"pages": 1, "n": r.range(2, 4), "feats": [docs::FEATURES[(d as usize * 3 + ctx.seed as usize) % docs::FEATURES.len()], docs::FEATURES[(d as usize * 5 + 1) % docs::FEATURES.len()]], "salt": r.below(1000)});
            for spec in [spec, single] {
                // every non-encrypted configuration: xref streams / object streams / stream compression / header version;
                // object-stream configurations are large (ids near 1e6): two of them per document
                let cfgs: Vec<u64> = if ctx.thorough() { vec![0, 1, 3, 4, 5, 8, 9, 11, 12, 13] } else { vec![0, 1, 4, 5, 8, 3] };
                for (i, c) in cfgs.iter().enumerate() {
                    if (*c & 3) == 3 && d >= 1 && !ctx.thorough() {
                        continue;
                    }
                    jobs.push((spec.clone(), *c, "fresh".into()));
                    if i < 2 {
                        jobs.push((spec.clone(), *c, "twice".into()));
                        jobs.push((spec.clone(), *c, "clock".into()));
                    }
                }
            }
        }
        // cfg 7 (object streams, uncompressed: a 6 MB xref stream) once, thorough tier only
        if ctx.thorough() {
            jobs.push((docs::gen_spec(&mut r, false), 7, "fresh".into()));
        }
    }
    // children: three fresh processes, each running every "fresh" job
    let fresh: Vec<Value> = jobs.iter().filter(|j| j.2 == "fresh").map(|j| json!({"spec": j.0, "cfg": j.1})).collect();
    let jobs_file = ctx.out.join("c20_jobs.json");
    std::fs::create_dir_all(&ctx.out).unwrap();
    std::fs::write(&jobs_file, serde_json::to_string(&fresh).unwrap()).unwrap();
    let exe = std::env::current_exe().unwrap();
    let nchild = 3;
    let kids: Vec<_> = (0..nchild)
        .map(|k| {
            let res = ctx.out.join(format!("c20_child_{k}.json"));
            let _ = std::fs::remove_file(&res);
            (std::process::Command::new(&exe).args(["c20", "--child", "--jobs", jobs_file.to_str().unwrap(), "--result", res.to_str().unwrap(), "--out", ctx.out.to_str().unwrap()]).spawn(), res)
        })
        .collect();
    let mut child_res: Vec<Vec<Value>> = vec![];
    for (ch, res) in kids {
        let ok = ch.ok().and_then(|mut c| c.wait().ok()).map(|s| s.success()).unwrap_or(false);
        let v: Vec<Value> = if ok { std::fs::read_to_string(&res).ok().and_then(|s| serde_json::from_str(&s).ok()).unwrap_or_default() } else { vec![] };
        child_res.push(v);
    }
    let mut fi = 0usize;
    for (spec, cfg, mode) in &jobs {
        let js = json!({"chan": "file", "spec": spec, "cfg": cfg, "mode": mode});
        let res = catch(std::panic::AssertUnwindSafe(|| write_modes(spec, *cfg, mode)));
        let outs = match res {
            Ok(Ok(v)) => v,
            Ok(Err(e)) => {
                fout.impl_failures.push(json!({"what": format!("write failed: {e}"), "case": js}));
                if mode == "fresh" {
                    fi += 1;
                }
                continue;
            }
            Err(p) => {
                fout.impl_failures.push(json!({"what": format!("panic: {p}"), "case": js}));
                if mode == "fresh" {
                    fi += 1;
                }
                continue;
            }
        };
        let mut digs: Vec<Vec<u8>> = outs.iter().map(|b| digest(b)).collect();
        if mode == "fresh" {
            for (k, cr) in child_res.iter().enumerate() {
                match cr.get(fi).and_then(|v| v["d"].as_str()) {
                    Some(h) => digs.push(unhex(h)),
                    None => fout.impl_failures.push(json!({"what": format!("child process {k} gave no result: {:?}", cr.get(fi)), "case": js})),
                }
            }
            fi += 1;
            if cfg & 1 == 1 {
                let mut xr = r.fork();
                emit_xdict(&mut xout, &outs[0], json!({"chan": "xdict", "spec": spec, "cfg": cfg, "mode": "fresh"}), &mut xr);
            }
        }
        let feats = spec["feats"].as_array().map(|a| a.len()).unwrap_or(0);
        fout.push(format!("{{| fc_digests := {} |}}", coq_seq(digs.iter().map(|d| coq_bytes(d)).collect())), js, &format!("{mode}/cfg{cfg}"), feats >= 2);
    }
    fout.extra.insert("child_processes".into(), json!(nchild));
    fout.finish("file");
    xout.finish("xdict");
}
