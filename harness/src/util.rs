#![allow(dead_code)]
//! Shared harness utilities: SplitMix64 PRNG, hex, Coq literal writers, shard/meta output.
use serde_json::{json, Value};
use std::collections::BTreeMap;
use std::fmt::Write as _;
use std::path::PathBuf;

pub struct Rng(pub u64);
impl Rng {
    pub fn new(seed: u64) -> Self {
        Rng(seed ^ 0x9E37_79B9_7F4A_7C15)
    }
    pub fn next(&mut self) -> u64 {
        self.0 = self.0.wrapping_add(0x9E37_79B9_7F4A_7C15);
        let mut z = self.0;
        z = (z ^ (z >> 30)).wrapping_mul(0xBF58_476D_1CE4_E5B9);
        z = (z ^ (z >> 27)).wrapping_mul(0x94D0_49BB_1331_11EB);
        z ^ (z >> 31)
    }
    pub fn below(&mut self, n: u64) -> u64 {
        if n == 0 {
            0
        } else {
            self.next() % n
        }
    }
    pub fn range(&mut self, lo: u64, hi_incl: u64) -> u64 {
        lo + self.below(hi_incl - lo + 1)
    }
    pub fn chance(&mut self, num: u64, den: u64) -> bool {
        self.below(den) < num
    }
    pub fn pick<'a, T>(&mut self, v: &'a [T]) -> &'a T {
        &v[self.below(v.len() as u64) as usize]
    }
    pub fn bytes(&mut self, n: usize) -> Vec<u8> {
        (0..n).map(|_| self.next() as u8).collect()
    }
    pub fn fork(&mut self) -> Rng {
        Rng(self.next())
    }
}

pub fn hex(b: &[u8]) -> String {
    let mut s = String::with_capacity(b.len() * 2);
    for x in b {
        let _ = write!(s, "{:02x}", x);
    }
    s
}
pub fn unhex(s: &str) -> Vec<u8> {
    let b = s.as_bytes();
    (0..b.len() / 2)
        .map(|i| u8::from_str_radix(std::str::from_utf8(&b[2 * i..2 * i + 2]).unwrap(), 16).unwrap())
        .collect()
}
/// Coq term for a byte string: `(unhex "…")`
pub fn coq_bytes(b: &[u8]) -> String {
    format!("(unhex \"{}\")", hex(b))
}
pub fn coq_opt<T: AsRef<str>>(o: Option<T>) -> String {
    match o {
        Some(x) => format!("(Some {})", x.as_ref()),
        None => "None".into(),
    }
}
pub fn coq_list<I: IntoIterator<Item = String>>(it: I) -> String {
    let v: Vec<String> = it.into_iter().collect();
    format!("[{}]", v.join("; "))
}
pub fn coq_bool(b: bool) -> &'static str {
    if b {
        "true"
    } else {
        "false"
    }
}
pub fn coq_z(z: i128) -> String {
    if z < 0 {
        format!("({})%Z", z)
    } else {
        format!("{}%Z", z)
    }
}

pub struct Ctx {
    pub prop: String,
    pub seed: u64,
    pub tier: String,
    pub out: PathBuf,
    pub cases_from: Option<PathBuf>,
    pub args: Vec<String>,
}
impl Ctx {
    pub fn thorough(&self) -> bool {
        self.tier == "thorough"
    }
    pub fn flag(&self, f: &str) -> bool {
        self.args.iter().any(|a| a == f)
    }
    pub fn opt(&self, f: &str) -> Option<String> {
        self.args.iter().position(|a| a == f).and_then(|i| self.args.get(i + 1).cloned())
    }
    pub fn replay_cases(&self) -> Option<Vec<Value>> {
        self.cases_from.as_ref().map(|p| {
            let v: Value = serde_json::from_str(&std::fs::read_to_string(p).expect("read cases-from")).expect("json");
            match v {
                Value::Array(a) => a,
                Value::Object(ref o) if o.contains_key("cases") => o["cases"].as_array().unwrap().clone(),
                Value::Object(ref o) if o.contains_key("case") => vec![o["case"].clone()],
                other => vec![other],
            }
        })
    }
}

/// Collects cases for one correspondence channel and writes Coq shards + meta.json.
pub struct Out {
    pub dir: PathBuf,
    pub header: String,     // Coq preamble (Require Import …)
    pub case_type: String,  // Coq type of one case
    pub checker: String,    // Coq function  case -> N (0 = ok; bit 1 model≠impl, bit 2 property fails)
    pub shard_size: usize,
    pub coq_cases: Vec<String>,
    pub json_cases: Vec<Value>,
    pub classes: BTreeMap<String, u64>,
    pub distinct: std::collections::HashSet<u64>,
    pub nontrivial: u64,
    pub samples: Vec<Value>,
    pub extra: BTreeMap<String, Value>,
    pub impl_failures: Vec<Value>, // property failures detected directly on the implementation side
}
fn fnv(s: &str) -> u64 {
    let mut h: u64 = 0xcbf29ce484222325;
    for b in s.bytes() {
        h ^= b as u64;
        h = h.wrapping_mul(0x100000001b3);
    }
    h
}
impl Out {
    pub fn new(ctx: &Ctx, header: &str, case_type: &str, checker: &str) -> Self {
        std::fs::create_dir_all(&ctx.out).unwrap();
        Out {
            dir: ctx.out.clone(),
            header: header.into(),
            case_type: case_type.into(),
            checker: checker.into(),
            shard_size: 400,
            coq_cases: vec![],
            json_cases: vec![],
            classes: BTreeMap::new(),
            distinct: Default::default(),
            nontrivial: 0,
            samples: vec![],
            extra: BTreeMap::new(),
            impl_failures: vec![],
        }
    }
    /// `class`: label for the input-distribution histogram; `nontrivial`: by the property's stated rule.
    pub fn push(&mut self, coq: String, js: Value, class: &str, nontrivial: bool) {
        *self.classes.entry(class.to_string()).or_insert(0) += 1;
        let h = fnv(&coq);
        if self.distinct.insert(h) && nontrivial {
            self.nontrivial += 1;
        }
        if self.samples.len() < 3 || (self.samples.len() < 6 && nontrivial && self.json_cases.len() % 97 == 0) {
            self.samples.push(js.clone());
        }
        self.coq_cases.push(coq);
        self.json_cases.push(js);
    }
    pub fn count(&mut self, key: &str) {
        *self.classes.entry(key.to_string()).or_insert(0) += 1;
    }
    pub fn finish(self, channel: &str) {
        let n = self.coq_cases.len();
        let mut shard = 0;
        let mut i = 0;
        while i < n || (n == 0 && shard == 0) {
            let j = (i + self.shard_size).min(n);
            let mut s = String::new();
            s.push_str(&self.header);
            s.push_str("\nOpen Scope N_scope.\n");
            let _ = write!(s, "Definition cases : list ({}) := [\n", self.case_type);
            for (k, c) in self.coq_cases[i..j].iter().enumerate() {
                if k > 0 {
                    s.push_str(";\n");
                }
                s.push_str(c);
            }
            s.push_str("\n].\n");
            let _ = write!(s, "Definition bad := fail_codes ({}) cases.\n", self.checker);
            s.push_str("Eval vm_compute in (N.of_nat (List.length cases), bad).\n");
            std::fs::write(self.dir.join(format!("{}_{:03}.v", channel, shard)), s).unwrap();
            shard += 1;
            i = j;
            if n == 0 {
                break;
            }
        }
        let meta = json!({
            "channel": channel,
            "evaluations": n,
            "distinct": self.distinct.len(),
            "distinct_nontrivial": self.nontrivial,
            "shard_size": self.shard_size,
            "shards": shard,
            "classes": self.classes,
            "samples": self.samples,
            "cases": self.json_cases,
            "extra": self.extra,
            "impl_failures": self.impl_failures,
        });
        std::fs::write(self.dir.join(format!("{}.meta.json", channel)), serde_json::to_string(&meta).unwrap()).unwrap();
    }
}

/// run a closure, turning a panic into Err(message)
pub fn catch<T>(f: impl FnOnce() -> T + std::panic::UnwindSafe) -> Result<T, String> {
    std::panic::catch_unwind(f).map_err(|e| {
        if let Some(s) = e.downcast_ref::<&str>() {
            s.to_string()
        } else if let Some(s) = e.downcast_ref::<String>() {
            s.clone()
        } else {
            "panic".to_string()
        }
    })
}
