//! C19: abstract single-revision documents, their reference rendering (mirrors
//! `render` of coq/theories/C19/Model.v byte for byte) and the damage catalogue applied to
//! the cross-reference section / startxref of any classic-xref file.
#![allow(dead_code)]
use crate::util::Rng;

/// abstract document: objects in physical order, catalog object number
#[derive(Clone, Debug)]
pub struct Doc {
    pub objs: Vec<(u32, Vec<u8>)>,
    pub root: u32,
}

pub const HEADER: &[u8] = b"%PDF-1.4\n%\xE2\xE3\xCF\xD3\n";

pub fn render_obj(n: u32, body: &[u8]) -> Vec<u8> {
    let mut v = format!("{} 0 obj\n", n).into_bytes();
    v.extend_from_slice(body);
    v.extend_from_slice(b"\nendobj\n");
    v
}

/// true offset table (physical order)
pub fn offsets(d: &Doc) -> Vec<(u32, u64)> {
    let mut off = HEADER.len() as u64;
    let mut v = vec![];
    for (n, b) in &d.objs {
        v.push((*n, off));
        off += render_obj(*n, b).len() as u64;
    }
    v
}

pub fn render(d: &Doc) -> Vec<u8> {
    let mut buf = HEADER.to_vec();
    for (n, b) in &d.objs {
        buf.extend_from_slice(&render_obj(*n, b));
    }
    let offs = offsets(d);
    let size = d.objs.iter().map(|o| o.0 + 1).max().unwrap_or(1);
    let xoff = buf.len();
    let mut s = format!("xref\n0 {}\n", size);
    for i in 0..size {
        // the LAST physical definition is the one a writer would list (single definition when wf)
        match offs.iter().rev().find(|o| o.0 == i) {
            Some((_, off)) if i != 0 => s.push_str(&format!("{:010} 00000 n \n", off)),
            _ => s.push_str("0000000000 65535 f \n"),
        }
    }
    s.push_str(&format!("trailer\n<< /Size {} /Root {} 0 R >>\nstartxref\n{}\n%%EOF\n", size, d.root, xoff));
    buf.extend_from_slice(s.as_bytes());
    buf
}

// ---------------------------------------------------------------------------------------------
// document generators

fn lit(r: &mut Rng) -> String {
    let words = ["alpha", "beta", "object", "obj", "endobj", "xref", "trailer", "7 0 R", "stream", "(", "\\)", "/Type /Page", "%%EOF", "startxref"];
    let mut s = String::new();
    for _ in 0..r.range(0, 4) {
        s.push_str(words[r.below(words.len() as u64) as usize].trim_matches(|c| c == '(' ));
        s.push(' ');
    }
    s
}

/// a random direct value (no references to missing objects)
pub fn value(r: &mut Rng, depth: u32) -> String {
    match r.below(if depth > 2 { 6 } else { 9 }) {
        0 => format!("{}", r.below(100000) as i64 - 500),
        1 => format!("{}.{}", r.below(100), r.below(1000)),
        2 => format!("/N{}", r.below(50)),
        3 => format!("({})", lit(r).replace('(', "").replace(')', "").replace('\\', "")),
        4 => ["true", "false", "null"][r.below(3) as usize].to_string(),
        5 => {
            let k = r.below(6) as usize;
            format!("<{}>", crate::util::hex(&r.bytes(k)))
        }
        6 => {
            let n = r.below(4);
            format!("[{}]", (0..n).map(|_| value(r, depth + 1)).collect::<Vec<_>>().join(" "))
        }
        7 => {
            let n = r.below(4);
            format!("<< {} >>", (0..n).map(|i| format!("/K{} {}", i, value(r, depth + 1))).collect::<Vec<_>>().join(" "))
        }
        _ => format!("<< /A {} /B [{} {}] >>", value(r, depth + 1), value(r, depth + 1), value(r, depth + 1)),
    }
}

pub fn stream_body(dict_inner: &str, data: &[u8]) -> Vec<u8> {
    let mut b = format!("<< {}/Length {} >>\nstream\n", dict_inner, data.len()).into_bytes();
    b.extend_from_slice(data);
    b.extend_from_slice(b"\nendstream");
    b
}

pub struct GenOpts {
    pub pages: u32,
    pub extra: u32,
    pub base: u32,      // first object number
    pub permute_numbers: bool,
    pub permute_layout: bool,
    pub gaps: bool,
    pub multiline: bool,
}

/// A valid document: catalog, page tree, `pages` pages each with a content stream, `extra`
/// free-standing value objects.  Object numbers start at `base`; optionally permuted / with gaps;
/// physical order optionally permuted.
pub fn gen_doc(r: &mut Rng, o: &GenOpts) -> Doc {
    let count = 2 + 2 * o.pages + o.extra;
    let mut nums: Vec<u32> = vec![];
    let mut next = o.base;
    for _ in 0..count {
        nums.push(next);
        next += if o.gaps && r.chance(1, 4) { r.range(2, 5) as u32 } else { 1 };
    }
    if o.permute_numbers {
        for i in (1..nums.len()).rev() {
            let j = r.below(i as u64 + 1) as usize;
            nums.swap(i, j);
        }
    }
    let cat = nums[0];
    let pages = nums[1];
    let nl = if o.multiline { "\n" } else { " " };
    let mut objs: Vec<(u32, Vec<u8>)> = vec![];
    let kids: Vec<u32> = (0..o.pages).map(|i| nums[2 + 2 * i as usize]).collect();
    objs.push((cat, format!("<<{nl}/Type /Catalog{nl}/Pages {} 0 R{nl}>>", pages).into_bytes()));
    objs.push((
        pages,
        format!("<<{nl}/Type /Pages{nl}/Kids [{}]{nl}/Count {}{nl}>>", kids.iter().map(|k| format!("{} 0 R", k)).collect::<Vec<_>>().join(" "), o.pages).into_bytes(),
    ));
    for i in 0..o.pages {
        let p = nums[2 + 2 * i as usize];
        let c = nums[3 + 2 * i as usize];
        objs.push((p, format!("<<{nl}/Type /Page{nl}/Parent {} 0 R{nl}/MediaBox [0 0 {} 792]{nl}/Resources << >>{nl}/Contents {} 0 R{nl}>>", pages, 600 + i, c).into_bytes()));
        let data = format!("BT /F1 12 Tf 72 7{:02} Td (page {}) Tj ET\nq 1 0 0 1 {} 0 cm Q", i % 100, i, i);
        objs.push((c, stream_body("", data.as_bytes())));
    }
    for k in 0..o.extra {
        let n = nums[(2 + 2 * o.pages + k) as usize];
        let body = if r.chance(1, 4) {
            let k = r.range(0, 40) as usize;
            let mut data = r.bytes(k);
            // keep the payload free of the keywords the stream reader searches for
            for b in data.iter_mut() {
                if *b == b'e' || *b == b'o' {
                    *b = b'.';
                }
            }
            stream_body(&format!("/V {} ", value(r, 2)), &data)
        } else {
            value(r, 0).into_bytes()
        };
        objs.push((n, body));
    }
    if o.permute_layout {
        for i in (1..objs.len()).rev() {
            let j = r.below(i as u64 + 1) as usize;
            objs.swap(i, j);
        }
    }
    Doc { objs, root: cat }
}

// ---------------------------------------------------------------------------------------------
// damage catalogue (byte level; works on any file with ONE classic cross-reference section)

pub fn find(h: &[u8], n: &[u8]) -> Option<usize> {
    if n.is_empty() || h.len() < n.len() {
        return None;
    }
    h.windows(n.len()).position(|w| w == n)
}
pub fn rfind(h: &[u8], n: &[u8]) -> Option<usize> {
    if n.is_empty() || h.len() < n.len() {
        return None;
    }
    h.windows(n.len()).rposition(|w| w == n)
}

/// layout of the cross-reference part of a classic single-section file
#[derive(Clone, Debug)]
pub struct Layout {
    pub xref: usize,                 // offset of the keyword "xref"
    pub entries: Vec<(usize, bool)>, // (offset of the 20-byte entry, in use)
    pub first: u32,
    pub trailer: usize,              // offset of the keyword "trailer"
    pub dict_end: usize,             // offset just after the ">>" closing the trailer dictionary
    pub startxref: usize,            // offset of the keyword "startxref"
    pub sx_num: (usize, usize),      // byte range of the number after startxref
    pub eof: Option<usize>,          // offset of the final "%%EOF"
}

pub fn layout(b: &[u8]) -> Option<Layout> {
    let startxref = rfind(b, b"startxref")?;
    let mut p = startxref + 9;
    while p < b.len() && (b[p] == b'\n' || b[p] == b'\r' || b[p] == b' ') {
        p += 1;
    }
    let q0 = p;
    while p < b.len() && b[p].is_ascii_digit() {
        p += 1;
    }
    let xref: usize = std::str::from_utf8(&b[q0..p]).ok()?.parse().ok()?;
    if !b[xref..].starts_with(b"xref") {
        return None;
    }
    // subsection header
    let mut i = xref + 4;
    while b[i] == b'\n' || b[i] == b'\r' || b[i] == b' ' {
        i += 1;
    }
    let line_end = i + b[i..].iter().position(|c| *c == b'\n' || *c == b'\r')?;
    let hdr = std::str::from_utf8(&b[i..line_end]).ok()?;
    let mut it = hdr.split_whitespace();
    let first: u32 = it.next()?.parse().ok()?;
    let count: usize = it.next()?.parse().ok()?;
    let mut e = line_end;
    while b[e] == b'\n' || b[e] == b'\r' {
        e += 1;
    }
    let mut entries = vec![];
    for k in 0..count {
        let at = e + 20 * k;
        entries.push((at, b[at + 17] == b'n'));
    }
    let trailer = e + 20 * count;
    if !b[trailer..].starts_with(b"trailer") {
        return None; // more than one subsection: not handled
    }
    let dict_end = trailer + find(&b[trailer..startxref], b">>\n").map(|x| x + 2).or_else(|| rfind(&b[trailer..startxref], b">>").map(|x| x + 2))?;
    // the LAST ">>" before startxref closes the trailer dictionary
    let dict_end = rfind(&b[trailer..startxref], b">>").map(|x| trailer + x + 2).unwrap_or(dict_end);
    Some(Layout { xref, entries, first, trailer, dict_end, startxref, sx_num: (q0, p), eof: rfind(b, b"%%EOF") })
}

#[derive(Clone, Debug, PartialEq)]
pub enum Damage {
    ShiftAll(i64),
    ShiftOne(usize, i64),
    GarbleEntry(usize, u8), // 0: offset digits -> 'X'; 1: flag 'n' -> 'x'; 2: whole 20 bytes -> garbage text
    RemoveTable,            // xref .. end of trailer dictionary deleted
    RemoveXrefKeepTrailer,  // subsection + entries deleted, "trailer <<..>>" kept
    RemoveStartxref,
    StartxrefTo(i64),       // absolute value; negative: file_len + |v|
    StartxrefRel(i64),      // true offset + v
    StartxrefIntoStream,
    SizeTo(i64),            // /Size replaced; negative v: true size + |v|... (-1 => size+10)
    TruncateTrailer(u8),    // 0: cut after "trailer"; 1: cut in the middle of the dictionary; 2: drop ">>"
    EofMissing,
    KeywordGarbled,
    SubsectionGarbled,
    CountWrong(i64),        // subsection count replaced by count+v
}

pub fn damage_name(d: &Damage) -> String {
    match d {
        Damage::ShiftAll(k) => format!("shift_all:{k}"),
        Damage::ShiftOne(i, k) => format!("shift_one:{i}:{k}"),
        Damage::GarbleEntry(i, m) => format!("garble:{i}:{m}"),
        Damage::RemoveTable => "remove_table".into(),
        Damage::RemoveXrefKeepTrailer => "remove_xref_keep_trailer".into(),
        Damage::RemoveStartxref => "remove_startxref".into(),
        Damage::StartxrefTo(v) => format!("startxref_to:{v}"),
        Damage::StartxrefRel(v) => format!("startxref_rel:{v}"),
        Damage::StartxrefIntoStream => "startxref_into_stream".into(),
        Damage::SizeTo(v) => format!("size_to:{v}"),
        Damage::TruncateTrailer(m) => format!("truncate_trailer:{m}"),
        Damage::EofMissing => "eof_missing".into(),
        Damage::KeywordGarbled => "keyword_garbled".into(),
        Damage::SubsectionGarbled => "subsection_garbled".into(),
        Damage::CountWrong(v) => format!("count_wrong:{v}"),
    }
}
pub fn damage_from(s: &str) -> Option<Damage> {
    let p: Vec<&str> = s.split(':').collect();
    let n = |i: usize| p.get(i).and_then(|x| x.parse::<i64>().ok());
    Some(match p[0] {
        "shift_all" => Damage::ShiftAll(n(1)?),
        "shift_one" => Damage::ShiftOne(n(1)? as usize, n(2)?),
        "garble" => Damage::GarbleEntry(n(1)? as usize, n(2)? as u8),
        "remove_table" => Damage::RemoveTable,
        "remove_xref_keep_trailer" => Damage::RemoveXrefKeepTrailer,
        "remove_startxref" => Damage::RemoveStartxref,
        "startxref_to" => Damage::StartxrefTo(n(1)?),
        "startxref_rel" => Damage::StartxrefRel(n(1)?),
        "startxref_into_stream" => Damage::StartxrefIntoStream,
        "size_to" => Damage::SizeTo(n(1)?),
        "truncate_trailer" => Damage::TruncateTrailer(n(1)? as u8),
        "eof_missing" => Damage::EofMissing,
        "keyword_garbled" => Damage::KeywordGarbled,
        "subsection_garbled" => Damage::SubsectionGarbled,
        "count_wrong" => Damage::CountWrong(n(1)?),
        _ => return None,
    })
}

/// Does the damage leave the OFFSETS listed in the table intact?  (class label only)
pub fn family(d: &Damage) -> &'static str {
    match d {
        Damage::ShiftAll(_) | Damage::ShiftOne(..) => "offsets_shifted",
        Damage::GarbleEntry(..) => "entry_garbled",
        Damage::RemoveTable | Damage::RemoveXrefKeepTrailer => "table_removed",
        Damage::RemoveStartxref => "startxref_removed",
        Damage::StartxrefTo(_) | Damage::StartxrefRel(_) | Damage::StartxrefIntoStream => "startxref_wrong",
        Damage::SizeTo(_) => "size_wrong",
        Damage::TruncateTrailer(_) => "trailer_truncated",
        Damage::EofMissing => "eof_missing",
        Damage::KeywordGarbled | Damage::SubsectionGarbled | Damage::CountWrong(_) => "section_garbled",
    }
}

fn set_entry_offset(b: &mut [u8], at: usize, v: i64) {
    let v = v.clamp(0, 9_999_999_999);
    b[at..at + 10].copy_from_slice(format!("{:010}", v).as_bytes());
}
fn entry_offset(b: &[u8], at: usize) -> i64 {
    std::str::from_utf8(&b[at..at + 10]).ok().and_then(|s| s.parse().ok()).unwrap_or(0)
}

/// Apply one damage operation.  Operations are applied from the END of the file backwards when
/// combined (see `apply_all`), so a layout computed on the intact file stays valid for in-place
/// edits; length-changing edits recompute the layout.
pub fn apply(b: &[u8], d: &Damage) -> Option<Vec<u8>> {
    let l = layout(b)?;
    let mut v = b.to_vec();
    match d {
        Damage::ShiftAll(k) => {
            for (at, used) in &l.entries {
                if *used {
                    let o = entry_offset(&v, *at);
                    set_entry_offset(&mut v, *at, o + k);
                }
            }
        }
        Damage::ShiftOne(i, k) => {
            let used: Vec<usize> = l.entries.iter().filter(|e| e.1).map(|e| e.0).collect();
            if used.is_empty() {
                return None;
            }
            let at = used[i % used.len()];
            let o = entry_offset(&v, at);
            set_entry_offset(&mut v, at, o + k);
        }
        Damage::GarbleEntry(i, m) => {
            let used: Vec<usize> = l.entries.iter().filter(|e| e.1).map(|e| e.0).collect();
            if used.is_empty() {
                return None;
            }
            let at = used[i % used.len()];
            match m {
                0 => v[at..at + 10].copy_from_slice(b"XXXXXXXXXX"),
                1 => v[at + 17] = b'x',
                _ => v[at..at + 18].copy_from_slice(b"garbage garbage ga"),
            }
        }
        Damage::RemoveTable => {
            v.drain(l.xref..l.dict_end);
        }
        Damage::RemoveXrefKeepTrailer => {
            v.drain(l.xref..l.trailer);
        }
        Damage::RemoveStartxref => {
            let end = l.eof.filter(|e| *e > l.startxref).unwrap_or(v.len());
            v.drain(l.startxref..end);
        }
        Damage::StartxrefTo(x) => {
            let val = if *x < 0 { b.len() as i64 - *x } else { *x };
            v.splice(l.sx_num.0..l.sx_num.1, val.to_string().into_bytes());
        }
        Damage::StartxrefRel(x) => {
            let val = (l.xref as i64 + *x).max(0);
            v.splice(l.sx_num.0..l.sx_num.1, val.to_string().into_bytes());
        }
        Damage::StartxrefIntoStream => {
            let p = find(b, b"stream\n").or_else(|| find(b, b"stream\r\n"))?;
            v.splice(l.sx_num.0..l.sx_num.1, (p + 9).to_string().into_bytes());
        }
        Damage::SizeTo(x) => {
            let p = l.trailer + find(&b[l.trailer..l.dict_end], b"/Size")?;
            let mut q = p + 5;
            while v[q] == b' ' {
                q += 1;
            }
            let q0 = q;
            while v[q].is_ascii_digit() {
                q += 1;
            }
            let cur: i64 = std::str::from_utf8(&v[q0..q]).ok()?.parse().ok()?;
            let val = if *x < 0 { cur - *x * 10 } else { *x };
            v.splice(q0..q, val.to_string().into_bytes());
        }
        Damage::TruncateTrailer(m) => match m {
            0 => v.truncate(l.trailer + 7),
            1 => {
                let mid = l.trailer + (l.dict_end - l.trailer) / 2;
                v.truncate(mid);
            }
            _ => {
                v.drain(l.dict_end - 2..l.dict_end);
            }
        },
        Damage::EofMissing => {
            let e = l.eof?;
            v.truncate(e);
        }
        Damage::KeywordGarbled => v[l.xref + 2] = b'x',
        Damage::SubsectionGarbled => {
            let mut i = l.xref + 4;
            while v[i] == b'\n' || v[i] == b'\r' || v[i] == b' ' {
                i += 1;
            }
            v[i] = b'X';
        }
        Damage::CountWrong(x) => {
            let mut i = l.xref + 4;
            while v[i] == b'\n' || v[i] == b'\r' || v[i] == b' ' {
                i += 1;
            }
            let le = i + v[i..].iter().position(|c| *c == b'\n' || *c == b'\r')?;
            let s = std::str::from_utf8(&v[i..le]).ok()?.to_string();
            let mut it = s.split_whitespace();
            let first = it.next()?.to_string();
            let count: i64 = it.next()?.parse().ok()?;
            v.splice(i..le, format!("{} {}", first, (count + x).max(0)).into_bytes());
        }
    }
    Some(v)
}

/// apply several operations in sequence; an operation that no longer finds its target (the
/// layout was destroyed by an earlier one) is skipped
pub fn apply_all(b: &[u8], ds: &[Damage]) -> Vec<u8> {
    let mut v = b.to_vec();
    // order: in-place entry edits first, structural removals last
    let mut ds: Vec<&Damage> = ds.iter().collect();
    ds.sort_by_key(|d| match d {
        Damage::ShiftAll(_) | Damage::ShiftOne(..) | Damage::GarbleEntry(..) | Damage::KeywordGarbled | Damage::SubsectionGarbled => 0,
        Damage::SizeTo(_) | Damage::CountWrong(_) => 1,
        Damage::StartxrefTo(_) | Damage::StartxrefRel(_) | Damage::StartxrefIntoStream => 2,
        Damage::EofMissing => 3,
        Damage::RemoveStartxref => 4,
        Damage::TruncateTrailer(_) => 5,
        Damage::RemoveTable | Damage::RemoveXrefKeepTrailer => 6,
    });
    for d in ds {
        if let Some(n) = apply_one_robust(&v, d) {
            v = n;
        }
    }
    v
}

/// like `apply` but usable after the section was already edited: when the strict layout can no
/// longer be computed the operation is skipped
fn apply_one_robust(b: &[u8], d: &Damage) -> Option<Vec<u8>> {
    std::panic::catch_unwind(|| apply(b, d)).ok().flatten()
}

pub fn catalogue() -> Vec<Damage> {
    use Damage::*;
    vec![
        ShiftAll(1), ShiftAll(-1), ShiftAll(2), ShiftAll(-3), ShiftAll(7), ShiftAll(100), ShiftAll(-100),
        ShiftOne(0, 1), ShiftOne(1, -1), ShiftOne(2, 5), ShiftOne(3, -40),
        GarbleEntry(0, 0), GarbleEntry(1, 1), GarbleEntry(2, 2), GarbleEntry(3, 0),
        RemoveTable, RemoveXrefKeepTrailer,
        RemoveStartxref,
        StartxrefTo(0), StartxrefTo(-4096), StartxrefTo(9), StartxrefRel(3), StartxrefRel(-3), StartxrefRel(5), StartxrefIntoStream,
        SizeTo(1), SizeTo(2), SizeTo(-1),
        TruncateTrailer(0), TruncateTrailer(1), TruncateTrailer(2),
        EofMissing,
        KeywordGarbled, SubsectionGarbled, CountWrong(-1), CountWrong(1),
    ]
}

// ---------------------------------------------------------------------------------------------
// styled documents: every legal way of delimiting `obj` / `endobj` (ISO 32000-1 7.2.2/7.3.10:
// the keyword `obj` is a regular-character token, so it ends at white space, at a comment or at
// one of the delimiters ( < [ / %), CR / LF / CRLF line ends, values of every kind as top-level
// objects referenced from the page tree.

#[derive(Clone, Debug)]
pub struct SObj {
    pub n: u32,
    pub body: Vec<u8>,
    pub sep: Vec<u8>,     // between `obj` and the value
    pub pre_end: Vec<u8>, // between the value and `endobj`
}
#[derive(Clone, Debug)]
pub struct SDoc {
    pub objs: Vec<SObj>,
    pub root: u32,
    pub eol: String, // "lf" | "cr" | "crlf"
}
pub fn eol_bytes(e: &str) -> &'static [u8] {
    match e {
        "cr" => b"\r",
        "crlf" => b"\r\n",
        _ => b"\n",
    }
}
pub fn render_styled(d: &SDoc) -> Vec<u8> {
    let e = eol_bytes(&d.eol);
    let mut buf = b"%PDF-1.4".to_vec();
    buf.extend_from_slice(e);
    buf.extend_from_slice(b"%\xE2\xE3\xCF\xD3");
    buf.extend_from_slice(e);
    let mut offs: Vec<(u32, usize)> = vec![];
    for o in &d.objs {
        offs.push((o.n, buf.len()));
        buf.extend_from_slice(format!("{} 0 obj", o.n).as_bytes());
        buf.extend_from_slice(&o.sep);
        buf.extend_from_slice(&o.body);
        buf.extend_from_slice(&o.pre_end);
        buf.extend_from_slice(b"endobj");
        buf.extend_from_slice(e);
    }
    let size = d.objs.iter().map(|o| o.n + 1).max().unwrap_or(1);
    let xoff = buf.len();
    let ent_eol: &[u8] = match d.eol.as_str() {
        "cr" => b" \r",
        "crlf" => b"\r\n",
        _ => b" \n",
    };
    let mut put = |buf: &mut Vec<u8>, s: String| {
        buf.extend_from_slice(s.as_bytes());
        buf.extend_from_slice(e);
    };
    put(&mut buf, "xref".into());
    put(&mut buf, format!("0 {}", size));
    for i in 0..size {
        match offs.iter().rev().find(|o| o.0 == i) {
            Some((_, off)) if i != 0 => buf.extend_from_slice(format!("{:010} 00000 n", off).as_bytes()),
            _ => buf.extend_from_slice(b"0000000000 65535 f"),
        }
        buf.extend_from_slice(ent_eol);
    }
    put(&mut buf, "trailer".into());
    put(&mut buf, format!("<< /Size {} /Root {} 0 R >>", size, d.root));
    put(&mut buf, "startxref".into());
    put(&mut buf, format!("{}", xoff));
    put(&mut buf, "%%EOF".into());
    buf
}

/// value kinds: how the token starts / ends decides which separators are legal
#[derive(Clone, Copy, PartialEq)]
enum Edge {
    Delim,   // starts/ends with a delimiter character: no white space needed
    Regular, // starts/ends with a regular character: white space (or a comment) needed
}

/// `mode`: 0 = random style per object, 1 = as compact as the syntax allows, 2 = a comment after
/// every header, 3 = plain (space / EOL everywhere; control)
pub fn gen_styled(r: &mut Rng, pages: u32, eol: &str, mode: u64, shuffle: bool) -> SDoc {
    let e = String::from_utf8(eol_bytes(eol).to_vec()).unwrap();
    let first_page = 14u32;
    let kids: Vec<u32> = (0..pages).map(|i| first_page + 2 * i).collect();
    let mut raw: Vec<(u32, Vec<u8>, Edge, Edge)> = vec![
        (1, b"<< /Type /Catalog /Pages 2 0 R /Lang 6 0 R /Flag 10 0 R >>".to_vec(), Edge::Delim, Edge::Delim),
        (2, format!("<< /Type /Pages /Kids 3 0 R /Count {} >>", pages).into_bytes(), Edge::Delim, Edge::Delim),
        (3, format!("[{}]", kids.iter().map(|k| format!("{} 0 R", k)).collect::<Vec<_>>().join(" ")).into_bytes(), Edge::Delim, Edge::Delim),
        (4, b"[0 0 612 792]".to_vec(), Edge::Delim, Edge::Delim),
        (5, b"/DeviceRGB".to_vec(), Edge::Delim, Edge::Regular),
        (6, b"(text \\(nested\\) (balanced) here)".to_vec(), Edge::Delim, Edge::Delim),
        (7, b"<48656C6C6F20776F726C64>".to_vec(), Edge::Delim, Edge::Delim),
        (8, b"0".to_vec(), Edge::Regular, Edge::Regular),
        (9, b"1.5".to_vec(), Edge::Regular, Edge::Regular),
        (10, b"true".to_vec(), Edge::Regular, Edge::Regular),
        (11, b"false".to_vec(), Edge::Regular, Edge::Regular),
        (12, b"null".to_vec(), Edge::Regular, Edge::Regular),
        (13, b"<< /Producer (C19 styled) /Marker [/A (b) <63> 4 0 R] >>".to_vec(), Edge::Delim, Edge::Delim),
    ];
    for i in 0..pages {
        let p = first_page + 2 * i;
        let c = p + 1;
        raw.push((
            p,
            format!(
                "<< /Type /Page /Parent 2 0 R /MediaBox 4 0 R /Rotate 8 0 R /UserUnit 9 0 R /Resources << /ColorSpace << /CS0 5 0 R >> >> /Contents {} 0 R /Title 6 0 R /PieceId 7 0 R /Yes 10 0 R /No 11 0 R /Nothing 12 0 R /Info 13 0 R >>",
                c
            )
            .into_bytes(),
            Edge::Delim,
            Edge::Delim,
        ));
        let data = format!("BT /F1 12 Tf 72 700 Td (page {}) Tj ET", i);
        let mut b = format!("<< /Length {} >>{}stream\n", data.len(), e).into_bytes();
        b.extend_from_slice(data.as_bytes());
        b.extend_from_slice(b"\nendstream");
        raw.push((c, b, Edge::Delim, Edge::Regular));
    }
    let seps_delim: Vec<String> = vec!["".into(), " ".into(), e.clone(), "\t".into(), format!("%c{}", e), format!(" % note{}", e), "\x0c".into(), format!(" {}", e)];
    let seps_reg: Vec<String> = vec![" ".into(), e.clone(), "\t".into(), format!("%c{}", e), format!(" % note{}", e), format!(" {}", e)];
    let ends_delim: Vec<String> = vec!["".into(), " ".into(), e.clone()];
    let ends_reg: Vec<String> = vec![" ".into(), e.clone()];
    let mut objs: Vec<SObj> = raw
        .into_iter()
        .map(|(n, body, st, en)| {
            let (sep, pre_end) = match mode {
                1 => (if st == Edge::Delim { String::new() } else { " ".into() }, if en == Edge::Delim { String::new() } else { " ".into() }),
                2 => (format!("%c{}", e), e.clone()),
                3 => (e.clone(), e.clone()),
                _ => (
                    if st == Edge::Delim { r.pick(&seps_delim).clone() } else { r.pick(&seps_reg).clone() },
                    if en == Edge::Delim { r.pick(&ends_delim).clone() } else { r.pick(&ends_reg).clone() },
                ),
            };
            SObj { n, body, sep: sep.into_bytes(), pre_end: pre_end.into_bytes() }
        })
        .collect();
    if shuffle {
        for i in (1..objs.len()).rev() {
            let j = r.below(i as u64 + 1) as usize;
            objs.swap(i, j);
        }
    }
    SDoc { objs, root: 1, eol: eol.to_string() }
}
