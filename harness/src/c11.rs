//! C11 — text extraction conserves every drawn character.
//! Generated pages (raw PDF bytes: fonts, ToUnicode CMaps, form XObjects, marked content) are
//! extracted with the real `TextExtractor` under all 512 option combinations; every page becomes
//! one Coq case `((res, ops, store), pol, runs)` for C11/Model.v `case_code`.
use crate::util::*;
use oxidize_pdf::parser::{PdfDocument, PdfReader};
use oxidize_pdf::text::extraction::{CarriageReturnHandling, ExtractionOptions, TextExtractor, VERIF_EMISSION};
use serde_json::{json, Value};
use std::collections::BTreeMap;
use std::io::Cursor;

#[path = "c18_pdf.rs"]
pub mod rawpdf;
#[path = "c11_gen.rs"]
pub mod gen;
use rawpdf::RawPdf;

// ---------------------------------------------------------------- mirror of the Coq types
#[derive(Clone, Debug)]
pub enum Font {
    Win,
    /// two-byte code -> Unicode target, sorted by code, codes distinct
    Map(Vec<(u16, String)>),
}
#[derive(Clone, Debug, Default)]
pub struct Res {
    pub fonts: Vec<(u32, Font)>, // /Fn
    pub forms: Vec<(u32, u32)>,  // /Xn -> object number
}
#[derive(Clone, Debug)]
pub enum El {
    S(Vec<u8>, bool), // bytes, written as literal string?
    N(String),
}
#[derive(Clone, Debug)]
pub enum Op {
    BT,
    ET,
    Tf(u32, String),
    Tr(u32),
    G(String), // geometry / colour operator, verbatim content-stream text
    Tj(Vec<u8>, bool),
    TJ(Vec<El>),
    Quote(Vec<u8>, bool),
    DQuote(String, String, Vec<u8>, bool),
    Qs,
    Qr,
    Do(u32),
    BMC(bool),
    BDC(bool, Option<u32>, Option<String>), // artifact?, /MCID, /ActualText
    EMC,
}
#[derive(Clone, Debug)]
pub struct Form {
    pub id: u32,
    pub ops: Vec<Op>,
    pub res: Res,
    pub matrix: Option<String>,
}
#[derive(Clone, Debug)]
pub struct Page {
    pub class: String,
    pub res: Res,
    pub ops: Vec<Op>,
    pub store: Vec<Form>,
    pub pol: u8,
    pub split: Option<usize>, // /Contents = [ops[..k], ops[k..]]
}

// ---------------------------------------------------------------- PDF text
pub fn pdf_str(b: &[u8], lit: bool) -> String {
    if !lit {
        return format!("<{}>", hex(b));
    }
    let mut s = String::from("(");
    for &c in b {
        match c {
            b'(' | b')' | b'\\' => {
                s.push('\\');
                s.push(c as char)
            }
            0x20..=0x7e => s.push(c as char),
            _ => s.push_str(&format!("\\{:03o}", c)),
        }
    }
    s.push(')');
    s
}
fn utf16be(t: &str) -> Vec<u8> {
    t.encode_utf16().flat_map(|u| u.to_be_bytes()).collect()
}
fn actual_pdf(t: &str) -> String {
    if t.is_ascii() {
        pdf_str(t.as_bytes(), true)
    } else {
        let mut b = vec![0xFE, 0xFF];
        b.extend(utf16be(t));
        format!("<{}>", hex(&b).to_uppercase())
    }
}
pub fn op_pdf(o: &Op) -> String {
    match o {
        Op::BT => "BT".into(),
        Op::ET => "ET".into(),
        Op::Tf(n, s) => format!("/F{n} {s} Tf"),
        Op::Tr(n) => format!("{n} Tr"),
        Op::G(s) => s.clone(),
        Op::Tj(b, l) => format!("{} Tj", pdf_str(b, *l)),
        Op::TJ(v) => {
            let e: Vec<String> = v.iter().map(|e| match e {
                El::S(b, l) => pdf_str(b, *l),
                El::N(n) => n.clone(),
            }).collect();
            format!("[{}] TJ", e.join(" "))
        }
        Op::Quote(b, l) => format!("{} '", pdf_str(b, *l)),
        Op::DQuote(a, c, b, l) => format!("{a} {c} {} \"", pdf_str(b, *l)),
        Op::Qs => "q".into(),
        Op::Qr => "Q".into(),
        Op::Do(n) => format!("/X{n} Do"),
        Op::BMC(a) => format!("/{} BMC", if *a { "Artifact" } else { "Span" }),
        Op::BDC(a, mcid, act) => {
            let tag = if *a { "Artifact" } else if act.is_some() { "Span" } else { "P" };
            let mut d = String::new();
            if *a && act.is_none() {
                d.push_str("/Type /Pagination ");
            }
            if let Some(m) = mcid {
                d.push_str(&format!("/MCID {m} "));
            }
            if let Some(t) = act {
                d.push_str(&format!("/ActualText {} ", actual_pdf(t)));
            }
            format!("/{tag} <<{}>> BDC", d.trim_end())
        }
        Op::EMC => "EMC".into(),
    }
}
pub fn content_text(ops: &[Op]) -> String {
    ops.iter().map(op_pdf).collect::<Vec<_>>().join("\n")
}

/// ToUnicode CMap text.  The representation is a function of the map alone: a run of consecutive
/// codes (same high byte) becomes a bfrange — `<lo> <hi> <dst>` when the targets are one UTF-16
/// unit each and consecutive, the array form when the low code is even — everything else bfchar.
fn cmap_text(m: &[(u16, String)]) -> String {
    let (mut chars, mut ranges) = (vec![], vec![]);
    let h = |t: &str| hex(&utf16be(t)).to_uppercase();
    let mut i = 0;
    while i < m.len() {
        let mut j = i + 1;
        while j < m.len() && m[j].0 == m[j - 1].0 + 1 && m[j].0 >> 8 == m[i].0 >> 8 && j - i < 8 {
            j += 1;
        }
        let run = &m[i..j];
        let u: Vec<Vec<u16>> = run.iter().map(|(_, t)| t.encode_utf16().collect()).collect();
        let consec = u.iter().all(|x| x.len() == 1)
            && u.windows(2).all(|w| w[1][0] == w[0][0].wrapping_add(1) && w[1][0] & 0xff != 0);
        if run.len() >= 2 && consec {
            ranges.push(format!("<{:04X}> <{:04X}> <{}>", run[0].0, run[run.len() - 1].0, h(&run[0].1)));
        } else if run.len() >= 2 && run[0].0 % 2 == 0 {
            let a: Vec<String> = run.iter().map(|(_, t)| format!("<{}>", h(t))).collect();
            ranges.push(format!("<{:04X}> <{:04X}> [{}]", run[0].0, run[run.len() - 1].0, a.join(" ")));
        } else {
            chars.extend(run.iter().map(|(c, t)| format!("<{:04X}> <{}>", c, h(t))));
        }
        i = j;
    }
    let mut s = String::from("/CIDInit /ProcSet findresource begin\n12 dict begin\nbegincmap\n/CIDSystemInfo << /Registry (Adobe) /Ordering (UCS) /Supplement 0 >> def\n/CMapName /Adobe-Identity-UCS def\n/CMapType 2 def\n1 begincodespacerange\n<0000> <FFFF>\nendcodespacerange\n");
    for c in chars.chunks(11) {
        s.push_str(&format!("{} beginbfchar\n{}\nendbfchar\n", c.len(), c.join("\n")));
    }
    for c in ranges.chunks(5) {
        s.push_str(&format!("{} beginbfrange\n{}\nendbfrange\n", c.len(), c.join("\n")));
    }
    s.push_str("endcmap\nCMapName currentdict /CMap defineresource pop\nend\nend\n");
    s
}

fn res_dict(pdf: &mut RawPdf, next: &mut u32, r: &Res) -> String {
    let mut f = String::new();
    for (n, font) in &r.fonts {
        let id = *next;
        match font {
            Font::Win => {
                pdf.set(id, "<< /Type /Font /Subtype /Type1 /BaseFont /Helvetica /Encoding /WinAnsiEncoding >>");
                *next += 1;
            }
            Font::Map(m) => {
                pdf.set(id, format!("<< /Type /Font /Subtype /Type0 /BaseFont /GenCID /Encoding /Identity-H /DescendantFonts [{} 0 R] /ToUnicode {} 0 R >>", id + 1, id + 2));
                pdf.set(id + 1, "<< /Type /Font /Subtype /CIDFontType2 /BaseFont /GenCID /CIDSystemInfo << /Registry (Adobe) /Ordering (Identity) /Supplement 0 >> /DW 1000 /W [1 [500 600 700] 20 40 800] >>");
                pdf.set_stream(id + 2, "", cmap_text(m).as_bytes());
                *next += 3;
            }
        }
        f.push_str(&format!("/F{n} {id} 0 R "));
    }
    let mut s = format!("<< /Font << {}>>", f);
    if !r.forms.is_empty() {
        let x: Vec<String> = r.forms.iter().map(|(n, id)| format!("/X{n} {id} 0 R")).collect();
        s.push_str(&format!(" /XObject << {} >>", x.join(" ")));
    }
    s.push_str(" >>");
    s
}

pub fn build_pdf(p: &Page) -> Vec<u8> {
    let mut pdf = RawPdf::new();
    let mut next = 60u32;
    pdf.set(1, "<< /Type /Catalog /Pages 2 0 R >>");
    pdf.set(2, "<< /Type /Pages /Kids [3 0 R] /Count 1 >>");
    let rd = res_dict(&mut pdf, &mut next, &p.res);
    let contents = match p.split {
        Some(k) if k <= p.ops.len() => {
            pdf.set_stream(4, "", content_text(&p.ops[..k]).as_bytes());
            pdf.set_stream(5, "", content_text(&p.ops[k..]).as_bytes());
            "[4 0 R 5 0 R]"
        }
        _ => {
            pdf.set_stream(4, "", content_text(&p.ops).as_bytes());
            "4 0 R"
        }
    };
    pdf.set(3, format!("<< /Type /Page /Parent 2 0 R /MediaBox [0 0 612 792] /Resources {rd} /Contents {contents} >>"));
    for f in &p.store {
        let rd = res_dict(&mut pdf, &mut next, &f.res);
        let mx = f.matrix.as_ref().map(|m| format!("/Matrix [{m}] ")).unwrap_or_default();
        pdf.set_stream(f.id, &format!("/Type /XObject /Subtype /Form /BBox [0 0 612 792] {mx}/Resources {rd}"), content_text(&f.ops).as_bytes());
    }
    pdf.build(1)
}

// ---------------------------------------------------------------- Coq text
fn cl<I: IntoIterator<Item = String>>(it: I) -> String {
    let mut s = String::from("(");
    for x in it {
        s.push_str(&x);
        s.push_str(" :: ");
    }
    s.push_str("nil)");
    s
}
fn u8c(t: &str) -> String {
    format!("u8 \"{}\"", hex(t.as_bytes()))
}
fn op_coq(o: &Op) -> String {
    match o {
        Op::BT => "BT".into(),
        Op::ET => "ET".into(),
        Op::Tf(n, _) => format!("(Tf {n})"),
        Op::Tr(n) => format!("(Tr {n})"),
        Op::G(_) => "Geom".into(),
        Op::Tj(b, _) => format!("(Tj {})", coq_bytes(b)),
        Op::TJ(v) => format!("(TJ {})", cl(v.iter().map(|e| match e {
            El::S(b, _) => format!("TStr {}", coq_bytes(b)),
            El::N(_) => "TNum".into(),
        }))),
        Op::Quote(b, _) => format!("(Quote {})", coq_bytes(b)),
        Op::DQuote(_, _, b, _) => format!("(DQuote {})", coq_bytes(b)),
        Op::Qs => "Qsave".into(),
        Op::Qr => "Qrest".into(),
        Op::Do(n) => format!("(Do {n})"),
        Op::BMC(a) => format!("(BMC {})", coq_bool(*a)),
        Op::BDC(a, _, t) => format!("(BDC {} {})", coq_bool(*a), coq_opt(t.as_ref().map(|t| format!("({})", u8c(t))))),
        Op::EMC => "EMC".into(),
    }
}
fn res_coq(r: &Res) -> String {
    let fonts = cl(r.fonts.iter().map(|(n, f)| match f {
        Font::Win => format!("({n}, FWin)"),
        Font::Map(m) => format!("({n}, FMap {})", cl(m.iter().map(|(c, t)| format!("({}, {})", coq_bytes(&c.to_be_bytes()), u8c(t))))),
    }));
    format!("(mkRes {} {})", fonts, cl(r.forms.iter().map(|(n, id)| format!("({n}, {id})"))))
}
fn ops_coq(ops: &[Op]) -> String {
    cl(ops.iter().map(op_coq))
}

// ---------------------------------------------------------------- JSON (replay)
fn op_json(o: &Op) -> Value {
    match o {
        Op::BT => json!(["BT"]),
        Op::ET => json!(["ET"]),
        Op::Tf(n, s) => json!(["Tf", n, s]),
        Op::Tr(n) => json!(["Tr", n]),
        Op::G(s) => json!(["G", s]),
        Op::Tj(b, l) => json!(["Tj", hex(b), l]),
        Op::TJ(v) => json!(["TJ", v.iter().map(|e| match e {
            El::S(b, l) => json!([hex(b), l]),
            El::N(n) => json!(n),
        }).collect::<Vec<_>>()]),
        Op::Quote(b, l) => json!(["'", hex(b), l]),
        Op::DQuote(a, c, b, l) => json!(["\"", a, c, hex(b), l]),
        Op::Qs => json!(["q"]),
        Op::Qr => json!(["Q"]),
        Op::Do(n) => json!(["Do", n]),
        Op::BMC(a) => json!(["BMC", a]),
        Op::BDC(a, m, t) => json!(["BDC", a, m, t]),
        Op::EMC => json!(["EMC"]),
    }
}
fn op_from(v: &Value) -> Op {
    let a = v.as_array().unwrap();
    let st = |i: usize| a[i].as_str().unwrap().to_string();
    let n = |i: usize| a[i].as_u64().unwrap() as u32;
    let b = |i: usize| a[i].as_bool().unwrap();
    match a[0].as_str().unwrap() {
        "BT" => Op::BT,
        "ET" => Op::ET,
        "Tf" => Op::Tf(n(1), st(2)),
        "Tr" => Op::Tr(n(1)),
        "G" => Op::G(st(1)),
        "Tj" => Op::Tj(unhex(&st(1)), b(2)),
        "TJ" => Op::TJ(a[1].as_array().unwrap().iter().map(|e| match e {
            Value::String(s) => El::N(s.clone()),
            e => El::S(unhex(e[0].as_str().unwrap()), e[1].as_bool().unwrap()),
        }).collect()),
        "'" => Op::Quote(unhex(&st(1)), b(2)),
        "\"" => Op::DQuote(st(1), st(2), unhex(&st(3)), b(4)),
        "q" => Op::Qs,
        "Q" => Op::Qr,
        "Do" => Op::Do(n(1)),
        "BMC" => Op::BMC(b(1)),
        "BDC" => Op::BDC(b(1), a[2].as_u64().map(|x| x as u32), a[3].as_str().map(|s| s.to_string())),
        _ => Op::EMC,
    }
}
fn res_json(r: &Res) -> Value {
    let fonts: Vec<Value> = r.fonts.iter().map(|(n, f)| match f {
        Font::Win => json!([n, "win"]),
        Font::Map(m) => json!([n, m.iter().map(|(c, t)| json!([format!("{:04x}", c), t])).collect::<Vec<_>>()]),
    }).collect();
    json!({"fonts": fonts, "forms": r.forms})
}
fn res_from(v: &Value) -> Res {
    let fonts = v["fonts"].as_array().unwrap().iter().map(|f| {
        let font = match &f[1] {
            Value::Array(m) => Font::Map(m.iter().map(|e| (u16::from_str_radix(e[0].as_str().unwrap(), 16).unwrap(), e[1].as_str().unwrap().to_string())).collect()),
            _ => Font::Win,
        };
        (f[0].as_u64().unwrap() as u32, font)
    }).collect();
    let forms = v["forms"].as_array().unwrap().iter().map(|f| (f[0].as_u64().unwrap() as u32, f[1].as_u64().unwrap() as u32)).collect();
    Res { fonts, forms }
}
fn ops_from(v: &Value) -> Vec<Op> {
    v.as_array().unwrap().iter().map(op_from).collect()
}
fn page_json(p: &Page) -> Value {
    json!({
        "class": p.class, "pol": p.pol, "split": p.split, "res": res_json(&p.res),
        "ops": p.ops.iter().map(op_json).collect::<Vec<_>>(),
        "store": p.store.iter().map(|f| json!({"id": f.id, "matrix": f.matrix, "res": res_json(&f.res), "ops": f.ops.iter().map(op_json).collect::<Vec<_>>()})).collect::<Vec<_>>(),
        "content": content_text(&p.ops),
    })
}
fn page_from(v: &Value) -> Page {
    Page {
        class: v["class"].as_str().unwrap_or("replay").to_string(),
        res: res_from(&v["res"]),
        ops: ops_from(&v["ops"]),
        store: v["store"].as_array().unwrap().iter().map(|f| Form {
            id: f["id"].as_u64().unwrap() as u32,
            ops: ops_from(&f["ops"]),
            res: res_from(&f["res"]),
            matrix: f["matrix"].as_str().map(|s| s.to_string()),
        }).collect(),
        pol: v["pol"].as_u64().unwrap_or(0) as u8,
        split: v["split"].as_u64().map(|x| x as usize),
    }
}

// ---------------------------------------------------------------- running the extractor
const MAX_CASE_CHARS: usize = 9000;
type RunOut = (String, Vec<String>, String, Vec<String>); // flat, emitted, text, fragments

fn run_one(doc: &PdfDocument<Cursor<Vec<u8>>>, bits: u32, pol: u8) -> Result<RunOut, String> {
    let b = |i: u32| bits >> i & 1 == 1;
    let o = ExtractionOptions {
        preserve_layout: b(0),
        sort_by_position: b(1),
        detect_columns: b(2),
        merge_hyphenated: b(3),
        track_space_decisions: b(4),
        reconstruct_paragraphs: b(5),
        include_artifacts: b(6),
        reorder_columns: b(7),
        max_extracted_bytes: None,
        ..Default::default()
    };
    let h = match pol {
        0 => CarriageReturnHandling::Remove,
        1 => CarriageReturnHandling::ReplaceWithSpace,
        _ => CarriageReturnHandling::NormalizeLineEnding,
    };
    VERIF_EMISSION.with(|c| *c.borrow_mut() = (String::new(), Vec::new()));
    let r = catch(std::panic::AssertUnwindSafe(|| {
        TextExtractor::with_options(o).with_reading_order(b(8)).with_carriage_return_handling(h).extract_from_page(doc, 0)
    }));
    match r {
        Ok(Ok(t)) => {
            let (flat, em) = VERIF_EMISSION.with(|c| c.borrow().clone());
            Ok((flat, em, t.text.clone(), t.fragments.iter().map(|f| f.text.clone()).collect()))
        }
        Ok(Err(e)) => Err(format!("Err: {e}")),
        Err(m) => Err(format!("panic: {m}")),
    }
}

pub struct Done {
    coq: String,
    js: Value,
    class: String,
    nontrivial: bool,
    failures: Vec<Value>,
    micros: u128,
}

fn nontrivial(p: &Page) -> bool {
    let all: Vec<(&[Op], &Res)> = std::iter::once((&p.ops[..], &p.res)).chain(p.store.iter().map(|f| (&f.ops[..], &f.res))).collect();
    let (mut shows, mut form, mut marked, mut qfont, mut win, mut map) = (0, false, false, false, false, false);
    for (ops, res) in all {
        let mut depth = 0;
        for o in ops {
            match o {
                Op::Tj(b, _) | Op::Quote(b, _) | Op::DQuote(_, _, b, _) => shows += !b.is_empty() as usize,
                Op::TJ(v) => shows += v.iter().filter(|e| matches!(e, El::S(b, _) if !b.is_empty())).count(),
                Op::Do(_) => form = true,
                Op::BMC(_) | Op::BDC(..) => marked = true,
                Op::Qs => depth += 1,
                Op::Qr => depth = (depth as i32 - 1).max(0) as usize,
                Op::Tf(n, _) => {
                    qfont |= depth > 0;
                    match res.fonts.iter().find(|(k, _)| k == n) {
                        Some((_, Font::Win)) => win = true,
                        Some((_, Font::Map(_))) => map = true,
                        None => {}
                    }
                }
                _ => {}
            }
        }
    }
    shows >= 3 && (form || marked || qfont || (win && map))
}

fn page_coq(p: &Page) -> String {
    let store = cl(p.store.iter().map(|f| format!("({}, mkForm {} {})", f.id, ops_coq(&f.ops), res_coq(&f.res))));
    format!("({}, {}, {})", res_coq(&p.res), ops_coq(&p.ops), store)
}
/// size of the Coq case predicted from ONE run (preserve_layout): about 24 run records, 3/4 of
/// them with the emitted fragments, half of them with the final fragments
fn estimate(p: &Page) -> usize {
    let one = catch(std::panic::AssertUnwindSafe(|| {
        let doc = PdfDocument::new(PdfReader::new(Cursor::new(build_pdf(p))).ok()?);
        run_one(&doc, 1, p.pol).ok()
    }));
    let list = |v: &[String]| v.iter().map(|s| 2 * s.len() + 12).sum::<usize>();
    match one {
        Ok(Some((flat, em, text, fr))) => page_coq(p).len() + 7 * (80 + 2 * flat.len() + 2 * text.len() + list(&em) * 3 / 4 + list(&fr) / 2),
        _ => 0,
    }
}

pub fn process(p: &Page) -> Done {
    let mut js = page_json(p);
    let t0 = std::time::Instant::now();
    let bytes = build_pdf(p);
    let mut failures = vec![];
    // distinct output tuple -> (class of option bits that matter to the checker -> (smallest option code, how many codes))
    let mut groups: BTreeMap<RunOut, BTreeMap<u32, (u32, u32)>> = BTreeMap::new();
    let doc = catch(std::panic::AssertUnwindSafe(|| PdfReader::new(Cursor::new(bytes)).map(PdfDocument::new)));
    match doc {
        Ok(Ok(doc)) => {
            let mut first: Vec<Option<RunOut>> = vec![None; 512];
            for bits in 0..512u32 {
                match run_one(&doc, bits, p.pol) {
                    Ok(r) => {
                        first[bits as usize] = Some(r.clone());
                        let e = groups.entry(r).or_default().entry(bits & 0b1100_1001).or_insert((bits, 0));
                        e.1 += 1;
                    }
                    Err(m) => {
                        if failures.len() < 4 {
                            failures.push(json!({"what": m, "optbits": bits, "case": js.clone()}));
                        }
                    }
                }
            }
            // determinism: the same options on the same document give the same result again
            for bits in [0u32, 1, 0x0B, 0x21, 0x8A, 0x1FF] {
                if let (Some(a), Ok(b)) = (&first[bits as usize], run_one(&doc, bits, p.pol)) {
                    if *a != b && failures.len() < 4 {
                        failures.push(json!({"what": "extraction is not deterministic: two runs with the same options differ", "optbits": bits, "case": js.clone()}));
                    }
                }
            }
        }
        Ok(Err(e)) => failures.push(json!({"what": format!("open Err: {e}"), "case": js.clone()})),
        Err(m) => failures.push(json!({"what": format!("open panic: {m}"), "case": js.clone()})),
    }
    let micros = t0.elapsed().as_micros();
    let mut runs: Vec<(Vec<(u32, u32)>, &RunOut)> = groups.iter().map(|(r, m)| (m.values().cloned().collect::<Vec<_>>(), r)).collect();
    runs.sort_by_key(|x| x.0[0].0);
    js["groups"] = json!(runs.iter().map(|(v, _)| json!(v.iter().map(|(b, n)| json!([b, n])).collect::<Vec<_>>())).collect::<Vec<_>>());
    let runs_coq = cl(runs.iter().map(|(v, (flat, em, text, fr))| {
        format!("({}, {}, {}, {}, {})", cl(v.iter().map(|(b, _)| b.to_string())), u8c(flat), cl(em.iter().map(|s| u8c(s))), u8c(text), cl(fr.iter().map(|s| u8c(s))))
    }));
    let coq = format!("({}, {}, {})", page_coq(p), p.pol, runs_coq);
    Done { coq, js, class: p.class.clone(), nontrivial: nontrivial(p), failures, micros }
}

pub fn run(ctx: &Ctx) {
    let mut out = Out::new(ctx, "From OxVerif Require Import Base.Util C11.ContentSem C11.Model.", "case", "case_code");
    out.shard_size = 24;
    let pages: Vec<Page> = if let Some(cases) = ctx.replay_cases() {
        cases.iter().map(|c| {
            let mut p = page_from(c);
            p.class = "replay".into();
            p
        }).collect()
    } else {
        vec![]
    };
    let replay = ctx.cases_from.is_some();
    let npages = if replay { pages.len() } else if ctx.thorough() { 1500 } else { 350 };
    let seed = ctx.seed;
    // page i depends on (seed, i) only; a page whose Coq case comes out too large for the Coq
    // parser is generated again with half the text budget
    let make = |i: usize| -> (Done, u32) {
        if replay {
            return (process(&pages[i]), 0);
        }
        let mut r = Rng::new(seed ^ 0xC11 ^ (i as u64).wrapping_mul(0x2545_F491_4F6C_DD1D));
        let mut tries = 0;
        loop {
            let p = gen::page(&mut r, i, tries);
            let est = estimate(&p);
            if tries < 3 && est > MAX_CASE_CHARS {
                tries += 1;
                continue;
            }
            let mut d = process(&p);
            d.js["est"] = json!(est);
            if d.coq.len() <= MAX_CASE_CHARS * 5 / 4 || tries == 3 {
                return (d, tries);
            }
            tries += 1;
        }
    };
    // the 512 runs of a page are independent of every other page: spread pages over threads
    // (VERIF_EMISSION is thread-local), results are put back in generation order
    let nthreads = ctx.opt("--threads").and_then(|s| s.parse().ok()).unwrap_or(8usize).max(1);
    let t0 = std::time::Instant::now();
    let mut done: Vec<(usize, (Done, u32))> = std::thread::scope(|s| {
        let hs: Vec<_> = (0..nthreads).map(|t| {
            let make = &make;
            s.spawn(move || (t..npages).step_by(nthreads).map(|i| (i, make(i))).collect::<Vec<_>>())
        }).collect();
        hs.into_iter().flat_map(|h| h.join().unwrap()).collect()
    });
    done.sort_by_key(|d| d.0);
    let (mut total, mut maxp, mut maxlen, mut sumlen, mut nruns) = (0u128, 0u128, 0usize, 0usize, 0usize);
    let mut retried = 0u32;
    for (_, (mut d, tries)) in done {
        retried += tries;
        d.js["stats"] = json!({"ms": (d.micros / 1000) as u64, "regenerated": tries, "chars": d.coq.len()});
        total += d.micros;
        maxp = maxp.max(d.micros);
        maxlen = maxlen.max(d.coq.len());
        sumlen += d.coq.len();
        nruns += d.js["groups"].as_array().map(|a| a.len()).unwrap_or(0);
        out.impl_failures.extend(d.failures);
        out.push(d.coq, d.js, &d.class, d.nontrivial);
    }
    let n = npages.max(1);
    out.extra.insert("timing".into(), json!({"pages": npages, "threads": nthreads, "wall_ms": t0.elapsed().as_millis() as u64,
        "cpu_ms_per_page_512_runs": (total / n as u128 / 1000) as u64, "max_ms_page": (maxp / 1000) as u64}));
    out.extra.insert("size".into(), json!({"max_case_chars": maxlen, "mean_case_chars": sumlen / n, "mean_run_records": nruns as f64 / n as f64, "regenerated_smaller": retried}));
    out.finish("page");
}
