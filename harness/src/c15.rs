//! C15 — document-to-chunks pipeline: heading paths, page sets, chunk ids/links vs the Gallina
//! model (channels hp, pg, id; real private functions reached through cfg(oxidizepdf_verif)
//! hooks) and an end-to-end observation channel (e2e) on documents authored through the library.
use crate::util::*;
use oxidize_pdf::parser::{PdfDocument, PdfReader};
use oxidize_pdf::pipeline::{
    ContextFormat, ContextMode, DocumentSource, Element, ElementData, ElementMetadata, HybridChunkConfig,
    HybridChunker, MergePolicy, RagChunk,
};
use oxidize_pdf::{Document, Font, Page};
use serde_json::{json, Value};
use std::collections::{BTreeSet, HashMap};
use std::io::Cursor;

// ------------------------------------------------------------------ channel hp
/// font size of a generated element: Units(k) = k/8 pt exactly; the others are the "unknown" class
#[derive(Clone, Debug, PartialEq)]
enum Sz {
    Units(u64),
    Absent,
    Nan,
    Inf,
    Zero,
    Neg(u64),
}
impl Sz {
    fn f64(&self) -> Option<f64> {
        match self {
            Sz::Units(k) => Some(*k as f64 / 8.0),
            Sz::Absent => None,
            Sz::Nan => Some(f64::NAN),
            Sz::Inf => Some(f64::INFINITY),
            Sz::Zero => Some(0.0),
            Sz::Neg(k) => Some(-(*k as f64) / 8.0),
        }
    }
    fn coq(&self) -> String {
        match self {
            Sz::Units(k) => format!("(Some {k})"),
            _ => "None".into(),
        }
    }
    fn json(&self) -> Value {
        match self {
            Sz::Units(k) => json!(k),
            Sz::Absent => json!("absent"),
            Sz::Nan => json!("nan"),
            Sz::Inf => json!("inf"),
            Sz::Zero => json!("zero"),
            Sz::Neg(k) => json!(["neg", k]),
        }
    }
    fn from(v: &Value) -> Sz {
        if let Some(k) = v.as_u64() {
            return Sz::Units(k);
        }
        if let Some(a) = v.as_array() {
            return Sz::Neg(a[1].as_u64().unwrap());
        }
        match v.as_str().unwrap_or("absent") {
            "nan" => Sz::Nan,
            "inf" => Sz::Inf,
            "zero" => Sz::Zero,
            _ => Sz::Absent,
        }
    }
}
#[derive(Clone, Debug)]
struct El {
    kind: u8, // 0 = Title, 1 = Paragraph, 2 = ListItem, 3 = CodeBlock, 4 = Header
    size: Sz,
    text: String,
}
fn el_json(e: &El) -> Value {
    json!([e.kind, e.size.json(), e.text])
}
fn el_from(v: &Value) -> El {
    El { kind: v[0].as_u64().unwrap() as u8, size: Sz::from(&v[1]), text: v[2].as_str().unwrap().to_string() }
}
fn mk_element(e: &El, page: u32) -> Element {
    let meta = ElementMetadata { page, font_size: e.size.f64(), ..Default::default() };
    let d = ElementData { text: e.text.clone(), metadata: meta };
    match e.kind {
        0 => Element::Title(d),
        1 => Element::Paragraph(d),
        2 => Element::ListItem(d),
        3 => Element::CodeBlock(d),
        _ => Element::Header(d),
    }
}

fn emit_hp(out: &mut Out, els: &[El], class: &str) {
    let elements: Vec<Element> = els.iter().map(|e| mk_element(e, 0)).collect();
    let js = json!({"ch":"hp","els":els.iter().map(el_json).collect::<Vec<_>>()});
    let res = catch(std::panic::AssertUnwindSafe(|| oxidize_pdf::pipeline::partition::verif_assign_heading_paths(elements)));
    let outv = match res {
        Ok(v) => v,
        Err(m) => {
            out.impl_failures.push(json!({"what":"panic in assign_heading_paths","msg":m,"case":js}));
            return;
        }
    };
    if outv.len() != els.len() {
        out.impl_failures.push(json!({"what":"assign_heading_paths changed the number of elements","case":js}));
        return;
    }
    let paths = coq_list(outv.iter().map(|e| coq_list(e.metadata().heading_path.iter().map(|s| coq_bytes(s.as_bytes())))));
    let parents = coq_list(outv.iter().map(|e| coq_opt(e.metadata().parent_heading.as_ref().map(|s| coq_bytes(s.as_bytes())))));
    let ins = coq_list(els.iter().map(|e| format!("({}, {}, {})", coq_bool(e.kind == 0), e.size.coq(), coq_bytes(e.text.as_bytes()))));
    let coq = format!("({ins}, ({paths}, {parents}))");
    // non-trivial: some element has a breadcrumb of depth >= 2 and some title popped an earlier one
    let deep = outv.iter().any(|e| e.metadata().heading_path.len() >= 2);
    let mut popped = false;
    for w in outv.windows(2) {
        if w[1].metadata().heading_path.len() <= w[0].metadata().heading_path.len() && matches!(w[1], Element::Title(_)) {
            popped = true;
        }
    }
    out.push(coq, js, class, deep && popped);
}

fn gen_size(r: &mut Rng, palette: &[u64]) -> Sz {
    match r.below(100) {
        0..=79 => Sz::Units(*r.pick(palette)),
        80..=86 => Sz::Absent,
        87..=89 => Sz::Nan,
        90..=91 => Sz::Inf,
        92..=94 => Sz::Zero,
        95..=96 => Sz::Neg(r.range(1, 400)),
        _ => Sz::Units(r.range(1, 800)),
    }
}
/// palettes of title sizes in 1/8 pt
fn gen_palette(r: &mut Rng, class: u64) -> Vec<u64> {
    let base = r.range(40, 400);
    match class {
        // within 5% of each other, including the exact boundary 20*|b-s| = b and one unit beyond
        0 => {
            let b = base - base % 20 + 20; // multiple of 20: b/20 exact
            vec![b, b - b / 20, b - b / 20 - 1, b - 1, b + b / 20, b + b / 20 + 1, b * 2]
        }
        1 => vec![base],                                                        // all equal
        2 => vec![base, base * 3 / 2, base * 2, base * 3],                      // clearly separated
        3 => vec![base, base + 1, base + 2, base + base / 19, base + base / 21], // chains of near sizes
        _ => (0..r.range(2, 6)).map(|_| r.range(16, 640)).collect(),
    }
}
fn gen_hp(r: &mut Rng, out: &mut Out, n: usize) {
    for i in 0..n {
        let class = r.below(7);
        let len = if i % 9 == 0 { r.range(25, 45) } else { r.range(0, 14) } as usize;
        let (els, label): (Vec<El>, &str) = match class {
            5 => {
                // no titles at all
                ((0..len).map(|k| El { kind: 1 + (r.below(4) as u8), size: gen_size(r, &[80, 96]), text: format!("p{k}") }).collect(), "no_titles")
            }
            6 => {
                // titles only, monotone sizes
                let inc = r.chance(1, 2);
                let mut s: Vec<u64> = (0..len).map(|_| r.range(40, 400)).collect();
                s.sort();
                if !inc {
                    s.reverse();
                }
                (s.iter().enumerate().map(|(k, s)| El { kind: 0, size: Sz::Units(*s), text: format!("T{k}") }).collect(), if inc { "titles_increasing" } else { "titles_decreasing" })
            }
            c => {
                let pal = gen_palette(r, c);
                let els = (0..len)
                    .map(|k| {
                        let title = r.chance(3, 5);
                        El {
                            kind: if title { 0 } else { 1 + (r.below(4) as u8) },
                            size: gen_size(r, &pal),
                            text: if title { format!("T{}", r.below(6)) } else { format!("p{k}") },
                        }
                    })
                    .collect();
                (els, ["near5pct", "equal_sizes", "separated", "near_chain", "random_sizes"][c as usize])
            }
        };
        emit_hp(out, &els, label);
    }
    // more than 255 buckets: the u8 level saturates (one case only: its Coq evaluation costs ~15 s)
    let mut els = vec![];
    let mut x = 8.0f64;
    for k in 0..258u32 {
        x *= 1.06;
        els.push(El { kind: 0, size: Sz::Units(x.ceil() as u64), text: format!("S{k}") });
        if k % 50 == 0 {
            els.push(El { kind: 1, size: Sz::Absent, text: format!("q{k}") });
        }
    }
    els.reverse();
    emit_hp(out, &els, "saturating_levels");
}

// ------------------------------------------------------------------ channel pg
fn emit_pg(out: &mut Out, pages: &[u32], class: &str) {
    let elements: Vec<Element> = pages.iter().map(|p| mk_element(&El { kind: 1, size: Sz::Absent, text: "x".into() }, *p)).collect();
    let js = json!({"ch":"pg","pages":pages});
    match catch(std::panic::AssertUnwindSafe(|| oxidize_pdf::pipeline::rag::verif_collect_pages(&elements))) {
        Ok(v) => {
            let coq = format!("({}, {})", coq_list(pages.iter().map(|p| p.to_string())), coq_list(v.iter().map(|p| p.to_string())));
            let distinct: BTreeSet<u32> = pages.iter().cloned().collect();
            out.push(coq, js, class, distinct.len() >= 2 && distinct.len() < pages.len());
        }
        Err(m) => out.impl_failures.push(json!({"what":"panic in collect_pages","msg":m,"case":js})),
    }
}
fn gen_pg(r: &mut Rng, out: &mut Out, n: usize) {
    emit_pg(out, &[], "empty");
    for _ in 0..n {
        let len = r.range(1, 12) as usize;
        let class = r.below(5);
        let pages: Vec<u32> = match class {
            0 => vec![r.below(9) as u32; len],
            1 => {
                let mut v: Vec<u32> = (0..len).map(|_| r.below(6) as u32).collect();
                v.sort();
                v
            }
            2 => {
                let mut v: Vec<u32> = (0..len).map(|_| r.below(6) as u32).collect();
                v.sort();
                v.reverse();
                v
            }
            3 => (0..len).map(|_| *r.pick(&[0u32, 1, 9, 10, 11, 99, 100, u32::MAX, u32::MAX - 1])).collect(),
            _ => (0..len).map(|_| r.below(4) as u32).collect(),
        };
        emit_pg(out, &pages, ["all_same", "ascending", "descending", "wide_values", "random_small"][class as usize]);
    }
}

// ------------------------------------------------------------------ channel id
fn mode_of(s: &str) -> ContextMode {
    match s {
        "none" => ContextMode::None,
        "labeled" => ContextMode::Contextual(ContextFormat::Labeled),
        "prose" => ContextMode::Contextual(ContextFormat::Prose),
        _ => ContextMode::Heading,
    }
}
/// elements: (kind, page, text); built into chunks by the real HybridChunker, then
/// RagChunk::from_hybrid_chunk_* + link_chunks — the composition build_rag_chunks performs.
fn emit_id(out: &mut Out, dh: &Option<String>, els: &[(u8, u32, String)], merge: bool, mode: &str, class: &str) {
    let js = json!({"ch":"id","dh":dh,"els":els,"merge":merge,"mode":mode});
    let elements: Vec<Element> = els.iter().map(|(k, p, t)| mk_element(&El { kind: *k, size: Sz::Units(96), text: t.clone() }, *p)).collect();
    let elements = oxidize_pdf::pipeline::partition::verif_assign_heading_paths(elements);
    let res = catch(std::panic::AssertUnwindSafe(|| {
        let cfg = HybridChunkConfig { max_tokens: 40, merge_adjacent: merge, merge_policy: MergePolicy::AnyInlineContent, context_mode: mode_of(mode), ..Default::default() };
        let hcs = HybridChunker::new(cfg).chunk(&elements);
        let src = DocumentSource::with_file(Some("f.pdf".into()), dh.clone());
        let mut chunks: Vec<RagChunk> = hcs
            .iter()
            .enumerate()
            .map(|(i, hc)| match dh {
                Some(_) => RagChunk::from_hybrid_chunk_with_source_and_mode(i, hc, &src, mode_of(mode)),
                None => RagChunk::from_hybrid_chunk_with_mode(i, hc, mode_of(mode)),
            })
            .collect();
        oxidize_pdf::pipeline::rag::verif_link_chunks(&mut chunks);
        let ins: Vec<(Vec<u32>, String)> = hcs.iter().zip(&chunks).map(|(hc, c)| (hc.elements().iter().map(|e| e.page()).collect(), c.full_text.clone())).collect();
        // the id of a chunk must also be what the id function gives for (doc hash, index, full_text)
        let direct: Vec<String> = chunks.iter().enumerate().map(|(i, c)| oxidize_pdf::pipeline::rag::verif_content_chunk_id(dh.as_deref(), i, &c.full_text)).collect();
        (ins, chunks, direct)
    }));
    let (ins, chunks, direct) = match res {
        Ok(x) => x,
        Err(m) => {
            out.impl_failures.push(json!({"what":"panic while building rag chunks","msg":m,"case":js}));
            return;
        }
    };
    for (c, d) in chunks.iter().zip(&direct) {
        if &c.metadata.chunk_id != d {
            out.impl_failures.push(json!({"what":"chunk_id differs from content_chunk_id(doc_hash, index, full_text)","case":js,"got":c.metadata.chunk_id,"want":d}));
            return;
        }
    }
    let b = |s: &str| coq_bytes(s.as_bytes());
    let coq = format!(
        "({}, {}, {})",
        coq_opt(dh.as_ref().map(|s| b(s))),
        coq_list(ins.iter().map(|(pg, t)| format!("({}, {})", coq_list(pg.iter().map(|p| p.to_string())), b(t)))),
        coq_list(chunks.iter().map(|c| format!(
            "({}, {}, {}, {})",
            coq_list(c.page_numbers.iter().map(|p| p.to_string())),
            b(&c.metadata.chunk_id),
            coq_opt(c.metadata.prev_chunk_id.as_ref().map(|s| b(s))),
            coq_opt(c.metadata.next_chunk_id.as_ref().map(|s| b(s)))
        )))
    );
    let multi = chunks.iter().any(|c| c.page_numbers.len() >= 2);
    out.push(coq, js, class, chunks.len() >= 3 && multi);
}
fn gen_id(r: &mut Rng, out: &mut Out, n: usize) {
    for i in 0..n {
        let dh = match r.below(5) {
            0 | 1 => None,
            2 => Some(format!("doc{}", r.below(1000))),
            3 => Some("a:b:7".to_string()),
            _ => Some(String::new()),
        };
        let len = r.range(0, 14) as usize;
        let mut page = 0u32;
        let els: Vec<(u8, u32, String)> = (0..len)
            .map(|k| {
                if r.chance(1, 3) {
                    page += r.range(1, 2) as u32;
                }
                let kind = if r.chance(1, 4) { 0 } else { 1 + (r.below(2) as u8) };
                // some repeated texts: equal full_text at different indexes
                let t = if r.chance(1, 5) { "same words here".to_string() } else { format!("w{i}x{k} alpha beta gamma delta") };
                (kind, page, t)
            })
            .collect();
        let mode = *r.pick(&["none", "heading", "labeled", "prose"]);
        let merge = r.chance(2, 3);
        emit_id(out, &dh, &els, merge, mode, if dh.is_some() { "doc_hash" } else { "content_hash" });
    }
    // SHA-256 anchors (FIPS 180-4 test vectors): the content-derived prefix really is SHA-256[..8]
    for (t, want) in [("", "e3b0c44298fc1c14:0"), ("abc", "ba7816bf8f01cfea:0")] {
        let got = oxidize_pdf::pipeline::rag::verif_content_chunk_id(None, 0, t);
        if got != want {
            out.impl_failures.push(json!({"what":"content_chunk_id prefix is not SHA-256[..8] hex","case":{"ch":"id_anchor","text":t},"got":got,"want":want}));
        }
        out.count("sha256_anchor");
    }
}

fn replay_id(out: &mut Out, c: &Value, class: &str) {
    let dh = c["dh"].as_str().map(|s| s.to_string());
    let els: Vec<(u8, u32, String)> = c["els"].as_array().unwrap().iter().map(|e| (e[0].as_u64().unwrap() as u8, e[1].as_u64().unwrap() as u32, e[2].as_str().unwrap().to_string())).collect();
    emit_id(out, &dh, &els, c["merge"].as_bool().unwrap_or(true), c["mode"].as_str().unwrap_or("heading"), class);
}


// ------------------------------------------------------------------ sub-channel agg (reported through the id channel)
/// Chunk-metadata aggregates chosen by max/min (dominant_font, dominant_font_size, table dimensions,
/// min_confidence) exercised WITH TIES: elements carry font name / size / confidence, several fonts
/// (sizes, tables) have exactly equal weight inside one chunk.  No tie-break is documented, so the only
/// demand is run-to-run identity of the full serialised chunks (Debug rendering, metadata included):
/// REPS fresh constructions in this process plus one in a child process.
const AGG_REPS: usize = 24;
/// element: [kind, page, text, font|null, size_units|null, conf_percent]; kind 0 title 1 para 2 list 5 table (text = "r x c")
fn agg_element(v: &Value) -> Element {
    let kind = v[0].as_u64().unwrap_or(1);
    let text = v[2].as_str().unwrap_or("").to_string();
    let meta = ElementMetadata {
        page: v[1].as_u64().unwrap_or(0) as u32,
        font_name: v[3].as_str().map(|x| x.to_string()),
        font_size: v[4].as_u64().map(|k| k as f64 / 8.0),
        confidence: v[5].as_u64().unwrap_or(100) as f64 / 100.0,
        parent_heading: v[6].as_str().map(|x| x.to_string()),
        ..Default::default()
    };
    match kind {
        0 => Element::Title(ElementData { text, metadata: meta }),
        2 => Element::ListItem(ElementData { text, metadata: meta }),
        5 => {
            let mut it = text.split('x').map(|n| n.trim().parse::<usize>().unwrap_or(1));
            let (r, c) = (it.next().unwrap_or(1), it.next().unwrap_or(1));
            let rows = (0..r).map(|i| (0..c).map(|j| format!("c{i}_{j}")).collect()).collect();
            Element::Table(oxidize_pdf::pipeline::TableElementData::new(rows, meta))
        }
        _ => Element::Paragraph(ElementData { text, metadata: meta }),
    }
}
fn agg_serialise(c: &Value) -> String {
    let elements: Vec<Element> = c["els"].as_array().unwrap().iter().map(agg_element).collect();
    let mode = mode_of(c["mode"].as_str().unwrap_or("heading"));
    let cfg = HybridChunkConfig { max_tokens: 4000, context_mode: mode, ..Default::default() };
    let chunker = HybridChunker::new(cfg);
    let hcs = if c["graph"].as_bool().unwrap_or(false) {
        let g = oxidize_pdf::pipeline::ElementGraph::build(&elements);
        chunker.chunk_with_graph(&elements, &g)
    } else {
        chunker.chunk(&elements)
    };
    let src = DocumentSource::with_file(Some("f.pdf".into()), Some("dochash01".into()));
    let mut chunks: Vec<RagChunk> = hcs.iter().enumerate().map(|(i, hc)| RagChunk::from_hybrid_chunk_with_source_and_mode(i, hc, &src, mode)).collect();
    oxidize_pdf::pipeline::rag::verif_link_chunks(&mut chunks);
    format!("{:?}", chunks)
}
fn emit_agg(ctx: &Ctx, out: &mut Out, c: &Value, k: usize) {
    let c2 = c.clone();
    let runs = catch(std::panic::AssertUnwindSafe(move || (0..AGG_REPS).map(|_| agg_serialise(&c2)).collect::<Vec<String>>()));
    let runs = match runs {
        Ok(r) => r,
        Err(m) => {
            out.impl_failures.push(json!({"what":"panic while building rag chunks (agg)","msg":m,"case":c}));
            return;
        }
    };
    out.count("agg_tie_case");
    if let Some(i) = runs.iter().position(|s| s != &runs[0]) {
        out.impl_failures.push(json!({"what": format!("serialised chunks (metadata included) differ between repeated runs on the same elements: run 0 vs run {i} of {AGG_REPS}"),
            "case": c, "run0": runs[0].chars().take(600).collect::<String>(), "other": runs[i].chars().take(600).collect::<String>()}));
        return;
    }
    let p = ctx.out.join(format!("aggchild_{k}.json"));
    if std::fs::write(&p, serde_json::to_string(c).unwrap()).is_ok() {
        if let Ok(exe) = std::env::current_exe() {
            if let Ok(o) = std::process::Command::new(exe).args(["c15", "--child-agg", p.to_str().unwrap()]).output() {
                if String::from_utf8_lossy(&o.stdout) != runs[0] {
                    out.impl_failures.push(json!({"what":"serialised chunks (metadata included) differ between this process and a second process","case":c}));
                }
            }
        }
        let _ = std::fs::remove_file(&p);
    }
}
fn gen_agg(ctx: &Ctx, r: &mut Rng, out: &mut Out, n: usize) {
    const FONTS: [&str; 4] = ["Helvetica", "Times-Roman", "Courier", "Helvetica-Bold"];
    for k in 0..n {
        let nf = r.range(2, 3) as usize; // fonts (or sizes, or tables) tied
        let wlen = r.range(3, 9) as usize; // characters per element
        let per = r.range(1, 2) as usize; // elements per font
        let what = k % 4; // 0 fonts, 1 sizes, 2 fonts+sizes, 3 tables (graph section chunk)
        let mut els: Vec<Value> = vec![];
        let head = "Sec";
        if what == 3 || r.chance(1, 2) {
            els.push(json!([0, 0, head, "Helvetica", 144, 100, head]));
        }
        let mut order: Vec<usize> = (0..nf * per).map(|i| i % nf).collect();
        for i in (1..order.len()).rev() {
            order.swap(i, r.below(i as u64 + 1) as usize);
        }
        for (j, fi) in order.iter().enumerate() {
            let text: String = (0..wlen).map(|q| (b'a' + ((j * 7 + q) % 26) as u8) as char).collect();
            let parent = if els.is_empty() { Value::Null } else { json!(head) };
            let conf = *r.pick(&[100u64, 90, 90, 50]);
            match what {
                0 => els.push(json!([1 + (j % 2), j / 3, text, FONTS[*fi], 80, conf, parent])),
                1 => els.push(json!([1, j / 3, text, "Helvetica", 80 + 8 * *fi as u64, conf, parent])),
                2 => els.push(json!([1 + (j % 2), j / 3, text, FONTS[*fi], 80 + 8 * ((*fi as u64 + 1) % nf as u64), conf, parent])),
                _ => els.push(json!([5, 0, format!("3x{}", 2 + *fi), "Helvetica", 80, conf, parent])),
            }
        }
        let c = json!({"ch":"agg","els":els,"graph": what == 3 || r.chance(1, 4),"mode": *r.pick(&["none", "heading", "labeled"])});
        emit_agg(ctx, out, &c, k);
    }
}

// ------------------------------------------------------------------ channel e2e
#[path = "c15_e2e.rs"]
mod e2e;

pub fn run(ctx: &Ctx) {
    if let Some(p) = ctx.opt("--child") {
        e2e::child(&p);
        return;
    }
    if let Some(p) = ctx.opt("--child-agg") {
        let v: Value = serde_json::from_str(&std::fs::read_to_string(p).expect("child input")).expect("json");
        print!("{}", agg_serialise(&v));
        return;
    }
    if ctx.flag("--scratch") {
        e2e::scratch(ctx);
        return;
    }
    let header = "From OxVerif Require Import Base.Util C15.Model.";
    let replay = ctx.replay_cases();
    // corpus/C15/*.json (next to the harness: <root>/build/cargo-target/debug/oxh) always runs first
    let mut corpus: Vec<Value> = vec![];
    if replay.is_none() {
        if let Some(root) = std::env::current_exe().ok().and_then(|e| e.ancestors().nth(4).map(|p| p.to_path_buf())) {
            let mut files: Vec<_> = std::fs::read_dir(root.join("corpus").join("C15")).map(|d| d.filter_map(|e| e.ok()).map(|e| e.path()).collect()).unwrap_or_default();
            files.sort();
            for f in files {
                if let Ok(Value::Array(a)) = serde_json::from_str::<Value>(&std::fs::read_to_string(&f).unwrap_or_default()) {
                    corpus.extend(a);
                }
            }
        }
    }
    let cor = |ch: &str| -> Vec<Value> { corpus.iter().filter(|c| c["ch"].as_str() == Some(ch)).cloned().collect() };
    let sel = |ch: &str| -> Option<Vec<Value>> { replay.as_ref().map(|cs| cs.iter().filter(|c| c["ch"].as_str() == Some(ch)).cloned().collect()) };
    let mut r = Rng::new(ctx.seed ^ 0xC15);
    let k = if ctx.thorough() { 5 } else { 1 };

    let mut out = Out::new(ctx, header, "hp_case", "hp_code");
    out.shard_size = 60;
    match sel("hp") {
        Some(cs) => {
            for c in cs {
                let els: Vec<El> = c["els"].as_array().unwrap().iter().map(el_from).collect();
                emit_hp(&mut out, &els, "replay");
            }
        }
        None => {
            for c in cor("hp") {
                let els: Vec<El> = c["els"].as_array().unwrap().iter().map(el_from).collect();
                emit_hp(&mut out, &els, "corpus");
            }
            gen_hp(&mut r, &mut out, 800 * k)
        }
    }
    out.finish("hp");

    let mut out = Out::new(ctx, header, "list N * list N", "pg_code");
    out.shard_size = 100;
    match sel("pg") {
        Some(cs) => {
            for c in cs {
                let p: Vec<u32> = c["pages"].as_array().unwrap().iter().map(|x| x.as_u64().unwrap() as u32).collect();
                emit_pg(&mut out, &p, "replay");
            }
        }
        None => {
            for c in cor("pg") {
                let p: Vec<u32> = c["pages"].as_array().unwrap().iter().map(|x| x.as_u64().unwrap() as u32).collect();
                emit_pg(&mut out, &p, "corpus");
            }
            gen_pg(&mut r, &mut out, 600 * k)
        }
    }
    out.finish("pg");

    let mut out = Out::new(ctx, header, "id_case", "id_code");
    out.shard_size = 30;
    match sel("id") {
        Some(cs) => {
            for c in cs {
                replay_id(&mut out, &c, "replay");
            }
        }
        None => {
            for c in cor("id") {
                replay_id(&mut out, &c, "corpus");
            }
            gen_id(&mut r, &mut out, 240 * k);
            for (i, c) in cor("agg").iter().enumerate() {
                emit_agg(ctx, &mut out, c, 100000 + i);
            }
            gen_agg(ctx, &mut r, &mut out, 80 * k as usize)
        }
    }
    if let Some(cs) = sel("agg") {
        for (i, c) in cs.iter().enumerate() {
            emit_agg(ctx, &mut out, c, i);
        }
    }
    out.finish("id");

    let mut out = Out::new(ctx, header, "e2e_case", "e2e_code");
    out.shard_size = 8;
    match sel("e2e") {
        Some(cs) => {
            for c in cs {
                e2e::emit(ctx, &mut out, &c, "replay");
            }
        }
        None => {
            for c in cor("e2e") {
                e2e::emit(ctx, &mut out, &c, "corpus");
            }
            e2e::generate(ctx, &mut r, &mut out, 40 * k as usize)
        }
    }
    out.finish("e2e");
}

// helpers shared with the e2e module
pub(crate) fn norm_words(s: &str) -> Vec<String> {
    s.split_whitespace().map(|w| w.to_string()).collect()
}
pub(crate) fn open_doc(bytes: &[u8]) -> Result<PdfDocument<Cursor<Vec<u8>>>, String> {
    let reader = PdfReader::new(Cursor::new(bytes.to_vec())).map_err(|e| format!("{e:?}"))?;
    Ok(PdfDocument::new(reader))
}
pub(crate) fn author(spec: &Value) -> Result<Vec<u8>, String> {
    let mut doc = Document::new();
    for pg in spec["pages"].as_array().unwrap() {
        let mut page = Page::a4();
        let mut y = 770.0f64;
        for b in pg.as_array().unwrap() {
            if let Some(h) = b.get("h") {
                let size = match h.as_u64().unwrap() {
                    1 => 24.0,
                    2 => 18.0,
                    _ => 14.0,
                };
                y -= size + 16.0;
                page.text().set_font(Font::Helvetica, size).at(60.0, y).write(b["t"].as_str().unwrap()).map_err(|e| format!("{e:?}"))?;
                y -= 14.0;
            } else {
                let font = match b["f"].as_str().unwrap_or("Helvetica") {
                    "Times-Roman" => Font::TimesRoman,
                    "Courier" => Font::Courier,
                    "Helvetica-Bold" => Font::HelveticaBold,
                    _ => Font::Helvetica,
                };
                let size = b["s"].as_f64().unwrap_or(10.0);
                for line in b["p"].as_array().unwrap() {
                    y -= 13.0;
                    page.text().set_font(font.clone(), size).at(60.0, y).write(line.as_str().unwrap()).map_err(|e| format!("{e:?}"))?;
                }
                y -= 22.0;
            }
        }
        doc.add_page(page);
    }
    doc.to_bytes().map_err(|e| format!("{e:?}"))
}
pub(crate) fn run_chunks(doc: &PdfDocument<Cursor<Vec<u8>>>, cfg: &Value) -> Result<Vec<RagChunk>, String> {
    let max_tokens = cfg["max_tokens"].as_u64().unwrap_or(512) as usize;
    let mode = mode_of(cfg["mode"].as_str().unwrap_or("heading"));
    let config = HybridChunkConfig { max_tokens, context_mode: mode, ..Default::default() };
    match cfg["entry"].as_str().unwrap_or("plain") {
        "plain" => doc.rag_chunks(),
        "source" => doc.rag_chunks_with_source_and_config(DocumentSource::with_file(Some("f.pdf".into()), Some("dochash01".into())), config),
        _ => doc.rag_chunks_with(config),
    }
    .map_err(|e| format!("{e:?}"))
}
pub(crate) type WordMap = HashMap<String, usize>;
