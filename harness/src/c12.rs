//! C12 — real TrueType subsetter (text::fonts::truetype_subsetter::subset_font) vs the abstract Gallina model.
//! The independent reader in c12_sfnt.rs extracts the abstract font (glyph records, metrics) from the
//! ORIGINAL and from the SUBSET bytes; Coq judges per requested character (flatten/advance, bit 2) and
//! compares kept set / renumbering / glyph records / mapping with the model (bit 1).
use crate::util::*;
use oxidize_pdf::text::fonts::truetype_subsetter::subset_font;
use serde_json::{json, Value};
use std::collections::{BTreeMap, BTreeSet, HashSet};

#[path = "c12_sfnt.rs"]
pub mod sfnt;
#[path = "c12_cff.rs"]
pub mod cff;
use sfnt::{Glyph, Sfnt};

pub const ROBOTO: &str = "/repo/test-pdfs/Roboto-Regular.ttf";
pub const SOURCESANS: &str = "/repo/test-pdfs/SourceSans3-Regular.otf";
pub const DEJAVU: &str = "/usr/share/fonts/truetype/dejavu/";

/// font spec: "file:<path>" or "gen:<path>:<short|long>:<nchars>:<pad_to>[:cf]" (cf = composites first: every component
/// reference points at a higher gid; derived font: closure of the glyphs of the
/// first <nchars> mapped code points from Latin/Greek/Cyrillic blocks, re-encoded with the given loca format)
pub fn load_font(spec: &str) -> Result<Vec<u8>, String> {
    if let Some(p) = spec.strip_prefix("file:") {
        return std::fs::read(p).map_err(|e| format!("{p}: {e}"));
    }
    let parts: Vec<&str> = spec.split(':').collect();
    if !(parts.len() == 5 || (parts.len() == 6 && parts[5] == "cf")) || parts[0] != "gen" {
        return Err(format!("bad font spec {spec}"));
    }
    let base = std::fs::read(parts[1]).map_err(|e| format!("{}: {e}", parts[1]))?;
    let s = Sfnt::parse(&base)?;
    let n: usize = parts[3].parse().map_err(|_| "nchars")?;
    let pad: usize = parts[4].parse().map_err(|_| "pad")?;
    let want: BTreeSet<u16> = s.cmap()?.into_iter().filter(|(cp, _)| *cp >= 0x20 && *cp < 0x2000).take(n).map(|(_, g)| g).collect();
    sfnt::derive(&s, &want, parts[2] == "short", pad, parts.len() == 6)
}

fn digest(b: &[u8]) -> Vec<u8> {
    let mut h: u64 = 0xcbf29ce484222325;
    for x in b {
        h ^= *x as u64;
        h = h.wrapping_mul(0x100000001b3);
    }
    let mut h2: u64 = 0x84222325cbf29ce4 ^ (b.len() as u64);
    for x in b.iter().rev() {
        h2 = (h2 ^ *x as u64).wrapping_mul(0x100000001b3).rotate_left(13);
    }
    let mut v = h.to_be_bytes().to_vec();
    v
}

fn coq_glyph(g: &Glyph, dg: bool) -> String {
    match g {
        Glyph::Simple { outline, ilen } => {
            let o = if dg && !outline.is_empty() { digest(outline) } else { outline.clone() };
            format!("Simple {} {}", coq_bytes(&o), ilen)
        }
        Glyph::Composite { comps, ilen } => {
            let mut s = String::from("Composite (");
            for (g, fl, tr) in comps {
                s.push_str(&format!("({}, {}, {}) :: ", g, fl, coq_bytes(tr)));
            }
            s.push_str(&format!("nil) {}", ilen));
            s
        }
    }
}
fn coq_entry(gid: usize, g: &Glyph, m: (u16, i16), dg: bool) -> String {
    format!("({}, {}, {}, {})", gid, coq_glyph(g, dg), m.0, coq_z(m.1 as i128))
}
fn coq_pairs(v: &[(u32, u32)]) -> String {
    let mut s = String::new();
    for (a, b) in v {
        s.push_str(&format!("({}, {}) :: ", a, b));
    }
    s.push_str("nil");
    s
}

pub struct CaseOut {
    pub coq: String,
    pub full: bool,
    pub nglyphs_sub: usize,
    pub composites: usize,
    pub wf_problems: Vec<String>,
    pub err: Option<String>,
}

/// run one case on the real code; `data` is the original font
pub fn run_case(data: &[u8], chars: &[u32]) -> Result<CaseOut, String> {
    let orig = Sfnt::parse(data)?;
    let ocmap = orig.cmap()?;
    let used: HashSet<char> = chars.iter().filter_map(|&c| char::from_u32(c)).collect();
    let d2 = data.to_vec();
    let u2 = used.clone();
    let res = catch(move || subset_font(d2, &u2)).map_err(|p| format!("panic: {p}"))?.map_err(|e| format!("subset_font error: {e:?}"))?;
    let full = res.font_data == data;
    let mut cm: Vec<(u32, u32)> = chars.iter().filter_map(|c| ocmap.get(c).map(|&g| (*c, g as u32))).collect();
    cm.sort();
    cm.dedup();
    let mut seeds: BTreeSet<u16> = cm.iter().map(|p| p.1 as u16).collect();
    seeds.insert(0);
    let reach = orig.closure(&seeds)?;
    let mut im: Vec<(u32, u32)> = res.glyph_mapping.iter().map(|(&c, &g)| (c, g as u32)).collect();
    im.sort();
    let (mut sub_entries, mut wfp, mut ngs) = (vec![], vec![], 0);
    let dg = reach.len() > 10;
    if !full {
        match Sfnt::parse(&res.font_data) {
            Err(e) => wfp.push(format!("subset does not parse: {e}")),
            Ok(sub) => {
                wfp = sub.problems();
                ngs = sub.ng;
                for g in 0..sub.ng {
                    // a glyph the reader cannot parse travels as an empty simple glyph with a marker outline
                    let gl = sub.glyph(g).unwrap_or(Glyph::Simple { outline: b"unparseable".to_vec(), ilen: 0 });
                    let m = sub.metrics(g).unwrap_or((0xFFFF, 0));
                    sub_entries.push(coq_entry(g, &gl, m, dg));
                }
            }
        }
    }
    let mut composites = 0;
    let mut orig_entries = vec![];
    for &g in &reach {
        let gl = orig.glyph(g as usize)?;
        if matches!(gl, Glyph::Composite { .. }) {
            composites += 1;
        }
        orig_entries.push(coq_entry(g as usize, &gl, orig.metrics(g as usize)?, dg));
    }
    let mut cs: Vec<u32> = chars.to_vec();
    cs.sort();
    cs.dedup();
    let coq = format!(
        "{{| c_size := {}; c_n := {}; c_orig := {} :: nil; c_cmap := {}; c_chars := {}; c_full := {}; c_sub := {}nil; c_map := {}; c_wf := {} |}}",
        data.len(),
        orig.ng,
        orig_entries.join(" :: "),
        coq_pairs(&cm),
        cs.iter().map(|c| format!("{c} :: ")).collect::<String>() + "nil",
        coq_bool(full),
        sub_entries.iter().map(|e| format!("{e} :: ")).collect::<String>(),
        coq_pairs(&im),
        coq_bool(wfp.is_empty()),
    );
    Ok(CaseOut { coq, full, nglyphs_sub: ngs, composites, wf_problems: wfp, err: None })
}

fn font_specs(thorough: bool) -> Vec<String> {
    let mut v = vec![
        format!("file:{ROBOTO}"),
        format!("file:{DEJAVU}DejaVuSans.ttf"),
        format!("file:{DEJAVU}DejaVuSans-ExtraLight.ttf"),
        format!("file:{DEJAVU}DejaVuSansMono.ttf"),
        format!("gen:{ROBOTO}:short:260:120000"),
        format!("gen:{DEJAVU}DejaVuSans.ttf:short:300:101000"),
        format!("gen:{ROBOTO}:long:400:150000"),
        format!("gen:{ROBOTO}:short:120:0"),
        format!("gen:{DEJAVU}DejaVuSans.ttf:short:300:101000:cf"),
        format!("gen:{ROBOTO}:long:400:150000:cf"),
    ];
    if thorough {
        for f in ["DejaVuSerif.ttf", "DejaVuSans-Bold.ttf", "DejaVuSerif-Bold.ttf", "DejaVuSansMono-Bold.ttf", "DejaVuSans-Oblique.ttf"] {
            v.push(format!("file:{DEJAVU}{f}"));
        }
        v.push(format!("gen:{DEJAVU}DejaVuSerif.ttf:short:280:100000"));
        v.push(format!("gen:{DEJAVU}DejaVuSansMono.ttf:long:500:100001"));
        v.push(format!("gen:{DEJAVU}DejaVuSerif.ttf:long:350:100000:cf"));
        v.push(format!("gen:{ROBOTO}:short:200:100000:cf"));
    }
    v
}

fn pick_chars(r: &mut Rng, keys: &[u32], class: &str, n: usize) -> Vec<u32> {
    let pool: Vec<u32> = match class {
        "latin" => keys.iter().copied().filter(|c| (0x20..0x7F).contains(c)).collect(),
        "accented" => keys.iter().copied().filter(|c| (0xC0..0x250).contains(c) || (0x1E00..0x1F00).contains(c)).collect(),
        "greekcyr" => keys.iter().copied().filter(|c| (0x370..0x530).contains(c)).collect(),
        _ => keys.to_vec(),
    };
    let pool = if pool.is_empty() { keys.to_vec() } else { pool };
    let mut s = BTreeSet::new();
    let mut guard = 0;
    while s.len() < n.min(pool.len()) && guard < 20 * n + 50 {
        s.insert(*r.pick(&pool));
        guard += 1;
    }
    let mut v: Vec<u32> = s.into_iter().collect();
    if class == "unmapped_mix" {
        for c in [0xE123u32, 0x10FFFF, 0xFFFE, 0x3040] {
            if !keys.contains(&c) {
                v.push(c);
            }
        }
    }
    v
}

pub fn run(ctx: &Ctx) {
    let header = "From OxVerif Require Import Base.Util C12.Model.";
    let mut small = Out::new(ctx, header, "case", "case_code");
    small.shard_size = 8;
    let mut big = Out::new(ctx, header, "case", "case_code");
    big.shard_size = 2;
    let mut stats: BTreeMap<String, u64> = BTreeMap::new();
    let mut emit = |small: &mut Out, big: &mut Out, spec: &str, data: &[u8], chars: &[u32], class: &str| {
        let js = json!({"font": spec, "chars": chars});
        match run_case(data, chars) {
            Ok(c) => {
                let label = format!("{}{}", class, if c.full { "/full" } else { "/subset" });
                let nt = !c.full && c.composites > 0;
                if !c.wf_problems.is_empty() {
                    *stats.entry("wf_problem_cases".into()).or_insert(0) += 1;
                    if std::env::var("OXH_C12_TRACE").is_ok() {
                        eprintln!("wf problems {} {:?}: {:?}", spec, &chars[..chars.len().min(8)], &c.wf_problems[..c.wf_problems.len().min(3)]);
                    }
                }
                if c.coq.len() > 9000 {
                    big.push(c.coq, js, &label, nt);
                } else {
                    small.push(c.coq, js, &label, nt);
                }
            }
            Err(e) => small.impl_failures.push(json!({"case": js, "what": e})),
        }
    };
    if let Some(cases) = ctx.replay_cases() {
        for c in cases {
            if c.get("cff").is_some() {
                continue;
            }
            let spec = c["font"].as_str().unwrap_or("").to_string();
            let chars: Vec<u32> = c["chars"].as_array().map(|a| a.iter().filter_map(|x| x.as_u64()).map(|x| x as u32).collect()).unwrap_or_default();
            match load_font(&spec) {
                Ok(data) => emit(&mut small, &mut big, &spec, &data, &chars, "replay"),
                Err(e) => small.impl_failures.push(json!({"case": c, "what": e})),
            }
        }
    } else {
        let mut r = Rng::new(ctx.seed ^ 0xC12);
        for spec in font_specs(ctx.thorough()) {
            let data = match load_font(&spec) {
                Ok(d) => d,
                Err(e) => {
                    small.impl_failures.push(json!({"case": {"font": spec}, "what": format!("cannot load font: {e}")}));
                    continue;
                }
            };
            let s = Sfnt::parse(&data).expect("font parses");
            let keys: Vec<u32> = s.cmap().expect("cmap").keys().copied().collect();
            let sizes: &[usize] = if ctx.thorough() { &[0, 1, 2, 3, 5, 8, 9, 10, 11, 12, 16, 24, 40, 64, 100, 160] } else { &[0, 1, 3, 9, 10, 11, 16, 30, 60] };
            for &n in sizes {
                let classes: &[&str] = if spec.ends_with(":cf") { &["accented", "any"] } else { &["latin", "accented", "greekcyr", "any", "unmapped_mix"] };
                for &class in classes {
                    let reps = if n <= 16 && n > 0 { 2 } else { 1 };
                    for _ in 0..reps {
                        let chars = pick_chars(&mut r, &keys, class, n);
                        emit(&mut small, &mut big, &spec, &data, &chars, class);
                    }
                }
            }
            // identity prefix: the characters of gids 1..k (every gid up to k kept, so those glyphs keep their ids while
            // components further up are renumbered), alone and together with a few characters from further up
            let inv: BTreeMap<u16, u32> = s.cmap().expect("cmap").iter().map(|(&c, &g)| (g, c)).rev().collect();
            let mut kmax = 0usize;
            while inv.contains_key(&((kmax + 1) as u16)) {
                kmax += 1;
            }
            if kmax >= 1 {
                let ks: Vec<usize> = if ctx.thorough() { (0..10).map(|_| r.range(1, kmax.min(120) as u64) as usize).collect() } else { (0..5).map(|_| r.range(1, kmax.min(60) as u64) as usize).collect() };
                for k in ks {
                    let mut chars: Vec<u32> = (1..=k).map(|g| inv[&(g as u16)]).collect();
                    if r.chance(1, 2) {
                        chars.extend(pick_chars(&mut r, &keys, "any", 6));
                    }
                    while chars.len() < 10 && chars.len() < keys.len() {
                        chars.extend(pick_chars(&mut r, &keys, "any", 3)); // stay above the 10-character skip threshold
                    }
                    emit(&mut small, &mut big, &spec, &data, &chars, "prefix");
                }
            }
            // large sets around the 50 % ratio test, and one set per run that keeps most of a big block
            let half = s.ng / 2;
            let mut larges = vec![half.saturating_sub(40).min(keys.len()), (half + 40).min(keys.len())];
            if ctx.thorough() {
                larges.push((half / 2).min(keys.len()));
            } else if spec.starts_with("file:") {
                larges.truncate(0);
                larges.push(150.min(keys.len()));
            }
            for n in larges {
                let chars = pick_chars(&mut r, &keys, "any", n);
                emit(&mut small, &mut big, &spec, &data, &chars, "large");
            }
        }
    }
    for (k, v) in &stats {
        small.extra.insert(k.clone(), json!(v));
    }
    small.finish("tt");
    big.finish("ttbig");
    cff::run(ctx);
}
