//! C16 — page operations: generated source PDFs (raw emitter) × every operation of the
//! public operations API, outputs written below the run directory, re-read by the library,
//! page lists written as Coq cases for C16/Model.v.
use crate::util::*;
use oxidize_pdf::operations::*;
use oxidize_pdf::parser::{PdfDocument, PdfReader};
use serde_json::{json, Value};
use std::path::{Path, PathBuf};

#[path = "c18_pdf.rs"]
mod rawpdf;
use rawpdf::RawPdf;

// ---------------------------------------------------------------- source documents
#[derive(Clone, Debug)]
struct SrcPage {
    media: [i64; 4],
    crop: Option<[i64; 4]>,
    rotate: i64,
    streams: Vec<Vec<u8>>,
    res: u64,
    // where the attribute is written: 0 = on the page, 1 = inherited from the group node, 2 = from the root
    media_at: u8,
    crop_at: u8,
    rotate_at: u8,
    res_at: u8,
}
#[derive(Clone, Debug)]
struct SrcDoc {
    groups: Vec<Vec<SrcPage>>, // root -> group nodes -> pages (a group of length 1 may be a direct kid)
}
impl SrcDoc {
    fn pages(&self) -> Vec<&SrcPage> {
        self.groups.iter().flatten().collect()
    }
}

fn rect_pdf(r: &[i64; 4]) -> String {
    format!("[{} {} {} {}]", r[0], r[1], r[2], r[3])
}
fn res_pdf(id: u64) -> String {
    format!("<< /Font << /F{} << /Type /Font /Subtype /Type1 /BaseFont /Helvetica >> >> >>", id)
}
/// Attributes written at level 1/2 are shared: the generator makes all pages below that node agree.
fn src_pdf(d: &SrcDoc) -> Vec<u8> {
    let mut p = RawPdf::new();
    let mut next = 3u32;
    let mut root_kids = vec![];
    let all = d.pages();
    let mut root_attrs = String::new();
    if let Some(pg) = all.iter().find(|x| x.media_at == 2) {
        root_attrs.push_str(&format!(" /MediaBox {}", rect_pdf(&pg.media)));
    }
    if let Some(pg) = all.iter().find(|x| x.crop_at == 2) {
        root_attrs.push_str(&format!(" /CropBox {}", rect_pdf(&pg.crop.unwrap())));
    }
    if let Some(pg) = all.iter().find(|x| x.rotate_at == 2) {
        root_attrs.push_str(&format!(" /Rotate {}", pg.rotate));
    }
    if let Some(pg) = all.iter().find(|x| x.res_at == 2) {
        root_attrs.push_str(&format!(" /Resources {}", res_pdf(pg.res)));
    }
    for g in &d.groups {
        let gid = next;
        next += 1;
        root_kids.push(gid);
        let mut gattrs = String::new();
        if let Some(pg) = g.iter().find(|x| x.media_at == 1) {
            gattrs.push_str(&format!(" /MediaBox {}", rect_pdf(&pg.media)));
        }
        if let Some(pg) = g.iter().find(|x| x.crop_at == 1) {
            gattrs.push_str(&format!(" /CropBox {}", rect_pdf(&pg.crop.unwrap())));
        }
        if let Some(pg) = g.iter().find(|x| x.rotate_at == 1) {
            gattrs.push_str(&format!(" /Rotate {}", pg.rotate));
        }
        if let Some(pg) = g.iter().find(|x| x.res_at == 1) {
            gattrs.push_str(&format!(" /Resources {}", res_pdf(pg.res)));
        }
        let mut kids = vec![];
        for pg in g {
            let pid = next;
            next += 1;
            kids.push(pid);
            let mut cids = vec![];
            for s in &pg.streams {
                p.set_stream(next, "", s);
                cids.push(next);
                next += 1;
            }
            let contents = if cids.len() == 1 { format!("{} 0 R", cids[0]) } else { format!("[{}]", cids.iter().map(|c| format!("{} 0 R", c)).collect::<Vec<_>>().join(" ")) };
            let mut a = String::new();
            if pg.media_at == 0 {
                a.push_str(&format!(" /MediaBox {}", rect_pdf(&pg.media)));
            }
            if pg.crop_at == 0 {
                if let Some(c) = &pg.crop {
                    a.push_str(&format!(" /CropBox {}", rect_pdf(c)));
                }
            }
            if pg.rotate_at == 0 {
                a.push_str(&format!(" /Rotate {}", pg.rotate));
            }
            if pg.res_at == 0 {
                a.push_str(&format!(" /Resources {}", res_pdf(pg.res)));
            }
            p.set(pid, format!("<< /Type /Page /Parent {} 0 R /Contents {}{} >>", gid, contents, a));
        }
        p.set(gid, format!("<< /Type /Pages /Parent 2 0 R /Count {} /Kids [{}]{} >>", g.len(), kids.iter().map(|k| format!("{} 0 R", k)).collect::<Vec<_>>().join(" "), gattrs));
    }
    p.set(1, "<< /Type /Catalog /Pages 2 0 R >>");
    p.set(2, format!("<< /Type /Pages /Count {} /Kids [{}]{} >>", all.len(), root_kids.iter().map(|k| format!("{} 0 R", k)).collect::<Vec<_>>().join(" "), root_attrs));
    p.build(1)
}

const ROTS: [i64; 15] = [-450, -360, -270, -180, -90, 0, 0, 90, 180, 270, 360, 450, 540, 720, 810];

fn gen_doc(r: &mut Rng, npages: usize, uid: &mut u64, extremes: bool) -> SrcDoc {
    let mut groups: Vec<Vec<SrcPage>> = vec![];
    let root_media = r.chance(1, 4);
    let root_rot = r.chance(1, 5);
    let root_res = r.chance(1, 5);
    let root_crop = r.chance(1, 6);
    let mk_rect = |r: &mut Rng| {
        let x = r.range(0, 600) as i64 - 300;
        let y = r.range(0, 600) as i64 - 300;
        let zero = r.chance(1, 4);
        let (x, y) = if zero { (0, 0) } else { (x, y) };
        [x, y, x + 50 + r.below(800) as i64, y + 50 + r.below(900) as i64]
    };
    let rm = mk_rect(r);
    let rc = mk_rect(r);
    let rr = *r.pick(&ROTS);
    *uid += 1;
    let rres = *uid;
    let mut left = npages;
    while left > 0 {
        let n = (1 + r.below(3) as usize).min(left);
        left -= n;
        let g_media = !root_media && r.chance(1, 4);
        let g_rot = !root_rot && r.chance(1, 4);
        let g_res = !root_res && r.chance(1, 4);
        let g_crop = !root_crop && r.chance(1, 6);
        let gm = mk_rect(r);
        let gc = mk_rect(r);
        let gr = *r.pick(&ROTS);
        *uid += 1;
        let gres = *uid;
        let mut g = vec![];
        for _ in 0..n {
            *uid += 1;
            let id = *uid;
            let own_media = r.chance(1, 2) || !(root_media || g_media);
            let own_rot = r.chance(1, 2);
            let own_res = r.chance(1, 2) || !(root_res || g_res);
            let own_crop = r.chance(1, 3);
            let nstreams = if r.chance(1, 5) { 2 } else { 1 };
            let streams: Vec<Vec<u8>> = (0..nstreams)
                .map(|k| match r.below(3) {
                    0 => format!("BT /F{} 12 Tf 72 700 Td (page {} part {}) Tj ET", id, id, k).into_bytes(),
                    1 => format!("q 0.{} 0 0 rg {} {} 100 50 re f Q", id % 10, id, k).into_bytes(),
                    _ => format!("% marker {}.{}\n1 0 0 1 {} 0 cm", id, k, id).into_bytes(),
                })
                .collect();
            let (media, media_at) = if own_media { (mk_rect(r), 0) } else if g_media { (gm, 1) } else { (rm, 2) };
            let (crop, crop_at) = if own_crop { (Some(mk_rect(r)), 0) } else if g_crop { (Some(gc), 1) } else if root_crop { (Some(rc), 2) } else { (None, 0) };
            let (rotate, rotate_at) = if own_rot {
                let v = if extremes && r.chance(1, 3) { *r.pick(&[2147483647i64, -2147483648, 2147483610, -2147483550, 2147483520]) } else { *r.pick(&ROTS) };
                (v, 0)
            } else if g_rot {
                (gr, 1)
            } else if root_rot {
                (rr, 2)
            } else {
                (0, 3) // absent everywhere
            };
            let (res, res_at) = if own_res { (id, 0) } else if g_res { (gres, 1) } else { (rres, 2) };
            g.push(SrcPage { media, crop, rotate, streams, res, media_at, crop_at, rotate_at, res_at });
        }
        groups.push(g);
    }
    SrcDoc { groups }
}

// ---------------------------------------------------------------- operations
#[derive(Clone, Debug)]
enum PR {
    All,
    Single(usize),
    Range(usize, usize),
    List(Vec<usize>),
}
impl PR {
    fn real(&self) -> PageRange {
        match self {
            PR::All => PageRange::All,
            PR::Single(i) => PageRange::Single(*i),
            PR::Range(a, b) => PageRange::Range(*a, *b),
            PR::List(l) => PageRange::List(l.clone()),
        }
    }
    fn coq(&self) -> String {
        match self {
            PR::All => "RAll".into(),
            PR::Single(i) => format!("RSingle {}", i),
            PR::Range(a, b) => format!("RRange {} {}", a, b),
            PR::List(l) => format!("RList {}", coq_list(l.iter().map(|x| x.to_string()))),
        }
    }
    fn json(&self) -> Value {
        match self {
            PR::All => json!("all"),
            PR::Single(i) => json!({"s": i}),
            PR::Range(a, b) => json!({"r": [a, b]}),
            PR::List(l) => json!({"l": l}),
        }
    }
    fn from(v: &Value) -> PR {
        if let Some(s) = v.get("s") {
            PR::Single(s.as_u64().unwrap() as usize)
        } else if let Some(r) = v.get("r") {
            PR::Range(r[0].as_u64().unwrap() as usize, r[1].as_u64().unwrap() as usize)
        } else if let Some(l) = v.get("l") {
            PR::List(l.as_array().unwrap().iter().map(|x| x.as_u64().unwrap() as usize).collect())
        } else {
            PR::All
        }
    }
}
#[derive(Clone, Debug)]
enum Op {
    SplitSingle,
    SplitChunk(usize),
    SplitRanges(Vec<PR>),
    SplitAt(Vec<usize>),
    Merge(Vec<(usize, Option<PR>)>),
    SplitMerge(usize),
    ExtractPages(Vec<usize>),
    ExtractRange(PR),
    ExtractPage(usize),
    Reorder(Vec<usize>),
    Reverse,
    Swap(usize, usize),
    Move(usize, usize),
    Rotate(PR, i32),
}
fn ul(l: &[usize]) -> String {
    coq_list(l.iter().map(|x| x.to_string()))
}
impl Op {
    fn coq(&self) -> String {
        match self {
            Op::SplitSingle => "OSplitSingle".into(),
            Op::SplitChunk(k) => format!("OSplitChunk {}", k),
            Op::SplitRanges(l) => format!("OSplitRanges {}", coq_list(l.iter().map(|x| format!("({})", x.coq())))),
            Op::SplitAt(l) => format!("OSplitAt {}", ul(l)),
            Op::Merge(l) => format!("OMerge {}", coq_list(l.iter().map(|(d, r)| format!("({}, {})", d, coq_opt(r.as_ref().map(|x| format!("({})", x.coq()))))))),
            Op::SplitMerge(k) => format!("OSplitMerge {}", k),
            Op::ExtractPages(l) => format!("OExtractPages {}", ul(l)),
            Op::ExtractRange(r) => format!("OExtractRange ({})", r.coq()),
            Op::ExtractPage(i) => format!("OExtractPage {}", i),
            Op::Reorder(l) => format!("OReorder {}", ul(l)),
            Op::Reverse => "OReverse".into(),
            Op::Swap(a, b) => format!("OSwap {} {}", a, b),
            Op::Move(a, b) => format!("OMove {} {}", a, b),
            Op::Rotate(r, a) => format!("ORotate ({}) {}", r.coq(), coq_z(*a as i128)),
        }
    }
    fn json(&self) -> Value {
        match self {
            Op::SplitSingle => json!({"op":"split_single"}),
            Op::SplitChunk(k) => json!({"op":"split_chunk","k":k}),
            Op::SplitRanges(l) => json!({"op":"split_ranges","l":l.iter().map(|x| x.json()).collect::<Vec<_>>()}),
            Op::SplitAt(l) => json!({"op":"split_at","l":l}),
            Op::Merge(l) => json!({"op":"merge","l":l.iter().map(|(d, r)| json!([d, r.as_ref().map(|x| x.json())])).collect::<Vec<_>>()}),
            Op::SplitMerge(k) => json!({"op":"split_merge","k":k}),
            Op::ExtractPages(l) => json!({"op":"extract_pages","l":l}),
            Op::ExtractRange(r) => json!({"op":"extract_range","r":r.json()}),
            Op::ExtractPage(i) => json!({"op":"extract_page","i":i}),
            Op::Reorder(l) => json!({"op":"reorder","l":l}),
            Op::Reverse => json!({"op":"reverse"}),
            Op::Swap(a, b) => json!({"op":"swap","a":a,"b":b}),
            Op::Move(a, b) => json!({"op":"move","a":a,"b":b}),
            Op::Rotate(r, a) => json!({"op":"rotate","r":r.json(),"angle":a}),
        }
    }
    fn from(v: &Value) -> Op {
        let us = |x: &Value| x.as_u64().unwrap() as usize;
        let ulist = |x: &Value| x.as_array().unwrap().iter().map(|y| y.as_u64().unwrap() as usize).collect::<Vec<_>>();
        match v["op"].as_str().unwrap() {
            "split_single" => Op::SplitSingle,
            "split_chunk" => Op::SplitChunk(us(&v["k"])),
            "split_ranges" => Op::SplitRanges(v["l"].as_array().unwrap().iter().map(PR::from).collect()),
            "split_at" => Op::SplitAt(ulist(&v["l"])),
            "merge" => Op::Merge(v["l"].as_array().unwrap().iter().map(|e| (us(&e[0]), if e[1].is_null() { None } else { Some(PR::from(&e[1])) })).collect()),
            "split_merge" => Op::SplitMerge(us(&v["k"])),
            "extract_pages" => Op::ExtractPages(ulist(&v["l"])),
            "extract_range" => Op::ExtractRange(PR::from(&v["r"])),
            "extract_page" => Op::ExtractPage(us(&v["i"])),
            "reorder" => Op::Reorder(ulist(&v["l"])),
            "reverse" => Op::Reverse,
            "swap" => Op::Swap(us(&v["a"]), us(&v["b"])),
            "move" => Op::Move(us(&v["a"]), us(&v["b"])),
            _ => Op::Rotate(PR::from(&v["r"]), v["angle"].as_i64().unwrap() as i32),
        }
    }
    fn name(&self) -> &'static str {
        match self {
            Op::SplitSingle => "split_single",
            Op::SplitChunk(_) => "split_chunk",
            Op::SplitRanges(_) => "split_ranges",
            Op::SplitAt(_) => "split_at",
            Op::Merge(_) => "merge",
            Op::SplitMerge(_) => "split_merge",
            Op::ExtractPages(_) => "extract_pages",
            Op::ExtractRange(_) => "extract_range",
            Op::ExtractPage(_) => "extract_page",
            Op::Reorder(_) => "reorder",
            Op::Reverse => "reverse",
            Op::Swap(..) => "swap",
            Op::Move(..) => "move",
            Op::Rotate(..) => "rotate",
        }
    }
}

// ---------------------------------------------------------------- observation
#[derive(Clone, Debug)]
struct OutPage {
    media: [f64; 4],
    crop: Option<[f64; 4]>,
    rot: i32,
    content: Vec<u8>,
    fonts: Vec<u64>, // markers of the /Font entries named F<n>
}
fn read_doc(path: &Path) -> Result<Vec<OutPage>, String> {
    let doc = PdfReader::open_document(path).map_err(|e| format!("open: {e}"))?;
    let n = doc.page_count().map_err(|e| format!("count: {e}"))?;
    let mut v = vec![];
    for i in 0..n {
        let p = doc.get_page(i).map_err(|e| format!("page {i}: {e}"))?;
        let streams = p.content_streams_with_document(&doc).map_err(|e| format!("content {i}: {e}"))?;
        let mut content = vec![];
        for (k, s) in streams.iter().enumerate() {
            if k > 0 {
                content.push(b'\n');
            }
            content.extend_from_slice(s);
        }
        let mut fonts: Vec<u64> = p
            .get_resources()
            .and_then(|d| d.get("Font"))
            .and_then(|f| doc.resolve(f).ok())
            .and_then(|f| f.as_dict().cloned())
            .map(|f| f.0.keys().filter_map(|k| k.0.strip_prefix('F').and_then(|x| x.parse::<u64>().ok())).collect())
            .unwrap_or_default();
        fonts.sort();
        v.push(OutPage { media: p.media_box, crop: p.crop_box, rot: p.rotation, content, fonts });
    }
    Ok(v)
}

fn run_op(dir: &Path, srcs: &[PathBuf], op: &Op) -> Result<Vec<Vec<OutPage>>, String> {
    let out = dir.join("out.pdf");
    let e = |x: OperationError| format!("{x}");
    let one = |r: Result<(), OperationError>| -> Result<Vec<Vec<OutPage>>, String> {
        r.map_err(e)?;
        Ok(vec![read_doc(&out).map_err(|m| format!("REREAD {m}"))?])
    };
    let split = |mode: SplitMode| -> Result<Vec<PathBuf>, String> {
        let opts = SplitOptions { mode, output_pattern: dir.join("part_{n}.pdf").to_string_lossy().into_owned(), ..Default::default() };
        split_pdf(&srcs[0], opts).map_err(e)
    };
    let read_all = |files: Vec<PathBuf>| -> Result<Vec<Vec<OutPage>>, String> { files.iter().map(|f| read_doc(f).map_err(|m| format!("REREAD {m}"))).collect() };
    match op {
        Op::SplitSingle => read_all(split(SplitMode::SinglePages)?),
        Op::SplitChunk(k) => read_all(split(SplitMode::ChunkSize(*k))?),
        Op::SplitRanges(l) => read_all(split(SplitMode::Ranges(l.iter().map(|x| x.real()).collect()))?),
        Op::SplitAt(l) => read_all(split(SplitMode::SplitAt(l.clone()))?),
        Op::Merge(l) => {
            let inputs: Vec<MergeInput> = l
                .iter()
                .map(|(d, r)| match r {
                    Some(r) => MergeInput::with_pages(srcs[*d].clone(), r.real()),
                    None => MergeInput::new(srcs[*d].clone()),
                })
                .collect();
            one(merge_pdfs(inputs, &out, MergeOptions::default()))
        }
        Op::SplitMerge(k) => {
            let parts = split(SplitMode::ChunkSize(*k))?;
            one(merge_pdf_files(&parts, &out))
        }
        Op::ExtractPages(l) => one(extract_pages_to_file(&srcs[0], l, &out)),
        Op::ExtractRange(r) => one(extract_page_range_to_file(&srcs[0], &r.real(), &out)),
        Op::ExtractPage(i) => one(extract_page_to_file(&srcs[0], *i, &out)),
        Op::Reorder(l) => one(reorder_pdf_pages(&srcs[0], &out, l.clone())),
        Op::Reverse => one(reverse_pdf_pages(&srcs[0], &out)),
        Op::Swap(a, b) => one(swap_pdf_pages(&srcs[0], &out, *a, *b)),
        Op::Move(a, b) => one(move_pdf_page(&srcs[0], &out, *a, *b)),
        Op::Rotate(r, a) => {
            let angle = RotationAngle::from_degrees(*a).map_err(e)?;
            one(rotate_pdf_pages(&srcs[0], &out, RotateOptions { pages: r.real(), angle, preserve_page_size: false }))
        }
    }
}

// ---------------------------------------------------------------- Coq / JSON
fn zl(v: &[i64]) -> String {
    coq_list(v.iter().map(|x| coq_z(*x as i128)))
}
fn fz(x: f64) -> String {
    if x.fract() == 0.0 && x.abs() < 1e15 {
        coq_z(x as i128)
    } else {
        coq_z(987654321987)
    }
}
fn src_page_coq(p: &SrcPage) -> String {
    let mut content = vec![];
    for s in &p.streams {
        content.push(coq_bytes(s));
    }
    format!("(Build_page {} {} {} {} {})", zl(&p.media), coq_opt(p.crop.map(|c| zl(&c))), coq_z(p.rotate as i128), coq_list(content), coq_list(vec![p.res.to_string()]))
}
fn out_page_coq(p: &OutPage) -> String {
    format!(
        "(Build_page {} {} {} {} {})",
        coq_list(p.media.iter().map(|x| fz(*x))),
        coq_opt(p.crop.map(|c| coq_list(c.iter().map(|x| fz(*x))))),
        coq_z(p.rot as i128),
        coq_list(vec![coq_bytes(&p.content)]),
        coq_list(p.fonts.iter().map(|x| x.to_string()))
    )
}
fn src_doc_json(d: &SrcDoc) -> Value {
    Value::Array(
        d.groups
            .iter()
            .map(|g| {
                Value::Array(
                    g.iter()
                        .map(|p| json!({"media": p.media, "crop": p.crop, "rotate": p.rotate, "streams": p.streams.iter().map(|s| hex(s)).collect::<Vec<_>>(), "res": p.res, "at": [p.media_at, p.crop_at, p.rotate_at, p.res_at]}))
                        .collect(),
                )
            })
            .collect(),
    )
}
fn src_doc_from(v: &Value) -> SrcDoc {
    let r4 = |x: &Value| {
        let a: Vec<i64> = x.as_array().unwrap().iter().map(|y| y.as_i64().unwrap()).collect();
        [a[0], a[1], a[2], a[3]]
    };
    SrcDoc {
        groups: v
            .as_array()
            .unwrap()
            .iter()
            .map(|g| {
                g.as_array()
                    .unwrap()
                    .iter()
                    .map(|p| SrcPage {
                        media: r4(&p["media"]),
                        crop: if p["crop"].is_null() { None } else { Some(r4(&p["crop"])) },
                        rotate: p["rotate"].as_i64().unwrap(),
                        streams: p["streams"].as_array().unwrap().iter().map(|s| unhex(s.as_str().unwrap())).collect(),
                        res: p["res"].as_u64().unwrap(),
                        media_at: p["at"][0].as_u64().unwrap() as u8,
                        crop_at: p["at"][1].as_u64().unwrap() as u8,
                        rotate_at: p["at"][2].as_u64().unwrap() as u8,
                        res_at: p["at"][3].as_u64().unwrap() as u8,
                    })
                    .collect()
            })
            .collect(),
    }
}

fn emit(out: &mut Out, ctx: &Ctx, docs: &[SrcDoc], op: &Op, class: &str) {
    let dir = ctx.out.join("tmp");
    let _ = std::fs::remove_dir_all(&dir);
    std::fs::create_dir_all(&dir).unwrap();
    let srcs: Vec<PathBuf> = docs
        .iter()
        .enumerate()
        .map(|(i, d)| {
            let p = dir.join(format!("src{}.pdf", i));
            std::fs::write(&p, src_pdf(d)).unwrap();
            p
        })
        .collect();
    let js = json!({"docs": docs.iter().map(src_doc_json).collect::<Vec<_>>(), "op": op.json()});
    let res = catch(std::panic::AssertUnwindSafe(|| run_op(&dir, &srcs, op)));
    if ctx.flag("--show") {
        eprintln!("{} -> {:?}", op.coq(), res);
    }
    let _ = std::fs::remove_dir_all(&dir);
    let res = match res {
        Ok(r) => r,
        Err(m) => {
            out.impl_failures.push(json!({"what":"panic","msg":m,"case":js}));
            return;
        }
    };
    if let Err(m) = &res {
        if m.starts_with("REREAD") {
            out.impl_failures.push(json!({"what":"output of the operation cannot be read back","msg":m,"case":js}));
            return;
        }
    }
    let coq = format!(
        "({}, {}, {})",
        coq_list(docs.iter().map(|d| coq_list(d.pages().into_iter().map(src_page_coq)))),
        op.coq(),
        coq_opt(res.as_ref().ok().map(|ds| coq_list(ds.iter().map(|d| coq_list(d.iter().map(out_page_coq))))))
    );
    let nt = match &res {
        Ok(ds) => ds.iter().map(|d| d.len()).sum::<usize>() >= 2,
        Err(_) => false,
    };
    out.push(coq, js, class, nt);
}

fn rand_range(r: &mut Rng, n: usize, allow_bad: bool) -> PR {
    let hi = if allow_bad && r.chance(1, 8) { n + 2 } else { n.max(1) };
    match r.below(4) {
        0 => PR::All,
        1 => PR::Single(r.below(hi as u64) as usize),
        2 => {
            let a = r.below(hi as u64) as usize;
            let b = r.below(hi as u64) as usize;
            if allow_bad && r.chance(1, 10) {
                PR::Range(a.max(b), a.min(b))
            } else {
                PR::Range(a.min(b), a.max(b))
            }
        }
        _ => PR::List((0..r.below(5)).map(|_| r.below(hi as u64) as usize).collect()),
    }
}
fn rand_op(r: &mut Rng, n: usize, ndocs: usize, which: u64) -> Op {
    let idx = |r: &mut Rng| {
        if r.chance(1, 10) {
            n + r.below(2) as usize
        } else {
            r.below(n.max(1) as u64) as usize
        }
    };
    match which {
        0 => Op::SplitSingle,
        1 => Op::SplitChunk(if r.chance(1, 12) { 0 } else { 1 + r.below(n as u64 + 1) as usize }),
        2 => Op::SplitRanges((0..1 + r.below(3)).map(|_| rand_range(r, n, true)).collect()),
        3 => {
            let mut l: Vec<usize> = (0..r.below(4)).map(|_| r.below(n as u64 + 2) as usize).collect();
            if !r.chance(1, 6) {
                l.sort();
            }
            Op::SplitAt(l)
        }
        4 => Op::Merge((0..1 + r.below(3)).map(|_| (r.below(ndocs as u64) as usize, if r.chance(1, 2) { Some(rand_range(r, n.min(2), false)) } else { None })).collect()),
        5 => Op::SplitMerge(if r.chance(1, 15) { 0 } else { 1 + r.below(n as u64) as usize }),
        6 => Op::ExtractPages((0..r.below(6)).map(|_| idx(r)).collect()),
        7 => Op::ExtractRange(rand_range(r, n, true)),
        8 => Op::ExtractPage(idx(r)),
        9 => {
            if r.chance(1, 2) {
                // a permutation
                let mut l: Vec<usize> = (0..n).collect();
                for i in (1..l.len()).rev() {
                    l.swap(i, r.below(i as u64 + 1) as usize);
                }
                Op::Reorder(l)
            } else {
                Op::Reorder((0..r.below(6)).map(|_| idx(r)).collect())
            }
        }
        10 => Op::Reverse,
        11 => Op::Swap(idx(r), idx(r)),
        12 => Op::Move(idx(r), idx(r)),
        _ => Op::Rotate(rand_range(r, n, true), *r.pick(&[0, 90, 180, 270, -90, 450, 360, -270, 45])),
    }
}

pub fn run(ctx: &Ctx) {
    let header = "From OxVerif Require Import Base.Util C16.Model.";
    let mut out = Out::new(ctx, header, "case", "case_code");
    out.shard_size = 40;
    if let Some(cases) = ctx.replay_cases() {
        for c in cases {
            let docs: Vec<SrcDoc> = c["docs"].as_array().unwrap().iter().map(src_doc_from).collect();
            emit(&mut out, ctx, &docs, &Op::from(&c["op"]), "replay");
        }
        out.finish("ops");
        return;
    }
    let mut r = Rng::new(ctx.seed ^ 0xC16);
    let mut uid = 0u64;
    // boundary catalogue (always run): /Rotate next to the i32 limits x every quadrant angle,
    // MediaBox [100 200 400 600] (the box of the design-phase observation), chunk size 0
    {
        let ext: [i64; 6] = [2147483647, 2147483610, 2147483520, -2147483648, -2147483610, 90];
        let pages: Vec<SrcPage> = ext
            .iter()
            .enumerate()
            .map(|(i, e)| SrcPage { media: [100, 200, 400 + i as i64, 600], crop: if i % 2 == 0 { Some([110, 210, 390, 590]) } else { None }, rotate: *e, streams: vec![format!("q {} 0 0 rg 100 200 300 400 re f Q", i).into_bytes()], res: 900 + i as u64, media_at: 0, crop_at: 0, rotate_at: 0, res_at: 0 })
            .collect();
        let d = SrcDoc { groups: vec![pages] };
        for a in [90, 180, 270, 0, -90] {
            emit(&mut out, ctx, &[d.clone()], &Op::Rotate(PR::All, a), "catalogue_rotate_extreme");
            for i in 0..ext.len() {
                emit(&mut out, ctx, &[d.clone()], &Op::Rotate(PR::Single(i), a), "catalogue_rotate_extreme");
            }
        }
        emit(&mut out, ctx, &[d.clone()], &Op::SplitChunk(0), "catalogue_chunk0");
        emit(&mut out, ctx, &[d.clone()], &Op::SplitMerge(0), "catalogue_chunk0");
        emit(&mut out, ctx, &[d.clone()], &Op::SplitMerge(4), "catalogue_boxes");
        emit(&mut out, ctx, &[d.clone()], &Op::Reverse, "catalogue_boxes");
        emit(&mut out, ctx, &[d.clone()], &Op::ExtractPages(vec![5, 0]), "catalogue_boxes");
    }
    let rounds = if ctx.thorough() { 130 } else { 26 };
    for round in 0..rounds {
        let n = 1 + (round % 7) as usize;
        let extremes = round % 5 == 4;
        let docs: Vec<SrcDoc> = (0..3).map(|k| { let np = if k == 0 { n } else { 1 + r.below(3) as usize }; gen_doc(&mut r, np, &mut uid, extremes) }).collect();
        // merge ranges are drawn for documents of >= 1 page; keep them inside every doc by construction (min 1 page => index 0 only when n.min(2)==1)
        for which in 0..14u64 {
            let reps = if which == 13 { 3 } else { 1 };
            for _ in 0..reps {
                let op = rand_op(&mut r, n, 3, which);
                let cls = if extremes && which == 13 { "rotate_extreme".to_string() } else { op.name().to_string() };
                emit(&mut out, ctx, &docs, &op, &cls);
            }
        }
    }
    out.finish("ops");
}
