//! C09 — writer object serializers (hook) and PdfObject::parse vs the Gallina models
//! `ser`, `ser_incr`, `parse` of coq/theories/C09/Model.v.
use crate::util::*;
use oxidize_pdf::objects::{Dictionary, Object, ObjectId};
use oxidize_pdf::parser::lexer::Lexer;
use oxidize_pdf::parser::objects::{PdfArray, PdfDictionary, PdfName, PdfObject, PdfString};
use serde_json::{json, Value};
use std::collections::HashMap;
use std::io::Cursor;

/// mirror of `objects::Object` without streams
#[derive(Clone, Debug)]
pub enum T {
    Null,
    Bool(bool),
    Int(i64),
    Real(f64),
    Str(String),
    Hex(Vec<u8>),
    Name(String),
    Arr(Vec<T>),
    Dict(Vec<(String, T)>),
    Ref(u32, u16),
}

pub fn to_json(t: &T) -> Value {
    match t {
        T::Null => json!(["null"]),
        T::Bool(b) => json!(["bool", b]),
        T::Int(i) => json!(["int", i.to_string()]),
        T::Real(f) => json!(["real", format!("{:016x}", f.to_bits())]),
        T::Str(s) => json!(["str", hex(s.as_bytes())]),
        T::Hex(b) => json!(["hex", hex(b)]),
        T::Name(n) => json!(["name", hex(n.as_bytes())]),
        T::Arr(l) => json!(["arr", l.iter().map(to_json).collect::<Vec<_>>()]),
        T::Dict(l) => json!(["dict", l.iter().map(|(k, v)| json!([hex(k.as_bytes()), to_json(v)])).collect::<Vec<_>>()]),
        T::Ref(n, g) => json!(["ref", n, g]),
    }
}
pub fn from_json(v: &Value) -> T {
    let a = v.as_array().unwrap();
    let s = |i: usize| a[i].as_str().unwrap();
    let utf = |h: &str| String::from_utf8(unhex(h)).expect("utf8 in replay case");
    match s(0) {
        "null" => T::Null,
        "bool" => T::Bool(a[1].as_bool().unwrap()),
        "int" => T::Int(s(1).parse().unwrap()),
        "real" => T::Real(f64::from_bits(u64::from_str_radix(s(1), 16).unwrap())),
        "str" => T::Str(utf(s(1))),
        "hex" => T::Hex(unhex(s(1))),
        "name" => T::Name(utf(s(1))),
        "arr" => T::Arr(a[1].as_array().unwrap().iter().map(from_json).collect()),
        "dict" => T::Dict(
            a[1].as_array()
                .unwrap()
                .iter()
                .map(|e| (utf(e[0].as_str().unwrap()), from_json(&e[1])))
                .collect(),
        ),
        _ => T::Ref(a[1].as_u64().unwrap() as u32, a[2].as_u64().unwrap() as u16),
    }
}

fn to_object(t: &T) -> Object {
    match t {
        T::Null => Object::Null,
        T::Bool(b) => Object::Boolean(*b),
        T::Int(i) => Object::Integer(*i),
        T::Real(f) => Object::Real(*f),
        T::Str(s) => Object::String(s.clone()),
        T::Hex(b) => Object::ByteString(b.clone()),
        T::Name(n) => Object::Name(n.clone()),
        T::Arr(l) => Object::Array(l.iter().map(to_object).collect()),
        T::Dict(l) => {
            let mut d = Dictionary::new();
            for (k, v) in l {
                d.set(k.clone(), to_object(v));
            }
            Object::Dictionary(d)
        }
        T::Ref(n, g) => Object::Reference(ObjectId::new(*n, *g)),
    }
}
/// the parsed-object view for the incremental writer: a name is any Rust String (since
/// fix_name_utf8 a parsed name can hold any char, not only chars <= 0xFF)
fn to_pdfobject(t: &T) -> PdfObject {
    match t {
        T::Null => PdfObject::Null,
        T::Bool(b) => PdfObject::Boolean(*b),
        T::Int(i) => PdfObject::Integer(*i),
        T::Real(f) => PdfObject::Real(*f),
        T::Str(s) => PdfObject::String(PdfString(s.as_bytes().to_vec())),
        T::Hex(b) => PdfObject::String(PdfString(b.clone())),
        T::Name(n) => PdfObject::Name(PdfName(n.clone())),
        T::Arr(l) => PdfObject::Array(PdfArray(l.iter().map(to_pdfobject).collect())),
        T::Dict(l) => {
            let mut d = HashMap::new();
            for (k, v) in l {
                d.insert(PdfName(k.clone()), to_pdfobject(v));
            }
            PdfObject::Dictionary(PdfDictionary(d))
        }
        T::Ref(n, g) => PdfObject::Reference(*n, *g),
    }
}

/// |f| printed by the very call the writer uses, read as an integer count of millionths
pub fn millionths(f: f64) -> String {
    let s = format!("{:.6}", f.abs());
    let d: String = s.chars().filter(|c| c.is_ascii_digit()).collect();
    let d = d.trim_start_matches('0');
    if d.is_empty() {
        "0".into()
    } else {
        d.into()
    }
}
/// how a name String crosses into Coq, on BOTH sides (source names and parsed names): its UTF-8 bytes
fn name_utf8(s: &str) -> Vec<u8> {
    s.as_bytes().to_vec()
}

/// Coq term of the source value.  `name_bytes` says how a name String is seen as bytes.
fn coq_obj(t: &T, name_bytes: &dyn Fn(&str) -> Vec<u8>) -> String {
    match t {
        T::Null => "ONull".into(),
        T::Bool(b) => format!("OBool {}", coq_bool(*b)),
        T::Int(i) => format!("OInt {}", coq_z(*i as i128)),
        T::Real(f) => format!("OReal {} {}", coq_bool(f.is_sign_negative()), millionths(*f)),
        T::Str(s) => format!("OStr {}", coq_bytes(s.as_bytes())),
        T::Hex(b) => format!("OHex {}", coq_bytes(b)),
        T::Name(n) => format!("OName {}", coq_bytes(&name_bytes(n))),
        T::Arr(l) => format!("OArr {}", coq_list(l.iter().map(|x| format!("({})", coq_obj(x, name_bytes))))),
        T::Dict(l) => format!(
            "ODict {}",
            coq_list(l.iter().map(|(k, v)| format!("({}, {})", coq_bytes(&name_bytes(k)), coq_obj(v, name_bytes))))
        ),
        T::Ref(n, g) => format!("ORef {} {}", n, g),
    }
}

/// Coq term of what the library parsed; dictionaries as sorted association lists
pub fn coq_pobj(o: &PdfObject) -> Option<String> {
    Some(match o {
        PdfObject::Null => "PNull".into(),
        PdfObject::Boolean(b) => format!("PBool {}", coq_bool(*b)),
        PdfObject::Integer(i) => format!("PInt {}", coq_z(*i as i128)),
        PdfObject::Real(f) => {
            if !f.is_finite() {
                return None;
            }
            format!("PReal {} (Some {})", coq_bool(f.is_sign_negative()), millionths(*f))
        }
        PdfObject::String(s) => format!("PStr {}", coq_bytes(&s.0)),
        PdfObject::Name(n) => format!("PName {}", coq_bytes(&name_utf8(&n.0))),
        PdfObject::Array(a) => {
            let mut v = vec![];
            for x in &a.0 {
                v.push(format!("({})", coq_pobj(x)?));
            }
            format!("PArr {}", coq_list(v))
        }
        PdfObject::Dictionary(d) => {
            let mut es: Vec<(Vec<u8>, &PdfObject)> = d.0.iter().map(|(k, v)| (name_utf8(&k.0), v)).collect();
            es.sort_by(|a, b| a.0.cmp(&b.0));
            let mut v = vec![];
            for (k, x) in es {
                v.push(format!("({}, {})", coq_bytes(&k), coq_pobj(x)?));
            }
            format!("PDict {}", coq_list(v))
        }
        PdfObject::Stream(_) => return None,
        PdfObject::Reference(n, g) => format!("PRef {} {}", n, g),
    })
}

pub fn parse_bytes(b: &[u8]) -> Result<Result<PdfObject, String>, String> {
    let b = b.to_vec();
    catch(move || {
        let mut lx = Lexer::new(Cursor::new(b));
        PdfObject::parse(&mut lx).map_err(|e| format!("{e:?}"))
    })
}

// ------------------------------------------------------------------ flaws (known classes)
fn irregular_name(n: &str) -> bool {
    n.bytes().any(|b| {
        b.is_ascii_whitespace() || matches!(b, b'/' | b'<' | b'>' | b'[' | b']' | b'(' | b')' | b'%' | b'#')
    })
}
fn prints_as_int(t: &T) -> Option<i128> {
    match t {
        T::Int(i) => Some(*i as i128),
        T::Real(f) if f.is_finite() => {
            let s = format!("{:.6}", f);
            let s = s.trim_end_matches('0').trim_end_matches('.');
            if s.contains('.') {
                None
            } else {
                s.parse::<i128>().ok()
            }
        }
        _ => None,
    }
}
pub fn flaws(t: &T, out: &mut Vec<&'static str>) {
    match t {
        // names are #XX-escaped since fix_name_escape (white space, delimiters, '#' are no flaw) and read as UTF-8
        // since fix_name_utf8 (non-ASCII is no flaw either): no name is a flaw any more
        T::Real(f) => {
            if !f.is_finite() {
                out.push("real-nonfinite")
            } else if let Some(i) = prints_as_int(t) {
                if i > i64::MAX as i128 || i < i64::MIN as i128 {
                    out.push("real-ge-2p63")
                }
            } else if f.abs() >= 9.3e18 {
                out.push("real-ge-2p63") // cannot be told apart without the digits: same class
            }
        }
        T::Ref(n, _) => {
            if *n > 9_999_999 {
                out.push("objnum-gt-9999999")
            }
        }
        T::Arr(l) => {
            for w in l.windows(3) {
                if let (Some(i), Some(g), T::Name(n)) = (prints_as_int(&w[0]), prints_as_int(&w[1]), &w[2]) {
                    if (0..=9_999_999).contains(&i) && (0..=65535).contains(&g) && n == "R" {
                        out.push("int-int-nameR");
                    }
                }
            }
            for x in l {
                flaws(x, out)
            }
        }
        T::Dict(l) => {
            for (_, v) in l {
                flaws(v, out)
            }
        }
        _ => {}
    }
}
fn has_nonascii_name(t: &T) -> bool {
    match t {
        T::Name(n) => !n.is_ascii(),
        T::Arr(l) => l.iter().any(has_nonascii_name),
        T::Dict(l) => l.iter().any(|(k, v)| !k.is_ascii() || has_nonascii_name(v)),
        _ => false,
    }
}
fn size(t: &T) -> usize {
    match t {
        T::Arr(l) => 1 + l.iter().map(size).sum::<usize>(),
        T::Dict(l) => 1 + l.iter().map(|(_, v)| size(v)).sum::<usize>(),
        _ => 1,
    }
}
fn depth(t: &T) -> usize {
    match t {
        T::Arr(l) => 1 + l.iter().map(depth).max().unwrap_or(0),
        T::Dict(l) => 1 + l.iter().map(|(_, v)| depth(v)).max().unwrap_or(0),
        _ => 0,
    }
}

// ------------------------------------------------------------------ generators
const REG_NAME_CHARS: &[u8] = b"ABCDEFGHIJKLMNOPQRSTUVWXYZabcdefghijklmnopqrstuvwxyz0123456789+-._@$:;*?!\"&'=^`{|}~,\\";
pub fn gen_regular_name(r: &mut Rng) -> String {
    if r.chance(1, 12) {
        return "R".into();
    }
    let n = if r.chance(1, 25) { 0 } else { r.range(1, 10) };
    let mut s = String::new();
    for _ in 0..n {
        match r.below(12) {
            0 => s.push(char::from_u32(r.range(0xA0, 0xFF) as u32).unwrap()),
            1 => s.push(*r.pick(&['\u{0}', '\u{1}', '\u{7}', '\u{b}', '\u{7f}', '\u{80}', '\u{9f}', 'é', '日', '😀'])),
            _ => s.push(*r.pick(REG_NAME_CHARS) as char),
        }
    }
    s
}
/// a char whose UTF-8 form has exactly `nbytes` bytes (2: U+0080..U+07FF, 3: U+0800..U+FFFF without surrogates,
/// 4: U+10000..U+10FFFF), boundaries over-weighted
pub fn gen_utf8_char(r: &mut Rng, nbytes: usize) -> char {
    let (lo, hi, edges): (u32, u32, &[u32]) = match nbytes {
        2 => (0x80, 0x7FF, &[0x80, 0x9F, 0xA0, 0xE9, 0xFF, 0x100, 0x7FF]),
        3 => (0x800, 0xFFFF, &[0x800, 0xFFF, 0x1000, 0x4E2D, 0xCFFF, 0xD000, 0xD7FF, 0xE000, 0xFEFF, 0xFFFD, 0xFFFF]),
        _ => (0x10000, 0x10FFFF, &[0x10000, 0x1F600, 0x3FFFF, 0x40000, 0xFFFFF, 0x100000, 0x10FFFF]),
    };
    loop {
        let c = if r.chance(1, 3) { *r.pick(edges) } else { r.range(lo as u64, hi as u64) as u32 };
        if let Some(ch) = char::from_u32(c) {
            return ch;
        }
    }
}
/// a name with at least one char of the given UTF-8 length, mixed with regular and irregular ASCII
pub fn gen_utf8_name(r: &mut Rng, nbytes: usize) -> String {
    let base = if r.chance(1, 3) { gen_irregular_name(r) } else { gen_regular_name(r) };
    let mut cs: Vec<char> = base.chars().collect();
    if cs.len() == 1 && cs[0] == 'R' && r.chance(1, 2) {
        cs.clear();
    }
    for _ in 0..r.range(1, 3) {
        let pos = r.below(cs.len() as u64 + 1) as usize;
        cs.insert(pos, gen_utf8_char(r, nbytes));
    }
    cs.into_iter().collect()
}
/// any name: one third with white space / a delimiter / '#' (escaped by the writer since fix_name_escape)
pub fn gen_any_name(r: &mut Rng) -> String {
    if r.chance(1, 3) {
        gen_irregular_name(r)
    } else {
        gen_regular_name(r)
    }
}
/// remove every non-ASCII char from the names of a tree (dictionary keys that collide afterwards are dropped)
pub fn ascii_names_only(t: &mut T) {
    match t {
        T::Name(n) => n.retain(|c| c.is_ascii()),
        T::Arr(l) => l.iter_mut().for_each(ascii_names_only),
        T::Dict(l) => {
            let mut seen: Vec<String> = vec![];
            let mut out = vec![];
            for (mut k, mut v) in l.drain(..) {
                k.retain(|c| c.is_ascii());
                if seen.contains(&k) {
                    continue;
                }
                seen.push(k.clone());
                ascii_names_only(&mut v);
                out.push((k, v));
            }
            *l = out;
        }
        _ => {}
    }
}
pub fn gen_irregular_name(r: &mut Rng) -> String {
    let mut s = gen_regular_name(r);
    if s == "R" {
        s = "Im".into();
    }
    let bad = *r.pick(&[' ', '\t', '\n', '\r', '\u{c}', '/', '<', '>', '[', ']', '(', ')', '%', '#']);
    let pos = r.below(s.chars().count() as u64 + 1) as usize;
    let mut o: String = s.chars().take(pos).collect();
    o.push(bad);
    if bad == '#' && r.chance(1, 2) {
        o.push_str(*r.pick(&["20", "4", "zz", "+5", "41"]));
    }
    o.extend(s.chars().skip(pos));
    o
}
fn gen_string(r: &mut Rng) -> String {
    let n = match r.below(10) {
        0 => 0,
        1..=7 => r.range(1, 12),
        _ => r.range(13, 60),
    };
    let mut s = String::new();
    for _ in 0..n {
        match r.below(16) {
            0 | 1 => s.push('\\'),
            2 => s.push('('),
            3 => s.push(')'),
            4 => s.push(*r.pick(&['\r', '\n', '\t', '\u{8}', '\u{c}', '\u{0}', '\u{7f}'])),
            5 => s.push(char::from_u32(r.range(0x80, 0xFF) as u32).unwrap()),
            6 => s.push(*r.pick(&['日', '😀', '\u{feff}', 'ÿ'])),
            7 => s.push(*r.pick(&['0', '7', '8', 'n', 'r', 't', 'b', 'f'])),
            _ => s.push(r.range(0x20, 0x7e) as u8 as char),
        }
    }
    s
}
fn gen_int(r: &mut Rng) -> i64 {
    match r.below(12) {
        0 => *r.pick(&[i64::MIN, i64::MAX, i64::MIN + 1, -1, 0, 1, 9_999_999, 10_000_000, 65535, 65536]),
        1..=6 => r.range(0, 70000) as i64,
        7..=8 => -(r.range(0, 100000) as i64),
        _ => r.next() as i64 >> r.below(60),
    }
}
fn gen_real(r: &mut Rng) -> f64 {
    match r.below(14) {
        0 => *r.pick(&[0.0, -0.0, 1.0, -1.0, 0.5, 1e-7, -1e-7, 4.9e-7, 5e-7, 5.1e-7, 0.1, 0.0078125, 1e15, 123456.789, 9.2e18, -9.2e18, 9007199254740992.0, 0.999_999_5, 0.999_999_4]),
        1..=3 => (r.range(0, 2_000_000) as f64 - 1_000_000.0) / 1000.0,
        4..=5 => (r.next() as i64 >> r.below(40)) as f64 / 1_000_000.0,
        6 => r.range(0, 100000) as f64,
        7 => f64::from_bits(r.next()),
        8 => (r.next() >> 11) as f64 / (1u64 << 53) as f64,
        9 => ((r.next() >> 11) as f64 / (1u64 << 53) as f64) * 1e-5,
        _ => ((r.next() >> 11) as f64 / (1u64 << 53) as f64 - 0.5) * 10f64.powi(r.below(17) as i32),
    }
}
fn finite_small(f: f64) -> f64 {
    // the generator of well-formed trees keeps reals finite and below 2^63 when integral
    if !f.is_finite() || f.abs() >= 9.0e18 {
        1.25
    } else {
        f
    }
}
fn gen_atom(r: &mut Rng) -> T {
    match r.below(16) {
        0 => T::Null,
        1 => T::Bool(r.chance(1, 2)),
        2..=4 => T::Int(gen_int(r)),
        5..=6 => T::Real(finite_small(gen_real(r))),
        7..=9 => T::Str(gen_string(r)),
        10 => {
            let n = r.range(0, 20) as usize;
            T::Hex(r.bytes(n))
        }
        11..=13 => T::Name(gen_any_name(r)),
        _ => {
            let hi = if r.chance(1, 4) { 9_999_999 } else { 300 };
            let n = r.range(0, hi) as u32;
            let g = if r.chance(1, 4) { r.range(0, 65535) as u16 } else { 0 };
            T::Ref(n, g)
        }
    }
}
pub fn gen_tree(r: &mut Rng, depth: usize, budget: &mut usize) -> T {
    if depth == 0 || *budget <= 1 || r.chance(1, 4) {
        *budget = budget.saturating_sub(1);
        return gen_atom(r);
    }
    *budget -= 1;
    let n = match r.below(8) {
        0 => 0,
        1..=5 => r.range(1, 5),
        _ => r.range(6, 14),
    } as usize;
    if r.chance(1, 2) {
        let mut l = vec![];
        for _ in 0..n {
            if *budget == 0 {
                break;
            }
            l.push(gen_tree(r, depth - 1, budget));
        }
        fix_collisions(&mut l);
        T::Arr(l)
    } else {
        let mut l: Vec<(String, T)> = vec![];
        for _ in 0..n {
            if *budget == 0 {
                break;
            }
            let k = gen_any_name(r);
            if l.iter().any(|(k2, _)| *k2 == k) {
                continue;
            }
            l.push((k, gen_tree(r, depth - 1, budget)));
        }
        T::Dict(l)
    }
}
fn fix_all_collisions(t: &mut T) {
    match t {
        T::Arr(l) => {
            fix_collisions(l);
            l.iter_mut().for_each(fix_all_collisions);
        }
        T::Dict(l) => l.iter_mut().for_each(|(_, v)| fix_all_collisions(v)),
        _ => {}
    }
}
/// well-formed trees must not contain `i g /R` in an array
fn fix_collisions(l: &mut Vec<T>) {
    for i in 0..l.len().saturating_sub(2) {
        let mut f = vec![];
        flaws(&T::Arr(l[i..i + 3].to_vec()), &mut f);
        if f.contains(&"int-int-nameR") {
            l[i + 2] = T::Name("Rx".into());
        }
    }
}

fn flawed_tree(r: &mut Rng, kind: &str) -> T {
    let bad = match kind {
        // no flaw any more (fix_name_utf8): kept as a generator of trees with at least one non-ASCII name
        "name-nonascii" => T::Name(loop {
            let n = gen_any_name(r);
            if !n.is_ascii() {
                break n;
            }
        }),
        "real-ge-2p63" => T::Real(*r.pick(&[9223372036854775808.0, 1e19, -1e19, 1.5e30, -9223372036854777856.0, 1.7e308])),
        "objnum-gt-9999999" => T::Ref(r.range(10_000_000, u32::MAX as u64) as u32, r.range(0, 3) as u16),
        _ => T::Null,
    };
    match kind {
        "int-int-nameR" => {
            let a = if r.chance(1, 3) { T::Real(r.range(0, 50) as f64) } else { T::Int(r.range(0, 9_999_999) as i64) };
            let b = if r.chance(1, 4) { T::Real(0.0) } else { T::Int(r.range(0, 65535) as i64) };
            let mut l = vec![];
            if r.chance(1, 2) {
                l.push(gen_atom(r));
            }
            l.extend([a, b, T::Name("R".into())]);
            if r.chance(1, 2) {
                l.push(T::Int(7));
            }
            fix_collisions_except(&mut l);
            T::Arr(l)
        }
        "name-nonascii" if r.chance(1, 3) => T::Dict(vec![(format!("{}\u{e9}", gen_irregular_name(r)), T::Int(1)), ("Z".into(), T::Null)]),
        _ => match r.below(3) {
            0 => bad,
            1 => T::Arr(vec![T::Int(3), bad, T::Null]),
            _ => T::Dict(vec![("A".into(), bad), ("B".into(), T::Int(5))]),
        },
    }
}
fn fix_collisions_except(_l: &mut Vec<T>) {}

// ------------------------------------------------------------------ channels
fn emit_ser(out: &mut Out, t: &T, class: &str) {
    let obj = to_object(t);
    let o1 = obj.clone();
    let stream = catch(std::panic::AssertUnwindSafe(move || oxidize_pdf::writer::verif_write_object_value(&o1).map_err(|e| format!("{e:?}"))));
    let o2 = obj.clone();
    let buf = catch(std::panic::AssertUnwindSafe(move || oxidize_pdf::writer::verif_write_object_value_to_buffer(&o2).map_err(|e| format!("{e:?}"))));
    let js_base = json!({"chan":"ser","tree":to_json(t)});
    let mut fl = vec![];
    flaws(t, &mut fl);
    fl.sort();
    fl.dedup();
    let mut variants: Vec<(&str, Vec<u8>)> = vec![];
    match (stream, buf) {
        (Ok(Ok(a)), Ok(Ok(b))) => {
            if a != b {
                variants.push(("to_buffer", b));
            }
            variants.push(("streaming", a));
        }
        (a, b) => {
            out.impl_failures.push(json!({"what":"serializer failed or panicked","detail":format!("{:?} / {:?}", a.map(|x| x.map(|_| ())), b.map(|x| x.map(|_| ()))),"case":js_base}));
            return;
        }
    }
    for (which, bytes) in variants {
        let parsed = match parse_bytes(&bytes) {
            Ok(Ok(o)) => coq_pobj(&o),
            Ok(Err(_)) => None,
            Err(m) => {
                out.impl_failures.push(json!({"what":"parser panicked","msg":m,"case":js_base}));
                return;
            }
        };
        let coq = format!("({}, {}, {})", coq_obj(t, &|s| name_utf8(s)), coq_bytes(&bytes), coq_opt(parsed.map(|p| format!("({p})"))));
        let mut js = js_base.clone();
        js["serializer"] = json!(which);
        js["flaws"] = json!(fl);
        js["written"] = json!(String::from_utf8_lossy(&bytes[..bytes.len().min(200)]));
        out.push(coq, js, class, size(t) >= 3 && depth(t) >= 1);
    }
}

fn emit_incr(out: &mut Out, t: &T, class: &str) {
    let po = to_pdfobject(t);
    let res = catch(std::panic::AssertUnwindSafe(move || oxidize_pdf::writer::verif_incr_write_object(&po).map_err(|e| format!("{e:?}"))));
    let js_base = json!({"chan":"incr","tree":to_json(t)});
    let bytes = match res {
        Ok(Ok(b)) => b,
        other => {
            out.impl_failures.push(json!({"what":"incremental serializer failed","detail":format!("{:?}", other.map(|x| x.map(|_| ()))),"case":js_base}));
            return;
        }
    };
    let parsed = match parse_bytes(&bytes) {
        Ok(Ok(o)) => coq_pobj(&o),
        Ok(Err(_)) => None,
        Err(m) => {
            out.impl_failures.push(json!({"what":"parser panicked","msg":m,"case":js_base}));
            return;
        }
    };
    let coq = format!("({}, {}, {})", coq_obj(t, &|s| name_utf8(s)), coq_bytes(&bytes), coq_opt(parsed.map(|p| format!("({p})"))));
    let mut js = js_base;
    let mut fl = vec![];
    flaws(t, &mut fl);
    fl.sort();
    fl.dedup();
    js["flaws"] = json!(fl);
    js["written"] = json!(String::from_utf8_lossy(&bytes[..bytes.len().min(200)]));
    out.push(coq, js, class, size(t) >= 3);
}

fn emit_lex(out: &mut Out, bytes: &[u8], class: &str) {
    let js = json!({"chan":"lex","bytes":hex(bytes)});
    let parsed = match parse_bytes(bytes) {
        Ok(Ok(o)) => match coq_pobj(&o) {
            Some(p) => Some(p),
            None => return, // stream or non-finite real: outside the model, not generated on purpose
        },
        Ok(Err(_)) => None,
        Err(m) => {
            out.impl_failures.push(json!({"what":"parser panicked","msg":m,"case":js}));
            return;
        }
    };
    let coq = format!("({}, {})", coq_bytes(bytes), coq_opt(parsed.map(|p| format!("({p})"))));
    out.push(coq, js, class, bytes.len() > 6);
}

/// token text the writer never produces: escapes, octal, nested parentheses, hex strings with
/// white space and odd length, #xx names, signs, comments, skipped bytes
fn gen_lex_text(r: &mut Rng) -> Vec<u8> {
    fn lit(r: &mut Rng) -> Vec<u8> {
        let mut s = vec![b'('];
        let mut open = 0;
        for _ in 0..r.range(0, 14) {
            match r.below(14) {
                0 => {
                    s.push(b'\\');
                    for _ in 0..r.range(1, 4) {
                        s.push(b'0' + r.below(8) as u8);
                    }
                }
                1 => {
                    s.push(b'\\');
                    s.push(*r.pick(b"nrtbf()\\xq89 \n\r"));
                }
                2 => {
                    s.push(b'(');
                    open += 1;
                }
                3 => {
                    if open > 0 {
                        s.push(b')');
                        open -= 1;
                    }
                }
                4 => s.push(r.next() as u8),
                5 => s.push(*r.pick(b"\r\n\t\0")),
                6 => s.push(b'0' + r.below(10) as u8),
                _ => s.push(r.range(0x20, 0x7e) as u8),
            }
            if s.last() == Some(&b'(') && s.len() >= 2 && s[s.len() - 2] != b'\\' && open == 0 {
                open += 1; // an unescaped '(' produced by the printable branch
            }
        }
        // balance what is open (unescaped parentheses from the random branches may still unbalance: fine, both sides must agree)
        for _ in 0..open {
            s.push(b')');
        }
        s.push(b')');
        s
    }
    fn name(r: &mut Rng) -> Vec<u8> {
        let mut s = vec![b'/'];
        for _ in 0..r.range(0, 8) {
            match r.below(8) {
                0 => {
                    s.push(b'#');
                    s.push(*r.pick(b"0123456789abcdefABCDEF+gG- "));
                    s.push(*r.pick(b"0123456789abcdefABCDEF+gG-"));
                }
                1 => s.push(r.range(0x80, 0xff) as u8),
                2 => s.push(*r.pick(b"\0\x01\x07\x0b{}!\"&'")),
                _ => s.push(*r.pick(REG_NAME_CHARS)),
            }
        }
        s
    }
    fn hexs(r: &mut Rng) -> Vec<u8> {
        let mut s = vec![b'<'];
        for _ in 0..r.range(0, 12) {
            match r.below(10) {
                0 => s.push(*r.pick(b" \n\r\t\x0c")),
                1 => {
                    if r.chance(1, 6) {
                        s.push(*r.pick(b"gxz\0"))
                    }
                }
                _ => s.push(*r.pick(b"0123456789abcdefABCDEF")),
            }
        }
        s.push(b'>');
        s
    }
    fn number(r: &mut Rng) -> Vec<u8> {
        let mut s = vec![];
        match r.below(6) {
            0 => s.push(b'+'),
            1 | 2 => s.push(b'-'),
            _ => {}
        }
        let nd = r.range(0, 9);
        for _ in 0..nd {
            s.push(b'0' + r.below(10) as u8);
        }
        if r.chance(1, 2) {
            s.push(b'.');
            for _ in 0..r.range(0, 6.min(15 - nd)) {
                s.push(b'0' + r.below(10) as u8);
            }
            if r.chance(1, 20) {
                s.push(b'.');
            }
        } else if r.chance(1, 10) {
            for _ in 0..12 {
                s.push(b'0' + r.below(10) as u8);
            }
        }
        if s.is_empty() {
            s.push(b'7');
        }
        s
    }
    fn item(r: &mut Rng, depth: usize) -> Vec<u8> {
        match r.below(16) {
            0..=3 => lit(r),
            4..=5 => name(r),
            6..=7 => hexs(r),
            8..=9 => number(r),
            10 => r.pick(&[&b"true"[..], b"false", b"null", b"R", b"tru", b"nul", b"obj", b"endobj", b"trueX", b"xyz", b"startxref"]).to_vec(),
            11 => {
                let mut s = b"%c".to_vec();
                s.push(*r.pick(b"\r\n"));
                s.extend(item(r, depth));
                s
            }
            12 => vec![*r.pick(b";;\x00\x01\x07\x80\x9f\xa0{})>")],
            _ if depth > 0 => {
                let mut s = vec![];
                let dict = r.chance(1, 2);
                s.extend(if dict { &b"<<"[..] } else { b"[" });
                for _ in 0..r.range(0, 5) {
                    if dict {
                        s.extend(name(r));
                        s.extend(*r.pick(&[&b" "[..], b"", b"\n", b"\r\n"]));
                    }
                    s.extend(item(r, depth - 1));
                    s.extend(*r.pick(&[&b" "[..], b"", b"\n", b"  ", b"\x0c", b"\t"]));
                }
                s.extend(if dict { &b">>"[..] } else { b"]" });
                s
            }
            _ => number(r),
        }
    }
    let mut s = vec![];
    if r.chance(1, 5) {
        s.extend(*r.pick(&[&b" "[..], b"\n\r", b"\x0c", b"%x\n", b";"]));
    }
    s.extend(item(r, 3));
    if r.chance(1, 3) {
        s.extend(*r.pick(&[&b" "[..], b" 0 R", b" 0", b" 65536 R", b"%", b" /R", b")", b" \x80", b"\x80 "]));
    }
    s
}

/// token text of ONE name whose decoded bytes are `bytes`: every byte raw or as #XX (either hex case);
/// bytes read_name would stop at, and '#', are always escaped
fn name_token(r: &mut Rng, bytes: &[u8]) -> Vec<u8> {
    let mut s = vec![b'/'];
    for &b in bytes {
        let must = b.is_ascii_whitespace() || b"/<>[]()%#".contains(&b);
        if must || r.chance(1, 2) {
            let h = if r.chance(1, 3) { format!("#{:02x}", b) } else { format!("#{:02X}", b) };
            s.extend(h.as_bytes());
        } else {
            s.push(b);
        }
    }
    s
}
/// decoded name bytes that are NOT valid UTF-8 (Rust's from_utf8 is only used to label the case):
/// stray continuation, lead byte at the end or before a non-continuation, surrogates ED A0..BF, overlongs
/// C0/C1, E0 80..9F, F0 80..8F, F4 90.. (> U+10FFFF), F5..FF, truncated 3-/4-byte sequences, a valid
/// sequence next to one bad byte (the WHOLE name then keeps the Latin-1 view)
fn gen_invalid_utf8(r: &mut Rng) -> Vec<u8> {
    loop {
        let mut v: Vec<u8> = vec![];
        for _ in 0..r.below(3) {
            v.push(*r.pick(REG_NAME_CHARS));
        }
        let cont = |r: &mut Rng| r.range(0x80, 0xBF) as u8;
        match r.below(13) {
            0 => v.push(cont(r)),
            1 => v.push(r.range(0xC2, 0xF4) as u8),
            2 => {
                v.push(r.range(0xC2, 0xDF) as u8);
                v.push(*r.pick(b"A\x00\xC0\xFF\x7F"));
            }
            3 => v.extend([0xED, r.range(0xA0, 0xBF) as u8, cont(r)]),
            4 => v.extend([r.range(0xC0, 0xC1) as u8, cont(r)]),
            5 => v.extend([0xE0, r.range(0x80, 0x9F) as u8, cont(r)]),
            6 => v.extend([0xF0, r.range(0x80, 0x8F) as u8, cont(r), cont(r)]),
            7 => v.extend([0xF4, r.range(0x90, 0xBF) as u8, cont(r), cont(r)]),
            8 => v.extend([r.range(0xF5, 0xFF) as u8, cont(r), cont(r), cont(r)]),
            9 => v.extend([r.range(0xE1, 0xEC) as u8, cont(r)]),
            10 => v.extend([r.range(0xF1, 0xF3) as u8, cont(r), cont(r)]),
            11 => {
                let n = r.range(2, 4) as usize;
                v.extend(gen_utf8_char(r, n).to_string().as_bytes());
                v.push(r.range(0xA0, 0xFF) as u8);
            }
            _ => {
                v.push(r.range(0xA0, 0xFF) as u8);
                let n = r.range(2, 4) as usize;
                v.extend(gen_utf8_char(r, n).to_string().as_bytes());
            }
        }
        for _ in 0..r.below(3) {
            v.push(*r.pick(REG_NAME_CHARS));
        }
        if std::str::from_utf8(&v).is_err() {
            return v;
        }
    }
}
/// a name token alone, in an array, or as key and value of a dictionary
fn wrap_name_token(r: &mut Rng, tok: &[u8], tok2: &[u8]) -> Vec<u8> {
    let mut s = vec![];
    match r.below(4) {
        0 => s.extend(tok),
        1 => {
            s.extend(b"[");
            s.extend(tok);
            s.extend(b" 1 ");
            s.extend(tok2);
            s.extend(b"]");
        }
        _ => {
            s.extend(b"<< ");
            s.extend(tok);
            s.extend(b" 1 /Z ");
            s.extend(tok2);
            s.extend(b" >>");
        }
    }
    s
}
/// the Latin-1 view of bytes, as UTF-8 (what a name of invalid bytes becomes as a String)
fn latin1_as_utf8(b: &[u8]) -> Vec<u8> {
    b.iter().map(|&c| c as char).collect::<String>().into_bytes()
}

/// names through the reader after fix_name_utf8: escaped/raw UTF-8 (valid: the String), bytes that are not UTF-8
/// (Latin-1 view), and two spellings of one String as keys of one dictionary
const FIXED_LEX_NAMES: &[&[u8]] = &[
    b"/caf#E9", b"/#C3", b"/#ED#A0#80", b"/#C3#A9", b"/caf#C3#A9", b"/#E4#B8#AD", b"/#F0#9F#98#80", b"/#c3#a9#e4#b8#ad1", b"/#C0#80", b"/#C1#BF",
    b"/#E0#9F#BF", b"/#E0#A0#80", b"/#ED#9F#BF", b"/#ED#BF#BF", b"/#EE#80#80", b"/#EF#BF#BF", b"/#F0#8F#BF#BF", b"/#F0#90#80#80", b"/#F4#8F#BF#BF",
    b"/#F4#90#80#80", b"/#F5#80#80#80", b"/#FF", b"/#80", b"/#BF", b"/#C2#80", b"/#DF#BF", b"/#C2", b"/#C2A", b"/#E4#B8", b"/#F0#9F#98", b"/#C3#A9#E9",
    b"/#E9#C3#A9", b"/caf\xe9", b"/caf\xc3\xa9", b"/\xe4\xb8\xad", b"/\xf0\x9f\x98\x80", b"/\x80x", b"/a\x9fb", b"/\xed\xa0\x80", b"/\xc3#A9", b"/#C3\xa9",
    b"<< /#E9 1 /#C3#A9 2 >>", b"<< /#C3#A9 1 /#E9 2 >>", b"<< /#E9 1 /#C3#A9 2 /#e9 3 >>", b"[/#C3#A9 /#E9 /#C3#83#C2#A9]", b"<< /#C3#83#C2#A9 1 /#C3#A9 2 >>",
    b"<< /#ED#A0#80 1 /#C3#AD#C2#A0#C2#80 2 >>", b"[1 0 /#52]", b"[1 0 /R#C3#A9]", b"/#00#C3#A9", b"/#C3#A9#00",
];

const FIXED_LEX: &[&[u8]] = &[
    b"(a\\053b)", b"(\\53x)", b"(\\5)", b"(\\0053)", b"(\\777)", b"(\\400)", b"(\\18)", b"(\\128)", b"(\\12", b"(a\\\nb)", b"(a\\\r\nb)",
    b"(a\rb)", b"(a\r\nb)", b"(a(b)c)", b"(a\\(b)", b"(()", b"())", b"(\\n\\r\\t\\b\\f\\(\\)\\\\\\q)", b"/A#20B", b"/A#2", b"/A#", b"/A#zz", b"/A#+5", b"/A#-5",
    b"/#41#42", b"/", b"/ ", b"//", b"/A/B", b"/A(b)", b"<4>", b"<>", b"<4 1>", b"<4g>", b"<41", b"<<>>", b"<< /A 1 /B 0 /R 2 >>", b"[1 0 /R]",
    b"[1 0 R]", b"1 0 R", b"1 0 R 5", b"[1 2 3]", b"[10000000 0 R]", b"[1 65536 R]", b"[-1 0 R]", b"[1 0 0 R]", b"[0 0 R R]", b"1", b"1 2", b"1 2 ]", b"+", b"-", b".", b"-.",
    b"+.5", b"5.", b"-0", b"-0.0", b"1.5e3", b"1e", b"1e+", b".e5", b"1.e5", b"9223372036854775807", b"9223372036854775808", b"-9223372036854775808",
    b"-9223372036854775809", b"00012", b"1.2.3", b"1..2", b"+-1", b"true", b"false", b"null", b"truefalse", b"n", b"t", b"R", b"Rx", b"stream", b"obj",
    b"<< /A 1 >> stream", b"<< /A 1 >> endobj", b"<< /A 1 >>%c\n 5", b"[%c\n1]", b"<<%c\r/A 1>>", b"%only", b"", b" ", b";", b";;1", b"\x80", b"\x80 ", b"\x801", b"\x80 1", b"\x07[1]",
    b"\xa0", b"{", b")", b">", b">x", b"[1 )", b"<< 1 2 >>", b"<< /A >>", b"[", b"<<", b"<< /A", b"[1 2 9223372036854775808]", b"[/A/B(c)<41>[]<<>>]", b"\x00[1]", b"[1\x002]",
];

pub fn run(ctx: &Ctx) {
    let header = "From OxVerif Require Import Base.Util C09.Model.";
    let replay = ctx.replay_cases();
    let in_chan = |c: &Value, ch: &str| c.get("chan").and_then(|x| x.as_str()).unwrap_or("ser") == ch;

    // ---------- channel ser: main writer, both serializers, then PdfObject::parse ----------
    let mut out = Out::new(ctx, header, "ser_case", "ser_code");
    out.shard_size = 100;
    if let Some(cases) = &replay {
        for c in cases.iter().filter(|c| in_chan(c, "ser")) {
            emit_ser(&mut out, &from_json(&c["tree"]), "replay");
        }
    } else {
        let mut r = Rng::new(ctx.seed ^ 0xC09);
        let n = if ctx.thorough() { 3000 } else { 1000 };
        for i in 0..n {
            let (d, b) = match i % 10 {
                0 => (1, 6),
                1..=4 => (2, 12),
                5..=7 => (4, 40),
                8 => (6, 120),
                _ => (8, 200),
            };
            let mut budget = b;
            let mut t = gen_tree(&mut r, d, &mut budget);
            // one tree in four with ASCII names only; the others keep their non-ASCII names (read back since fix_name_utf8)
            if i % 4 == 0 {
                ascii_names_only(&mut t);
                fix_all_collisions(&mut t);
            }
            let cls = if has_nonascii_name(&t) { format!("wf_depth{}_utf8names", depth(&t)) } else { format!("wf_depth{}", depth(&t)) };
            emit_ser(&mut out, &t, &cls);
        }
        // every single char as a one-char string / name (regular ones), all 256 bytes in a hex string
        // every char U+0000..U+017F as a string (alone and after another char) and, when regular, as a name and key
        for base in (0u32..0x180).step_by(32) {
            let chars: Vec<char> = (base..base + 32).map(|c| char::from_u32(c).unwrap()).collect();
            emit_ser(&mut out, &T::Arr(chars.iter().flat_map(|ch| [T::Str(format!("x{ch}")), T::Str(format!("{ch}"))]).collect()), "all_chars_string");
            // every char as a name and as a key — ASCII ones (white space, delimiters, '#', controls included) must read back
            let names: Vec<String> = chars.iter().map(|ch| format!("N{ch}")).collect();
            emit_ser(&mut out, &T::Dict(names.iter().map(|n| (n.clone(), T::Name(n.clone()))).collect()), "all_chars_name");
            let names: Vec<String> = chars.iter().filter(|ch| ch.is_ascii()).flat_map(|ch| [format!("{ch}"), format!("{ch}z"), format!("a{ch}")]).collect();
            if !names.is_empty() {
                emit_ser(&mut out, &T::Arr(names.iter().map(|n| T::Name(n.clone())).collect()), "all_ascii_name_edges");
            }
        }
        emit_ser(&mut out, &T::Hex((0..=255).collect()), "all_bytes_hex");
        let nf = if ctx.thorough() { 200 } else { 25 };
        for n in ["My Image", "A#20", "A#", "#", "Im{1}", "a(b", "a)b", "x%y", "<<", "[x]", "A/B", " ", "", "()<>[]{}/%#", "a#20b#", "A#+5", "tab\there", "nl\nx", "nul\0x"] {
            emit_ser(&mut out, &T::Dict(vec![(n.to_string(), T::Name(n.to_string())), ("Z".into(), T::Arr(vec![T::Name(n.to_string()), T::Int(1)]))]), "fixed_irregular_names");
        }
        // names with 2-, 3- and 4-byte UTF-8 sequences (boundary chars over-weighted), as name, as key, nested
        let nu = if ctx.thorough() { 300 } else { 60 };
        for k in 2..=4usize {
            for _ in 0..nu {
                let (a, b2) = (gen_utf8_name(&mut r, k), gen_utf8_name(&mut r, k));
                let t = match r.below(3) {
                    0 => T::Name(a),
                    1 => T::Arr(vec![T::Name(a), T::Int(1), T::Name(b2)]),
                    _ if a != b2 => T::Dict(vec![(a.clone(), T::Name(b2.clone())), (b2, T::Arr(vec![T::Name(a), T::Null]))]),
                    _ => T::Dict(vec![(a.clone(), T::Name(b2))]),
                };
                emit_ser(&mut out, &t, &format!("utf8_names_{k}byte"));
            }
        }
        // every char U+0180..U+07FF (rest of the 2-byte range) and the 3-/4-byte boundary chars as a name and key
        for base in (0x180u32..0x800).step_by(64) {
            let names: Vec<String> = (base..base + 64).filter_map(char::from_u32).map(|ch| format!("N{ch}")).collect();
            emit_ser(&mut out, &T::Dict(names.iter().map(|n| (n.clone(), T::Name(n.clone()))).collect()), "all_2byte_chars_name");
        }
        let edges: Vec<String> = [0x800u32, 0xFFF, 0x1000, 0xCFFF, 0xD000, 0xD7FF, 0xE000, 0xFFFD, 0xFFFF, 0x10000, 0x3FFFF, 0x40000, 0xFFFFF, 0x100000, 0x10FFFF]
            .iter()
            .filter_map(|c| char::from_u32(*c))
            .flat_map(|ch| [format!("{ch}"), format!("a{ch}"), format!("{ch} z")])
            .collect();
        emit_ser(&mut out, &T::Dict(edges.iter().map(|n| (n.clone(), T::Name(n.clone()))).collect()), "utf8_boundary_chars_name");
        for _ in 0..nf {
            let t = flawed_tree(&mut r, "name-nonascii");
            emit_ser(&mut out, &t, "nonascii_name_trees");
        }
        for kind in ["real-ge-2p63", "objnum-gt-9999999", "int-int-nameR"] {
            for _ in 0..nf {
                let mut t = flawed_tree(&mut r, kind);
                ascii_names_only(&mut t); // exactly one flaw per tree (kept ASCII as before)
                emit_ser(&mut out, &t, &format!("known_{kind}"));
            }
        }
    }
    out.finish("ser");

    // ---------- channel lex: arbitrary token text, model of the reader only ----------
    let mut out = Out::new(ctx, header, "lex_case", "lex_code");
    out.shard_size = 500;
    if let Some(cases) = &replay {
        for c in cases.iter().filter(|c| in_chan(c, "lex")) {
            emit_lex(&mut out, &unhex(c["bytes"].as_str().unwrap()), "replay");
        }
    } else {
        for b in FIXED_LEX {
            emit_lex(&mut out, b, "fixed");
        }
        for b in FIXED_LEX_NAMES {
            emit_lex(&mut out, b, "fixed_names_utf8_and_invalid");
        }
        // name tokens by class of their decoded bytes: valid UTF-8 with 2-, 3-, 4-byte sequences; not UTF-8; and two
        // spellings (invalid bytes / the UTF-8 of their Latin-1 view) of ONE String as keys of one dictionary
        let mut rn = Rng::new(ctx.seed ^ 0x4A3E);
        let nn = if ctx.thorough() { 600 } else { 150 };
        for i in 0..nn {
            for k in 2..=4usize {
                let n = gen_utf8_name(&mut rn, k).into_bytes();
                let (t1, t2) = (name_token(&mut rn, &n), name_token(&mut rn, &n));
                emit_lex(&mut out, &wrap_name_token(&mut rn, &t1, &t2), &format!("name_utf8_{k}byte"));
            }
            let bad = gen_invalid_utf8(&mut rn);
            let (t1, t2) = (name_token(&mut rn, &bad), name_token(&mut rn, &bad));
            emit_lex(&mut out, &wrap_name_token(&mut rn, &t1, &t2), "name_invalid_utf8");
            if i % 3 == 0 {
                let same = latin1_as_utf8(&bad);
                let mut s = b"<< ".to_vec();
                let (a, b2) = (name_token(&mut rn, &bad), name_token(&mut rn, &same));
                let (x, y) = if rn.chance(1, 2) { (a, b2) } else { (b2, a) };
                s.extend(x);
                s.extend(b" 1 ");
                s.extend(y);
                s.extend(b" 2 >>");
                emit_lex(&mut out, &s, "name_key_two_spellings_one_string");
            }
        }
        let mut r = Rng::new(ctx.seed ^ 0x1E7);
        let n = if ctx.thorough() { 9000 } else { 3000 };
        for _ in 0..n {
            let b = gen_lex_text(&mut r);
            emit_lex(&mut out, &b, "random_text");
        }
    }
    out.finish("lex");

    // ---------- channel incr: incremental writer's generic serializer ----------
    let mut out = Out::new(ctx, header, "ser_case", "incr_code");
    out.shard_size = 100;
    fn strip_reals(t: &mut T) {
        match t {
            T::Real(_) => *t = T::Int(4),
            T::Arr(l) => l.iter_mut().for_each(strip_reals),
            T::Dict(l) => l.iter_mut().for_each(|(_, v)| strip_reals(v)),
            _ => {}
        }
    }
    fn asciify_names(t: &mut T, r: &mut Rng, irregular: bool) {
        let mut f = |n: &mut String, r: &mut Rng| {
            let mut s: String = n.chars().filter(|c| c.is_ascii()).collect();
            if irregular && r.chance(1, 2) {
                s = gen_irregular_name(r).chars().filter(|c| c.is_ascii()).collect();
            }
            *n = s;
        };
        match t {
            T::Name(n) => f(n, r),
            T::Arr(l) => l.iter_mut().for_each(|x| asciify_names(x, r, irregular)),
            T::Dict(l) => {
                for (k, v) in l.iter_mut() {
                    f(k, r);
                    asciify_names(v, r, irregular);
                }
                let mut seen = std::collections::HashSet::new();
                l.retain(|(k, _)| seen.insert(k.clone()));
            }
            _ => {}
        }
    }
    if let Some(cases) = &replay {
        for c in cases.iter().filter(|c| in_chan(c, "incr")) {
            emit_incr(&mut out, &from_json(&c["tree"]), "replay");
        }
    } else {
        let mut r = Rng::new(ctx.seed ^ 0x1AC);
        let n = if ctx.thorough() { 1200 } else { 400 };
        for i in 0..n {
            let mut budget = 30;
            let mut t = gen_tree(&mut r, 3, &mut budget);
            strip_reals(&mut t);
            fix_all_collisions(&mut t);
            if i % 8 != 0 {
                asciify_names(&mut t, &mut r, true);
                if let T::Arr(l) = &mut t {
                    fix_collisions(l);
                }
                let mut f = vec![];
                flaws(&t, &mut f);
                if f.contains(&"int-int-nameR") {
                    continue;
                }
                emit_incr(&mut out, &t, "ascii_names_any");
            } else if i % 16 == 0 {
                // names of any chars (what a parsed file can contain since fix_name_utf8)
                emit_incr(&mut out, &t, if has_nonascii_name(&t) { "unicode_names" } else { "ascii_names_any" });
            } else {
                // names of chars <= U+00FF (all a parsed file could contain before fix_name_utf8)
                fn latin(t: &mut T) {
                    let f = |n: &mut String| *n = n.chars().filter(|c| (*c as u32) < 256).collect();
                    match t {
                        T::Name(n) => f(n),
                        T::Arr(l) => l.iter_mut().for_each(latin),
                        T::Dict(l) => {
                            for (k, v) in l.iter_mut() {
                                f(k);
                                latin(v);
                            }
                            let mut seen = std::collections::HashSet::new();
                            l.retain(|(k, _)| seen.insert(k.clone()));
                        }
                        _ => {}
                    }
                }
                latin(&mut t);
                fix_all_collisions(&mut t);
                emit_incr(&mut out, &t, "latin1_names");
            }
        }
        let nu = if ctx.thorough() { 200 } else { 40 };
        for k in 2..=4usize {
            for _ in 0..nu {
                let (a, b2) = (gen_utf8_name(&mut r, k), gen_utf8_name(&mut r, k));
                let t = match r.below(3) {
                    0 => T::Name(a),
                    1 => T::Arr(vec![T::Name(a), T::Int(1), T::Name(b2)]),
                    _ if a != b2 => T::Dict(vec![(a.clone(), T::Name(b2.clone())), (b2, T::Arr(vec![T::Name(a), T::Null]))]),
                    _ => T::Dict(vec![(a.clone(), T::Name(b2))]),
                };
                emit_incr(&mut out, &t, &format!("utf8_names_{k}byte"));
            }
        }
    }
    out.finish("incr");
}
