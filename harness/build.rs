// generates the property-module list: every src/cNN.rs becomes a module with `pub fn run(&Ctx)`
use std::io::Write;
fn main() {
    let dir = std::path::Path::new(&std::env::var("CARGO_MANIFEST_DIR").unwrap()).join("src");
    let mut names: Vec<String> = std::fs::read_dir(&dir)
        .unwrap()
        .filter_map(|e| e.ok())
        .filter_map(|e| e.file_name().into_string().ok())
        .filter(|n| n.len() == 6 && n.starts_with('c') && n.ends_with(".rs") && n[1..3].chars().all(|c| c.is_ascii_digit()))
        .map(|n| n[..3].to_string())
        .collect();
    names.sort();
    let out = std::path::Path::new(&std::env::var("OUT_DIR").unwrap()).join("props.rs");
    let mut f = std::fs::File::create(out).unwrap();
    for n in &names {
        writeln!(f, "#[path = \"{}/{}.rs\"] pub mod {};", dir.display(), n, n).unwrap();
    }
    writeln!(f, "pub fn dispatch(ctx: &crate::util::Ctx) -> bool {{ match ctx.prop.as_str() {{").unwrap();
    for n in &names {
        writeln!(f, "  \"{n}\" => {{ {n}::run(ctx); true }}").unwrap();
    }
    writeln!(f, "  _ => false }} }}").unwrap();
    println!("cargo:rerun-if-changed=src");
    println!("cargo:rustc-check-cfg=cfg(oxidizepdf_verif)");
}
