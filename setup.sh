#!/bin/bash
# Build the framework from files on disk only (offline): Coq development, correspondence harness.
set -u
cd "$(dirname "$0")"
export CARGO_NET_OFFLINE=true
mkdir -p build evidence
python3 translator/regen.py all || echo "translator: regeneration failed (checks will report it)"
( cd coq && coq_makefile -f _CoqProject -o Makefile >/dev/null 2>&1 && timeout 3000 make -j16 2>&1 | tail -5 )
( cd harness && RUSTFLAGS="--cfg oxidizepdf_verif -Awarnings" timeout 3000 cargo build --offline 2>&1 | tail -3 )
exit 0
