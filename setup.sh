#!/bin/bash
# Build the framework from files on disk only (offline): Coq development, correspondence harness.
set -u
cd "$(dirname "$0")"
export CARGO_NET_OFFLINE=true
mkdir -p build evidence
python3 translator/regen.py all || echo "translator: regeneration failed (checks will report it)"
( cd coq && ./mkproject.sh && timeout 3000 make -j16 2>&1 | tail -5 )
python3 -c "import sys; sys.path.insert(0,'lib'); import vlib; vlib.write_cargo_toml()"
( cd harness && RUSTFLAGS="--cfg oxidizepdf_verif -Awarnings" timeout 3000 cargo build --offline 2>&1 | tail -3 )
exit 0
