(** C01 — reading any byte sequence never crashes, hangs or exhausts memory  (PARTIAL by nature).
    What is proved here is the LOGIC of robustness for the kernel catalogue (C01/Kernels.v,
    transliterated from the current source): arithmetic that cannot trap, recursion depth bounded
    by a constant, loops whose fuel is bounded by the input, requested allocation bounded by the
    input.  Real stack size, the allocator and the wall clock are only OBSERVED (isolated worker
    processes, see notes/C01.md).  Only statements here; proofs live in theories/C01/. *)
From Coq Require Import ZArith List.
From OxVerif Require Import C01.Mach C01.Kernels C01.KProofs C01.Depth C01.Loops C01.Judge.
From OxVerif Require C16.Model C16.Proofs C18.Model C18.Proofs C27.Model C27.Proofs.
Import ListNotations.
Open Scope Z_scope.

(** ---- classic cross-reference table (xref.rs) *)
Theorem c01_xref_subsection_no_trap : forall avail first count i,
  InR U32 first -> InR U32 count -> 0 <= i <= count -> xref_sub avail first count i <> Trap.
Proof. exact xref_sub_no_trap_proof. Qed.
Check c01_xref_subsection_no_trap : forall avail first count i,
  InR U32 first -> InR U32 count -> 0 <= i <= count -> xref_sub avail first count i <> Trap.
Print Assumptions c01_xref_subsection_no_trap.

Theorem c01_xref_subsection_pinned_trap_refuted : exists avail first count, InR U32 first /\ InR U32 count /\
  xref_sub_pinned avail first count 0 = Trap.
Proof. exact xref_sub_pinned_trap_refuted_proof. Qed.
Check c01_xref_subsection_pinned_trap_refuted : exists avail first count, InR U32 first /\ InR U32 count /\
  xref_sub_pinned avail first count 0 = Trap.
Print Assumptions c01_xref_subsection_pinned_trap_refuted.

Theorem c01_xref_max_plus_1_no_trap : forall max, InR U32 max -> xref_max_plus_1 max <> Trap.
Proof. exact xref_max_plus_1_no_trap_proof. Qed.
Check c01_xref_max_plus_1_no_trap : forall max, InR U32 max -> xref_max_plus_1 max <> Trap.
Print Assumptions c01_xref_max_plus_1_no_trap.

Theorem c01_xref_max_plus_1_pinned_trap_refuted : exists max, InR U32 max /\ xref_max_plus_1_pinned max = Trap.
Proof. exact xref_max_plus_1_pinned_trap_refuted_proof. Qed.
Check c01_xref_max_plus_1_pinned_trap_refuted : exists max, InR U32 max /\ xref_max_plus_1_pinned max = Trap.
Print Assumptions c01_xref_max_plus_1_pinned_trap_refuted.

(** ---- cross-reference stream (xref_stream.rs): ANY /W, /Index pair and decoded length; the
    loop needs at most len+1 iterations (fuel never runs out), whatever count /Index claims *)
Theorem c01_xref_stream_no_trap_and_terminates : forall w0 w1 w2 first count len, 0 <= len <= ISIZE_MAX ->
  xs_entries w0 w1 w2 first count len <> Trap /\ xs_entries w0 w1 w2 first count len <> Val Kernels.OFuel.
Proof. exact xs_entries_no_trap_proof. Qed.
Check c01_xref_stream_no_trap_and_terminates : forall w0 w1 w2 first count len, 0 <= len <= ISIZE_MAX ->
  xs_entries w0 w1 w2 first count len <> Trap /\ xs_entries w0 w1 w2 first count len <> Val Kernels.OFuel.
Print Assumptions c01_xref_stream_no_trap_and_terminates.

Theorem c01_xref_stream_w_sum_pinned_trap_refuted : exists w0 w1 w2, InR I64 w0 /\ InR I64 w1 /\ InR I64 w2 /\
  xs_entry_size_pinned w0 w1 w2 = Trap.
Proof. exact xs_w_sum_pinned_trap_refuted_proof. Qed.
Check c01_xref_stream_w_sum_pinned_trap_refuted : exists w0 w1 w2, InR I64 w0 /\ InR I64 w1 /\ InR I64 w2 /\
  xs_entry_size_pinned w0 w1 w2 = Trap.
Print Assumptions c01_xref_stream_w_sum_pinned_trap_refuted.

Theorem c01_xref_stream_index_pinned_trap_refuted : exists first count len, 0 <= len <= ISIZE_MAX /\
  xs_entries_pinned 1 2 1 first count len = Trap.
Proof. exact xs_index_pinned_trap_refuted_proof. Qed.
Check c01_xref_stream_index_pinned_trap_refuted : exists first count len, 0 <= len <= ISIZE_MAX /\
  xs_entries_pinned 1 2 1 first count len = Trap.
Print Assumptions c01_xref_stream_index_pinned_trap_refuted.

Theorem c01_read_field_no_trap : forall l acc, read_field acc l <> Trap.
Proof. exact read_field_no_trap_proof. Qed.
Check c01_read_field_no_trap : forall l acc, read_field acc l <> Trap.
Print Assumptions c01_read_field_no_trap.

(** ---- object stream (object_stream.rs) *)
Theorem c01_objstm_offset_no_trap : forall first off, objstm_abs first off <> Trap.
Proof. exact objstm_abs_no_trap_proof. Qed.
Check c01_objstm_offset_no_trap : forall first off, objstm_abs first off <> Trap.
Print Assumptions c01_objstm_offset_no_trap.

Theorem c01_objstm_offset_pinned_trap_refuted : exists first off, InR I64 first /\ InR I64 off /\
  objstm_abs_pinned first off = Trap.
Proof. exact objstm_abs_pinned_trap_refuted_proof. Qed.
Check c01_objstm_offset_pinned_trap_refuted : exists first off, InR I64 first /\ InR I64 off /\
  objstm_abs_pinned first off = Trap.
Print Assumptions c01_objstm_offset_pinned_trap_refuted.

(** ---- stream /Length: what is reserved before a byte is read is bounded by a constant, what is
    finally held is bounded by what the input delivered *)
Theorem c01_length_request_bounded : forall n, read_bytes_request n <= READ_CHUNK.
Proof. exact read_bytes_request_bounded_proof. Qed.
Check c01_length_request_bounded : forall n, read_bytes_request n <= READ_CHUNK.
Print Assumptions c01_length_request_bounded.

Theorem c01_length_result_bounded : forall n remaining v, 0 <= remaining ->
  read_bytes_result n remaining = Kernels.OOk v -> v <= remaining.
Proof. exact read_bytes_result_bounded_proof. Qed.
Check c01_length_result_bounded : forall n remaining v, 0 <= remaining ->
  read_bytes_result n remaining = Kernels.OOk v -> v <= remaining.
Print Assumptions c01_length_result_bounded.

Theorem c01_length_request_pinned_refuted : exists n remaining, InR I64 n /\ 0 <= remaining /\
  length_to_usize n = Some n /\ read_bytes_request_pinned n > remaining + READ_CHUNK.
Proof. exact read_bytes_request_pinned_refuted_proof. Qed.
Check c01_length_request_pinned_refuted : exists n remaining, InR I64 n /\ 0 <= remaining /\
  length_to_usize n = Some n /\ read_bytes_request_pinned n > remaining + READ_CHUNK.
Print Assumptions c01_length_request_pinned_refuted.

(** ---- filters (filters.rs): predictor row sizing for ANY /Columns /Colors /BitsPerComponent;
    LZW bit reader; RunLength index arithmetic; ASCII85 group *)
Theorem c01_predictor_sizing_no_trap : forall columns colors bpc datalen, 0 <= datalen <= ISIZE_MAX ->
  predictor_rows columns colors bpc datalen <> Trap.
Proof. exact predictor_rows_no_trap_proof. Qed.
Check c01_predictor_sizing_no_trap : forall columns colors bpc datalen, 0 <= datalen <= ISIZE_MAX ->
  predictor_rows columns colors bpc datalen <> Trap.
Print Assumptions c01_predictor_sizing_no_trap.

Theorem c01_predictor_unchecked_mul_trap_refuted : exists colors bpc, InR I64 colors /\ InR I64 bpc /\
  predictor_bpp_pinned colors bpc = Trap.
Proof. exact predictor_bpp_pinned_trap_refuted_proof. Qed.
Check c01_predictor_unchecked_mul_trap_refuted : exists colors bpc, InR I64 colors /\ InR I64 bpc /\
  predictor_bpp_pinned colors bpc = Trap.
Print Assumptions c01_predictor_unchecked_mul_trap_refuted.

Theorem c01_lzw_bit_reader_no_trap : forall n bits_read bit_pos,
  1 <= n <= 16 -> 0 <= bits_read < n -> 0 <= bit_pos <= 7 ->
  exists b, lzw_step n bits_read bit_pos = Val b /\ 0 <= b <= 8.
Proof. exact lzw_step_no_trap_proof. Qed.
Check c01_lzw_bit_reader_no_trap : forall n bits_read bit_pos,
  1 <= n <= 16 -> 0 <= bits_read < n -> 0 <= bit_pos <= 7 ->
  exists b, lzw_step n bits_read bit_pos = Val b /\ 0 <= b <= 8.
Print Assumptions c01_lzw_bit_reader_no_trap.

Theorem c01_lzw_threshold_no_trap : forall cs, 9 <= cs <= 12 -> lzw_threshold cs <> Trap.
Proof. exact lzw_threshold_no_trap_proof. Qed.
Check c01_lzw_threshold_no_trap : forall cs, 9 <= cs <= 12 -> lzw_threshold cs <> Trap.
Print Assumptions c01_lzw_threshold_no_trap.

Theorem c01_run_length_no_trap : forall byte i len, 0 <= byte <= 255 -> 0 <= i < len -> len <= ISIZE_MAX ->
  rl_step byte i len <> Trap.
Proof. exact rl_step_no_trap_proof. Qed.
Check c01_run_length_no_trap : forall byte i len, 0 <= byte <= 255 -> 0 <= i < len -> len <= ISIZE_MAX ->
  rl_step byte i len <> Trap.
Print Assumptions c01_run_length_no_trap.

Theorem c01_ascii85_group_no_trap : forall l, length l = 5%nat -> Forall (fun c => 33 <= c <= 117) l ->
  a85_group l <> Trap.
Proof. exact a85_group_no_trap_proof. Qed.
Check c01_ascii85_group_no_trap : forall l, length l = 5%nat -> Forall (fun c => 33 <= c <= 117) l ->
  a85_group l <> Trap.
Print Assumptions c01_ascii85_group_no_trap.

Theorem c01_ascii85_u32_sum_trap_refuted : exists l, length l = 5%nat /\ Forall (fun c => 33 <= c <= 117) l /\
  a85_fold_pinned 0 l = Trap.
Proof. exact a85_pinned_trap_refuted_proof. Qed.
Check c01_ascii85_u32_sum_trap_refuted : exists l, length l = 5%nat /\ Forall (fun c => 33 <= c <= 117) l /\
  a85_fold_pinned 0 l = Trap.
Print Assumptions c01_ascii85_u32_sum_trap_refuted.

(** ---- string escapes (lexer.rs, content.rs) *)
Theorem c01_octal_escape_no_trap : forall d0 rest, 0 <= d0 <= 7 -> Forall (fun d => 0 <= d <= 7) rest ->
  octal_escape d0 rest <> Trap.
Proof. exact octal_escape_no_trap_proof. Qed.
Check c01_octal_escape_no_trap : forall d0 rest, 0 <= d0 <= 7 -> Forall (fun d => 0 <= d <= 7) rest ->
  octal_escape d0 rest <> Trap.
Print Assumptions c01_octal_escape_no_trap.

Theorem c01_paren_depth_no_trap : forall n, 0 <= n < 2147483647 -> paren_depth_after n <> Trap.
Proof. exact paren_depth_no_trap_proof. Qed.
Check c01_paren_depth_no_trap : forall n, 0 <= n < 2147483647 -> paren_depth_after n <> Trap.
Print Assumptions c01_paren_depth_no_trap.

(** ---- CMap range arithmetic (text/cmap.rs) *)
Theorem c01_cmap_offset_no_trap : forall code start, cmap_offset code start <> Trap.
Proof. exact cmap_offset_no_trap_proof. Qed.
Check c01_cmap_offset_no_trap : forall code start, cmap_offset code start <> Trap.
Print Assumptions c01_cmap_offset_no_trap.

(** the saturating fold is exact on codes of up to 7 bytes (CMap codes have at most 4) *)
Theorem c01_cmap_offset_exact : forall l, (length l <= 7)%nat -> Forall (fun b => 0 <= b <= 255) l ->
  sat_fold l = be_val 0 l.
Proof. exact sat_fold_exact. Qed.
Check c01_cmap_offset_exact : forall l, (length l <= 7)%nat -> Forall (fun b => 0 <= b <= 255) l ->
  sat_fold l = be_val 0 l.
Print Assumptions c01_cmap_offset_exact.

Theorem c01_cmap_offset_pinned_trap_refuted : exists code start, length code = length start /\
  Forall (fun b => 0 <= b <= 255) code /\ cmap_offset_pinned code start = Trap.
Proof. exact cmap_offset_pinned_trap_refuted_proof. Qed.
Check c01_cmap_offset_pinned_trap_refuted : exists code start, length code = length start /\
  Forall (fun b => 0 <= b <= 255) code /\ cmap_offset_pinned code start = Trap.
Print Assumptions c01_cmap_offset_pinned_trap_refuted.

Theorem c01_cmap_carry_no_trap : forall byte carry, 0 <= byte <= 255 -> InR USIZE carry -> cmap_carry byte carry <> Trap.
Proof. exact cmap_carry_no_trap_proof. Qed.
Check c01_cmap_carry_no_trap : forall byte carry, 0 <= byte <= 255 -> InR USIZE carry -> cmap_carry byte carry <> Trap.
Print Assumptions c01_cmap_carry_no_trap.

Theorem c01_cmap_carry_pinned_trap_refuted : exists byte carry, 0 <= byte <= 255 /\ InR USIZE carry /\
  cmap_carry_pinned byte carry = Trap.
Proof. exact cmap_carry_pinned_trap_refuted_proof. Qed.
Check c01_cmap_carry_pinned_trap_refuted : exists byte carry, 0 <= byte <= 255 /\ InR USIZE carry /\
  cmap_carry_pinned byte carry = Trap.
Print Assumptions c01_cmap_carry_pinned_trap_refuted.

(** ---- PNG decoder sizing (graphics/png_decoder.rs) *)
Theorem c01_png_sizing_no_trap : forall width height depth channels rawlen,
  InR U32 width -> InR U32 height -> 0 <= depth <= 255 -> 0 <= channels <= 4 -> 0 <= rawlen ->
  png_sizes width height depth channels rawlen <> Trap.
Proof. exact png_sizes_no_trap_proof. Qed.
Check c01_png_sizing_no_trap : forall width height depth channels rawlen,
  InR U32 width -> InR U32 height -> 0 <= depth <= 255 -> 0 <= channels <= 4 -> 0 <= rawlen ->
  png_sizes width height depth channels rawlen <> Trap.
Print Assumptions c01_png_sizing_no_trap.

Theorem c01_png_sizing_pinned_trap_refuted : exists width height depth channels rawlen,
  InR U32 width /\ InR U32 height /\ 0 <= depth <= 255 /\ 0 <= channels <= 4 /\ 0 <= rawlen /\
  png_sizes_pinned width height depth channels rawlen = Trap.
Proof. exact png_sizes_pinned_trap_refuted_proof. Qed.
Check c01_png_sizing_pinned_trap_refuted : exists width height depth channels rawlen,
  InR U32 width /\ InR U32 height /\ 0 <= depth <= 255 /\ 0 <= channels <= 4 /\ 0 <= rawlen /\
  png_sizes_pinned width height depth channels rawlen = Trap.
Print Assumptions c01_png_sizing_pinned_trap_refuted.

(** ---- /Rotate composition and page-label St + offset: proved by the C16 and C27 packages for
    the current code; restated here because they are kernels of this property *)
Theorem c01_rotate_no_trap : forall r a, 0 <= a <= 270 -> C16.Model.rot_combine r a <> None.
Proof. exact C16.Proofs.rotate_no_trap_proof. Qed.
Check c01_rotate_no_trap : forall r a, 0 <= a <= 270 -> C16.Model.rot_combine r a <> None.
Print Assumptions c01_rotate_no_trap.

Theorem c01_page_label_no_trap : forall l off,
  (C27.Model.l_start l <= C27.Model.u32_max)%N -> (off <= C27.Model.u32_max)%N -> C27.Model.format_label l off <> None.
Proof. exact C27.Proofs.label_no_trap. Qed.
Check c01_page_label_no_trap : forall l off,
  (C27.Model.l_start l <= C27.Model.u32_max)%N -> (off <= C27.Model.u32_max)%N -> C27.Model.format_label l off <> None.
Print Assumptions c01_page_label_no_trap.

(** ---- recursion depth (ghost counter) *)
(** Lexer::next_token after the fix: the skip loop keeps ONE frame, whatever the run length *)
Theorem c01_lexer_depth_bounded : forall l d, snd (lex_loop d l) = S d.
Proof. exact lex_loop_depth_proof. Qed.
Check c01_lexer_depth_bounded : forall l d, snd (lex_loop d l) = S d.
Print Assumptions c01_lexer_depth_bounded.

Theorem c01_lexer_loop_same_answer : forall l d, fst (lex_loop d l) = fst (lex_pinned d l).
Proof. exact lex_same_answer. Qed.
Check c01_lexer_loop_same_answer : forall l d, fst (lex_loop d l) = fst (lex_pinned d l).
Print Assumptions c01_lexer_loop_same_answer.

(** the self-calling shape (pinned lexer; STILL the shape of content.rs's tokenizer): for every
    bound K an input of K+1 bytes exceeds it *)
Theorem c01_self_call_skip_depth_refuted : forall K, exists l, length l = S K /\ (snd (lex_pinned 0 l) > K)%nat.
Proof. exact lex_pinned_depth_refuted_proof. Qed.
Check c01_self_call_skip_depth_refuted : forall K, exists l, length l = S K /\ (snd (lex_pinned 0 l) > K)%nat.
Print Assumptions c01_self_call_skip_depth_refuted.

Theorem c01_self_call_depth_is_run_length : forall l K, (lead l <= K)%nat -> (snd (lex_pinned 0 l) <= K)%nat.
Proof. exact lex_pinned_guarded_proof. Qed.
Check c01_self_call_depth_is_run_length : forall l K, (lead l <= K)%nat -> (snd (lex_pinned 0 l) <= K)%nat.
Print Assumptions c01_self_call_depth_is_run_length.

Theorem c01_objparse_depth_bounded : forall fuel ts, (snd (parse fuel (Some MAX_NEST) false 0 ts) <= MAX_NEST)%nat.
Proof. exact objparse_depth_bounded_proof. Qed.
Check c01_objparse_depth_bounded : forall fuel ts, (snd (parse fuel (Some MAX_NEST) false 0 ts) <= MAX_NEST)%nat.
Print Assumptions c01_objparse_depth_bounded.

Theorem c01_objparse_depth_pinned_refuted : exists ts, length ts = 2001%nat /\ (snd (parse 5000 None false 0 ts) > 1000)%nat.
Proof. exact objparse_depth_pinned_refuted_proof. Qed.
Check c01_objparse_depth_pinned_refuted : exists ts, length ts = 2001%nat /\ (snd (parse 5000 None false 0 ts) > 1000)%nat.
Print Assumptions c01_objparse_depth_pinned_refuted.

(** ---- /Prev chain: with the visited set, len+1 iterations always suffice; without it a
    self-referencing /Prev exhausts every fuel *)
Theorem c01_prev_chain_terminates : forall next len start,
  (forall off, next off <> None -> (off < len)%nat) -> prev_loop next (S len) [] start <> CFuel.
Proof. exact prev_chain_terminates_proof. Qed.
Check c01_prev_chain_terminates : forall next len start,
  (forall off, next off <> None -> (off < len)%nat) -> prev_loop next (S len) [] start <> CFuel.
Print Assumptions c01_prev_chain_terminates.

Theorem c01_prev_chain_without_visited_refuted : exists next, (forall off, next off <> None -> (off < 10)%nat) /\
  forall fuel, prev_loop_novisit next fuel 0 5 = CFuel.
Proof. exact prev_novisit_refuted_proof. Qed.
Check c01_prev_chain_without_visited_refuted : exists next, (forall off, next off <> None -> (off < 10)%nat) /\
  forall fuel, prev_loop_novisit next fuel 0 5 = CFuel.
Print Assumptions c01_prev_chain_without_visited_refuted.

(** ---- object-stream container resolution (reader.rs get_object / get_compressed_object): for ANY
    map of type-2 entries (cycles of every length included) the recursion depth is at most
    max_reconstruction_depth + 1 and the resolution ends *)
Theorem c01_container_depth_bounded : forall cont fuel n,
  (snd (get_object cont fuel [] 0 n) <= S MAX_LOAD_DEPTH)%nat.
Proof. exact container_depth_bounded_proof. Qed.
Check c01_container_depth_bounded : forall cont fuel n,
  (snd (get_object cont fuel [] 0 n) <= S MAX_LOAD_DEPTH)%nat.
Print Assumptions c01_container_depth_bounded.

Theorem c01_container_resolution_terminates : forall cont n,
  fst (get_object cont (MAX_LOAD_DEPTH + 2) [] 0 n) <> LFuel.
Proof. exact container_resolution_terminates_proof. Qed.
Check c01_container_resolution_terminates : forall cont n,
  fst (get_object cont (MAX_LOAD_DEPTH + 2) [] 0 n) <> LFuel.
Print Assumptions c01_container_resolution_terminates.

(** loading the container without the being-loaded set: a 2-cycle never ends, depth = fuel *)
Theorem c01_container_unguarded_refuted : exists cont n, forall fuel,
  load_unguarded cont fuel 0 n = (LFuel, fuel).
Proof. exact container_unguarded_refuted_proof. Qed.
Check c01_container_unguarded_refuted : exists cont n, forall fuel,
  load_unguarded cont fuel 0 n = (LFuel, fuel).
Print Assumptions c01_container_unguarded_refuted.

(** ---- classic xref entry loop: each iteration consumes a line or stops *)
Theorem c01_xref_entry_loop_terminates : forall lines i count,
  entry_loop false (S (length lines)) lines i count <> EFuel.
Proof. exact entry_loop_terminates_proof. Qed.
Check c01_xref_entry_loop_terminates : forall lines i count,
  entry_loop false (S (length lines)) lines i count <> EFuel.
Print Assumptions c01_xref_entry_loop_terminates.

Theorem c01_xref_entry_loop_result_bounded : forall fuel lines i count k,
  entry_loop false fuel lines i count = EDone k -> (k <= i + length lines)%nat.
Proof. exact entry_loop_result_bounded_proof. Qed.
Check c01_xref_entry_loop_result_bounded : forall fuel lines i count k,
  entry_loop false fuel lines i count = EDone k -> (k <= i + length lines)%nat.
Print Assumptions c01_xref_entry_loop_result_bounded.

(** blank lines skipped above the end-of-input test: at EOF the loop never ends *)
Theorem c01_xref_entry_loop_blank_first_refuted : forall fuel, entry_loop true fuel [] 0 1 = EFuel.
Proof. exact entry_loop_blank_first_refuted_proof. Qed.
Check c01_xref_entry_loop_blank_first_refuted : forall fuel, entry_loop true fuel [] 0 1 = EFuel.
Print Assumptions c01_xref_entry_loop_blank_first_refuted.

(** ---- bounded window read with a length from the file (xref.rs read_window_at, reached with a
    /Length by reader.rs reconstruct_stream_object_bounded) *)
Theorem c01_window_request_bounded : forall len, Loops.window_request len <= Loops.WINDOW_CHUNK.
Proof. exact window_request_bounded_proof. Qed.
Check c01_window_request_bounded : forall len, Loops.window_request len <= Loops.WINDOW_CHUNK.
Print Assumptions c01_window_request_bounded.

Theorem c01_window_result_bounded : forall len remaining, Loops.window_result len remaining <= remaining.
Proof. exact window_result_bounded_proof. Qed.
Check c01_window_result_bounded : forall len remaining, Loops.window_result len remaining <= remaining.
Print Assumptions c01_window_result_bounded.

Theorem c01_window_result_same_bytes : forall len remaining, 0 <= len <= remaining ->
  Loops.window_result len remaining = len.
Proof. exact window_result_same_bytes_proof. Qed.
Check c01_window_result_same_bytes : forall len remaining, 0 <= len <= remaining ->
  Loops.window_result len remaining = len.
Print Assumptions c01_window_result_same_bytes.

Theorem c01_window_request_pinned_refuted : exists len remaining, 0 <= remaining /\
  Loops.window_request_pinned len > remaining + Loops.WINDOW_CHUNK.
Proof. exact window_request_pinned_refuted_proof. Qed.
Check c01_window_request_pinned_refuted : exists len remaining, 0 <= remaining /\
  Loops.window_request_pinned len > remaining + Loops.WINDOW_CHUNK.
Print Assumptions c01_window_request_pinned_refuted.

(** ---- page tree: termination of the flattening (visited set + fuel) is C18's theorem *)
Theorem c01_page_tree_flatten_total : forall s root,
  exists l, C18.Model.flatten s root = Some l /\ NoDup l.
Proof. intros. destruct (C18.Proofs.flatten_total_proof s root) as (l & H & Hn). exists l. tauto. Qed.
Check c01_page_tree_flatten_total : forall s root,
  exists l, C18.Model.flatten s root = Some l /\ NoDup l.
Print Assumptions c01_page_tree_flatten_total.

(** ---- the judge of the correspondence run *)
Theorem c01_judge_sound : forall c, case_code c = 0%N -> cobs c = OOk \/ cobs c = OErr.
Proof. exact case_code_zero_sound. Qed.
Check c01_judge_sound : forall c, case_code c = 0%N -> cobs c = OOk \/ cobs c = OErr.
Print Assumptions c01_judge_sound.
