(** C23 — cryptographic building blocks match their reference definitions.
    Only statements here; proofs live in theories/C23/Proofs.v.  Specs: Rc4.v, Md5.v, Sha2.v,
    Aes.v, Cbc.v, SecHandler.v (each validated by the published vectors as Examples). *)
From OxVerif Require Import Base.Util C23.Tab C23.Rc4 C23.Md5 C23.Sha2 C23.Aes C23.Cbc C23.SecHandler C23.Model C23.Proofs C23.AesInv C23.AesCbc.

(** the RC4 of rc4.rs (as written) is the published RC4, for every non-empty key and all data *)
Theorem rc4_model_eq_spec : forall key data, key <> [] -> m_rc4 key data = Some (rc4 key data).
Proof. exact rc4_model_eq_spec_thm. Qed.
Check rc4_model_eq_spec : forall key data, key <> [] -> m_rc4 key data = Some (rc4 key data).
Print Assumptions rc4_model_eq_spec.

(** decrypt (encrypt x) = x for RC4 with any key of 1..256 bytes *)
Theorem rc4_involutive : forall key data, (1 <= length key <= 256)%nat ->
  exists c, m_rc4 key data = Some c /\ m_rc4 key c = Some data.
Proof. exact rc4_involutive_thm. Qed.
Check rc4_involutive : forall key data, (1 <= length key <= 256)%nat ->
  exists c, m_rc4 key data = Some c /\ m_rc4 key c = Some data.
Print Assumptions rc4_involutive.

Theorem rc4_spec_involutive : forall key data, rc4 key (rc4 key data) = data.
Proof. exact rc4_involutive_spec. Qed.
Check rc4_spec_involutive : forall key data, rc4 key (rc4 key data) = data.
Print Assumptions rc4_spec_involutive.

(** known finding rc4-empty-key: the empty key is outside RC4's domain and the code panics *)
Theorem rc4_empty_key_refuted : exists d, m_rc4 [] d = None.
Proof. exact rc4_empty_key_refuted_thm. Qed.
Check rc4_empty_key_refuted : exists d, m_rc4 [] d = None.
Print Assumptions rc4_empty_key_refuted.

(** PKCS#7 *)
Theorem pkcs7_unpad_pad : forall x, pkcs7_unpad (pkcs7_pad x) = Some x.
Proof. exact pkcs7_unpad_pad_thm. Qed.
Check pkcs7_unpad_pad : forall x, pkcs7_unpad (pkcs7_pad x) = Some x.
Print Assumptions pkcs7_unpad_pad.

(** CBC + PKCS#7 round trip for data of every length, over any invertible 16-byte block cipher.
    (Full statement with the FIPS-197 functions substituted needs
       aes_inv : forall k b, key and block are bytes, |k| in {16,32}, |b| = 16 -> inv_cipher k (cipher k b) = b,
     proved below as [aes_inv]; the substituted statements are [aes_cbc_pkcs7_roundtrip],
     [aes_r6_key_unwrap] and [aes_perms_roundtrip].  The general Section form is kept.) *)
Theorem cbc_pkcs7_roundtrip_partial : forall (E D : cipherfn),
  (forall k b, length b = 16%nat -> D k (E k b) = b) ->
  (forall k b, length b = 16%nat -> length (E k b) = 16%nat) ->
  forall k iv x, length iv = 16%nat -> cbc_decrypt D k iv (cbc_encrypt E k iv x) = Some x.
Proof. exact cbc_pkcs7_roundtrip_sec. Qed.
Check cbc_pkcs7_roundtrip_partial : forall (E D : cipherfn),
  (forall k b, length b = 16%nat -> D k (E k b) = b) ->
  (forall k b, length b = 16%nat -> length (E k b) = 16%nat) ->
  forall k iv x, length iv = 16%nat -> cbc_decrypt D k iv (cbc_encrypt E k iv x) = Some x.
Print Assumptions cbc_pkcs7_roundtrip_partial.

(** R5/R6: UE / OE unwrap to the file key (Algorithm 2.A inverts Algorithms 8/9) *)
Theorem r6_key_unwrap_partial : forall (E D : cipherfn),
  (forall k b, length b = 16%nat -> D k (E k b) = b) ->
  (forall k b, length b = 16%nat -> length (E k b) = 16%nat) ->
  forall k fkey, (length fkey mod 16 = 0)%nat ->
  cbc_decrypt_raw D k zero_iv (cbc_encrypt_raw E k zero_iv fkey) = fkey.
Proof. exact key_unwrap_sec. Qed.
Check r6_key_unwrap_partial : forall (E D : cipherfn),
  (forall k b, length b = 16%nat -> D k (E k b) = b) ->
  (forall k b, length b = 16%nat -> length (E k b) = 16%nat) ->
  forall k fkey, (length fkey mod 16 = 0)%nat ->
  cbc_decrypt_raw D k zero_iv (cbc_encrypt_raw E k zero_iv fkey) = fkey.
Print Assumptions r6_key_unwrap_partial.

(** Perms entry: Algorithm 13 reads back P, the filler, "adb", the EncryptMetadata flag *)
Theorem perms_roundtrip_partial : forall (E D : cipherfn),
  (forall k b, length b = 16%nat -> D k (E k b) = b) ->
  (forall k b, length b = 16%nat -> length (E k b) = 16%nat) ->
  forall k P em rnd, length rnd = 4%nat ->
  let d := ecb D k (ecb E k (perms_plain P em rnd)) in
  firstn 4 d = le_bytes 4 P /\ slice 4 8 d = [255; 255; 255; 255] /\
  slice 9 12 d = [97; 100; 98] /\ nth 8 d 0 = (if em then 84 else 70) /\ skipn 12 d = rnd.
Proof. exact perms_roundtrip_sec. Qed.
Check perms_roundtrip_partial : forall (E D : cipherfn),
  (forall k b, length b = 16%nat -> D k (E k b) = b) ->
  (forall k b, length b = 16%nat -> length (E k b) = 16%nat) ->
  forall k P em rnd, length rnd = 4%nat ->
  let d := ecb D k (ecb E k (perms_plain P em rnd)) in
  firstn 4 d = le_bytes 4 P /\ slice 4 8 d = [255; 255; 255; 255] /\
  slice 9 12 d = [97; 100; 98] /\ nth 8 d 0 = (if em then 84 else 70) /\ skipn 12 d = rnd.
Print Assumptions perms_roundtrip_partial.

(** Algorithm 7 (b) inverts Algorithm 3: decrypting O with the owner password gives the padded user password *)
Theorem owner_recovers_user_pad : forall R n owner user,
  owner <> [] -> alg7_user_pad R n owner (alg3 R n owner user) = pad32 user.
Proof. exact owner_recovers_user_pad_thm. Qed.
Check owner_recovers_user_pad : forall R n owner user,
  owner <> [] -> alg7_user_pad R n owner (alg3 R n owner user) = pad32 user.
Print Assumptions owner_recovers_user_pad.

(** hence Algorithm 7 accepts the owner password of every consistently built dictionary *)
Theorem owner_auth_complete : forall R n owner user O U P id em,
  owner <> [] -> O = alg3 R n owner user ->
  firstn (sig_len R) U = alg45_sig R n (pad32 user) O P id em ->
  alg7 R n owner U O P id em = true.
Proof. exact owner_auth_complete_thm. Qed.
Check owner_auth_complete : forall R n owner user O U P id em,
  owner <> [] -> O = alg3 R n owner user ->
  firstn (sig_len R) U = alg45_sig R n (pad32 user) O P id em ->
  alg7 R n owner U O P id em = true.
Print Assumptions owner_auth_complete.

(** orchestration of standard_security.rs = the ISO algorithms, outside the known classes *)
Theorem pad_password_is_alg2a : forall pw, m_pad_password pw = pad32 pw.
Proof. exact m_pad_password_eq. Qed.
Check pad_password_is_alg2a : forall pw, m_pad_password pw = pad32 pw.
Print Assumptions pad_password_is_alg2a.

Theorem owner_hash_model_eq_spec : forall R n owner user,
  (1 <= n)%nat -> owner <> [] -> m_compute_owner_hash R n owner user = alg3 R n owner user.
Proof. exact owner_hash_model_eq_spec_thm. Qed.
Check owner_hash_model_eq_spec : forall R n owner user,
  (1 <= n)%nat -> owner <> [] -> m_compute_owner_hash R n owner user = alg3 R n owner user.
Print Assumptions owner_hash_model_eq_spec.

Theorem owner_fallback_refuted : exists user, m_compute_owner_hash 3 16 [] user <> alg3 3 16 [] user.
Proof. exact owner_fallback_refuted_thm. Qed.
Check owner_fallback_refuted : exists user, m_compute_owner_hash 3 16 [] user <> alg3 3 16 [] user.
Print Assumptions owner_fallback_refuted.

Theorem key_model_eq_spec : forall R n pw O P id,
  m_compute_key R n (m_pad_password pw) O P (Some id) true = alg2 R n pw O P id true.
Proof. exact key_model_eq_spec_thm. Qed.
Check key_model_eq_spec : forall R n pw O P id,
  m_compute_key R n (m_pad_password pw) O P (Some id) true = alg2 R n pw O P id true.
Print Assumptions key_model_eq_spec.

(** printable-ASCII passwords: PDFDocEncoding = UTF-8 = the characters; otherwise not (known finding) *)
Theorem pdfdoc_ascii : forall cps,
  Forall (fun c => 32 <= c <= 126) cps -> pdfdoc_encode cps = Some cps /\ utf8 cps = cps.
Proof. exact pdfdoc_ascii_thm. Qed.
Check pdfdoc_ascii : forall cps,
  Forall (fun c => 32 <= c <= 126) cps -> pdfdoc_encode cps = Some cps /\ utf8 cps = cps.
Print Assumptions pdfdoc_ascii.

Theorem pdfdoc_refuted : exists cps b, pdfdoc_encode cps = Some b /\ b <> utf8 cps.
Proof. exact pdfdoc_refuted_thm. Qed.
Check pdfdoc_refuted : exists cps b, pdfdoc_encode cps = Some b /\ b <> utf8 cps.
Print Assumptions pdfdoc_refuted.

(** non-vacuity of the implications above *)
Example c23_hyps_satisfiable :
  let X : cipherfn := fun k b => xorl b (k ++ repeat 0 16) in
  (forall k b, length b = 16%nat -> X k (X k b) = b) /\
  (forall k b, length b = 16%nat -> length (X k b) = 16%nat).
Proof. exact block_cipher_hyps_satisfiable. Qed.
Example c23_owner_example :
  alg7_user_pad 3 16 (bytes_of_string "owner") (alg3 3 16 (bytes_of_string "owner") (bytes_of_string "user"))
  = pad32 (bytes_of_string "user").
Proof. exact owner_recovers_user_pad_example. Qed.

(** * FIPS-197 substituted: InvCipher inverts Cipher, hence the round trips with real AES *)

(** for every 16- or 32-byte key and every 16-byte block of bytes (S-box inverse by a 256-case
    sweep, ShiftRows structurally, InvMixColumns x MixColumns = I by GF(2)-linearity of the byte maps
    and the sixteen coefficient identities, key schedule well-formed by an invariant) *)
Theorem aes_inv : forall key b, key_ok key -> wf b -> inv_cipher key (cipher key b) = b.
Proof. exact AesInv.aes_inv. Qed.
Check aes_inv : forall key b, key_ok key -> wf b -> inv_cipher key (cipher key b) = b.
Print Assumptions aes_inv.

Theorem aes_cbc_pkcs7_roundtrip : forall k iv x, key_ok k -> wf iv -> bytes_ok x = true ->
  cbc_decrypt inv_cipher k iv (cbc_encrypt cipher k iv x) = Some x.
Proof. exact AesCbc.aes_cbc_pkcs7_roundtrip. Qed.
Check aes_cbc_pkcs7_roundtrip : forall k iv x, key_ok k -> wf iv -> bytes_ok x = true ->
  cbc_decrypt inv_cipher k iv (cbc_encrypt cipher k iv x) = Some x.
Print Assumptions aes_cbc_pkcs7_roundtrip.

Theorem aes_r6_key_unwrap : forall k fkey, key_ok k -> (length fkey mod 16 = 0)%nat -> bytes_ok fkey = true ->
  cbc_decrypt_raw inv_cipher k zero_iv (cbc_encrypt_raw cipher k zero_iv fkey) = fkey.
Proof. exact AesCbc.aes_key_unwrap. Qed.
Check aes_r6_key_unwrap : forall k fkey, key_ok k -> (length fkey mod 16 = 0)%nat -> bytes_ok fkey = true ->
  cbc_decrypt_raw inv_cipher k zero_iv (cbc_encrypt_raw cipher k zero_iv fkey) = fkey.
Print Assumptions aes_r6_key_unwrap.

Theorem aes_perms_roundtrip : forall k P em rnd, key_ok k -> length rnd = 4%nat -> bytes_ok rnd = true ->
  alg13_plain (alg10 P em rnd k) k = perms_plain P em rnd.
Proof. exact AesCbc.aes_perms_roundtrip. Qed.
Check aes_perms_roundtrip : forall k P em rnd, key_ok k -> length rnd = 4%nat -> bytes_ok rnd = true ->
  alg13_plain (alg10 P em rnd k) k = perms_plain P em rnd.
Print Assumptions aes_perms_roundtrip.

Example aes_hyps_satisfiable :
  key_ok (repeat 7%N 32) /\ wf (repeat 200%N 16) /\
  inv_cipher (repeat 7%N 32) (cipher (repeat 7%N 32) (repeat 200%N 16)) = repeat 200%N 16.
Proof.
  split; [split; [right; reflexivity | reflexivity]|].
  split; [split; reflexivity|]. vm_compute. reflexivity.
Qed.
