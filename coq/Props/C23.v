(** C23 — cryptographic building blocks match their reference definitions.
    Only statements here; proofs live in theories/C23/Proofs.v.  Specs: Rc4.v, Md5.v, Sha2.v,
    Aes.v, Cbc.v, SecHandler.v (each validated by the published vectors as Examples). *)
From OxVerif Require Import Base.Util C23.Tab C23.Rc4 C23.Md5 C23.Sha2 C23.Aes C23.Cbc C23.SecHandler C23.Model C23.Proofs C23.AesInv C23.AesCbc
  C23.UserHash C23.Alg2B C23.PermsModel C23.R56Model.

(** the RC4 of rc4.rs (as written) is the published RC4, for every non-empty key and all data *)
Theorem rc4_model_eq_spec : forall key data, key <> [] -> m_rc4 key data = Some (rc4 key data).
Proof. exact rc4_model_eq_spec_thm. Qed.
Check rc4_model_eq_spec : forall key data, key <> [] -> m_rc4 key data = Some (rc4 key data).
Print Assumptions rc4_model_eq_spec.

(** decrypt (encrypt x) = x for RC4 with any key of 1..256 bytes *)
Theorem rc4_involutive : forall key data, (1 <= length key <= 256)%nat ->
  exists c, m_rc4 key data = Some c /\ m_rc4 key c = Some data.
Proof. exact rc4_involutive_thm. Qed.
Check rc4_involutive : forall key data, (1 <= length key <= 256)%nat ->
  exists c, m_rc4 key data = Some c /\ m_rc4 key c = Some data.
Print Assumptions rc4_involutive.

Theorem rc4_spec_involutive : forall key data, rc4 key (rc4 key data) = data.
Proof. exact rc4_involutive_spec. Qed.
Check rc4_spec_involutive : forall key data, rc4 key (rc4 key data) = data.
Print Assumptions rc4_spec_involutive.

(** known finding rc4-empty-key: the empty key is outside RC4's domain and the code panics *)
Theorem rc4_empty_key_refuted : exists d, m_rc4 [] d = None.
Proof. exact rc4_empty_key_refuted_thm. Qed.
Check rc4_empty_key_refuted : exists d, m_rc4 [] d = None.
Print Assumptions rc4_empty_key_refuted.

(** PKCS#7 *)
Theorem pkcs7_unpad_pad : forall x, pkcs7_unpad (pkcs7_pad x) = Some x.
Proof. exact pkcs7_unpad_pad_thm. Qed.
Check pkcs7_unpad_pad : forall x, pkcs7_unpad (pkcs7_pad x) = Some x.
Print Assumptions pkcs7_unpad_pad.

(** CBC + PKCS#7 round trip for data of every length, over any invertible 16-byte block cipher.
    (Full statement with the FIPS-197 functions substituted needs
       aes_inv : forall k b, key and block are bytes, |k| in {16,32}, |b| = 16 -> inv_cipher k (cipher k b) = b,
     proved below as [aes_inv]; the substituted statements are [aes_cbc_pkcs7_roundtrip],
     [aes_r6_key_unwrap] and [aes_perms_roundtrip].  The general Section form is kept.) *)
Theorem cbc_pkcs7_roundtrip_partial : forall (E D : cipherfn),
  (forall k b, length b = 16%nat -> D k (E k b) = b) ->
  (forall k b, length b = 16%nat -> length (E k b) = 16%nat) ->
  forall k iv x, length iv = 16%nat -> cbc_decrypt D k iv (cbc_encrypt E k iv x) = Some x.
Proof. exact cbc_pkcs7_roundtrip_sec. Qed.
Check cbc_pkcs7_roundtrip_partial : forall (E D : cipherfn),
  (forall k b, length b = 16%nat -> D k (E k b) = b) ->
  (forall k b, length b = 16%nat -> length (E k b) = 16%nat) ->
  forall k iv x, length iv = 16%nat -> cbc_decrypt D k iv (cbc_encrypt E k iv x) = Some x.
Print Assumptions cbc_pkcs7_roundtrip_partial.

(** R5/R6: UE / OE unwrap to the file key (Algorithm 2.A inverts Algorithms 8/9) *)
Theorem r6_key_unwrap_partial : forall (E D : cipherfn),
  (forall k b, length b = 16%nat -> D k (E k b) = b) ->
  (forall k b, length b = 16%nat -> length (E k b) = 16%nat) ->
  forall k fkey, (length fkey mod 16 = 0)%nat ->
  cbc_decrypt_raw D k zero_iv (cbc_encrypt_raw E k zero_iv fkey) = fkey.
Proof. exact key_unwrap_sec. Qed.
Check r6_key_unwrap_partial : forall (E D : cipherfn),
  (forall k b, length b = 16%nat -> D k (E k b) = b) ->
  (forall k b, length b = 16%nat -> length (E k b) = 16%nat) ->
  forall k fkey, (length fkey mod 16 = 0)%nat ->
  cbc_decrypt_raw D k zero_iv (cbc_encrypt_raw E k zero_iv fkey) = fkey.
Print Assumptions r6_key_unwrap_partial.

(** Perms entry: Algorithm 13 reads back P, the filler, "adb", the EncryptMetadata flag *)
Theorem perms_roundtrip_partial : forall (E D : cipherfn),
  (forall k b, length b = 16%nat -> D k (E k b) = b) ->
  (forall k b, length b = 16%nat -> length (E k b) = 16%nat) ->
  forall k P em rnd, length rnd = 4%nat ->
  let d := ecb D k (ecb E k (perms_plain P em rnd)) in
  firstn 4 d = le_bytes 4 P /\ slice 4 8 d = [255; 255; 255; 255] /\
  slice 9 12 d = [97; 100; 98] /\ nth 8 d 0 = (if em then 84 else 70) /\ skipn 12 d = rnd.
Proof. exact perms_roundtrip_sec. Qed.
Check perms_roundtrip_partial : forall (E D : cipherfn),
  (forall k b, length b = 16%nat -> D k (E k b) = b) ->
  (forall k b, length b = 16%nat -> length (E k b) = 16%nat) ->
  forall k P em rnd, length rnd = 4%nat ->
  let d := ecb D k (ecb E k (perms_plain P em rnd)) in
  firstn 4 d = le_bytes 4 P /\ slice 4 8 d = [255; 255; 255; 255] /\
  slice 9 12 d = [97; 100; 98] /\ nth 8 d 0 = (if em then 84 else 70) /\ skipn 12 d = rnd.
Print Assumptions perms_roundtrip_partial.

(** Algorithm 7 (b) inverts Algorithm 3: decrypting O with the owner password gives the padded user password *)
Theorem owner_recovers_user_pad : forall R n owner user,
  owner <> [] -> alg7_user_pad R n owner (alg3 R n owner user) = pad32 user.
Proof. exact owner_recovers_user_pad_thm. Qed.
Check owner_recovers_user_pad : forall R n owner user,
  owner <> [] -> alg7_user_pad R n owner (alg3 R n owner user) = pad32 user.
Print Assumptions owner_recovers_user_pad.

(** hence Algorithm 7 accepts the owner password of every consistently built dictionary *)
Theorem owner_auth_complete : forall R n owner user O U P id em,
  owner <> [] -> O = alg3 R n owner user ->
  firstn (sig_len R) U = alg45_sig R n (pad32 user) O P id em ->
  alg7 R n owner U O P id em = true.
Proof. exact owner_auth_complete_thm. Qed.
Check owner_auth_complete : forall R n owner user O U P id em,
  owner <> [] -> O = alg3 R n owner user ->
  firstn (sig_len R) U = alg45_sig R n (pad32 user) O P id em ->
  alg7 R n owner U O P id em = true.
Print Assumptions owner_auth_complete.

(** orchestration of standard_security.rs = the ISO algorithms, outside the known classes *)
Theorem pad_password_is_alg2a : forall pw, m_pad_password pw = pad32 pw.
Proof. exact m_pad_password_eq. Qed.
Check pad_password_is_alg2a : forall pw, m_pad_password pw = pad32 pw.
Print Assumptions pad_password_is_alg2a.

Theorem owner_hash_model_eq_spec : forall R n owner user,
  (1 <= n)%nat -> owner <> [] -> m_compute_owner_hash R n owner user = alg3 R n owner user.
Proof. exact owner_hash_model_eq_spec_thm. Qed.
Check owner_hash_model_eq_spec : forall R n owner user,
  (1 <= n)%nat -> owner <> [] -> m_compute_owner_hash R n owner user = alg3 R n owner user.
Print Assumptions owner_hash_model_eq_spec.

Theorem owner_fallback_refuted : exists user, m_compute_owner_hash 3 16 [] user <> alg3 3 16 [] user.
Proof. exact owner_fallback_refuted_thm. Qed.
Check owner_fallback_refuted : exists user, m_compute_owner_hash 3 16 [] user <> alg3 3 16 [] user.
Print Assumptions owner_fallback_refuted.

Theorem key_model_eq_spec : forall R n pw O P id,
  m_compute_key R n (m_pad_password pw) O P (Some id) true = alg2 R n pw O P id true.
Proof. exact key_model_eq_spec_thm. Qed.
Check key_model_eq_spec : forall R n pw O P id,
  m_compute_key R n (m_pad_password pw) O P (Some id) true = alg2 R n pw O P id true.
Print Assumptions key_model_eq_spec.

(** printable-ASCII passwords: PDFDocEncoding = UTF-8 = the characters; otherwise not (known finding) *)
Theorem pdfdoc_ascii : forall cps,
  Forall (fun c => 32 <= c <= 126) cps -> pdfdoc_encode cps = Some cps /\ utf8 cps = cps.
Proof. exact pdfdoc_ascii_thm. Qed.
Check pdfdoc_ascii : forall cps,
  Forall (fun c => 32 <= c <= 126) cps -> pdfdoc_encode cps = Some cps /\ utf8 cps = cps.
Print Assumptions pdfdoc_ascii.

Theorem pdfdoc_refuted : exists cps b, pdfdoc_encode cps = Some b /\ b <> utf8 cps.
Proof. exact pdfdoc_refuted_thm. Qed.
Check pdfdoc_refuted : exists cps b, pdfdoc_encode cps = Some b /\ b <> utf8 cps.
Print Assumptions pdfdoc_refuted.

(** non-vacuity of the implications above *)
Example c23_hyps_satisfiable :
  let X : cipherfn := fun k b => xorl b (k ++ repeat 0 16) in
  (forall k b, length b = 16%nat -> X k (X k b) = b) /\
  (forall k b, length b = 16%nat -> length (X k b) = 16%nat).
Proof. exact block_cipher_hyps_satisfiable. Qed.
Example c23_owner_example :
  alg7_user_pad 3 16 (bytes_of_string "owner") (alg3 3 16 (bytes_of_string "owner") (bytes_of_string "user"))
  = pad32 (bytes_of_string "user").
Proof. exact owner_recovers_user_pad_example. Qed.

(** * FIPS-197 substituted: InvCipher inverts Cipher, hence the round trips with real AES *)

(** for every 16- or 32-byte key and every 16-byte block of bytes (S-box inverse by a 256-case
    sweep, ShiftRows structurally, InvMixColumns x MixColumns = I by GF(2)-linearity of the byte maps
    and the sixteen coefficient identities, key schedule well-formed by an invariant) *)
Theorem aes_inv : forall key b, key_ok key -> wf b -> inv_cipher key (cipher key b) = b.
Proof. exact AesInv.aes_inv. Qed.
Check aes_inv : forall key b, key_ok key -> wf b -> inv_cipher key (cipher key b) = b.
Print Assumptions aes_inv.

Theorem aes_cbc_pkcs7_roundtrip : forall k iv x, key_ok k -> wf iv -> bytes_ok x = true ->
  cbc_decrypt inv_cipher k iv (cbc_encrypt cipher k iv x) = Some x.
Proof. exact AesCbc.aes_cbc_pkcs7_roundtrip. Qed.
Check aes_cbc_pkcs7_roundtrip : forall k iv x, key_ok k -> wf iv -> bytes_ok x = true ->
  cbc_decrypt inv_cipher k iv (cbc_encrypt cipher k iv x) = Some x.
Print Assumptions aes_cbc_pkcs7_roundtrip.

Theorem aes_r6_key_unwrap : forall k fkey, key_ok k -> (length fkey mod 16 = 0)%nat -> bytes_ok fkey = true ->
  cbc_decrypt_raw inv_cipher k zero_iv (cbc_encrypt_raw cipher k zero_iv fkey) = fkey.
Proof. exact AesCbc.aes_key_unwrap. Qed.
Check aes_r6_key_unwrap : forall k fkey, key_ok k -> (length fkey mod 16 = 0)%nat -> bytes_ok fkey = true ->
  cbc_decrypt_raw inv_cipher k zero_iv (cbc_encrypt_raw cipher k zero_iv fkey) = fkey.
Print Assumptions aes_r6_key_unwrap.

Theorem aes_perms_roundtrip : forall k P em rnd, key_ok k -> length rnd = 4%nat -> bytes_ok rnd = true ->
  alg13_plain (alg10 P em rnd k) k = perms_plain P em rnd.
Proof. exact AesCbc.aes_perms_roundtrip. Qed.
Check aes_perms_roundtrip : forall k P em rnd, key_ok k -> length rnd = 4%nat -> bytes_ok rnd = true ->
  alg13_plain (alg10 P em rnd k) k = perms_plain P em rnd.
Print Assumptions aes_perms_roundtrip.

Example aes_hyps_satisfiable :
  key_ok (repeat 7%N 32) /\ wf (repeat 200%N 16) /\
  inv_cipher (repeat 7%N 32) (cipher (repeat 7%N 32) (repeat 200%N 16)) = repeat 200%N 16.
Proof.
  split; [split; [right; reflexivity | reflexivity]|].
  split; [split; reflexivity|]. vm_compute. reflexivity.
Qed.

(** * Second wave: model = standard for the user-side orchestration, Algorithm 2.B, authentication, Perms *)

(** (1) compute_user_hash is Algorithm 4 (R2) / Algorithm 5 (R3, R4): the significant bytes of U
    (32 for R2, 16 for R3/R4), for every password, O, P, file id and key length >= 1 *)
Theorem user_hash_model_eq_spec : forall R n pw O P id, (1 <= n)%nat -> 2 <= R ->
  firstn (sig_len R) (m_compute_user_hash R n pw O P (Some id)) = alg45_sig R n pw O P id true.
Proof. exact user_hash_model_eq_spec_thm. Qed.
Check user_hash_model_eq_spec : forall R n pw O P id, (1 <= n)%nat -> 2 <= R ->
  firstn (sig_len R) (m_compute_user_hash R n pw O P (Some id)) = alg45_sig R n pw O P id true.
Print Assumptions user_hash_model_eq_spec.

(** the same with the file identifier absent or present ([idbytes None = []]) *)
Theorem user_hash_model_eq_spec_opt : forall R n pw O P id, (1 <= n)%nat -> 2 <= R ->
  firstn (sig_len R) (m_compute_user_hash R n pw O P id) = alg45_sig R n pw O P (idbytes id) true.
Proof. exact UserHash.user_hash_model_eq_spec_opt. Qed.
Check user_hash_model_eq_spec_opt : forall R n pw O P id, (1 <= n)%nat -> 2 <= R ->
  firstn (sig_len R) (m_compute_user_hash R n pw O P id) = alg45_sig R n pw O P (idbytes id) true.
Print Assumptions user_hash_model_eq_spec_opt.

(** the whole 32-byte entry: Algorithm 5's 16 bytes are followed by 16 zero bytes of padding *)
Theorem user_hash_model_full : forall R n pw O P id, (1 <= n)%nat -> 2 <= R ->
  m_compute_user_hash R n pw O P id
  = if 3 <=? R then alg45_sig R n pw O P (idbytes id) true ++ repeat 0 16
    else alg45_sig R n pw O P (idbytes id) true.
Proof. exact UserHash.user_hash_model_full. Qed.
Check user_hash_model_full : forall R n pw O P id, (1 <= n)%nat -> 2 <= R ->
  m_compute_user_hash R n pw O P id
  = if 3 <=? R then alg45_sig R n pw O P (idbytes id) true ++ repeat 0 16
    else alg45_sig R n pw O P (idbytes id) true.
Print Assumptions user_hash_model_full.

(** (2) compute_hash_r6_algorithm_2b is Algorithm 2.B of ISO 32000-2: passwords of at most 127 bytes,
    any salt, u empty (user side) or at most 48 bytes (the U string, owner side).  The byte-sum selector,
    the zero paddings, the `last <= round - 32` test, the 2048-round cap and the different fuels are bridged. *)
Theorem alg2b_model_eq_spec : forall pw salt u,
  (length pw <= 127)%nat -> (length u <= 48)%nat -> bytes_ok pw = true -> bytes_ok u = true ->
  m_2b pw salt u = Some (alg2b pw salt u).
Proof. exact alg2b_model_eq_spec_thm. Qed.
Check alg2b_model_eq_spec : forall pw salt u,
  (length pw <= 127)%nat -> (length u <= 48)%nat -> bytes_ok pw = true -> bytes_ok u = true ->
  m_2b pw salt u = Some (alg2b pw salt u).
Print Assumptions alg2b_model_eq_spec.

(** one round of the loop: model body = steps (a)-(d) of Algorithm 2.B on every reachable state *)
Theorem alg2b_round_model_eq_spec : forall pw u K, goodK K -> bytes_ok pw = true -> bytes_ok u = true -> (length u <= 48)%nat ->
  m_2b_round pw u K = alg2b_round pw u K.
Proof. exact Alg2B.round_eq. Qed.
Check alg2b_round_model_eq_spec : forall pw u K, goodK K -> bytes_ok pw = true -> bytes_ok u = true -> (length u <= 48)%nat ->
  m_2b_round pw u K = alg2b_round pw u K.
Print Assumptions alg2b_round_model_eq_spec.

(** the selector: 16 bytes as a big-endian number mod 3 = their sum mod 3 *)
Theorem be_word_mod3 : forall l, bytes_ok l = true -> be_word l mod 3 = fold_left N.add l 0 mod 3.
Proof. exact Alg2B.be_word_mod3. Qed.
Check be_word_mod3 : forall l, bytes_ok l = true -> be_word l mod 3 = fold_left N.add l 0 mod 3.
Print Assumptions be_word_mod3.

(** (3) user authentication R2-R4: validate_user_password is Algorithm 6 for every U *)
Theorem validate_user_model_eq_spec : forall R n pw U O P id, (1 <= n)%nat -> 2 <= R ->
  m_validate_user R n pw U O P id = alg6 R n pw U O P (idbytes id) true.
Proof. exact validate_user_model_eq_spec_opt. Qed.
Check validate_user_model_eq_spec : forall R n pw U O P id, (1 <= n)%nat -> 2 <= R ->
  m_validate_user R n pw U O P id = alg6 R n pw U O P (idbytes id) true.
Print Assumptions validate_user_model_eq_spec.

(** sound: an accepted password reproduces the compared prefix of the stored U (32 bytes R2, 16 bytes R3/R4) *)
Theorem user_auth_sound : forall R n pw U O P id, (1 <= n)%nat -> 2 <= R ->
  m_validate_user R n pw U O P id = true ->
  firstn (sig_len R) U = firstn (sig_len R) (m_compute_user_hash R n pw O P id).
Proof. exact user_auth_sound_thm. Qed.
Check user_auth_sound : forall R n pw U O P id, (1 <= n)%nat -> 2 <= R ->
  m_validate_user R n pw U O P id = true ->
  firstn (sig_len R) U = firstn (sig_len R) (m_compute_user_hash R n pw O P id).
Print Assumptions user_auth_sound.

(** complete: a password whose computed U agrees with the stored U on that prefix is accepted *)
Theorem user_auth_complete : forall R n pw U O P id, (1 <= n)%nat -> 2 <= R ->
  firstn (sig_len R) U = firstn (sig_len R) (m_compute_user_hash R n pw O P id) ->
  m_validate_user R n pw U O P id = true.
Proof. exact user_auth_complete_thm. Qed.
Check user_auth_complete : forall R n pw U O P id, (1 <= n)%nat -> 2 <= R ->
  firstn (sig_len R) U = firstn (sig_len R) (m_compute_user_hash R n pw O P id) ->
  m_validate_user R n pw U O P id = true.
Print Assumptions user_auth_complete.

(** both directions against the standard's value *)
Theorem user_auth_iff : forall R n pw U O P id, (1 <= n)%nat -> 2 <= R ->
  (m_validate_user R n pw U O P id = true
   <-> firstn (sig_len R) U = alg45_sig R n pw O P (idbytes id) true).
Proof. exact user_auth_iff_thm. Qed.
Check user_auth_iff : forall R n pw U O P id, (1 <= n)%nat -> 2 <= R ->
  (m_validate_user R n pw U O P id = true
   <-> firstn (sig_len R) U = alg45_sig R n pw O P (idbytes id) true).
Print Assumptions user_auth_iff.

(** the U entry written by compute_user_hash authenticates its own password *)
Theorem user_auth_selfcheck : forall R n pw O P id, (1 <= n)%nat -> 2 <= R ->
  m_validate_user R n pw (m_compute_user_hash R n pw O P id) O P id = true.
Proof. exact user_auth_selfcheck_thm. Qed.
Check user_auth_selfcheck : forall R n pw O P id, (1 <= n)%nat -> 2 <= R ->
  m_validate_user R n pw (m_compute_user_hash R n pw O P id) O P id = true.
Print Assumptions user_auth_selfcheck.

(** R5 / R6: compute_rN_user_hash = Algorithm 8 (a), validate_rN_user_password = Algorithm 11 *)
Theorem r56_user_hash_model_eq_spec : forall R pw vsalt ksalt, (length pw <= 127)%nat -> bytes_ok pw = true ->
  m_r56_user_hash R pw vsalt ksalt = Some (alg8_U R pw vsalt ksalt).
Proof. exact r56_user_hash_model_eq_spec_thm. Qed.
Check r56_user_hash_model_eq_spec : forall R pw vsalt ksalt, (length pw <= 127)%nat -> bytes_ok pw = true ->
  m_r56_user_hash R pw vsalt ksalt = Some (alg8_U R pw vsalt ksalt).
Print Assumptions r56_user_hash_model_eq_spec.

Theorem r56_validate_user_model_eq_spec : forall R pw U, (length pw <= 127)%nat -> bytes_ok pw = true -> (48 <= length U)%nat ->
  m_r56_validate_user R pw U = Some (b2l (alg11 R pw U)).
Proof. exact r56_validate_user_model_eq_spec_thm. Qed.
Check r56_validate_user_model_eq_spec : forall R pw U, (length pw <= 127)%nat -> bytes_ok pw = true -> (48 <= length U)%nat ->
  m_r56_validate_user R pw U = Some (b2l (alg11 R pw U)).
Print Assumptions r56_validate_user_model_eq_spec.

(** sound and complete: accepted iff U[0..32] is the SHA-256 (R5) / Algorithm 2.B (R6) hash of
    password || validation salt U[32..40] *)
Theorem r56_user_auth_iff : forall R pw U, (length pw <= 127)%nat -> bytes_ok pw = true -> (48 <= length U)%nat ->
  (m_r56_validate_user R pw U = Some [1] <-> firstn 32 U = hash56 R pw (slice 32 40 U) []).
Proof. exact r56_user_auth_iff_thm. Qed.
Check r56_user_auth_iff : forall R pw U, (length pw <= 127)%nat -> bytes_ok pw = true -> (48 <= length U)%nat ->
  (m_r56_validate_user R pw U = Some [1] <-> firstn 32 U = hash56 R pw (slice 32 40 U) []).
Print Assumptions r56_user_auth_iff.

Theorem r56_user_auth_selfcheck : forall R pw vsalt ksalt U,
  (length pw <= 127)%nat -> bytes_ok pw = true -> length vsalt = 8%nat -> length ksalt = 8%nat ->
  m_r56_user_hash R pw vsalt ksalt = Some U ->
  length U = 48%nat /\ m_r56_validate_user R pw U = Some [1].
Proof. exact r56_user_auth_selfcheck_thm. Qed.
Check r56_user_auth_selfcheck : forall R pw vsalt ksalt U,
  (length pw <= 127)%nat -> bytes_ok pw = true -> length vsalt = 8%nat -> length ksalt = 8%nat ->
  m_r56_user_hash R pw vsalt ksalt = Some U ->
  length U = 48%nat /\ m_r56_validate_user R pw U = Some [1].
Print Assumptions r56_user_auth_selfcheck.

(** (4) Perms at the model level: compute_perms_entry = Algorithm 10 (P as a u32),
    validate_r6_perms = Algorithm 13 plus the FF-filler check, and the round trip with real AES *)
Theorem perms_entry_model_eq_spec : forall P em rnd fkey, length fkey = 32%nat -> (4 <= length rnd)%nat ->
  m_perms_entry P em rnd fkey = Some (alg10 (wrap32 P) em rnd fkey).
Proof. exact perms_entry_model_eq_spec_thm. Qed.
Check perms_entry_model_eq_spec : forall P em rnd fkey, length fkey = 32%nat -> (4 <= length rnd)%nat ->
  m_perms_entry P em rnd fkey = Some (alg10 (wrap32 P) em rnd fkey).
Print Assumptions perms_entry_model_eq_spec.

Theorem validate_perms_model_eq_spec : forall perms fkey P, length perms = 16%nat -> length fkey = 32%nat ->
  m_validate_perms perms fkey P
  = Some (b2l (bytes_eqb (slice 4 8 (alg13_plain perms fkey)) [255; 255; 255; 255]
               && alg13_valid perms fkey (wrap32 P))).
Proof. exact validate_perms_model_eq_spec_thm. Qed.
Check validate_perms_model_eq_spec : forall perms fkey P, length perms = 16%nat -> length fkey = 32%nat ->
  m_validate_perms perms fkey P
  = Some (b2l (bytes_eqb (slice 4 8 (alg13_plain perms fkey)) [255; 255; 255; 255]
               && alg13_valid perms fkey (wrap32 P))).
Print Assumptions validate_perms_model_eq_spec.

Theorem perms_roundtrip : forall fkey P em rnd,
  length fkey = 32%nat -> bytes_ok fkey = true -> length rnd = 4%nat -> bytes_ok rnd = true ->
  exists perms, m_perms_entry P em rnd fkey = Some perms /\ length perms = 16%nat
    /\ alg13_plain perms fkey = perms_plain (wrap32 P) em rnd
    /\ m_validate_perms perms fkey P = Some [1]
    /\ m_extract_meta perms fkey = Some [if em then 1 else 0].
Proof. exact perms_model_roundtrip_thm. Qed.
Check perms_roundtrip : forall fkey P em rnd,
  length fkey = 32%nat -> bytes_ok fkey = true -> length rnd = 4%nat -> bytes_ok rnd = true ->
  exists perms, m_perms_entry P em rnd fkey = Some perms /\ length perms = 16%nat
    /\ alg13_plain perms fkey = perms_plain (wrap32 P) em rnd
    /\ m_validate_perms perms fkey P = Some [1]
    /\ m_extract_meta perms fkey = Some [if em then 1 else 0].
Print Assumptions perms_roundtrip.

(** ... and a Perms entry is rejected for any other permission word (as u32) *)
Theorem perms_rejects_other_P : forall fkey P P' em rnd,
  length fkey = 32%nat -> bytes_ok fkey = true -> length rnd = 4%nat -> bytes_ok rnd = true ->
  wrap32 P' <> wrap32 P ->
  forall perms, m_perms_entry P em rnd fkey = Some perms -> m_validate_perms perms fkey P' = Some [0].
Proof. exact perms_model_rejects_other_P_thm. Qed.
Check perms_rejects_other_P : forall fkey P P' em rnd,
  length fkey = 32%nat -> bytes_ok fkey = true -> length rnd = 4%nat -> bytes_ok rnd = true ->
  wrap32 P' <> wrap32 P ->
  forall perms, m_perms_entry P em rnd fkey = Some perms -> m_validate_perms perms fkey P' = Some [0].
Print Assumptions perms_rejects_other_P.

(** beyond the brief — the other R5/R6 functions against Algorithms 8 (b), 9, 12, 2.A and the
    UE / OE key round trips at the model level *)
Theorem r56_ue_model_eq_spec : forall R pw, (length pw <= 127)%nat -> bytes_ok pw = true ->
  forall U fkey, length U = 48%nat -> length fkey = 32%nat ->
  m_r56_ue R pw U fkey = Some (alg8_UE R pw (slice 40 48 U) fkey).
Proof. exact r56_ue_model_eq_spec_thm. Qed.
Check r56_ue_model_eq_spec : forall R pw, (length pw <= 127)%nat -> bytes_ok pw = true ->
  forall U fkey, length U = 48%nat -> length fkey = 32%nat ->
  m_r56_ue R pw U fkey = Some (alg8_UE R pw (slice 40 48 U) fkey).
Print Assumptions r56_ue_model_eq_spec.

Theorem r56_recover_user_model_eq_spec : forall R pw, (length pw <= 127)%nat -> bytes_ok pw = true ->
  forall U UE, (48 <= length U)%nat -> length UE = 32%nat ->
  m_r56_recover_user R pw U UE = Some (alg2a_user R pw U UE).
Proof. exact r56_recover_user_model_eq_spec_thm. Qed.
Check r56_recover_user_model_eq_spec : forall R pw, (length pw <= 127)%nat -> bytes_ok pw = true ->
  forall U UE, (48 <= length U)%nat -> length UE = 32%nat ->
  m_r56_recover_user R pw U UE = Some (alg2a_user R pw U UE).
Print Assumptions r56_recover_user_model_eq_spec.

Theorem r56_user_key_roundtrip : forall R pw, (length pw <= 127)%nat -> bytes_ok pw = true ->
  forall U fkey, length U = 48%nat -> length fkey = 32%nat -> bytes_ok fkey = true ->
  exists UE, m_r56_ue R pw U fkey = Some UE /\ length UE = 32%nat
             /\ m_r56_recover_user R pw U UE = Some fkey.
Proof. exact r56_user_key_roundtrip_thm. Qed.
Check r56_user_key_roundtrip : forall R pw, (length pw <= 127)%nat -> bytes_ok pw = true ->
  forall U fkey, length U = 48%nat -> length fkey = 32%nat -> bytes_ok fkey = true ->
  exists UE, m_r56_ue R pw U fkey = Some UE /\ length UE = 32%nat
             /\ m_r56_recover_user R pw U UE = Some fkey.
Print Assumptions r56_user_key_roundtrip.

Theorem r56_owner_hash_model_eq_spec : forall R pw, (length pw <= 127)%nat -> bytes_ok pw = true ->
  forall U, bytes_ok (firstn 48 U) = true -> forall vsalt ksalt, length U = 48%nat ->
  m_r56_owner_hash R pw U vsalt ksalt = Some (alg9_O R pw vsalt ksalt U).
Proof. exact r56_owner_hash_model_eq_spec_thm. Qed.
Check r56_owner_hash_model_eq_spec : forall R pw, (length pw <= 127)%nat -> bytes_ok pw = true ->
  forall U, bytes_ok (firstn 48 U) = true -> forall vsalt ksalt, length U = 48%nat ->
  m_r56_owner_hash R pw U vsalt ksalt = Some (alg9_O R pw vsalt ksalt U).
Print Assumptions r56_owner_hash_model_eq_spec.

Theorem r56_validate_owner_model_eq_spec : forall R pw, (length pw <= 127)%nat -> bytes_ok pw = true ->
  forall U, bytes_ok (firstn 48 U) = true -> forall O, (48 <= length O)%nat -> (48 <= length U)%nat ->
  m_r56_validate_owner R pw O U = Some (b2l (alg12 R pw O U)).
Proof. exact r56_validate_owner_model_eq_spec_thm. Qed.
Check r56_validate_owner_model_eq_spec : forall R pw, (length pw <= 127)%nat -> bytes_ok pw = true ->
  forall U, bytes_ok (firstn 48 U) = true -> forall O, (48 <= length O)%nat -> (48 <= length U)%nat ->
  m_r56_validate_owner R pw O U = Some (b2l (alg12 R pw O U)).
Print Assumptions r56_validate_owner_model_eq_spec.

Theorem r56_owner_auth_iff : forall R pw, (length pw <= 127)%nat -> bytes_ok pw = true ->
  forall U, bytes_ok (firstn 48 U) = true -> forall O, (48 <= length O)%nat -> (48 <= length U)%nat ->
  (m_r56_validate_owner R pw O U = Some [1]
   <-> firstn 32 O = hash56 R pw (slice 32 40 O) (firstn 48 U)).
Proof. exact r56_owner_auth_iff_thm. Qed.
Check r56_owner_auth_iff : forall R pw, (length pw <= 127)%nat -> bytes_ok pw = true ->
  forall U, bytes_ok (firstn 48 U) = true -> forall O, (48 <= length O)%nat -> (48 <= length U)%nat ->
  (m_r56_validate_owner R pw O U = Some [1]
   <-> firstn 32 O = hash56 R pw (slice 32 40 O) (firstn 48 U)).
Print Assumptions r56_owner_auth_iff.

Theorem r56_oe_model_eq_spec : forall R pw, (length pw <= 127)%nat -> bytes_ok pw = true ->
  forall U, bytes_ok (firstn 48 U) = true ->
  forall O fkey, length O = 48%nat -> length U = 48%nat -> length fkey = 32%nat -> bytes_ok fkey = true ->
  m_r56_oe R pw O U fkey = Some (alg9_OE R pw (slice 40 48 O) U fkey).
Proof. exact r56_oe_model_eq_spec_thm. Qed.
Check r56_oe_model_eq_spec : forall R pw, (length pw <= 127)%nat -> bytes_ok pw = true ->
  forall U, bytes_ok (firstn 48 U) = true ->
  forall O fkey, length O = 48%nat -> length U = 48%nat -> length fkey = 32%nat -> bytes_ok fkey = true ->
  m_r56_oe R pw O U fkey = Some (alg9_OE R pw (slice 40 48 O) U fkey).
Print Assumptions r56_oe_model_eq_spec.

Theorem r56_recover_owner_model_eq_spec : forall R pw, (length pw <= 127)%nat -> bytes_ok pw = true ->
  forall U, bytes_ok (firstn 48 U) = true ->
  forall O OE, (48 <= length O)%nat -> (48 <= length U)%nat -> length OE = 32%nat ->
  m_r56_recover_owner R pw O U OE = Some (alg2a_owner R pw O U OE).
Proof. exact r56_recover_owner_model_eq_spec_thm. Qed.
Check r56_recover_owner_model_eq_spec : forall R pw, (length pw <= 127)%nat -> bytes_ok pw = true ->
  forall U, bytes_ok (firstn 48 U) = true ->
  forall O OE, (48 <= length O)%nat -> (48 <= length U)%nat -> length OE = 32%nat ->
  m_r56_recover_owner R pw O U OE = Some (alg2a_owner R pw O U OE).
Print Assumptions r56_recover_owner_model_eq_spec.

Theorem r56_owner_key_roundtrip : forall R pw, (length pw <= 127)%nat -> bytes_ok pw = true ->
  forall U, bytes_ok (firstn 48 U) = true ->
  forall O fkey, length O = 48%nat -> length U = 48%nat -> length fkey = 32%nat -> bytes_ok fkey = true ->
  exists OE, m_r56_oe R pw O U fkey = Some OE /\ length OE = 32%nat
             /\ m_r56_recover_owner R pw O U OE = Some fkey.
Proof. exact r56_owner_key_roundtrip_thm. Qed.
Check r56_owner_key_roundtrip : forall R pw, (length pw <= 127)%nat -> bytes_ok pw = true ->
  forall U, bytes_ok (firstn 48 U) = true ->
  forall O fkey, length O = 48%nat -> length U = 48%nat -> length fkey = 32%nat -> bytes_ok fkey = true ->
  exists OE, m_r56_oe R pw O U fkey = Some OE /\ length OE = 32%nat
             /\ m_r56_recover_owner R pw O U OE = Some fkey.
Print Assumptions r56_owner_key_roundtrip.

(** compute_object_key = Algorithm 1 (RC4 keys; the AES "sAlT" variant is private to the library) *)
Theorem object_key_model_eq_spec : forall key num gen, m_object_key key num gen = alg1 key num gen.
Proof. exact object_key_model_eq_spec_thm. Qed.
Check object_key_model_eq_spec : forall key num gen, m_object_key key num gen = alg1 key num gen.
Print Assumptions object_key_model_eq_spec.

(** non-vacuity of the second-wave implications: concrete accept / reject runs of the models *)
Example c23_user_auth_example :
  let O := alg3 3 16 (bytes_of_string "owner") (bytes_of_string "user") in
  m_validate_user 3 16 (bytes_of_string "user")
     (m_compute_user_hash 3 16 (bytes_of_string "user") O 4294963392 (Some (unhex "00112233445566778899aabbccddeeff")))
     O 4294963392 (Some (unhex "00112233445566778899aabbccddeeff")) = true
  /\ m_validate_user 2 5 (bytes_of_string "wrong")
     (m_compute_user_hash 2 5 (bytes_of_string "user") O 4294963392 None) O 4294963392 None = false.
Proof. exact user_hash_example. Qed.
Example c23_goodK_example : goodK (sha256 []) /\ bytes_ok (bytes_of_string "user") = true.
Proof. split; [apply sha256_good | reflexivity]. Qed.
