(** C19 — damaged cross-reference data is reconstructed faithfully.
    Only statements here; proofs live in theories/C19/Proofs.v.

    NOT proved (kept visible):
      catalog_found : forall d root, wf d = true -> quiet_doc d = true -> cat_hyp d root = true ->
        option_map (fun r => snd (fst r)) (recover (render d root)) = Some (RFound root).
      It is checked case by case by the correspondence (bit 2 with cat_hyp = true is a violation);
      c19_catalog_text_refuted shows what happens outside cat_hyp.
      scan_finds_all for files larger than one 64 KiB chunk (c19_scan_window_finds_all is the
      size-independent part; the carry argument across chunk boundaries is tied, not proved). *)
From OxVerif Require Import Base.Util C09.Model C19.Model C19.Proofs.

(** the whole-file window finds exactly the object headers of the document, at their true offsets
    (any size) — scan_window_for_headers returns them in reverse discovery order here *)
Theorem c19_scan_window_finds_all : forall d root, wf d = true -> quiet_doc d = true ->
  snd (scan_window (render d root) 0 [] []) = rev (offsets d).
Proof. exact scan_window_render. Qed.
Check c19_scan_window_finds_all : forall d root, wf d = true -> quiet_doc d = true ->
  snd (scan_window (render d root) 0 [] []) = rev (offsets d).
Print Assumptions c19_scan_window_finds_all.

(** scan_finds_all, for files of at most one chunk: the chunked scan_object_headers returns the
    true offset table *)
Theorem c19_scan_file_finds_all_partial : forall d root, wf d = true -> quiet_doc d = true ->
  len (render d root) <= 65536 -> scan_file 65536 (render d root) = offsets d.
Proof. exact scan_file_render. Qed.
Check c19_scan_file_finds_all_partial : forall d root, wf d = true -> quiet_doc d = true ->
  len (render d root) <= 65536 -> scan_file 65536 (render d root) = offsets d.
Print Assumptions c19_scan_file_finds_all_partial.

(** recovered_table_equals_true_table: every object number resolves to the offset of its
    definition (generation 0), numbers the document does not define resolve to nothing *)
Theorem c19_recovered_table_equals_true_table : forall d root n, wf d = true -> quiet_doc d = true ->
  len (render d root) <= 65536 ->
  tlookup (recover_tbl (render d root)) n = option_map (fun o => (o, 0)) (true_off d n).
Proof. exact recovered_table. Qed.
Check c19_recovered_table_equals_true_table : forall d root n, wf d = true -> quiet_doc d = true ->
  len (render d root) <= 65536 ->
  tlookup (recover_tbl (render d root)) n = option_map (fun o => (o, 0)) (true_off d n).
Print Assumptions c19_recovered_table_equals_true_table.

(** latest header wins, for every header list *)
Theorem c19_latest_header_wins : forall hs n,
  tlookup (add_headers hs) n = fold_left (upd_full n) hs None.
Proof. intros. unfold add_headers. apply tlookup_fold. Qed.
Check c19_latest_header_wins : forall hs n,
  tlookup (add_headers hs) n = fold_left (upd_full n) hs None.
Print Assumptions c19_latest_header_wins.

(** guarded positive part of C19-parseable-table-wrong-offsets: when the primary parse fails and
    recovery is allowed, the table the reader works with is the true one *)
Theorem c19_recovery_faithful_when_primary_fails : forall d root attempts n,
  wf d = true -> quiet_doc d = true -> len (render d root) <= 65536 -> 0 < attempts ->
  exists t, table_used None (render d root) attempts = Some t
            /\ tlookup t n = option_map (fun o => (o, 0)) (true_off d n).
Proof. exact recovery_faithful. Qed.
Check c19_recovery_faithful_when_primary_fails : forall d root attempts n,
  wf d = true -> quiet_doc d = true -> len (render d root) <= 65536 -> 0 < attempts ->
  exists t, table_used None (render d root) attempts = Some t
            /\ tlookup t n = option_map (fun o => (o, 0)) (true_off d n).
Print Assumptions c19_recovery_faithful_when_primary_fails.

(** strict (attempts = 0) never recovers: a failed primary parse stays a failure *)
Theorem c19_strict_fails_loudly : forall file, table_used None file 0 = None.
Proof. reflexivity. Qed.
Check c19_strict_fails_loudly : forall file, table_used None file 0 = None.
Print Assumptions c19_strict_fails_loudly.

(** findings: witnesses *)
Theorem c19_parseable_damage_refuted :
  exists t, wf D_OK = true /\ quiet_doc D_OK = true
    /\ table_used (Some t) (render D_OK 1) 3 = Some t
    /\ tlookup t 2 <> option_map (fun o => (o, 0)) (true_off D_OK 2).
Proof. exact parseable_damage_refuted. Qed.
Check c19_parseable_damage_refuted :
  exists t, wf D_OK = true /\ quiet_doc D_OK = true
    /\ table_used (Some t) (render D_OK 1) 3 = Some t
    /\ tlookup t 2 <> option_map (fun o => (o, 0)) (true_off D_OK 2).
Print Assumptions c19_parseable_damage_refuted.

Theorem c19_header_like_line_refuted :
  wf D_HIJACK = true /\ quiet_doc D_HIJACK = false /\
  tlookup (recover_tbl (render D_HIJACK 1)) 1 <> option_map (fun o => (o, 0)) (true_off D_HIJACK 1).
Proof. exact header_like_line_refuted. Qed.
Check c19_header_like_line_refuted :
  wf D_HIJACK = true /\ quiet_doc D_HIJACK = false /\
  tlookup (recover_tbl (render D_HIJACK 1)) 1 <> option_map (fun o => (o, 0)) (true_off D_HIJACK 1).
Print Assumptions c19_header_like_line_refuted.

Theorem c19_catalog_text_refuted :
  wf D_DECOY = true /\ quiet_doc D_DECOY = true /\ cat_hyp D_DECOY 2 = false /\
  option_map (fun r => snd (fst r)) (recover (render D_DECOY 2)) = Some (RFound 1).
Proof. exact catalog_text_refuted. Qed.
Check c19_catalog_text_refuted :
  wf D_DECOY = true /\ quiet_doc D_DECOY = true /\ cat_hyp D_DECOY 2 = false /\
  option_map (fun r => snd (fst r)) (recover (render D_DECOY 2)) = Some (RFound 1).
Print Assumptions c19_catalog_text_refuted.

(** the hypotheses are satisfiable on a non-trivial document (a string containing "obj" twice,
    a gap in the numbering), and there the model does find table and catalog *)
Example c19_nonvacuous : wf D_OK = true /\ quiet_doc D_OK = true /\ len (render D_OK 1) <= 65536
  /\ cat_hyp D_OK 1 = true /\ scan_file 65536 (render D_OK 1) = offsets D_OK
  /\ recover (render D_OK 1) = Some (true_tbl D_OK, RFound 1, 3).
Proof. exact hyps_satisfiable. Qed.
