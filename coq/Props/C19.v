(** C19 — damaged cross-reference data is reconstructed faithfully.
    Only statements here; proofs live in theories/C19/{Proofs,Chunk,ChunkLong,ChunkEx,Catalog}.v.

    scan_finds_all is proved for ANY file size and ANY chunk size (c19_scan_file_finds_all); the
    carry forces one side condition, [long_lines_dead_doc]: every body line longer than the carry
    cap (1024 bytes, end-of-line excluded) must be dead (no segment of it, cut after an "obj",
    parses as an object header).  Header lines of a rendered document are at most 17 bytes, so
    they never meet the cap; on arbitrary files (c19_chunking_invisible) the same condition covers
    header lines, and c19_long_header_line_missed / c19_long_body_line_refuted show that it is
    genuine (candidate input class: a line longer than 1024 bytes that straddles a window end and
    contains header-like text).
    catalog_found is proved for the modelled stages 4a-4d under [cat_hyp] (c19_catalog_found);
    stages 4e/4f are not modelled. *)
From OxVerif Require Import Base.Util C09.Model C19.Model C19.Proofs C19.Chunk C19.ChunkLong C19.ChunkEx C19.Catalog C19.Compact.

(** the whole-file window finds exactly the object headers of the document, at their true offsets
    (any size) — scan_window_for_headers returns them in reverse discovery order here *)
Theorem c19_scan_window_finds_all : forall d root, wf d = true -> quiet_doc d = true ->
  snd (scan_window (render d root) 0 [] []) = rev (offsets d).
Proof. exact scan_window_render. Qed.
Check c19_scan_window_finds_all : forall d root, wf d = true -> quiet_doc d = true ->
  snd (scan_window (render d root) 0 [] []) = rev (offsets d).
Print Assumptions c19_scan_window_finds_all.

(** scan_finds_all, for files of at most one chunk (no condition on line lengths): the chunked
    scan_object_headers returns the true offset table *)
(** compact / styled objects: whatever follows the keyword `obj` on the header line — a delimiter
    `[ ( / <`, a comment (even one containing header-like text), white space, the whole object
    up to `endobj` — and whatever cross-reference part [t] (no byte 'j': intact, damaged, absent)
    follows the objects, the scan finds every `N 0 obj` at its true offset.  Hypothesis: after
    the header line no later line of an object looks like a header ([cquiet_doc]). *)
Theorem c19_scan_window_finds_all_compact : forall d t,
  cwf d = true -> cquiet_doc d = true -> forallb noj t = true ->
  snd (scan_window (crender d t) 0 [] []) = rev (coffsets d).
Proof. exact scan_window_crender. Qed.
Check c19_scan_window_finds_all_compact : forall d t,
  cwf d = true -> cquiet_doc d = true -> forallb noj t = true ->
  snd (scan_window (crender d t) 0 [] []) = rev (coffsets d).
Print Assumptions c19_scan_window_finds_all_compact.

Example c19_compact_nonvacuous : cwf CD_OK = true /\ cquiet_doc CD_OK = true
  /\ scan_file 65536 (crender CD_OK []) = coffsets CD_OK.
Proof. exact compact_nonvacuous. Qed.

Theorem c19_scan_file_finds_all_partial : forall d root, wf d = true -> quiet_doc d = true ->
  len (render d root) <= 65536 -> scan_file 65536 (render d root) = offsets d.
Proof. exact scan_file_render. Qed.
Check c19_scan_file_finds_all_partial : forall d root, wf d = true -> quiet_doc d = true ->
  len (render d root) <= 65536 -> scan_file 65536 (render d root) = offsets d.
Print Assumptions c19_scan_file_finds_all_partial.

(** chunking is invisible: on ANY file whose lines longer than the carry cap are dead, the chunked
    loop (any chunk size, any file size) followed by the stable sort returns what one window over
    the whole file returns *)
Theorem c19_chunking_invisible : forall file c, long_lines_dead file = true ->
  scan_file c file = isort_off (rev (snd (scan_window file 0 [] []))).
Proof. exact scan_file_whole2. Qed.
Check c19_chunking_invisible : forall file c, long_lines_dead file = true ->
  scan_file c file = isort_off (rev (snd (scan_window file 0 [] []))).
Print Assumptions c19_chunking_invisible.

(** scan_finds_all, any file size, any chunk size: hypotheses on the document only *)
Theorem c19_scan_file_finds_all : forall d root c, wf d = true -> quiet_doc d = true ->
  long_lines_dead_doc d = true -> scan_file c (render d root) = offsets d.
Proof. exact scan_file_finds_all_doc. Qed.
Check c19_scan_file_finds_all : forall d root c, wf d = true -> quiet_doc d = true ->
  long_lines_dead_doc d = true -> scan_file c (render d root) = offsets d.
Print Assumptions c19_scan_file_finds_all.

(** the same with the side condition stated on the file; lines of at most 1024 bytes and lines
    without the letter 'j' are special cases *)
Theorem c19_scan_file_finds_all_file : forall d root c, wf d = true -> quiet_doc d = true ->
  long_lines_dead (render d root) = true -> scan_file c (render d root) = offsets d.
Proof. exact scan_file_finds_all2. Qed.
Check c19_scan_file_finds_all_file : forall d root c, wf d = true -> quiet_doc d = true ->
  long_lines_dead (render d root) = true -> scan_file c (render d root) = offsets d.
Print Assumptions c19_scan_file_finds_all_file.

Theorem c19_side_condition_special_cases :
  (forall file, short_lines file = true -> long_lines_dead file = true)
  /\ (forall file, lines_ok_noj file true = true -> long_lines_dead file = true)
  /\ (forall d, long_lines_noj_doc d = true -> long_lines_dead_doc d = true)
  /\ (forall d root, wf d = true -> long_lines_dead_doc d = true -> long_lines_dead (render d root) = true).
Proof.
  split; [exact short_lines_dead|]. split; [intros file; apply lines_ok_noj_ok|].
  split; [exact long_lines_noj_doc_ok | exact render_lines_ok].
Qed.
Check c19_side_condition_special_cases :
  (forall file, short_lines file = true -> long_lines_dead file = true)
  /\ (forall file, lines_ok_noj file true = true -> long_lines_dead file = true)
  /\ (forall d, long_lines_noj_doc d = true -> long_lines_dead_doc d = true)
  /\ (forall d root, wf d = true -> long_lines_dead_doc d = true -> long_lines_dead (render d root) = true).
Print Assumptions c19_side_condition_special_cases.

(** the side condition is genuine: (a) a header line longer than the carry is missed by the
    chunked scan although one window finds it; (b) a rendered, well-formed, quiet document of more
    than one 64 KiB chunk with a body line `x <65550 blanks>1 0 obj` longer than the carry: with the
    real chunk size the window after the capped carry starts inside that line and reports a second
    object 1 at offset 64512, which wins: the recovered table sends the catalog into object 2's body *)
Theorem c19_long_header_line_missed :
  snd (scan_window F_LONGHDR 0 [] []) = [(1, 0, 0)] /\ scan_file 64 F_LONGHDR = []
  /\ long_lines_dead F_LONGHDR = false.
Proof. split; [apply long_header_line_missed|]. split; [apply long_header_line_missed|exact long_header_line_outside]. Qed.
Check c19_long_header_line_missed :
  snd (scan_window F_LONGHDR 0 [] []) = [(1, 0, 0)] /\ scan_file 64 F_LONGHDR = []
  /\ long_lines_dead F_LONGHDR = false.
Print Assumptions c19_long_header_line_missed.

Theorem c19_long_body_line_refuted :
  wf D_LONGLINE = true /\ quiet_doc D_LONGLINE = true
  /\ 65536 < len (render D_LONGLINE 1)
  /\ offsets D_LONGLINE = [(1, 0, 15); (2, 0, 64)]
  /\ scan_file 65536 (render D_LONGLINE 1) = [(1, 0, 15); (2, 0, 64); (1, 0, 64512)]
  /\ tlookup (recover_tbl (render D_LONGLINE 1)) 1 = Some (64512, 0)
  /\ true_off D_LONGLINE 1 = Some 15.
Proof. exact long_body_line_refuted. Qed.
Check c19_long_body_line_refuted :
  wf D_LONGLINE = true /\ quiet_doc D_LONGLINE = true
  /\ 65536 < len (render D_LONGLINE 1)
  /\ offsets D_LONGLINE = [(1, 0, 15); (2, 0, 64)]
  /\ scan_file 65536 (render D_LONGLINE 1) = [(1, 0, 15); (2, 0, 64); (1, 0, 64512)]
  /\ tlookup (recover_tbl (render D_LONGLINE 1)) 1 = Some (64512, 0)
  /\ true_off D_LONGLINE 1 = Some 15.
Print Assumptions c19_long_body_line_refuted.

(** the hypotheses are satisfiable beyond one chunk (about 70 KB, 2200 short lines, one dead line
    of 1100 bytes, a string containing "obj") *)
Example c19_full_nonvacuous :
  wf D_BIG = true /\ quiet_doc D_BIG = true /\ long_lines_dead_doc D_BIG = true
  /\ long_lines_dead (render D_BIG 1) = true
  /\ short_lines (render D_BIG 1) = false /\ 65536 < len (render D_BIG 1)
  /\ scan_file 65536 (render D_BIG 1) = offsets D_BIG.
Proof. exact full_nonvacuous. Qed.

(** recovered_table_equals_true_table and the fallback, any file size *)
Theorem c19_recovered_table_equals_true_table_full : forall d root n, wf d = true -> quiet_doc d = true ->
  long_lines_dead_doc d = true ->
  tlookup (recover_tbl (render d root)) n = option_map (fun o => (o, 0)) (true_off d n).
Proof. exact recovered_table_doc. Qed.
Check c19_recovered_table_equals_true_table_full : forall d root n, wf d = true -> quiet_doc d = true ->
  long_lines_dead_doc d = true ->
  tlookup (recover_tbl (render d root)) n = option_map (fun o => (o, 0)) (true_off d n).
Print Assumptions c19_recovered_table_equals_true_table_full.

Theorem c19_recovery_faithful_when_primary_fails_full : forall d root attempts n,
  wf d = true -> quiet_doc d = true -> long_lines_dead_doc d = true -> 0 < attempts ->
  exists t, table_used None (render d root) attempts = Some t
            /\ tlookup t n = option_map (fun o => (o, 0)) (true_off d n).
Proof. exact recovery_faithful_doc. Qed.
Check c19_recovery_faithful_when_primary_fails_full : forall d root attempts n,
  wf d = true -> quiet_doc d = true -> long_lines_dead_doc d = true -> 0 < attempts ->
  exists t, table_used None (render d root) attempts = Some t
            /\ tlookup t n = option_map (fun o => (o, 0)) (true_off d n).
Print Assumptions c19_recovery_faithful_when_primary_fails_full.

(** catalog_found: the modelled catalog search (stages 4a-4d) returns the true /Root *)
Theorem c19_catalog_found : forall d root, wf d = true -> quiet_doc d = true -> cat_hyp d root = true ->
  option_map (fun r => snd (fst r)) (recover (render d root)) = Some (RFound root).
Proof. exact catalog_found. Qed.
Check c19_catalog_found : forall d root, wf d = true -> quiet_doc d = true -> cat_hyp d root = true ->
  option_map (fun r => snd (fst r)) (recover (render d root)) = Some (RFound root).
Print Assumptions c19_catalog_found.

(** recovered_table_equals_true_table: every object number resolves to the offset of its
    definition (generation 0), numbers the document does not define resolve to nothing *)
Theorem c19_recovered_table_equals_true_table : forall d root n, wf d = true -> quiet_doc d = true ->
  len (render d root) <= 65536 ->
  tlookup (recover_tbl (render d root)) n = option_map (fun o => (o, 0)) (true_off d n).
Proof. exact recovered_table. Qed.
Check c19_recovered_table_equals_true_table : forall d root n, wf d = true -> quiet_doc d = true ->
  len (render d root) <= 65536 ->
  tlookup (recover_tbl (render d root)) n = option_map (fun o => (o, 0)) (true_off d n).
Print Assumptions c19_recovered_table_equals_true_table.

(** latest header wins, for every header list *)
Theorem c19_latest_header_wins : forall hs n,
  tlookup (add_headers hs) n = fold_left (upd_full n) hs None.
Proof. intros. unfold add_headers. apply tlookup_fold. Qed.
Check c19_latest_header_wins : forall hs n,
  tlookup (add_headers hs) n = fold_left (upd_full n) hs None.
Print Assumptions c19_latest_header_wins.

(** guarded positive part of C19-parseable-table-wrong-offsets: when the primary parse fails and
    recovery is allowed, the table the reader works with is the true one *)
Theorem c19_recovery_faithful_when_primary_fails : forall d root attempts n,
  wf d = true -> quiet_doc d = true -> len (render d root) <= 65536 -> 0 < attempts ->
  exists t, table_used None (render d root) attempts = Some t
            /\ tlookup t n = option_map (fun o => (o, 0)) (true_off d n).
Proof. exact recovery_faithful. Qed.
Check c19_recovery_faithful_when_primary_fails : forall d root attempts n,
  wf d = true -> quiet_doc d = true -> len (render d root) <= 65536 -> 0 < attempts ->
  exists t, table_used None (render d root) attempts = Some t
            /\ tlookup t n = option_map (fun o => (o, 0)) (true_off d n).
Print Assumptions c19_recovery_faithful_when_primary_fails.

(** strict (attempts = 0) never recovers: a failed primary parse stays a failure *)
Theorem c19_strict_fails_loudly : forall file, table_used None file 0 = None.
Proof. reflexivity. Qed.
Check c19_strict_fails_loudly : forall file, table_used None file 0 = None.
Print Assumptions c19_strict_fails_loudly.

(** findings: witnesses *)
Theorem c19_parseable_damage_refuted :
  exists t, wf D_OK = true /\ quiet_doc D_OK = true
    /\ table_used (Some t) (render D_OK 1) 3 = Some t
    /\ tlookup t 2 <> option_map (fun o => (o, 0)) (true_off D_OK 2).
Proof. exact parseable_damage_refuted. Qed.
Check c19_parseable_damage_refuted :
  exists t, wf D_OK = true /\ quiet_doc D_OK = true
    /\ table_used (Some t) (render D_OK 1) 3 = Some t
    /\ tlookup t 2 <> option_map (fun o => (o, 0)) (true_off D_OK 2).
Print Assumptions c19_parseable_damage_refuted.

Theorem c19_header_like_line_refuted :
  wf D_HIJACK = true /\ quiet_doc D_HIJACK = false /\
  tlookup (recover_tbl (render D_HIJACK 1)) 1 <> option_map (fun o => (o, 0)) (true_off D_HIJACK 1).
Proof. exact header_like_line_refuted. Qed.
Check c19_header_like_line_refuted :
  wf D_HIJACK = true /\ quiet_doc D_HIJACK = false /\
  tlookup (recover_tbl (render D_HIJACK 1)) 1 <> option_map (fun o => (o, 0)) (true_off D_HIJACK 1).
Print Assumptions c19_header_like_line_refuted.

Theorem c19_catalog_text_refuted :
  wf D_DECOY = true /\ quiet_doc D_DECOY = true /\ cat_hyp D_DECOY 2 = false /\
  option_map (fun r => snd (fst r)) (recover (render D_DECOY 2)) = Some (RFound 1).
Proof. exact catalog_text_refuted. Qed.
Check c19_catalog_text_refuted :
  wf D_DECOY = true /\ quiet_doc D_DECOY = true /\ cat_hyp D_DECOY 2 = false /\
  option_map (fun r => snd (fst r)) (recover (render D_DECOY 2)) = Some (RFound 1).
Print Assumptions c19_catalog_text_refuted.

(** the hypotheses are satisfiable on a non-trivial document (a string containing "obj" twice,
    a gap in the numbering), and there the model does find table and catalog *)
Example c19_nonvacuous : wf D_OK = true /\ quiet_doc D_OK = true /\ len (render D_OK 1) <= 65536
  /\ cat_hyp D_OK 1 = true /\ scan_file 65536 (render D_OK 1) = offsets D_OK
  /\ recover (render D_OK 1) = Some (true_tbl D_OK, RFound 1, 3).
Proof. exact hyps_satisfiable. Qed.
