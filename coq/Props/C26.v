(** C26 — CMaps map every code to the Unicode they define.  Statements only. *)
From OxVerif Require Import Base.Util C26.Model C26.Proofs.
Open Scope N_scope.

(** Wherever a well-formed CMap gives a code at most one value (no overlapping definitions at
    that code) and defined codes lie inside the code space, the library's lookup over the entries
    its parser builds is the reference mapping: bfchar value, bfrange offset form = destination
    plus (code - lo) as an integer with carry, bfrange array form = the (code - lo)-th element;
    undefined codes and codes outside the code space map to nothing. *)
Theorem c26_map_matches_ref : forall secs code,
  forallb def_wf (defs_of secs) = true -> bytes_ok code = true ->
  (length (ref_values (defs_of secs) code) <= 1)%nat ->
  (ref_values (defs_of secs) code <> [] -> in_cs (codespace_of secs) code = true) ->
  map_model (entries_of secs) code = ref_map (codespace_of secs) (defs_of secs) code.
Proof. exact map_matches_ref. Qed.
Check c26_map_matches_ref : forall secs code,
  forallb def_wf (defs_of secs) = true -> bytes_ok code = true ->
  (length (ref_values (defs_of secs) code) <= 1)%nat ->
  (ref_values (defs_of secs) code <> [] -> in_cs (codespace_of secs) code = true) ->
  map_model (entries_of secs) code = ref_map (codespace_of secs) (defs_of secs) code.
Print Assumptions c26_map_matches_ref.

(** With overlapping definitions the result is still the value of one of them. *)
Theorem c26_overlap_result_is_a_definition : forall secs code v,
  forallb def_wf (defs_of secs) = true -> bytes_ok code = true ->
  map_model (entries_of secs) code = Some v -> In v (ref_values (defs_of secs) code).
Proof. exact map_is_some_definition. Qed.
Check c26_overlap_result_is_a_definition : forall secs code v,
  forallb def_wf (defs_of secs) = true -> bytes_ok code = true ->
  map_model (entries_of secs) code = Some v -> In v (ref_values (defs_of secs) code).
Print Assumptions c26_overlap_result_is_a_definition.

(** Codes no definition covers are not mapped (in particular everything outside the code space
    that has no explicit entry is rejected). *)
Theorem c26_undefined_unmapped : forall secs code,
  forallb def_wf (defs_of secs) = true -> bytes_ok code = true ->
  ref_values (defs_of secs) code = [] -> map_model (entries_of secs) code = None.
Proof. exact undefined_unmapped. Qed.
Check c26_undefined_unmapped : forall secs code,
  forallb def_wf (defs_of secs) = true -> bytes_ok code = true ->
  ref_values (defs_of secs) code = [] -> map_model (entries_of secs) code = None.
Print Assumptions c26_undefined_unmapped.

(** The byte-wise carry loop is big-endian integer addition modulo 256^len (ranges crossing xxFF). *)
Theorem c26_range_carry_correct : forall d n, bytes_ok d = true -> add_carry d n = be_add d n.
Proof. exact add_carry_spec. Qed.
Check c26_range_carry_correct : forall d n, bytes_ok d = true -> add_carry d n = be_add d n.
Print Assumptions c26_range_carry_correct.

(** Array-form ranges: the entries the parser creates give exactly the (code - lo)-th element. *)
Theorem c26_array_form_correct : forall lo hi ds code,
  def_wf (DArr lo hi ds) = true -> bytes_ok code = true ->
  vals (expand_array lo hi ds) code = ov (def_value (DArr lo hi ds) code).
Proof. intros lo hi ds code. exact (def_entries_vals (DArr lo hi ds) code). Qed.
Check c26_array_form_correct : forall lo hi ds code,
  def_wf (DArr lo hi ds) = true -> bytes_ok code = true ->
  vals (expand_array lo hi ds) code = ov (def_value (DArr lo hi ds) code).
Print Assumptions c26_array_form_correct.

(** Every ToUnicode CMap the builder generates reads back as exactly the mapping it was built
    from (keys are unique: the builder stores a HashMap), whatever the insertion order, and its
    entries are emitted sorted by code. *)
Theorem c26_builder_roundtrip : forall m code,
  NoDup (List.map fst m) -> map_model (builder_entries m) code = assoc code m.
Proof. exact builder_roundtrip. Qed.
Check c26_builder_roundtrip : forall m code,
  NoDup (List.map fst m) -> map_model (builder_entries m) code = assoc code m.
Print Assumptions c26_builder_roundtrip.

Theorem c26_builder_sorted : forall m, sorted_keys (sort_pairs m).
Proof. exact builder_sorted. Qed.
Check c26_builder_sorted : forall m, sorted_keys (sort_pairs m).
Print Assumptions c26_builder_sorted.

(** The full statement "codes outside the code space are rejected" is false of the faithful
    model (recorded finding C26-explicit-outside-codespace): an explicit entry outside the
    declared code space is accepted. *)
Theorem c26_outside_codespace_accepted_refuted : exists secs code,
  forallb def_wf (defs_of secs) = true /\ bytes_ok code = true /\
  ref_map (codespace_of secs) (defs_of secs) code = None /\
  map_model (entries_of secs) code <> None.
Proof.
  exists [Codespace [(unhex "0000", unhex "ffff")]; BfChar [(unhex "41", unhex "0041")]], (unhex "41").
  vm_compute. repeat split; discriminate.
Qed.
Check c26_outside_codespace_accepted_refuted : exists secs code,
  forallb def_wf (defs_of secs) = true /\ bytes_ok code = true /\
  ref_map (codespace_of secs) (defs_of secs) code = None /\
  map_model (entries_of secs) code <> None.
Print Assumptions c26_outside_codespace_accepted_refuted.

(** non-vacuity: a CMap with a boundary-crossing offset range, an array range and a bfchar meets
    the hypotheses of the main theorem at a code that exercises the carry *)
Example c26_nonvacuous :
  let secs := [Codespace [(unhex "0000", unhex "ffff")];
               BfRange [(unhex "01f0", unhex "0210", RHex (unhex "00fa"));
                        (unhex "0300", unhex "0302", RArr [unhex "0041"; unhex "d83dde00"; unhex "0043"])];
               BfChar [(unhex "0005", unhex "00660069")]] in
  forallb def_wf (defs_of secs) = true /\
  (length (ref_values (defs_of secs) (unhex "0201")) <= 1)%nat /\
  in_cs (codespace_of secs) (unhex "0201") = true /\
  map_model (entries_of secs) (unhex "0201") = Some (unhex "010b") /\
  map_model (entries_of secs) (unhex "0301") = Some (unhex "d83dde00") /\
  map_model (entries_of secs) (unhex "0303") = None.
Proof. vm_compute. repeat split; lia. Qed.
