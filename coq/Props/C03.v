(** C03 — written files are structurally valid PDF.
    Only statements here; proofs live in theories/C03/{Sound,WriterProofs}.v. *)
From OxVerif Require Import Base.Util C03.Checker C03.Writer C03.Sound C03.WriterProofs.

(** the independent checker is sound for the declarative predicate: header, end of file,
    table position, every in-use entry points at "n g obj", /Size exact, unique numbers,
    objects well formed (tokens, /Length, endobj), every reference resolves *)
Theorem c03_valid_pdf_sound : forall b, valid_pdf b = true -> ValidPdf b.
Proof. exact valid_pdf_sound. Qed.
Check c03_valid_pdf_sound : forall b, valid_pdf b = true -> ValidPdf b.
Print Assumptions c03_valid_pdf_sound.

(** what a 20-byte entry accepted by the checker looks like *)
Theorem c03_entry_format : forall num l e r, read_entry num l = Some (e, r) ->
  exists d10 d5 t e1 e2,
    l = d10 ++ 32 :: d5 ++ 32 :: t :: e1 :: e2 :: r /\
    length d10 = 10%nat /\ length d5 = 5%nat /\
    forallb is_digit d10 = true /\ forallb is_digit d5 = true /\
    e_num e = num /\ e_off e = dval 0 d10 /\ e_gen e = dval 0 d5 /\
    ((t = 110 /\ e_used e = true) \/ (t = 102 /\ e_used e = false)) /\
    ((e1 = 32 /\ is_eol e2 = true) \/ (e1 = 13 /\ e2 = 10)).
Proof. exact read_entry_spec. Qed.
Check c03_entry_format : forall num l e r, read_entry num l = Some (e, r) ->
  exists d10 d5 t e1 e2,
    l = d10 ++ 32 :: d5 ++ 32 :: t :: e1 :: e2 :: r /\
    length d10 = 10%nat /\ length d5 = 5%nat /\
    forallb is_digit d10 = true /\ forallb is_digit d5 = true /\
    e_num e = num /\ e_off e = dval 0 d10 /\ e_gen e = dval 0 d5 /\
    ((t = 110 /\ e_used e = true) \/ (t = 102 /\ e_used e = false)) /\
    ((e1 = 32 /\ is_eol e2 = true) \/ (e1 = 13 /\ e2 = 10)).
Print Assumptions c03_entry_format.

(** the writer's position counter is the number of bytes written, after any step sequence *)
Theorem c03_writer_pos_is_length : forall steps root info,
  pos (run w_init steps) = len (out (run w_init steps)) /\
  pos (finish (run w_init steps) root info) = len (out (finish (run w_init steps) root info)).
Proof. exact pos_is_length. Qed.
Check c03_writer_pos_is_length : forall steps root info,
  pos (run w_init steps) = len (out (run w_init steps)) /\
  pos (finish (run w_init steps) root info) = len (out (finish (run w_init steps) root info)).
Print Assumptions c03_writer_pos_is_length.

(** every offset recorded for the table is where "id 0 obj\n" starts in the final file *)
Theorem c03_writer_xref_points_at_header : forall steps root info id off,
  In (id, off) (xref (finish (run w_init steps) root info)) ->
  exists rest, at_off (out (finish (run w_init steps) root info)) off (obj_hdr id ++ rest).
Proof. exact xref_points_at_header. Qed.
Check c03_writer_xref_points_at_header : forall steps root info id off,
  In (id, off) (xref (finish (run w_init steps) root info)) ->
  exists rest, at_off (out (finish (run w_init steps) root info)) off (obj_hdr id ++ rest).
Print Assumptions c03_writer_xref_points_at_header.

(** FULL statement, not proved for all inputs (evaluated per produced file instead):
      forall ver objs root info, bodies well formed -> offsets < 10^10 -> root/info written ->
        ValidPdf (emit ver objs root info).
    Proved part: startxref names the table position, the table and trailer bytes are there,
    every in-use line's offset is the header of its object in the sense of [ValidPdf]. *)
Theorem c03_writer_output_valid_partial : forall steps root info,
  let s := run w_init steps in
  let b := final steps root info in
  StartxrefSays b (pos s) /\
  at_off b (pos s) (xref_bytes (xref s) ++ trailer_bytes (xref s) root info (pos s)) /\
  (forall id off, xlookup id (xref s) = Some off -> ObjHeaderAt b off id 0).
Proof. exact writer_output_valid_partial. Qed.
Check c03_writer_output_valid_partial : forall steps root info,
  let s := run w_init steps in
  let b := final steps root info in
  StartxrefSays b (pos s) /\
  at_off b (pos s) (xref_bytes (xref s) ++ trailer_bytes (xref s) root info (pos s)) /\
  (forall id off, xlookup id (xref s) = Some off -> ObjHeaderAt b off id 0).
Print Assumptions c03_writer_output_valid_partial.

(** non-vacuity: the model's output for a small object list (dictionary, strings, a stream,
    references) is accepted, hence satisfies [ValidPdf] *)
Example c03_nonvacuous : ValidPdf (emit (S_ "1.7") demo_objs 1 3).
Proof. apply valid_pdf_sound. exact demo_valid. Qed.

(** the checker rejects the realistic defects *)
Example c03_rejects_size_off_by_one : exists b, pdf_code b = 5.
Proof. eexists. exact demo_size_off_by_one. Qed.
Example c03_rejects_stale_length : exists b, pdf_code b = 7.
Proof. eexists. exact demo_stale_length. Qed.
Example c03_rejects_dangling_reference : exists b, pdf_code b = 8.
Proof. eexists. exact demo_dangling_reference. Qed.
