(** C03 — written files are structurally valid PDF.
    Only statements here; proofs live in theories/C03/{Sound,WriterProofs,FullTable,FullObjects,Full,BodyOfSer}.v. *)
From OxVerif Require Import Base.Util C03.Checker C03.Writer C03.Sound C03.WriterProofs
  C03.FullTable C03.FullObjects C03.Full C03.BodyOfSer.
From OxVerif Require C09.Model.

(** the independent checker is sound for the declarative predicate: header, end of file,
    table position, every in-use entry points at "n g obj", /Size exact, unique numbers,
    objects well formed (tokens, /Length, endobj), every reference resolves *)
Theorem c03_valid_pdf_sound : forall b, valid_pdf b = true -> ValidPdf b.
Proof. exact valid_pdf_sound. Qed.
Check c03_valid_pdf_sound : forall b, valid_pdf b = true -> ValidPdf b.
Print Assumptions c03_valid_pdf_sound.

(** what a 20-byte entry accepted by the checker looks like *)
Theorem c03_entry_format : forall num l e r, read_entry num l = Some (e, r) ->
  exists d10 d5 t e1 e2,
    l = d10 ++ 32 :: d5 ++ 32 :: t :: e1 :: e2 :: r /\
    length d10 = 10%nat /\ length d5 = 5%nat /\
    forallb is_digit d10 = true /\ forallb is_digit d5 = true /\
    e_num e = num /\ e_off e = dval 0 d10 /\ e_gen e = dval 0 d5 /\
    ((t = 110 /\ e_used e = true) \/ (t = 102 /\ e_used e = false)) /\
    ((e1 = 32 /\ is_eol e2 = true) \/ (e1 = 13 /\ e2 = 10)).
Proof. exact read_entry_spec. Qed.
Check c03_entry_format : forall num l e r, read_entry num l = Some (e, r) ->
  exists d10 d5 t e1 e2,
    l = d10 ++ 32 :: d5 ++ 32 :: t :: e1 :: e2 :: r /\
    length d10 = 10%nat /\ length d5 = 5%nat /\
    forallb is_digit d10 = true /\ forallb is_digit d5 = true /\
    e_num e = num /\ e_off e = dval 0 d10 /\ e_gen e = dval 0 d5 /\
    ((t = 110 /\ e_used e = true) \/ (t = 102 /\ e_used e = false)) /\
    ((e1 = 32 /\ is_eol e2 = true) \/ (e1 = 13 /\ e2 = 10)).
Print Assumptions c03_entry_format.

(** the writer's position counter is the number of bytes written, after any step sequence *)
Theorem c03_writer_pos_is_length : forall steps root info,
  pos (run w_init steps) = len (out (run w_init steps)) /\
  pos (finish (run w_init steps) root info) = len (out (finish (run w_init steps) root info)).
Proof. exact pos_is_length. Qed.
Check c03_writer_pos_is_length : forall steps root info,
  pos (run w_init steps) = len (out (run w_init steps)) /\
  pos (finish (run w_init steps) root info) = len (out (finish (run w_init steps) root info)).
Print Assumptions c03_writer_pos_is_length.

(** every offset recorded for the table is where "id 0 obj\n" starts in the final file *)
Theorem c03_writer_xref_points_at_header : forall steps root info id off,
  In (id, off) (xref (finish (run w_init steps) root info)) ->
  exists rest, at_off (out (finish (run w_init steps) root info)) off (obj_hdr id ++ rest).
Proof. exact xref_points_at_header. Qed.
Check c03_writer_xref_points_at_header : forall steps root info id off,
  In (id, off) (xref (finish (run w_init steps) root info)) ->
  exists rest, at_off (out (finish (run w_init steps) root info)) off (obj_hdr id ++ rest).
Print Assumptions c03_writer_xref_points_at_header.

(** Proved part that needs NO hypothesis on the bodies (kept; consumed by the full theorem
    below): startxref names the table position, the table and trailer bytes are there, every
    in-use line's offset is the header of its object in the sense of [ValidPdf]. *)
Theorem c03_writer_output_valid_partial : forall steps root info,
  let s := run w_init steps in
  let b := final steps root info in
  StartxrefSays b (pos s) /\
  at_off b (pos s) (xref_bytes (xref s) ++ trailer_bytes (xref s) root info (pos s)) /\
  (forall id off, xlookup id (xref s) = Some off -> ObjHeaderAt b off id 0).
Proof. exact writer_output_valid_partial. Qed.
Check c03_writer_output_valid_partial : forall steps root info,
  let s := run w_init steps in
  let b := final steps root info in
  StartxrefSays b (pos s) /\
  at_off b (pos s) (xref_bytes (xref s) ++ trailer_bytes (xref s) root info (pos s)) /\
  (forall id off, xlookup id (xref s) = Some off -> ObjHeaderAt b off id 0).
Print Assumptions c03_writer_output_valid_partial.

(** * The clauses of [ValidPdf] for the emission model, one theorem each *)

(** (1) trailer: the keyword, then a dictionary that the checker reads back with
    /Size = highest number of the table + 1, /Root a reference, no /Prev *)
Theorem c03_writer_trailer_size : forall x root info xpos,
  let after := trailer_after root info (xmax x + 1) xpos in
  let d := trailer_dict root info (xmax x + 1) in
  trailer_bytes x root info xpos = S_ "trailer" ++ after /\
  parse_obj (S (length after)) after = Some (ODict d, trailer_tail xpos) /\
  dict_get (S_ "Size") d = Some (OInt (Z.of_N (max_num (table_of x) + 1))) /\
  dict_get (S_ "Root") d = Some (ORef root 0) /\
  dict_get (S_ "Prev") d = None.
Proof. exact writer_trailer_size. Qed.
Check c03_writer_trailer_size : forall x root info xpos,
  let after := trailer_after root info (xmax x + 1) xpos in
  let d := trailer_dict root info (xmax x + 1) in
  trailer_bytes x root info xpos = S_ "trailer" ++ after /\
  parse_obj (S (length after)) after = Some (ODict d, trailer_tail xpos) /\
  dict_get (S_ "Size") d = Some (OInt (Z.of_N (max_num (table_of x) + 1))) /\
  dict_get (S_ "Root") d = Some (ORef root 0) /\
  dict_get (S_ "Prev") d = None.
Print Assumptions c03_writer_trailer_size.

(** (2) cross-reference section: one subsection "0 max+1" that the checker reads back as
    [table_of x]; numbers 0,1,..,max in file order, first the free head entry (generation
    65535), every line 20 bytes (their format: c03_entry_format).  Hypothesis: recorded
    offsets below 10^10 ({:010} prints more digits otherwise). *)
Theorem c03_writer_xref_layout : forall x tail, OffsetsFit x -> boundary tail = true ->
  read_xref (xref_bytes x ++ S_ "trailer" ++ tail) = Some (table_of x, tail) /\
  List.map e_num (rev (table_of x)) = 0 :: upto (xmax x) /\
  (exists t, rev (table_of x) = head_entry :: t) /\
  length free_head = 20%nat /\ (forall n, length (entry_line x n) = 20%nat).
Proof. exact writer_xref_layout. Qed.
Check c03_writer_xref_layout : forall x tail, OffsetsFit x -> boundary tail = true ->
  read_xref (xref_bytes x ++ S_ "trailer" ++ tail) = Some (table_of x, tail) /\
  List.map e_num (rev (table_of x)) = 0 :: upto (xmax x) /\
  (exists t, rev (table_of x) = head_entry :: t) /\
  length free_head = 20%nat /\ (forall n, length (entry_line x n) = 20%nat).
Print Assumptions c03_writer_xref_layout.

(** (3) end of file: startxref names the position of the table, which lies inside the file,
    and the bytes from there on are the table followed by the trailer *)
Theorem c03_writer_tail : forall steps root info,
  let s := run w_init steps in
  let b := final steps root info in
  StartxrefSays b (pos s) /\ pos s < len b /\
  drop (pos s) b = xref_bytes (xref s) ++ trailer_bytes (xref s) root info (pos s).
Proof. exact writer_tail. Qed.
Check c03_writer_tail : forall steps root info,
  let s := run w_init steps in
  let b := final steps root info in
  StartxrefSays b (pos s) /\ pos s < len b /\
  drop (pos s) b = xref_bytes (xref s) ++ trailer_bytes (xref s) root info (pos s).
Print Assumptions c03_writer_tail.

(** (4) one entry per object number *)
Theorem c03_writer_unique_numbers : forall x e1 e2 l1 l2 l3,
  table_of x = l1 ++ e1 :: l2 ++ e2 :: l3 -> e_num e1 <> e_num e2.
Proof. exact table_unique. Qed.
Check c03_writer_unique_numbers : forall x e1 e2 l1 l2 l3,
  table_of x = l1 ++ e1 :: l2 ++ e2 :: l3 -> e_num e1 <> e_num e2.
Print Assumptions c03_writer_unique_numbers.

(** (5) a reference [id 0 R] to any id >= 1 written by the step sequence resolves to an
    in-use entry of generation 0 *)
Theorem c03_writer_refs_resolve : forall steps id,
  In id (flat_map step_id steps) -> 1 <= id ->
  Resolves (table_of (xref (run w_init steps))) (id, 0).
Proof. exact writer_refs_resolve. Qed.
Check c03_writer_refs_resolve : forall steps id,
  In id (flat_map step_id steps) -> 1 <= id ->
  Resolves (table_of (xref (run w_init steps))) (id, 0).
Print Assumptions c03_writer_refs_resolve.

(** (6) stream /Length: a body  dict "\nstream\n" data "\nendstream"  whose dictionary reads
    back with the direct entry /Length = |data| is accepted by the object reader (which skips
    exactly /Length bytes and must find endstream, then the writer's endobj, there) *)
Theorem c03_writer_stream_length_exact : forall dv d data rest,
  parse_obj (S (length (10 :: dv ++ stream_open ++ data ++ stream_close ++ obj_end ++ rest)))
            (10 :: dv ++ stream_open ++ data ++ stream_close ++ obj_end ++ rest)
    = Some (ODict d, stream_open ++ data ++ stream_close ++ obj_end ++ rest) ->
  dict_get (S_ "Length") d = Some (OInt (Z.of_N (len data))) ->
  read_body (10 :: (dv ++ stream_open ++ data ++ stream_close) ++ obj_end ++ rest)
    = Some (refs_of (S (length (10 :: dv ++ stream_open ++ data ++ stream_close ++ obj_end ++ rest))) (ODict d)).
Proof. exact read_body_stream. Qed.
Check c03_writer_stream_length_exact : forall dv d data rest,
  parse_obj (S (length (10 :: dv ++ stream_open ++ data ++ stream_close ++ obj_end ++ rest)))
            (10 :: dv ++ stream_open ++ data ++ stream_close ++ obj_end ++ rest)
    = Some (ODict d, stream_open ++ data ++ stream_close ++ obj_end ++ rest) ->
  dict_get (S_ "Length") d = Some (OInt (Z.of_N (len data))) ->
  read_body (10 :: (dv ++ stream_open ++ data ++ stream_close) ++ obj_end ++ rest)
    = Some (refs_of (S (length (10 :: dv ++ stream_open ++ data ++ stream_close ++ obj_end ++ rest))) (ODict d)).
Print Assumptions c03_writer_stream_length_exact.

(** (7) the writer's own tokens around a body: "id 0 obj\n" is read as the header of object
    id generation 0, and a value followed by the writer's "\nendobj\n" is a complete object *)
Theorem c03_writer_object_framing : forall id v o rest,
  parse_obj (S (length (10 :: v ++ obj_end ++ rest))) (10 :: v ++ obj_end ++ rest)
    = Some (o, obj_end ++ rest) ->
  obj_header (obj_hdr id ++ v ++ obj_end ++ rest) id 0 = Some (10 :: v ++ obj_end ++ rest) /\
  read_body (10 :: v ++ obj_end ++ rest) = Some (refs_of (S (length (10 :: v ++ obj_end ++ rest))) o).
Proof. exact writer_object_framing. Qed.
Check c03_writer_object_framing : forall id v o rest,
  parse_obj (S (length (10 :: v ++ obj_end ++ rest))) (10 :: v ++ obj_end ++ rest)
    = Some (o, obj_end ++ rest) ->
  obj_header (obj_hdr id ++ v ++ obj_end ++ rest) id 0 = Some (10 :: v ++ obj_end ++ rest) /\
  read_body (10 :: v ++ obj_end ++ rest) = Some (refs_of (S (length (10 :: v ++ obj_end ++ rest))) o).
Print Assumptions c03_writer_object_framing.

(** * FULL statement: every output of the emission model is a valid PDF.
    Hypotheses (all about what the model treats as opaque or as a parameter):
      VerOk ver          the version string is digit '.' digit ...
      BodyOk P body      (theories/C03/FullObjects.v) the serialised value reads back with the
                         checker's value reader up to the "\nendobj\n" the writer appends,
                         whatever follows in the file; or it is dict "\nstream\n" data
                         "\nendstream" with the direct /Length = |data|; and every reference
                         inside satisfies P
      RefOk ids (n, g)   g = 0, n >= 1, n is one of the written ids (also for /Root, /Info)
      file shorter than 10^10 bytes.
    [BodyOk] IS derived for the bytes produced by the C09 serialiser model ([C09.Model.ser esc_iso]),
    see c03_bodyok_of_ser / c03_writer_output_valid_ser at the end of this file. *)
Theorem c03_writer_output_valid : forall ver objs root info,
  VerOk ver ->
  (forall id body, In (id, body) objs -> BodyOk (RefOk (List.map fst objs)) body) ->
  RefOk (List.map fst objs) (root, 0) -> RefOk (List.map fst objs) (info, 0) ->
  len (emit ver objs root info) < 10000000000 ->
  ValidPdf (emit ver objs root info).
Proof. exact writer_output_valid. Qed.
Check c03_writer_output_valid : forall ver objs root info,
  VerOk ver ->
  (forall id body, In (id, body) objs -> BodyOk (RefOk (List.map fst objs)) body) ->
  RefOk (List.map fst objs) (root, 0) -> RefOk (List.map fst objs) (info, 0) ->
  len (emit ver objs root info) < 10000000000 ->
  ValidPdf (emit ver objs root info).
Print Assumptions c03_writer_output_valid.

(** its hypotheses are satisfiable on a non-trivial value (dictionary with references,
    strings, a stream) *)
Example c03_writer_output_valid_hyps :
  VerOk (S_ "1.7") /\
  (forall id body, In (id, body) demo_objs -> BodyOk (RefOk (List.map fst demo_objs)) body) /\
  RefOk (List.map fst demo_objs) (1, 0) /\ RefOk (List.map fst demo_objs) (3, 0) /\
  len (emit (S_ "1.7") demo_objs 1 3) < 10000000000.
Proof. exact demo_hyps. Qed.

(** non-vacuity: the model's output for a small object list (dictionary, strings, a stream,
    references) is accepted, hence satisfies [ValidPdf] *)
Example c03_nonvacuous : ValidPdf (emit (S_ "1.7") demo_objs 1 3).
Proof. apply valid_pdf_sound. exact demo_valid. Qed.

(** the checker rejects the realistic defects *)
Example c03_rejects_size_off_by_one : exists b, pdf_code b = 5.
Proof. eexists. exact demo_size_off_by_one. Qed.
Example c03_rejects_stale_length : exists b, pdf_code b = 7.
Proof. eexists. exact demo_stale_length. Qed.
Example c03_rejects_dangling_reference : exists b, pdf_code b = 8.
Proof. eexists. exact demo_dangling_reference. Qed.

(** * [BodyOk] derived for the C09 serialiser model (theories/C03/BodyOfSer.v)
    The checker's OWN value reader [parse_obj] reads [ser esc_iso v ++ tail] back as the checker's
    value [cv v] and stops exactly at [tail], for every [tail] that starts with a non-regular byte
    and does not make the "n g R" look-ahead fire ([TailOk]: the writer's "\nendobj\n",
    "\nstream\n", "]", " " + next element, "\n/" next key, "\n>>" all are), with any fuel above
    the length.  Class [ck_ok]: bytes of hex strings < 256, bytes of names in 1..255 (every C09 [wf]
    value without a NUL byte in a name is in it: [wf_ck]; it is larger than [wf]: no [arr_ok], no
    i64 / object-number bounds).  [cv]: integers and integer-valued reals -> OInt, other reals ->
    OReal, both string kinds -> OStr, names decoded, arrays in order, dictionaries in the
    writer's sorted order, references. *)
(** (1) scalars: null, booleans, signed integers, reals, literal strings with escapes, hex strings, names incl. #XX, references *)
Theorem c03_ser_scalar_reads : forall v, scalar v = true -> ck_ok v = true -> forall tail fuel, TailOk tail ->
  (length (C09.Model.ser C09.Model.esc_iso v) < fuel)%nat ->
  parse_obj fuel (C09.Model.ser C09.Model.esc_iso v ++ tail) = Some (cv v, tail).
Proof. exact read_scalar. Qed.
Check c03_ser_scalar_reads : forall v, scalar v = true -> ck_ok v = true -> forall tail fuel, TailOk tail ->
  (length (C09.Model.ser C09.Model.esc_iso v) < fuel)%nat ->
  parse_obj fuel (C09.Model.ser C09.Model.esc_iso v ++ tail) = Some (cv v, tail).
Print Assumptions c03_ser_scalar_reads.

(** (2) arrays of scalars (the look-ahead after an integer never fires: only a reference ends in a bare R) *)
Theorem c03_ser_array_reads : forall l, forallb scalar l = true -> ck_ok (C09.Model.OArr l) = true -> forall tail fuel, TailOk tail ->
  (length (C09.Model.ser C09.Model.esc_iso (C09.Model.OArr l)) < fuel)%nat ->
  parse_obj fuel (C09.Model.ser C09.Model.esc_iso (C09.Model.OArr l) ++ tail) = Some (cv (C09.Model.OArr l), tail).
Proof. exact read_array_flat. Qed.
Check c03_ser_array_reads : forall l, forallb scalar l = true -> ck_ok (C09.Model.OArr l) = true -> forall tail fuel, TailOk tail ->
  (length (C09.Model.ser C09.Model.esc_iso (C09.Model.OArr l)) < fuel)%nat ->
  parse_obj fuel (C09.Model.ser C09.Model.esc_iso (C09.Model.OArr l) ++ tail) = Some (cv (C09.Model.OArr l), tail).
Print Assumptions c03_ser_array_reads.

(** (3) dictionaries of scalars, entries in the writer's sorted order, keys #XX-decoded *)
Theorem c03_ser_dict_reads : forall l, forallb (fun kv => scalar (snd kv)) l = true -> ck_ok (C09.Model.ODict l) = true -> forall tail fuel, TailOk tail ->
  (length (C09.Model.ser C09.Model.esc_iso (C09.Model.ODict l)) < fuel)%nat ->
  parse_obj fuel (C09.Model.ser C09.Model.esc_iso (C09.Model.ODict l) ++ tail) = Some (cv (C09.Model.ODict l), tail).
Proof. exact read_dict_flat. Qed.
Check c03_ser_dict_reads : forall l, forallb (fun kv => scalar (snd kv)) l = true -> ck_ok (C09.Model.ODict l) = true -> forall tail fuel, TailOk tail ->
  (length (C09.Model.ser C09.Model.esc_iso (C09.Model.ODict l)) < fuel)%nat ->
  parse_obj fuel (C09.Model.ser C09.Model.esc_iso (C09.Model.ODict l) ++ tail) = Some (cv (C09.Model.ODict l), tail).
Print Assumptions c03_ser_dict_reads.

(** (4) full nesting *)
Theorem c03_ser_value_reads : forall v, ck_ok v = true -> forall tail fuel, TailOk tail ->
  (length (C09.Model.ser C09.Model.esc_iso v) < fuel)%nat ->
  parse_obj fuel (C09.Model.ser C09.Model.esc_iso v ++ tail) = Some (cv v, tail).
Proof. exact read_ser. Qed.
Check c03_ser_value_reads : forall v, ck_ok v = true -> forall tail fuel, TailOk tail ->
  (length (C09.Model.ser C09.Model.esc_iso v) < fuel)%nat ->
  parse_obj fuel (C09.Model.ser C09.Model.esc_iso v ++ tail) = Some (cv v, tail).
Print Assumptions c03_ser_value_reads.

(** the hypothesis of c03_writer_output_valid for a plain body *)
Theorem c03_bodyok_of_ser : forall (P : N * N -> Prop) v, ck_ok v = true ->
  (forall r, In r (orefs v) -> P r) -> BodyOk P (C09.Model.ser C09.Model.esc_iso v).
Proof. exact bodyok_of_ser. Qed.
Check c03_bodyok_of_ser : forall (P : N * N -> Prop) v, ck_ok v = true ->
  (forall r, In r (orefs v) -> P r) -> BodyOk P (C09.Model.ser C09.Model.esc_iso v).
Print Assumptions c03_bodyok_of_ser.

(** the same for C09's class [wf] with the one side condition *)
Theorem c03_bodyok_of_ser_wf : forall (P : N * N -> Prop) v, C09.Model.wf v = true -> nonul_names v = true ->
  (forall r, In r (orefs v) -> P r) -> BodyOk P (C09.Model.ser C09.Model.esc_iso v).
Proof. exact bodyok_of_ser_wf. Qed.
Check c03_bodyok_of_ser_wf : forall (P : N * N -> Prop) v, C09.Model.wf v = true -> nonul_names v = true ->
  (forall r, In r (orefs v) -> P r) -> BodyOk P (C09.Model.ser C09.Model.esc_iso v).
Print Assumptions c03_bodyok_of_ser_wf.

(** a stream body whose dictionary is serialised by the model *)
Theorem c03_bodyok_of_ser_stream : forall (P : N * N -> Prop) l data, ck_ok (C09.Model.ODict l) = true ->
  dict_get (S_ "Length") (cv_entries l) = Some (OInt (Z.of_N (len data))) ->
  (forall r, In r (orefs (C09.Model.ODict l)) -> P r) ->
  BodyOk P (C09.Model.ser C09.Model.esc_iso (C09.Model.ODict l) ++ stream_open ++ data ++ stream_close).
Proof. exact bodyok_of_ser_stream. Qed.
Check c03_bodyok_of_ser_stream : forall (P : N * N -> Prop) l data, ck_ok (C09.Model.ODict l) = true ->
  dict_get (S_ "Length") (cv_entries l) = Some (OInt (Z.of_N (len data))) ->
  (forall r, In r (orefs (C09.Model.ODict l)) -> P r) ->
  BodyOk P (C09.Model.ser C09.Model.esc_iso (C09.Model.ODict l) ++ stream_open ++ data ++ stream_close).
Print Assumptions c03_bodyok_of_ser_stream.

(** the side condition excludes a class this checker really rejects: a NUL byte in a name is written #00 (ISO 32000-1 7.3.5 forbids it) *)
Theorem c03_nul_name_refuted : exists v, C09.Model.wf v = true /\ nonul_names v = false /\
  read_body (10 :: C09.Model.ser C09.Model.esc_iso v ++ obj_end) = None.
Proof. exact nul_name_refuted. Qed.
Check c03_nul_name_refuted : exists v, C09.Model.wf v = true /\ nonul_names v = false /\
  read_body (10 :: C09.Model.ser C09.Model.esc_iso v ++ obj_end) = None.
Print Assumptions c03_nul_name_refuted.

(** (5) the validity theorem without [BodyOk]: [SerBody ids body] :=
      (exists v, body = ser esc_iso v /\ ck_ok v = true /\ forall r, In r (orefs v) -> RefOk ids r)
   \/ (exists l data, body = ser esc_iso (ODict l) ++ "\nstream\n" ++ data ++ "\nendstream" /\ ck_ok (ODict l) = true /\
         dict_get "Length" (cv_entries l) = Some (OInt |data|) /\ forall r, In r (orefs (ODict l)) -> RefOk ids r) *)
Theorem c03_writer_output_valid_ser : forall ver objs root info,
  VerOk ver ->
  (forall id body, In (id, body) objs -> SerBody (List.map fst objs) body) ->
  RefOk (List.map fst objs) (root, 0) -> RefOk (List.map fst objs) (info, 0) ->
  len (emit ver objs root info) < 10000000000 ->
  ValidPdf (emit ver objs root info).
Proof. exact writer_output_valid_ser. Qed.
Check c03_writer_output_valid_ser : forall ver objs root info,
  VerOk ver ->
  (forall id body, In (id, body) objs -> SerBody (List.map fst objs) body) ->
  RefOk (List.map fst objs) (root, 0) -> RefOk (List.map fst objs) (info, 0) ->
  len (emit ver objs root info) < 10000000000 ->
  ValidPdf (emit ver objs root info).
Print Assumptions c03_writer_output_valid_ser.

(** (5') in C09's terms, stream bodies left to [BodyOk]: every NON-stream body is the serialiser's
    bytes of a [wf] value (no NUL byte in names) whose references are among the written ids *)
Theorem c03_writer_output_valid_ser_wf : forall ver objs root info,
  VerOk ver ->
  (forall id body, In (id, body) objs ->
     (exists v, body = C09.Model.ser C09.Model.esc_iso v /\ C09.Model.wf v = true /\ nonul_names v = true /\
                forall r, In r (orefs v) -> RefOk (List.map fst objs) r)
     \/ (exists dv data, body = dv ++ stream_open ++ data ++ stream_close /\
                          BodyOk (RefOk (List.map fst objs)) body)) ->
  RefOk (List.map fst objs) (root, 0) -> RefOk (List.map fst objs) (info, 0) ->
  len (emit ver objs root info) < 10000000000 ->
  ValidPdf (emit ver objs root info).
Proof. exact writer_output_valid_ser_wf. Qed.
Check c03_writer_output_valid_ser_wf : forall ver objs root info,
  VerOk ver ->
  (forall id body, In (id, body) objs ->
     (exists v, body = C09.Model.ser C09.Model.esc_iso v /\ C09.Model.wf v = true /\ nonul_names v = true /\
                forall r, In r (orefs v) -> RefOk (List.map fst objs) r)
     \/ (exists dv data, body = dv ++ stream_open ++ data ++ stream_close /\
                          BodyOk (RefOk (List.map fst objs)) body)) ->
  RefOk (List.map fst objs) (root, 0) -> RefOk (List.map fst objs) (info, 0) ->
  len (emit ver objs root info) < 10000000000 ->
  ValidPdf (emit ver objs root info).
Print Assumptions c03_writer_output_valid_ser_wf.

Check (eq_refl : SerBody = fun ids body =>
  (exists v, body = C09.Model.ser C09.Model.esc_iso v /\ ck_ok v = true /\ forall r, In r (orefs v) -> RefOk ids r)
  \/ (exists l data, body = C09.Model.ser C09.Model.esc_iso (C09.Model.ODict l) ++ stream_open ++ data ++ stream_close /\
        ck_ok (C09.Model.ODict l) = true /\
        dict_get (S_ "Length") (cv_entries l) = Some (OInt (Z.of_N (len data))) /\
        forall r, In r (orefs (C09.Model.ODict l)) -> RefOk ids r)).

(** the hypotheses are satisfiable on non-trivial values: a nested dictionary with escaped names,
    signed integers, reals, both string kinds, references, and the sequence  3 0 /R ; a four-object
    file (dictionaries, a stream) whose validity follows from the theorem *)
Example c03_bodyok_of_ser_sample : ck_ok sample_value = true /\ BodyOk (RefOk [1; 2]) (C09.Model.ser C09.Model.esc_iso sample_value).
Proof. split; [apply sample_in_class|exact sample_bodyok]. Qed.
Example c03_writer_output_valid_ser_hyps :
  VerOk (S_ "1.7") /\
  (forall id body, In (id, body) ser_demo_objs -> SerBody (List.map fst ser_demo_objs) body) /\
  RefOk (List.map fst ser_demo_objs) (1, 0) /\ RefOk (List.map fst ser_demo_objs) (3, 0) /\
  len (emit (S_ "1.7") ser_demo_objs 1 3) < 10000000000.
Proof. exact ser_demo_hyps. Qed.
Example c03_ser_demo_valid : ValidPdf (emit (S_ "1.7") ser_demo_objs 1 3).
Proof. exact ser_demo_valid_by_theorem. Qed.
