(** C22 — batch processing reports every job exactly once under any schedule.
    Only statements here; proofs live in theories/C22/Proofs.v. *)
From OxVerif Require Import Base.Util C22.Model C22.Proofs.
Close Scope N_scope.
Open Scope nat_scope.

(** inductive invariant of ALL reachable states: any number of jobs, any number of workers,
    any outcome vector (Ok / Err / Panic), stop_on_error on/off, any schedule including
    external cancellation at any point *)
Theorem batch_inv : forall c s, reachable c s -> Inv c s.
Proof. exact batch_inv_holds. Qed.
Check batch_inv : forall c s, reachable c s -> Inv c s.
Print Assumptions batch_inv.

(** a state in which nothing but the external cancel can happen satisfies the
    specification (k >= 1 workers: with 0 workers the queue is never drained) *)
Theorem batch_terminal_ok : forall c s,
  1 <= k c -> terminal c s -> reachable c s -> BatchSpec c (obs_of c s).
Proof. exact terminal_ok. Qed.
Check batch_terminal_ok : forall c s,
  1 <= k c -> terminal c s -> reachable c s -> BatchSpec c (obs_of c s).
Print Assumptions batch_terminal_ok.

(** the reading used on free-running logs (failure recorded = fail_job reached) *)
Theorem batch_terminal_ok_weak : forall c s,
  1 <= k c -> terminal c s -> reachable c s -> BatchSpecW c (obs_of c s).
Proof. exact terminal_ok_weak. Qed.
Check batch_terminal_ok_weak : forall c s,
  1 <= k c -> terminal c s -> reachable c s -> BatchSpecW c (obs_of c s).
Print Assumptions batch_terminal_ok_weak.

(** the stop-on-error clause holds in every reachable state, not only at the end *)
Theorem batch_stop_on_error_always : forall c s,
  reachable c s -> stop_clause is_flag (rev (rtrace s)) (rev (ran s)).
Proof. intros c s R. apply stop_strong with (c := c). apply batch_inv_holds. exact R. Qed.
Check batch_stop_on_error_always : forall c s,
  reachable c s -> stop_clause is_flag (rev (rtrace s)) (rev (ran s)).
Print Assumptions batch_stop_on_error_always.

(** schedules (label lists) accepted by the executable [run] are reachable, and the
    decidable terminal test used by the judge implies [terminal] *)
Theorem batch_run_reachable : forall c ls s, run c (init c) ls = Some s -> reachable c s.
Proof. exact run_reachable. Qed.
Check batch_run_reachable : forall c ls s, run c (init c) ls = Some s -> reachable c s.
Print Assumptions batch_run_reachable.

Theorem batch_terminal_b_sound : forall c s, terminal_b c s = true -> terminal c s.
Proof. exact terminal_b_sound. Qed.
Check batch_terminal_b_sound : forall c s, terminal_b c s = true -> terminal c s.
Print Assumptions batch_terminal_b_sound.

(** the executable specification evaluated on the implementation's observation implies
    the declarative one *)
Theorem batch_spec_b_sound : forall P c o, spec_b P c o = true -> BatchSpecP P c o.
Proof. exact spec_b_sound. Qed.
Check batch_spec_b_sound : forall P c o, spec_b P c o = true -> BatchSpecP P c o.
Print Assumptions batch_spec_b_sound.

(** non-vacuity: a concrete schedule (2 jobs, 1 worker, job 0 fails, stop_on_error) reaches
    a terminal state; job 1 started after the flag store and was not run *)
Example batch_nonvacuous :
  let c := {| n := 2; outs := [OErr; OOk]; soe := true; k := 1 |} in
  let sched := [LDCheck 0; LDEnq 0; LDCheck 1; LDEnq 1; LDClose; LRecv 0; LStart 0 0;
                LCheck 0 0; LFlag 0 0; LFail 0 0; LRecv 0; LStart 0 1; LCheck 0 1;
                LCancelled 0 1; LRecv 0; LStore 0; LStore 1] in
  exists s, run c (init c) sched = Some s /\ terminal_b c s = true
            /\ o_results (obs_of c s) = [(0, RFailed); (1, RCancelled)]
            /\ o_ran (obs_of c s) = [0]
            /\ spec_b is_flag c (obs_of c s) = true.
Proof. vm_compute. eexists. repeat split. Qed.

(** a panicking job (3 jobs, 2 workers, no stop_on_error) still yields three results *)
Example batch_panic_reported :
  let c := {| n := 3; outs := [OOk; OPanic; OOk]; soe := false; k := 2 |} in
  let sched := [LDCheck 0; LDEnq 0; LRecv 1; LDCheck 1; LDEnq 1; LRecv 0; LStart 0 1;
                LStart 1 0; LCheck 0 1; LCheck 1 0; LFail 0 1; LDCheck 2; LDEnq 2; LDClose;
                LRecv 0; LDone 1 0; LStore 1; LStart 0 2; LCheck 0 2; LRecv 1; LDone 0 2;
                LStore 0; LStore 2; LRecv 0] in
  exists s, run c (init c) sched = Some s /\ terminal_b c s = true
            /\ o_results (obs_of c s) = [(0, RSuccess); (1, RFailed); (2, RSuccess)].
Proof. vm_compute. eexists. repeat split. Qed.
