(** C29 — the object cache behaves as a bounded least-recently-used map.
    Only statements here; proofs live in theories/C29/Proofs.v. *)
From OxVerif Require Import Base.Util C29.Model C29.Proofs.

(** every reachable state satisfies the representation invariant *)
Theorem c29_lru_inv : forall c ops, Inv (fst (run (init c) ops)).
Proof. intros. exact (run_inv ops (init c) (inv_init c)). Qed.
Check c29_lru_inv : forall c ops, Inv (fst (run (init c) ops)).
Print Assumptions c29_lru_inv.

(** every history produces exactly the outputs of the abstract bounded LRU *)
Theorem c29_lru_refines_abs : forall c ops,
  snd (run (init c) ops) = snd (a_run (a_init c) ops).
Proof. exact outputs_refine. Qed.
Check c29_lru_refines_abs : forall c ops, snd (run (init c) ops) = snd (a_run (a_init c) ops).
Print Assumptions c29_lru_refines_abs.

(** stepwise refinement under the invariant *)
Theorem c29_step_commutes : forall s o, Inv s ->
  a_step (abs s) o = (abs (fst (step s o)), snd (step s o)).
Proof. exact step_refines. Qed.
Check c29_step_commutes : forall s o, Inv s -> a_step (abs s) o = (abs (fst (step s o)), snd (step s o)).
Print Assumptions c29_step_commutes.

(** the cache never holds more entries than its capacity *)
Theorem c29_size_le_cap : forall c ops,
  (N.of_nat (length (map (fst (run (init c) ops)))) <= c)%N.
Proof. exact size_le_cap. Qed.
Check c29_size_le_cap : forall c ops, (N.of_nat (length (map (fst (run (init c) ops)))) <= c)%N.
Print Assumptions c29_size_le_cap.

(** a lookup returns the value most recently stored unless the key was evicted *)
Theorem c29_put_then_lookup : forall a k v,
  acap a <> 0%N -> lookup k (items (fst (a_step a (Put k v)))) = Some v.
Proof. exact spec_put_then_lookup. Qed.
Check c29_put_then_lookup : forall a k v, acap a <> 0%N -> lookup k (items (fst (a_step a (Put k v)))) = Some v.
Print Assumptions c29_put_then_lookup.

Theorem c29_value_stable_or_evicted : forall a o k,
  (forall v, o <> Put k v) -> o <> Clear ->
  lookup k (items (fst (a_step a o))) = lookup k (items a)
  \/ lookup k (items (fst (a_step a o))) = None.
Proof. exact spec_value_stable. Qed.
Check c29_value_stable_or_evicted : forall a o k,
  (forall v, o <> Put k v) -> o <> Clear ->
  lookup k (items (fst (a_step a o))) = lookup k (items a)
  \/ lookup k (items (fst (a_step a o))) = None.
Print Assumptions c29_value_stable_or_evicted.

Theorem c29_get_returns_current : forall a k,
  snd (a_step a (Get k)) = OVal (lookup k (items a)).
Proof. exact spec_get_returns. Qed.
Check c29_get_returns_current : forall a k, snd (a_step a (Get k)) = OVal (lookup k (items a)).
Print Assumptions c29_get_returns_current.

(** the entry evicted is the least recently used one: the last of the recency list *)
Theorem c29_evicts_least_recent : forall a k v,
  acap a <> 0%N -> contains k (items a) = false ->
  (acap a <= N.of_nat (length (items a)))%N ->
  items (fst (a_step a (Put k v))) = (k, v) :: removelast (items a).
Proof. exact spec_evicts_lru. Qed.
Check c29_evicts_least_recent : forall a k v,
  acap a <> 0%N -> contains k (items a) = false ->
  (acap a <= N.of_nat (length (items a)))%N ->
  items (fst (a_step a (Put k v))) = (k, v) :: removelast (items a).
Print Assumptions c29_evicts_least_recent.

Theorem c29_no_eviction_with_room : forall a k v,
  acap a <> 0%N -> contains k (items a) = false ->
  (N.of_nat (length (items a)) < acap a)%N ->
  items (fst (a_step a (Put k v))) = (k, v) :: items a.
Proof. exact spec_no_evict_when_room. Qed.
Check c29_no_eviction_with_room : forall a k v,
  acap a <> 0%N -> contains k (items a) = false ->
  (N.of_nat (length (items a)) < acap a)%N ->
  items (fst (a_step a (Put k v))) = (k, v) :: items a.
Print Assumptions c29_no_eviction_with_room.

Theorem c29_touch_moves_front : forall a o k,
  (o = Get k /\ lookup k (items a) <> None) \/ (exists v, o = Put k v /\ acap a <> 0%N) ->
  exists v r, items (fst (a_step a o)) = (k, v) :: r.
Proof. exact spec_touch_moves_front. Qed.
Check c29_touch_moves_front : forall a o k,
  (o = Get k /\ lookup k (items a) <> None) \/ (exists v, o = Put k v /\ acap a <> 0%N) ->
  exists v r, items (fst (a_step a o)) = (k, v) :: r.
Print Assumptions c29_touch_moves_front.

(** concurrent use: operations are atomic under the single lock (tie (b)), hence
    any execution is the sequential run of an interleaving, to which all of the
    above applies *)
Theorem c29_any_interleaving_is_lru : forall c sched,
  snd (run (init c) sched) = snd (a_run (a_init c) sched)
  /\ (N.of_nat (length (map (fst (run (init c) sched)))) <= c)%N.
Proof. exact any_interleaving_is_lru. Qed.
Check c29_any_interleaving_is_lru : forall c sched,
  snd (run (init c) sched) = snd (a_run (a_init c) sched)
  /\ (N.of_nat (length (map (fst (run (init c) sched)))) <= c)%N.
Print Assumptions c29_any_interleaving_is_lru.

(** non-vacuity: a concrete non-trivial reachable state *)
Example c29_nonvacuous :
  let ops := [Put 1 10; Put 2 20; Get 1; Put 3 30; Get 2; Put 1 11; Get 1]%N in
  snd (run (init 2) ops) =
  [OUnit; OUnit; OVal (Some 10); OUnit; OVal None; OUnit; OVal (Some 11)]%N.
Proof. vm_compute. reflexivity. Qed.
