(** C25 — single-byte text encodings match the Annex D tables.  Statements only; proofs in
    theories/C25/Proofs.v.  Tables come from Gen/Encodings.v (regenerated from the Rust source);
    the annex from theories/C25/AnnexD.v (transcribed from the standard).  Table numbers and
    known-finding classes are documented in theories/C25/Model.v. *)
From OxVerif Require Import Base.Util C25.AnnexD C25.Model C25.Proofs.

(** every encoder, every code point (no upper bound): outside the known classes a repertoire
    character gets its annex code and any other character is reported *)
Theorem c25_encode_matches : forall t cp,
  In t [0; 1; 2; 3; 4; 5; 6; 7]%N -> known_class t cp = 0%N -> spec_ok t cp (model t cp) = true.
Proof. exact encode_matches. Qed.
Check c25_encode_matches : forall t cp,
  In t [0; 1; 2; 3; 4; 5; 6; 7]%N -> known_class t cp = 0%N -> spec_ok t cp (model t cp) = true.
Print Assumptions c25_encode_matches.

(** every decoder, every byte *)
Theorem c25_decode_matches : forall t b,
  In t [10; 11; 12; 13; 14; 15; 16; 17; 18]%N -> (b < 256)%N -> known_class t b = 0%N ->
  spec_ok t b (model t b) = true.
Proof. exact decode_matches. Qed.
Check c25_decode_matches : forall t b,
  In t [10; 11; 12; 13; 14; 15; 16; 17; 18]%N -> (b < 256)%N -> known_class t b = 0%N ->
  spec_ok t b (model t b) = true.
Print Assumptions c25_decode_matches.

Example c25_matches_nonvacuous :
  known_class 0 8364 = 0%N /\ model 0 8364 = Some [128]%N /\ known_class 12 222 = 0%N /\ model 12 222 = Some [64257]%N.
Proof. vm_compute. repeat split. Qed.

(** WinAnsi: encode and decode are mutual inverses on the repertoire (both decoders) *)
Theorem c25_winansi_dec_then_enc : forall b, (b < 256)%N -> is_unc (cell_at WIN b) = false ->
  wenc (wdec b) = Some b /\ wenc (wdec_inline b) = Some b.
Proof. exact win_dec_then_enc. Qed.
Check c25_winansi_dec_then_enc : forall b, (b < 256)%N -> is_unc (cell_at WIN b) = false ->
  wenc (wdec b) = Some b /\ wenc (wdec_inline b) = Some b.
Print Assumptions c25_winansi_dec_then_enc.

Theorem c25_winansi_enc_then_dec : forall cp b, wenc cp = Some b -> wdec b = cp /\ (b < 256)%N.
Proof. exact win_enc_then_dec. Qed.
Check c25_winansi_enc_then_dec : forall cp b, wenc cp = Some b -> wdec b = cp /\ (b < 256)%N.
Print Assumptions c25_winansi_enc_then_dec.

Example c25_winansi_inverse_nonvacuous : wenc 8364 = Some 128%N /\ is_unc (cell_at WIN 128) = false.
Proof. vm_compute. split; reflexivity. Qed.

(** MacRoman: inverse below 0xB0 only (known finding above), encode-then-decode everywhere *)
Theorem c25_macroman_dec_then_enc_low : forall b, (b < 176)%N -> is_unc (cell_at MAC b) = false ->
  menc (mdec b) = Some b.
Proof. exact mac_dec_then_enc_low. Qed.
Check c25_macroman_dec_then_enc_low : forall b, (b < 176)%N -> is_unc (cell_at MAC b) = false ->
  menc (mdec b) = Some b.
Print Assumptions c25_macroman_dec_then_enc_low.

Theorem c25_macroman_enc_then_dec : forall cp b, menc cp = Some b -> mdec b = cp /\ (b < 256)%N.
Proof. exact mac_enc_then_dec. Qed.
Check c25_macroman_enc_then_dec : forall cp b, menc cp = Some b -> mdec b = cp /\ (b < 256)%N.
Print Assumptions c25_macroman_enc_then_dec.

Theorem c25_macroman_inverse_refuted : mdec 177 = 177%N /\ menc (mdec 177) = None /\ cell_at MAC 177 = One 177.
Proof. exact mac_inverse_refuted. Qed.
Check c25_macroman_inverse_refuted : mdec 177 = 177%N /\ menc (mdec 177) = None /\ cell_at MAC 177 = One 177.
Print Assumptions c25_macroman_inverse_refuted.

(** the strict encoder reports exactly the characters outside the repertoire; the lossy encoder
    is the strict one with '?' substituted *)
Theorem c25_winansi_strict_reports_exactly : forall cp, (128 <= cp)%N ->
  (model 0 cp = None <-> in_rep WIN cp = false).
Proof. exact win_strict_reports_exactly. Qed.
Check c25_winansi_strict_reports_exactly : forall cp, (128 <= cp)%N ->
  (model 0 cp = None <-> in_rep WIN cp = false).
Print Assumptions c25_winansi_strict_reports_exactly.

Theorem c25_lossy_is_strict_or_question : forall cp,
  model 1 cp = match model 0 cp with Some b => Some b | None => Some [63]%N end /\
  model 3 cp = match model 2 cp with Some b => Some b | None => Some [63]%N end.
Proof. exact lossy_is_strict_or_question. Qed.
Check c25_lossy_is_strict_or_question : forall cp,
  model 1 cp = match model 0 cp with Some b => Some b | None => Some [63]%N end /\
  model 3 cp = match model 2 cp with Some b => Some b | None => Some [63]%N end.
Print Assumptions c25_lossy_is_strict_or_question.

(** the annex has no code point beyond the BMP (justifies the guard in [codes_of]) *)
Theorem c25_annex_bmp : forall e, forallb (fun p => (fst p <? 65536)%N) (inv_from (annex e) 0) = true.
Proof. exact annex_bmp. Qed.
Check c25_annex_bmp : forall e, forallb (fun p => (fst p <? 65536)%N) (inv_from (annex e) 0) = true.
Print Assumptions c25_annex_bmp.

(** refuted on the pinned tree: one witness per known-finding class *)
Theorem c25_macroman_encode_refuted :
  in_rep MAC 177 = true /\ model 2 177 = None /\ model 3 177 = Some [63]%N /\ known_class 2 177 = 1%N.
Proof. exact mac_encode_refuted. Qed.
Check c25_macroman_encode_refuted :
  in_rep MAC 177 = true /\ model 2 177 = None /\ model 3 177 = Some [63]%N /\ known_class 2 177 = 1%N.
Print Assumptions c25_macroman_encode_refuted.

Theorem c25_macroman_decode_refuted :
  cell_at MAC 219 = One 164 /\ model 12 219 = Some [8364]%N /\ known_class 12 219 = 2%N.
Proof. exact mac_decode_refuted. Qed.
Check c25_macroman_decode_refuted :
  cell_at MAC 219 = One 164 /\ model 12 219 = Some [8364]%N /\ known_class 12 219 = 2%N.
Print Assumptions c25_macroman_decode_refuted.

Theorem c25_lossy_encode_silent :
  in_rep WIN 20013 = false /\ model 1 20013 = Some [63]%N /\ model 0 20013 = None /\ known_class 1 20013 = 3%N.
Proof. exact lossy_encode_silent. Qed.
Check c25_lossy_encode_silent :
  in_rep WIN 20013 = false /\ model 1 20013 = Some [63]%N /\ model 0 20013 = None /\ known_class 1 20013 = 3%N.
Print Assumptions c25_lossy_encode_silent.

Theorem c25_standard_matches_refuted :
  cell_at STD 39 = One 8217 /\ model 6 8217 = Some [226; 128; 153]%N /\ model 4 8217 = None
  /\ model 4 39 = Some [39]%N /\ codes_of STD 39 = [169]%N /\ known_class 4 39 = 4%N.
Proof. exact standard_matches_refuted. Qed.
Check c25_standard_matches_refuted :
  cell_at STD 39 = One 8217 /\ model 6 8217 = Some [226; 128; 153]%N /\ model 4 8217 = None
  /\ model 4 39 = Some [39]%N /\ codes_of STD 39 = [169]%N /\ known_class 4 39 = 4%N.
Print Assumptions c25_standard_matches_refuted.

Theorem c25_pdfdoc_matches_refuted :
  cell_at PDF 128 = One 8226 /\ model 7 8226 = Some [226; 128; 162]%N /\ model 14 128 = Some [65533]%N
  /\ model 15 128 = Some [8364]%N /\ model 18 128 = Some [128]%N /\ known_class 15 128 = 5%N.
Proof. exact pdfdoc_matches_refuted. Qed.
Check c25_pdfdoc_matches_refuted :
  cell_at PDF 128 = One 8226 /\ model 7 8226 = Some [226; 128; 162]%N /\ model 14 128 = Some [65533]%N
  /\ model 15 128 = Some [8364]%N /\ model 18 128 = Some [128]%N /\ known_class 15 128 = 5%N.
Print Assumptions c25_pdfdoc_matches_refuted.

Theorem c25_parser_macroman_refuted :
  cell_at MAC 177 = One 177 /\ model 17 177 = Some [65533]%N /\ known_class 17 177 = 6%N.
Proof. exact parser_macroman_refuted. Qed.
Check c25_parser_macroman_refuted :
  cell_at MAC 177 = One 177 /\ model 17 177 = Some [65533]%N /\ known_class 17 177 = 6%N.
Print Assumptions c25_parser_macroman_refuted.
