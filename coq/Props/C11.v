(** C11 — text extraction conserves every drawn character (partial: floating-point layout
    geometry is not modelled; it enters only as the arbitrary oracles of the layout steps).
    Only statements here; proofs live in theories/C11/Proofs*.v. *)
From OxVerif Require Import Base.Util C25.AnnexD C11.ContentSem C11.Model C11.Proofs.
From Coq Require Import Permutation.

(** emission stage, for ALL operator sequences / resources / form stores on which the content
    semantics is defined: the pieces the operator loop emits carry exactly the shown
    characters, in content order (hence as a multiset), and no decode left the model *)
Theorem c11_emission_conserves : forall incl pol p items, shown incl p = Some items ->
  nonws (concat (fst (emit incl pol p))) = nonws (all_text items) /\ snd (emit incl pol p) = true.
Proof. exact emission_conserves_list. Qed.
Check c11_emission_conserves : forall incl pol p items, shown incl p = Some items ->
  nonws (concat (fst (emit incl pol p))) = nonws (all_text items) /\ snd (emit incl pol p) = true.
Print Assumptions c11_emission_conserves.

(** any layout built from reorderings and adjacent merges with white-space separators conserves
    the multiset of non-white-space characters ... *)
Theorem c11_layout_conserves : forall pi, Forall step_ok pi -> Forall step_nohy pi -> forall l,
  Permutation (nonws (text_of (run_layout pi l))) (nonws (text_of l)).
Proof. exact layout_perm. Qed.
Check c11_layout_conserves : forall pi, Forall step_ok pi -> Forall step_nohy pi -> forall l,
  Permutation (nonws (text_of (run_layout pi l))) (nonws (text_of l)).
Print Assumptions c11_layout_conserves.

(** ... and with hyphen merging exactly the dropped line-end hyphens are missing *)
Theorem c11_layout_conserves_hyphen : forall pi, Forall step_ok pi -> forall l,
  Permutation (nonws (text_of (run_layout pi l)) ++ repeat HY (layout_dropped pi l)) (nonws (text_of l)).
Proof. exact layout_hyphen. Qed.
Check c11_layout_conserves_hyphen : forall pi, Forall step_ok pi -> forall l,
  Permutation (nonws (text_of (run_layout pi l)) ++ repeat HY (layout_dropped pi l)) (nonws (text_of l)).
Print Assumptions c11_layout_conserves_hyphen.

(** one merge pass drops at most one hyphen per hyphen-merging join it was asked to make *)
Theorem c11_hyphens_bounded : forall l cur ds, (dropped_go cur l ds <= hy_joins ds)%nat.
Proof. exact dropped_go_le. Qed.
Check c11_hyphens_bounded : forall l cur ds, (dropped_go cur l ds <= hy_joins ds)%nat.
Print Assumptions c11_hyphens_bounded.

(** every stable sort by any comparison is such a reordering *)
Theorem c11_stable_sort_is_layout : forall leb, step_ok (LPerm (sort_by leb)).
Proof. exact stable_sort_ok. Qed.
Check c11_stable_sort_is_layout : forall leb, step_ok (LPerm (sort_by leb)).
Print Assumptions c11_stable_sort_is_layout.

(** end to end: emission, any geometry, any layout of the abstract shape *)
Theorem c11_extraction_conserves_partial : forall incl pol p items pi (frs : list frag),
  shown incl p = Some items -> List.map fst frs = fst (emit incl pol p) -> Forall step_ok pi ->
  Permutation (nonws (text_of (run_layout pi frs)) ++ repeat HY (layout_dropped pi frs))
              (nonws (all_text items)).
Proof. exact extraction_conserves. Qed.
Check c11_extraction_conserves_partial : forall incl pol p items pi (frs : list frag),
  shown incl p = Some items -> List.map fst frs = fst (emit incl pol p) -> Forall step_ok pi ->
  Permutation (nonws (text_of (run_layout pi frs)) ++ repeat HY (layout_dropped pi frs))
              (nonws (all_text items)).
Print Assumptions c11_extraction_conserves_partial.
(* full statement, NOT proved (needs the floating-point layout code as a concrete [pi]):
   forall options page, shown page = Some items ->
     Permutation (nonws (extract_from_page options page).text ++ repeat HY k) (nonws (all_text items))
     with k <= number of line-final hyphens when merge_hyphenated, k = 0 otherwise. *)

(** code -> Unicode: decode_text equals the font's table up to white space and controls *)
Theorem c11_decode_agrees : forall pol f b l, sdecode f b = Some l ->
  exists t, mdecode pol (Some f) b = (t, true) /\ nonws t = nonws l
            /\ (is_nil (nonws l) = false -> is_nil t = false).
Proof. exact decode_agrees. Qed.
Check c11_decode_agrees : forall pol f b l, sdecode f b = Some l ->
  exists t, mdecode pol (Some f) b = (t, true) /\ nonws t = nonws l
            /\ (is_nil (nonws l) = false -> is_nil t = false).
Print Assumptions c11_decode_agrees.

(** sanitize_extracted_text removes and inserts only white space and controls, for every policy *)
Theorem c11_sanitize_keeps_characters : forall pol l, nonws (sanitize pol l) = nonws l.
Proof. exact nonws_sanitize. Qed.
Check c11_sanitize_keeps_characters : forall pol l, nonws (sanitize pol l) = nonws l.
Print Assumptions c11_sanitize_keeps_characters.

(** the extractor's private WinAnsi table is Annex D on every code Annex D defines *)
Theorem c11_winansi_is_annex_d : forall b c, win_cp b = Some c -> winansi b = c /\ is_cc c = false.
Proof. exact win_cp_spec. Qed.
Check c11_winansi_is_annex_d : forall b c, win_cp b = Some c -> winansi b = c /\ is_cc c = false.
Print Assumptions c11_winansi_is_annex_d.

(** the modelled stages are functions of (options, page) *)
Theorem c11_extraction_deterministic : forall incl pol (p1 p2 : page) pi (l1 l2 : list frag),
  p1 = p2 -> l1 = l2 -> emit incl pol p1 = emit incl pol p2 /\ run_layout pi l1 = run_layout pi l2.
Proof. exact extraction_deterministic. Qed.
Check c11_extraction_deterministic : forall incl pol (p1 p2 : page) pi (l1 l2 : list frag),
  p1 = p2 -> l1 = l2 -> emit incl pol p1 = emit incl pol p2 /\ run_layout pi l1 = run_layout pi l2.
Print Assumptions c11_extraction_deterministic.

(** non-vacuity: the hypotheses are satisfiable on non-trivial values *)
Example c11_nonvacuous_shown : exists l, shown false ex_page = Some l /\ length l = 7%nat.
Proof. eexists. split; [exact ex_shown|reflexivity]. Qed.
Example c11_nonvacuous_layout : Forall step_ok ex_pi /\ layout_dropped ex_pi ex_frags = 1%nat.
Proof. split; [exact ex_pi_ok|exact (proj2 ex_layout)]. Qed.
