(** C14 — RAG chunking is a faithful, budget-respecting partition.
    Only statements here; proofs live in theories/C14/Proofs.v and Full.v.
    [count]/[additive] are the injected TokenCounter and its answer to
    [is_additive_over_whitespace_join]; [AdditiveContract] is the trait's documented
    contract, demanded only of a counter that answers [true]. *)
From OxVerif Require Import Base.Util C14.Model C14.Proofs C14.Full.

(** sequential chunker: every element exactly once and in order; a split element is
    replaced by fragments whose words re-join to the element's words *)
Theorem c14_chunk_partition : forall count additive, AdditiveContract count additive ->
  forall c es, Covers es (flat (chunk_seq count additive c es)).
Proof. intros count additive H c es. exact (proj1 (chunk_seq_all count additive H c es)). Qed.
Check c14_chunk_partition : forall count additive, AdditiveContract count additive ->
  forall c es, Covers es (flat (chunk_seq count additive c es)).
Print Assumptions c14_chunk_partition.

(** a chunk not marked oversized fits the budget as measured on its emitted text, and the
    stamped token estimate is the count of that text *)
Theorem c14_chunk_budget : forall count additive, AdditiveContract count additive ->
  forall c es, Forall (budget_ok count (max_tokens c)) (chunk_seq count additive c es).
Proof.
  intros count additive H c es.
  eapply Forall_impl; [|exact (proj2 (chunk_seq_all count additive H c es))].
  intros ch [Hb _]. exact Hb.
Qed.
Check c14_chunk_budget : forall count additive, AdditiveContract count additive ->
  forall c es, Forall (budget_ok count (max_tokens c)) (chunk_seq count additive c es).
Print Assumptions c14_chunk_budget.

(** every chunk is non-empty and carries the parent heading of its first element (None
    when propagation is off) *)
Theorem c14_chunk_heading : forall count additive, AdditiveContract count additive ->
  forall c es, Forall (heading_ok (propagate c)) (chunk_seq count additive c es).
Proof.
  intros count additive H c es.
  eapply Forall_impl; [|exact (proj2 (chunk_seq_all count additive H c es))].
  intros ch [_ Hh]. exact Hh.
Qed.
Check c14_chunk_heading : forall count additive, AdditiveContract count additive ->
  forall c es, Forall (heading_ok (propagate c)) (chunk_seq count additive c es).
Print Assumptions c14_chunk_heading.

(** determinism: immediate, the model is a Gallina function of (counter, config, input);
    on the implementation it is observed by running every case twice *)
Theorem c14_chunk_deterministic : forall count additive c es1 es2, es1 = es2 ->
  chunk_seq count additive c es1 = chunk_seq count additive c es2
  /\ chunk_graph count additive c es1 = chunk_graph count additive c es2.
Proof. intros; subst; split; reflexivity. Qed.
Check c14_chunk_deterministic : forall count additive c es1 es2, es1 = es2 ->
  chunk_seq count additive c es1 = chunk_seq count additive c es2
  /\ chunk_graph count additive c es1 = chunk_graph count additive c es2.
Print Assumptions c14_chunk_deterministic.

(** sentence splitting loses no word, for every counter and budget *)
Theorem c14_split_rejoins : forall count additive t mx,
  words (join_with [32] (map trim (split_by_sentences count additive t mx))) = words t
  /\ split_by_sentences count additive t mx <> [].
Proof.
  intros. split; [|apply split_by_sentences_nonempty].
  rewrite words_join by reflexivity. rewrite map_map.
  rewrite (map_ext (fun x => words (trim x)) words) by (intro; apply words_trim).
  apply split_by_sentences_words.
Qed.
Check c14_split_rejoins : forall count additive t mx,
  words (join_with [32] (map trim (split_by_sentences count additive t mx))) = words t
  /\ split_by_sentences count additive t mx <> [].
Print Assumptions c14_split_rejoins.

(** section-graph chunker: the output is always a faithful partition of the gathered
    sections (preamble, then each title followed by the elements ElementGraph::build made
    its children) ... *)
Theorem c14_graph_covers_gather : forall count additive, AdditiveContract count additive ->
  forall c es, Covers (gather es) (flat (chunk_graph count additive c es)).
Proof. exact graph_covers_gather. Qed.
Check c14_graph_covers_gather : forall count additive, AdditiveContract count additive ->
  forall c es, Covers (gather es) (flat (chunk_graph count additive c es)).
Print Assumptions c14_graph_covers_gather.

(** ... which is the input itself when the input is well-sectioned (every non-title
    element after the first title resolves to the nearest preceding title): the guarded
    positive theorem of known finding C14-graph-unsectioned *)
Theorem c14_graph_partition_guarded : forall count additive, AdditiveContract count additive ->
  forall c es, well_sectioned es = true -> Covers es (flat (chunk_graph count additive c es)).
Proof.
  intros count additive H c es Hw. rewrite <- (gather_well_sectioned es Hw) at 1.
  apply graph_covers_gather. exact H.
Qed.
Check c14_graph_partition_guarded : forall count additive, AdditiveContract count additive ->
  forall c es, well_sectioned es = true -> Covers es (flat (chunk_graph count additive c es)).
Print Assumptions c14_graph_partition_guarded.

(** ... and not in general: an element with no resolvable section is dropped *)
Theorem c14_graph_partition_refuted :
  exists es, ~ Covers es (flat (chunk_graph count_words true (wit_cfg 512) es)).
Proof. exact graph_partition_refuted. Qed.
Check c14_graph_partition_refuted :
  exists es, ~ Covers es (flat (chunk_graph count_words true (wit_cfg 512) es)).
Print Assumptions c14_graph_partition_refuted.

(** section-graph chunker, budget (after fix_graph_budget_joined, which repaired known finding
    C14-graph-budget-sum): a whole-section chunk is approved by the count of the text it emits
    unless the counter declares itself additive, so the budget clause holds for every counter
    honouring its own declaration — the same hypothesis as c14_chunk_budget, and no
    [additive = true] guard any more *)
Theorem c14_graph_budget : forall count additive, AdditiveContract count additive ->
  forall c es,
  Forall (budget_ok count (max_tokens c)) (chunk_graph count additive c es).
Proof. exact graph_budget. Qed.
Check c14_graph_budget : forall count additive, AdditiveContract count additive ->
  forall c es,
  Forall (budget_ok count (max_tokens c)) (chunk_graph count additive c es).
Print Assumptions c14_graph_budget.

(** record of the PINNED (pre-fix) behaviour, stated about the pre-fix definition
    [chunk_graph_pinned]: the per-element sum approves a section whose joined text exceeds the
    budget under a non-additive counter ... *)
Theorem c14_graph_budget_pinned_refuted :
  exists es, ~ Forall (budget_ok count_chars4 2) (chunk_graph_pinned count_chars4 false (wit_cfg 2) es).
Proof. exact graph_budget_pinned_refuted. Qed.
Check c14_graph_budget_pinned_refuted :
  exists es, ~ Forall (budget_ok count_chars4 2) (chunk_graph_pinned count_chars4 false (wit_cfg 2) es).
Print Assumptions c14_graph_budget_pinned_refuted.

(** ... while for a counter that declares itself additive the repair changes no output *)
Theorem c14_graph_fix_conservative : forall count c es,
  chunk_graph_pinned count true c es = chunk_graph count true c es.
Proof. intros. apply chunk_graph_pinned_additive. reflexivity. Qed.
Check c14_graph_fix_conservative : forall count c es,
  chunk_graph_pinned count true c es = chunk_graph count true c es.
Print Assumptions c14_graph_fix_conservative.

(** UNCONDITIONAL (no contract on the counter, not even purity beyond being a Gallina function): the
    partition and heading clauses of the sequential chunker hold for every counter, every declared
    additivity — including a counter that lies about being additive; only c14_chunk_budget needs the
    contract *)
Theorem c14_chunk_partition_unconditional : forall count additive c es,
  Covers es (flat (chunk_seq count additive c es)).
Proof. intros. exact (proj1 (chunk_seq_unconditional count additive c es)). Qed.
Check c14_chunk_partition_unconditional : forall count additive c es,
  Covers es (flat (chunk_seq count additive c es)).
Print Assumptions c14_chunk_partition_unconditional.

Theorem c14_chunk_heading_unconditional : forall count additive c es,
  Forall (heading_ok (propagate c)) (chunk_seq count additive c es).
Proof. intros. exact (proj2 (chunk_seq_unconditional count additive c es)). Qed.
Check c14_chunk_heading_unconditional : forall count additive c es,
  Forall (heading_ok (propagate c)) (chunk_seq count additive c es).
Print Assumptions c14_chunk_heading_unconditional.

(** section-graph chunker, heading.  [sections_spec] cuts the input at titles (a title owns the elements
    up to the next title; written without the parent vector), [section_group_ok (te, kids) chs] :=
    Covers (te :: kids) (flat chs) /\ chs <> [] /\ every chunk of chs is non-empty and has
    heading = title_heading te (the title's parent_heading, else its text).
    For well-sectioned input the output is: chunks of the preamble (sequential rule: heading of the first
    element), then one group per section of the input, in order, each a faithful partition of its section
    whose chunks all carry that section's heading.  No contract on the counter. *)
Theorem c14_graph_heading : forall count additive c es, well_sectioned es = true ->
  exists pre secs,
    chunk_graph count additive c es = pre ++ concat secs /\
    Covers (preamble es) (flat pre) /\ Forall (heading_ok (propagate c)) pre /\
    Forall2 section_group_ok (sections_spec es) secs.
Proof. exact graph_heading. Qed.
Check c14_graph_heading : forall count additive c es, well_sectioned es = true ->
  exists pre secs,
    chunk_graph count additive c es = pre ++ concat secs /\
    Covers (preamble es) (flat pre) /\ Forall (heading_ok (propagate c)) pre /\
    Forall2 section_group_ok (sections_spec es) secs.
Print Assumptions c14_graph_heading.

(** the spec sections tile the input (so the groups above account for every element) *)
Theorem c14_sections_spec_tile : forall es,
  preamble es ++ flat_map (fun s : elem * list elem => fst s :: snd s) (sections_spec es) = es.
Proof. exact sections_spec_tile. Qed.
Check c14_sections_spec_tile : forall es,
  preamble es ++ flat_map (fun s : elem * list elem => fst s :: snd s) (sections_spec es) = es.
Print Assumptions c14_sections_spec_tile.

(** without well-sectionedness the same grouping holds for the sections ElementGraph::build computes *)
Theorem c14_graph_groups : forall count additive c es,
  exists pre secs,
    chunk_graph count additive c es = pre ++ concat secs /\
    Covers (preamble es) (flat pre) /\ Forall (heading_ok (propagate c)) pre /\
    Forall2 section_group_ok (map (sec_of (parents_from 0 [] es) es) (titles_of es)) secs.
Proof. exact graph_groups. Qed.
Check c14_graph_groups : forall count additive c es,
  exists pre secs,
    chunk_graph count additive c es = pre ++ concat secs /\
    Covers (preamble es) (flat pre) /\ Forall (heading_ok (propagate c)) pre /\
    Forall2 section_group_ok (map (sec_of (parents_from 0 [] es) es) (titles_of es)) secs.
Print Assumptions c14_graph_groups.

(** title-consistent input (each title's parent_heading absent or its own text): every element of a
    section chunk lies in the section the chunk's heading names ([own_heading x] = the heading a title
    announces / a non-title's parent_heading), preamble chunks contain no title ... *)
Theorem c14_graph_heading_shared : forall count additive c es, title_consistent es = true ->
  exists pre secs,
    chunk_graph count additive c es = pre ++ concat secs /\
    Forall (fun ch => heading_ok (propagate c) ch /\ Forall (fun x => is_title x = false) (celems ch)) pre /\
    Forall (Forall (fun ch => celems ch <> [] /\ shares_heading ch)) secs.
Proof. exact graph_heading_shared. Qed.
Check c14_graph_heading_shared : forall count additive c es, title_consistent es = true ->
  exists pre secs,
    chunk_graph count additive c es = pre ++ concat secs /\
    Forall (fun ch => heading_ok (propagate c) ch /\ Forall (fun x => is_title x = false) (celems ch)) pre /\
    Forall (Forall (fun ch => celems ch <> [] /\ shares_heading ch)) secs.
Print Assumptions c14_graph_heading_shared.

(** ... and the executable heading predicate that the correspondence evaluates on the implementation's
    output (demanded exactly for title-consistent input, see case_code) is a theorem of the model *)
Theorem c14_graph_heading_b : forall count additive c es, title_consistent es = true ->
  forallb (heading_graph_b (propagate c)) (chunk_graph count additive c es) = true.
Proof. exact graph_heading_b. Qed.
Check c14_graph_heading_b : forall count additive c es, title_consistent es = true ->
  forallb (heading_graph_b (propagate c)) (chunk_graph count additive c es) = true.
Print Assumptions c14_graph_heading_b.

(** the executable partition predicate used on the implementation's output is sound *)
Theorem c14_part_b_sound : forall es fl, part_b es fl = true -> Covers es fl.
Proof. exact part_b_sound. Qed.
Check c14_part_b_sound : forall es fl, part_b es fl = true -> Covers es fl.
Print Assumptions c14_part_b_sound.

(** non-vacuity: the contract is satisfiable by the library's default counter and by a
    non-additive one; a non-trivial run with a merge, a flush and a sentence split *)
Example c14_contract_word_proxy : AdditiveContract count_words true.
Proof. intros _. exact count_words_additive. Qed.
Example c14_contract_nonadditive : AdditiveContract count_chars4 false.
Proof. intro H. discriminate H. Qed.
Example c14_nonvacuous :
  let es := [wit_title [65]; wit_para [97;32;98] (Some [65]); wit_para [99] (Some [65]);
             wit_para [97;46;32;98;32;99;46;32;100;32;101;32;102;32;103] (Some [65])] in
  map (fun ch => (length (celems ch), oversized ch, tokens ch))
      (chunk_seq count_words true (wit_cfg 3) es)
  = [(1%nat, false, 1); (2%nat, false, 3); (1%nat, false, 3); (1%nat, true, 4)]
  /\ well_sectioned es = true.
Proof. vm_compute. split; reflexivity. Qed.
Example c14_lying_counter_outside_contract : ~ AdditiveContract count_chars4 true.
Proof. exact lying_counter_outside_contract. Qed.
Example c14_graph_heading_nonvacuous :
  well_sectioned ex_es = true /\ title_consistent ex_es = true /\
  map (fun s => length (snd s)) (sections_spec ex_es) = [3%nat; 1%nat] /\
  map (fun ch => (length (celems ch), heading ch, oversized ch)) (chunk_graph count_words true (wit_cfg 3) ex_es)
  = [(1%nat, None, false); (1%nat, Some [65], false); (2%nat, Some [65], false); (1%nat, Some [65], false);
     (1%nat, Some [65], true); (2%nat, Some [66], false)].
Proof. exact graph_heading_nonvacuous. Qed.
