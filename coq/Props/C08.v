(** C08 — bounded decoding respects its limit and agrees with full decoding.
    Only statements here; proofs live in theories/C07/Proofs*.v. *)
From OxVerif Require Import C07.Proofs.
From OxGen Require Import FilterConsts.

(** per filter: LE = the result fits the limit; AG = any limit that fits the result gives the same
    result (monotonicity, and agreement with the unbounded decoder, which is the limit MAX) *)
Theorem c08_hex_le : forall d L r, decode_hex_lim d L = Some r -> (len r <= L)%N.
Proof. exact hex_le. Qed.
Check c08_hex_le : forall d L r, decode_hex_lim d L = Some r -> (len r <= L)%N.
Print Assumptions c08_hex_le.
Theorem c08_hex_agrees : forall d L L' r, decode_hex_lim d L = Some r -> (len r <= L')%N -> decode_hex_lim d L' = Some r.
Proof. exact hex_ag. Qed.
Check c08_hex_agrees : forall d L L' r, decode_hex_lim d L = Some r -> (len r <= L')%N -> decode_hex_lim d L' = Some r.
Print Assumptions c08_hex_agrees.

Theorem c08_a85_le : forall d L r, decode_a85_lim d L = Some r -> (len r <= L)%N.
Proof. exact a85_le. Qed.
Check c08_a85_le : forall d L r, decode_a85_lim d L = Some r -> (len r <= L)%N.
Print Assumptions c08_a85_le.
Theorem c08_a85_agrees : forall d L L' r, decode_a85_lim d L = Some r -> (len r <= L')%N -> decode_a85_lim d L' = Some r.
Proof. exact a85_ag. Qed.
Check c08_a85_agrees : forall d L L' r, decode_a85_lim d L = Some r -> (len r <= L')%N -> decode_a85_lim d L' = Some r.
Print Assumptions c08_a85_agrees.

Theorem c08_rl_le : forall d L r, decode_rl_lim d L = Some r -> (len r <= L)%N.
Proof. exact rl_le. Qed.
Check c08_rl_le : forall d L r, decode_rl_lim d L = Some r -> (len r <= L)%N.
Print Assumptions c08_rl_le.
Theorem c08_rl_agrees : forall d L L' r, decode_rl_lim d L = Some r -> (len r <= L')%N -> decode_rl_lim d L' = Some r.
Proof. exact rl_ag. Qed.
Check c08_rl_agrees : forall d L L' r, decode_rl_lim d L = Some r -> (len r <= L')%N -> decode_rl_lim d L' = Some r.
Print Assumptions c08_rl_agrees.

(** the unbounded decoders are the bounded ones at the ceiling regenerated from the Rust source *)
Theorem c08_unbounded_le_ceiling : forall d r,
  (decode_hex d = Some r \/ decode_a85 d = Some r \/ decode_rl d = Some r) -> (len r <= MAX_DECOMPRESSED_SIZE)%N.
Proof. intros d r [H | [H | H]]; [eapply hex_le | eapply a85_le | eapply rl_le]; exact H. Qed.
Check c08_unbounded_le_ceiling : forall d r,
  (decode_hex d = Some r \/ decode_a85 d = Some r \/ decode_rl d = Some r) -> (len r <= MAX_DECOMPRESSED_SIZE)%N.
Print Assumptions c08_unbounded_le_ceiling.


(** the public bounded entry: whatever the filters, parameters and data, an Ok result fits the limit *)
Theorem c08_bounded_le_limit : forall zlib fk dp d L r, decode_stream_lim zlib fk dp d L = Some r -> (len r <= L)%N.
Proof. exact bounded_le_limit. Qed.
Check c08_bounded_le_limit : forall zlib fk dp d L r, decode_stream_lim zlib fk dp d L = Some r -> (len r <= L)%N.
Print Assumptions c08_bounded_le_limit.

(** stage-level agreement on ARBITRARY data for the text filters, and for LZW's decoder *)
Theorem c08_stage_agrees_text : forall zlib recover f p d L r, (f = FHex \/ f = F85 \/ f = FRl) -> no_pred p ->
  apply_filter_with_params zlib recover f p d = Some r -> (len r <= L)%N -> stage_lim zlib f p d L = Some r.
Proof. exact stage_agrees_text. Qed.
Check c08_stage_agrees_text : forall zlib recover f p d L r, (f = FHex \/ f = F85 \/ f = FRl) -> no_pred p ->
  apply_filter_with_params zlib recover f p d = Some r -> (len r <= L)%N -> stage_lim zlib f p d L = Some r.
Print Assumptions c08_stage_agrees_text.

Theorem c08_lzw_agrees : forall d ec L L' r, decode_lzw_lim d ec L = Some r -> (len r <= L')%N -> decode_lzw_lim d ec L' = Some r.
Proof. exact lzw_ag. Qed.
Check c08_lzw_agrees : forall d ec L L' r, decode_lzw_lim d ec L = Some r -> (len r <= L')%N -> decode_lzw_lim d ec L' = Some r.
Print Assumptions c08_lzw_agrees.

(** composition for the bounded driver: stages that each fit the limit compose *)
Theorem c08_chain_lim : forall zlib dp L fs d x, fs <> [] -> decodes_chain_lim zlib dp L 0 fs d x ->
  decode_stream_lim zlib (Some fs) dp d L = Some x.
Proof. exact chain_roundtrip_lim. Qed.
Check c08_chain_lim : forall zlib dp L fs d x, fs <> [] -> decodes_chain_lim zlib dp L 0 fs d x ->
  decode_stream_lim zlib (Some fs) dp d L = Some x.
Print Assumptions c08_chain_lim.

(** observation kept visible: LZW's in-loop check alone is not a bound (the post-filter check is) *)
Theorem c08_lzw_inner_check_not_a_bound : exists d, decode_lzw_lim d true 0 = Some [65%N].
Proof. exact lzw_inner_check_not_a_bound. Qed.
Check c08_lzw_inner_check_not_a_bound : exists d, decode_lzw_lim d true 0 = Some [65%N].
Print Assumptions c08_lzw_inner_check_not_a_bound.

Example c08_nonvacuous : decode_rl_lim [254; 65; 128]%N 3 = Some [65; 65; 65]%N /\ decode_rl_lim [254; 65; 128]%N 2 = None.
Proof. split; vm_compute; reflexivity. Qed.
