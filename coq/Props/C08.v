(** C08 — bounded decoding respects its limit and agrees with full decoding.
    Only statements here; proofs live in theories/C07/Proofs*.v and BoundedFull.v. *)
From OxVerif Require Import C07.Proofs C07.BoundedFull.
From OxGen Require Import FilterConsts.

(** per filter: LE = the result fits the limit; AG = any limit that fits the result gives the same
    result (monotonicity, and agreement with the unbounded decoder, which is the limit MAX) *)
Theorem c08_hex_le : forall d L r, decode_hex_lim d L = Some r -> (len r <= L)%N.
Proof. exact hex_le. Qed.
Check c08_hex_le : forall d L r, decode_hex_lim d L = Some r -> (len r <= L)%N.
Print Assumptions c08_hex_le.
Theorem c08_hex_agrees : forall d L L' r, decode_hex_lim d L = Some r -> (len r <= L')%N -> decode_hex_lim d L' = Some r.
Proof. exact hex_ag. Qed.
Check c08_hex_agrees : forall d L L' r, decode_hex_lim d L = Some r -> (len r <= L')%N -> decode_hex_lim d L' = Some r.
Print Assumptions c08_hex_agrees.

Theorem c08_a85_le : forall d L r, decode_a85_lim d L = Some r -> (len r <= L)%N.
Proof. exact a85_le. Qed.
Check c08_a85_le : forall d L r, decode_a85_lim d L = Some r -> (len r <= L)%N.
Print Assumptions c08_a85_le.
Theorem c08_a85_agrees : forall d L L' r, decode_a85_lim d L = Some r -> (len r <= L')%N -> decode_a85_lim d L' = Some r.
Proof. exact a85_ag. Qed.
Check c08_a85_agrees : forall d L L' r, decode_a85_lim d L = Some r -> (len r <= L')%N -> decode_a85_lim d L' = Some r.
Print Assumptions c08_a85_agrees.

Theorem c08_rl_le : forall d L r, decode_rl_lim d L = Some r -> (len r <= L)%N.
Proof. exact rl_le. Qed.
Check c08_rl_le : forall d L r, decode_rl_lim d L = Some r -> (len r <= L)%N.
Print Assumptions c08_rl_le.
Theorem c08_rl_agrees : forall d L L' r, decode_rl_lim d L = Some r -> (len r <= L')%N -> decode_rl_lim d L' = Some r.
Proof. exact rl_ag. Qed.
Check c08_rl_agrees : forall d L L' r, decode_rl_lim d L = Some r -> (len r <= L')%N -> decode_rl_lim d L' = Some r.
Print Assumptions c08_rl_agrees.

(** the unbounded decoders are the bounded ones at the ceiling regenerated from the Rust source *)
Theorem c08_unbounded_le_ceiling : forall d r,
  (decode_hex d = Some r \/ decode_a85 d = Some r \/ decode_rl d = Some r) -> (len r <= MAX_DECOMPRESSED_SIZE)%N.
Proof. intros d r [H | [H | H]]; [eapply hex_le | eapply a85_le | eapply rl_le]; exact H. Qed.
Check c08_unbounded_le_ceiling : forall d r,
  (decode_hex d = Some r \/ decode_a85 d = Some r \/ decode_rl d = Some r) -> (len r <= MAX_DECOMPRESSED_SIZE)%N.
Print Assumptions c08_unbounded_le_ceiling.


(** the public bounded entry: whatever the filters, parameters and data, an Ok result fits the limit *)
Theorem c08_bounded_le_limit : forall zlib fk dp d L r, decode_stream_lim zlib fk dp d L = Some r -> (len r <= L)%N.
Proof. exact bounded_le_limit. Qed.
Check c08_bounded_le_limit : forall zlib fk dp d L r, decode_stream_lim zlib fk dp d L = Some r -> (len r <= L)%N.
Print Assumptions c08_bounded_le_limit.

(** stage-level agreement on ARBITRARY data for the text filters, and for LZW's decoder *)
Theorem c08_stage_agrees_text : forall zlib recover f p d L r, (f = FHex \/ f = F85 \/ f = FRl) -> no_pred p ->
  apply_filter_with_params zlib recover f p d = Some r -> (len r <= L)%N -> stage_lim zlib f p d L = Some r.
Proof. exact stage_agrees_text. Qed.
Check c08_stage_agrees_text : forall zlib recover f p d L r, (f = FHex \/ f = F85 \/ f = FRl) -> no_pred p ->
  apply_filter_with_params zlib recover f p d = Some r -> (len r <= L)%N -> stage_lim zlib f p d L = Some r.
Print Assumptions c08_stage_agrees_text.

Theorem c08_lzw_agrees : forall d ec L L' r, decode_lzw_lim d ec L = Some r -> (len r <= L')%N -> decode_lzw_lim d ec L' = Some r.
Proof. exact lzw_ag. Qed.
Check c08_lzw_agrees : forall d ec L L' r, decode_lzw_lim d ec L = Some r -> (len r <= L')%N -> decode_lzw_lim d ec L' = Some r.
Print Assumptions c08_lzw_agrees.

(** composition for the bounded driver: stages that each fit the limit compose *)
Theorem c08_chain_lim : forall zlib dp L fs d x, fs <> [] -> decodes_chain_lim zlib dp L 0 fs d x ->
  decode_stream_lim zlib (Some fs) dp d L = Some x.
Proof. exact chain_roundtrip_lim. Qed.
Check c08_chain_lim : forall zlib dp L fs d x, fs <> [] -> decodes_chain_lim zlib dp L 0 fs d x ->
  decode_stream_lim zlib (Some fs) dp d L = Some x.
Print Assumptions c08_chain_lim.

(** WHOLE CHAIN, every filter (LZW and predictor stages included).  For a run of the unbounded driver that
    returns Ok r:
      buffers_fit   = every stage buffer of that run (each stage's output before and after its predictor; the data
                      itself when there is no filter) has length <= L;
      predictors_ok = at every stage the predictor steps of the two drivers coincide (pred_agrees: after Flate/LZW
                      the predictor succeeds — the unbounded driver swallows its error, the bounded one propagates
                      it; after a text filter the predictor only the unbounded driver applies leaves the data as is);
      flate_ok      = the hypothesis on the Section variable zlib at every Flate stage of the run:
                      FlateAgreesAt p d := forall raw L, (unbounded Flate stage before the predictor) = Some raw ->
                      len raw <= L -> decode_flate_lim zlib d L = Some raw
                      (implied by "the standard zlib path succeeded", c08_flate_std_agrees).
    Then the bounded driver returns the same r. *)
Theorem c08_bounded_agrees : forall zlib recover fk dp data L r,
  decode_stream zlib recover fk dp data = Some r ->
  buffers_fit zlib recover fk dp data L -> predictors_ok zlib recover fk dp data -> flate_ok zlib recover fk dp data ->
  decode_stream_lim zlib fk dp data L = Some r.
Proof. exact bounded_agrees. Qed.
Check c08_bounded_agrees : forall zlib recover fk dp data L r,
  decode_stream zlib recover fk dp data = Some r ->
  buffers_fit zlib recover fk dp data L -> predictors_ok zlib recover fk dp data -> flate_ok zlib recover fk dp data ->
  decode_stream_lim zlib fk dp data L = Some r.
Print Assumptions c08_bounded_agrees.

(** the same with the Flate hypothesis stated once for the Section variables *)
Theorem c08_bounded_agrees_flate_hyp : forall zlib recover, FlateAgrees zlib recover ->
  forall fk dp data L r, decode_stream zlib recover fk dp data = Some r ->
  buffers_fit zlib recover fk dp data L -> predictors_ok zlib recover fk dp data ->
  decode_stream_lim zlib fk dp data L = Some r.
Proof. exact bounded_agrees_flate_hyp. Qed.
Check c08_bounded_agrees_flate_hyp : forall zlib recover, FlateAgrees zlib recover ->
  forall fk dp data L r, decode_stream zlib recover fk dp data = Some r ->
  buffers_fit zlib recover fk dp data L -> predictors_ok zlib recover fk dp data ->
  decode_stream_lim zlib fk dp data L = Some r.
Print Assumptions c08_bounded_agrees_flate_hyp.

(** hex / 85 / LZW / RunLength chains without /Predictor: fitting buffers are the only hypothesis *)
Theorem c08_bounded_agrees_no_predictor : forall zlib recover fs dp data L r,
  ~ In FFlate fs -> (forall i, no_pred (get_filter_params dp i)) ->
  decode_stream zlib recover (Some fs) dp data = Some r ->
  buffers_fit zlib recover (Some fs) dp data L -> decode_stream_lim zlib (Some fs) dp data L = Some r.
Proof. exact bounded_agrees_no_predictor. Qed.
Check c08_bounded_agrees_no_predictor : forall zlib recover fs dp data L r,
  ~ In FFlate fs -> (forall i, no_pred (get_filter_params dp i)) ->
  decode_stream zlib recover (Some fs) dp data = Some r ->
  buffers_fit zlib recover (Some fs) dp data L -> decode_stream_lim zlib (Some fs) dp data L = Some r.
Print Assumptions c08_bounded_agrees_no_predictor.

Theorem c08_flate_std_agrees : forall zlib recover p d, try_standard_zlib zlib d <> None -> FlateAgreesAt zlib recover p d.
Proof. exact flate_std_agrees. Qed.
Check c08_flate_std_agrees : forall zlib recover p d, try_standard_zlib zlib d <> None -> FlateAgreesAt zlib recover p d.
Print Assumptions c08_flate_std_agrees.

(** one stage, any filter *)
Theorem c08_stage_agrees : forall zlib recover f p d L r, apply_filter_with_params zlib recover f p d = Some r ->
  stage_fits zlib recover L f p d -> stage_pred_ok zlib recover f p d -> stage_flate_ok zlib recover f p d ->
  stage_lim zlib f p d L = Some r.
Proof. exact stage_agrees. Qed.
Check c08_stage_agrees : forall zlib recover f p d L r, apply_filter_with_params zlib recover f p d = Some r ->
  stage_fits zlib recover L f p d -> stage_pred_ok zlib recover f p d -> stage_flate_ok zlib recover f p d ->
  stage_lim zlib f p d L = Some r.
Print Assumptions c08_stage_agrees.

(** when the two drivers differ although every buffer fits: exactly when the predictor steps differ ... *)
Theorem c08_stage_agrees_iff : forall zlib recover f p d L raw, raw_stage zlib recover f p d = Some raw ->
  (len raw <= L)%N -> (len (post_pred p raw) <= L)%N -> stage_flate_ok zlib recover f p d ->
  (stage_lim zlib f p d L = apply_filter_with_params zlib recover f p d <-> pred_agrees f p raw).
Proof. exact stage_agrees_iff. Qed.
Check c08_stage_agrees_iff : forall zlib recover f p d L raw, raw_stage zlib recover f p d = Some raw ->
  (len raw <= L)%N -> (len (post_pred p raw) <= L)%N -> stage_flate_ok zlib recover f p d ->
  (stage_lim zlib f p d L = apply_filter_with_params zlib recover f p d <-> pred_agrees f p raw).
Print Assumptions c08_stage_agrees_iff.

(** ... and then in one of two ways: (a) Flate/LZW stage, predictor error: unbounded Ok(unpredicted data), bounded Err;
    (b) text-filter stage with an effective /Predictor: unbounded Ok(predicted), bounded Ok(raw) *)
Theorem c08_stage_differs_cases : forall zlib recover f p d L raw, raw_stage zlib recover f p d = Some raw ->
  (len raw <= L)%N -> stage_flate_ok zlib recover f p d -> ~ pred_agrees f p raw ->
  exists ps pr, p = Some ps /\ p_predictor ps = Some pr /\
    ((applies f = true /\ apply_predictor raw (as_u32 pr) ps = None /\
      apply_filter_with_params zlib recover f p d = Some raw /\ stage_lim zlib f p d L = None)
     \/
     (applies f = false /\ exists x, apply_predictor raw (as_u32 pr) ps = Some x /\ x <> raw /\
      apply_filter_with_params zlib recover f p d = Some x /\ stage_lim zlib f p d L = Some raw)).
Proof. exact stage_differs_cases. Qed.
Check c08_stage_differs_cases : forall zlib recover f p d L raw, raw_stage zlib recover f p d = Some raw ->
  (len raw <= L)%N -> stage_flate_ok zlib recover f p d -> ~ pred_agrees f p raw ->
  exists ps pr, p = Some ps /\ p_predictor ps = Some pr /\
    ((applies f = true /\ apply_predictor raw (as_u32 pr) ps = None /\
      apply_filter_with_params zlib recover f p d = Some raw /\ stage_lim zlib f p d L = None)
     \/
     (applies f = false /\ exists x, apply_predictor raw (as_u32 pr) ps = Some x /\ x <> raw /\
      apply_filter_with_params zlib recover f p d = Some x /\ stage_lim zlib f p d L = Some raw)).
Print Assumptions c08_stage_differs_cases.

(** monotonicity of the public bounded entry in its limit (any filters, parameters, data; no hypothesis on zlib) *)
Theorem c08_bounded_monotone : forall zlib fk dp data L L' r,
  decode_stream_lim zlib fk dp data L = Some r -> (L <= L')%N -> decode_stream_lim zlib fk dp data L' = Some r.
Proof. exact bounded_monotone. Qed.
Check c08_bounded_monotone : forall zlib fk dp data L L' r,
  decode_stream_lim zlib fk dp data L = Some r -> (L <= L')%N -> decode_stream_lim zlib fk dp data L' = Some r.
Print Assumptions c08_bounded_monotone.

Theorem c08_lzw_monotone : forall d ec L L' r, decode_lzw_lim d ec L = Some r -> (L <= L')%N -> decode_lzw_lim d ec L' = Some r.
Proof. exact lzw_mono. Qed.
Check c08_lzw_monotone : forall d ec L L' r, decode_lzw_lim d ec L = Some r -> (L <= L')%N -> decode_lzw_lim d ec L' = Some r.
Print Assumptions c08_lzw_monotone.

(** observation kept visible: LZW's in-loop check alone is not a bound (the post-filter check is) *)
Theorem c08_lzw_inner_check_not_a_bound : exists d, decode_lzw_lim d true 0 = Some [65%N].
Proof. exact lzw_inner_check_not_a_bound. Qed.
Check c08_lzw_inner_check_not_a_bound : exists d, decode_lzw_lim d true 0 = Some [65%N].
Print Assumptions c08_lzw_inner_check_not_a_bound.

Example c08_nonvacuous : decode_rl_lim [254; 65; 128]%N 3 = Some [65; 65; 65]%N /\ decode_rl_lim [254; 65; 128]%N 2 = None.
Proof. split; vm_compute; reflexivity. Qed.
(** hypotheses of c08_bounded_agrees hold on /Filter [/ASCIIHexDecode /LZWDecode] + PNG predictor at L = peak buffer,
    and both divergences of c08_stage_differs_cases occur *)
Example c08_bounded_agrees_nonvacuous :
  decode_stream ex_zlib ex_recover (Some [FHex; FLzw]) ex_dp ex_chain_data = Some [1; 2; 3; 2; 3; 4]%N /\
  buffers_fit ex_zlib ex_recover (Some [FHex; FLzw]) ex_dp ex_chain_data 11 /\
  predictors_ok ex_zlib ex_recover (Some [FHex; FLzw]) ex_dp ex_chain_data /\
  flate_ok ex_zlib ex_recover (Some [FHex; FLzw]) ex_dp ex_chain_data /\
  decode_stream_lim ex_zlib (Some [FHex; FLzw]) ex_dp ex_chain_data 11 = Some [1; 2; 3; 2; 3; 4]%N /\
  decode_stream_lim ex_zlib (Some [FHex; FLzw]) ex_dp ex_chain_data 10 = None.
Proof. exact bounded_agrees_nonvacuous. Qed.
