(** C04 — the newest revision of an object always wins.
    Only statements here; proofs live in theories/C04/Proofs.v. *)
From OxVerif Require Import Base.Util C04.Model C04.Proofs.

(** For every file (any number of revisions, each a classic section or an xref stream, any
    /W[0], any subsections, objects in or out of object streams, freed, re-added) the place the
    reader takes object n from is the definition in the newest revision that mentions n. *)
Theorem c04_merge_newest_wins : forall secs n,
  lookup (file_table secs) n = loc_of (spec_lookup (map rev_of_section secs) n).
Proof. exact merge_newest_wins_lemma. Qed.
Check c04_merge_newest_wins : forall secs n,
  lookup (file_table secs) n = loc_of (spec_lookup (map rev_of_section secs) n).
Print Assumptions c04_merge_newest_wins.

(** the same with the lenient presets (hybrid fill-in from the header scan after the merge) *)
Theorem c04_lenient_newest_wins : forall secs hs n,
  spec_lookup (map rev_of_section secs) n <> None ->
  lookup (file_table_lenient secs hs) n = loc_of (spec_lookup (map rev_of_section secs) n).
Proof. exact lenient_newest_wins_lemma. Qed.
Check c04_lenient_newest_wins : forall secs hs n,
  spec_lookup (map rev_of_section secs) n <> None ->
  lookup (file_table_lenient secs hs) n = loc_of (spec_lookup (map rev_of_section secs) n).
Print Assumptions c04_lenient_newest_wins.

(** cross-reference data unusable: the table rebuilt from the "N G obj" headers (ascending
    offsets) resolves n to the last header of n *)
Theorem c04_recovery_latest_wins : forall hs n,
  lookup (recover hs) n = loc_of (spec_lookup (history_of_headers hs) n).
Proof. exact recovery_latest_wins_lemma. Qed.
Check c04_recovery_latest_wins : forall hs n,
  lookup (recover hs) n = loc_of (spec_lookup (history_of_headers hs) n).
Print Assumptions c04_recovery_latest_wins.

(** ... and a scanned header never overrides an entry supplied by a cross-reference section *)
Theorem c04_headers_never_override : forall t hs ce n,
  mfind n (entries t) <> None -> lookup (add_headers t hs ce) n = lookup t n.
Proof. exact headers_never_override_lemma. Qed.
Check c04_headers_never_override : forall t hs ce n,
  mfind n (entries t) <> None -> lookup (add_headers t hs ce) n = lookup t n.
Print Assumptions c04_headers_never_override.

(** the pinned tree (maps merged independently; zero-width type field read as 0) is refuted *)
Theorem c04_pinned_refuted_stale_direct :
  exists secs n, lookup (file_table_pinned secs) n <> loc_of (spec_lookup (map rev_of_section secs) n).
Proof. exact pinned_refuted_stale_direct. Qed.
Check c04_pinned_refuted_stale_direct :
  exists secs n, lookup (file_table_pinned secs) n <> loc_of (spec_lookup (map rev_of_section secs) n).
Print Assumptions c04_pinned_refuted_stale_direct.

(** non-vacuity *)
Example c04_nonvacuous :
  lookup (file_table [wit_base; Classic [(3, [CE 500 0 true])]]) 3 = LOffset 500 /\
  lookup (file_table [wit_base; Classic [(3, [CE 0 1 false])]]) 3 = LNull /\
  lookup (file_table [XStream 0 [(3, [(T0, 700, 0)])]]) 3 = LOffset 700 /\
  lookup (file_table [wit_base]) 3 = LCompressed 9 0.
Proof. exact fixed_on_witnesses. Qed.
Example c04_lenient_nonvacuous :
  let secs := [wit_base; Classic [(3, [CE 500 0 true]); (7, [CE 0 1 false])]] in
  spec_lookup (map rev_of_section secs) 3 <> None /\
  lookup (file_table_lenient secs [(3, 0, 40); (3, 0, 500); (8, 0, 600)]) 3 = LOffset 500 /\
  lookup (file_table_lenient secs [(3, 0, 40); (3, 0, 500); (8, 0, 600)]) 8 = LOffset 600.
Proof. exact lenient_nonvacuous. Qed.

(** * how the reader obtains the list of sections (theories/C04/ChainModel.v, ChainProofs.v)

    A file = finite map  offset -> {section; /Prev; /XRefStm}  + the startxref offset;
    [collect_sections] / [read_xref] = the loop of parse_with_incremental_updates_options WITH
    fix_c04_hybrid_xrefstm.patch (the /XRefStm stream of a classic section is parsed and merged right
    after the section, before /Prev); [read_xref_pinned] = the loop before that fix. *)
From OxVerif Require Import C04.ChainModel C04.ChainProofs.

(** any map, cycles included: the loop ends (the fuel of the model is never exhausted) after at most
    two sections (a section and its /XRefStm stream) per offset of the map — by the visited set *)
Theorem c04_chain_terminates : forall f,
  collect_sections f <> WFuel /\ read_xref f <> WFuel /\
  forall l, collect_sections f = WOk l -> (length l <= 2 * length (f_at f))%nat.
Proof. exact chain_terminates_lemma. Qed.
Check c04_chain_terminates : forall f,
  collect_sections f <> WFuel /\ read_xref f <> WFuel /\
  forall l, collect_sections f = WOk l -> (length l <= 2 * length (f_at f))%nat.
Print Assumptions c04_chain_terminates.

(** ... and more fuel never changes the result *)
Theorem c04_chain_fuel_irrelevant : forall f j,
  walk (f_at f) (fuel_of f + j) [] (Some (f_start f)) = collect_sections f.
Proof. exact fuel_irrelevant_lemma. Qed.
Check c04_chain_fuel_irrelevant : forall f j,
  walk (f_at f) (fuel_of f + j) [] (Some (f_start f)) = collect_sections f.
Print Assumptions c04_chain_fuel_irrelevant.

(** without the visited set a /Prev pointing at its own section never ends *)
Theorem c04_chain_novisit_refuted : exists m start, forall fuel, walk_novisit m fuel (Some start) = WFuel.
Proof. exact novisit_refuted_lemma. Qed.
Check c04_chain_novisit_refuted : exists m start, forall fuel, walk_novisit m fuel (Some start) = WFuel.
Print Assumptions c04_chain_novisit_refuted.

(** a well-formed revision chain (newest section at startxref, every /Prev = offset of the section of
    the revision before, oldest without /Prev, no offset twice, every /XRefStm names an offset where a
    section parses) is collected newest first, each update's /XRefStm stream right after its section *)
Theorem c04_chain_newest_first : forall f ch,
  is_chain f ch ->
  collect_sections f = WOk (concat (map (fun p => s_sec (snd p) :: xrefstm_secs (f_at f) (snd p)) ch)).
Proof. exact chain_newest_first_lemma. Qed.
Check c04_chain_newest_first : forall f ch,
  is_chain f ch ->
  collect_sections f = WOk (concat (map (fun p => s_sec (snd p) :: xrefstm_secs (f_at f) (snd p)) ch)).
Print Assumptions c04_chain_newest_first.

(** EVERY file: either the loop returns Err (some /Prev or /XRefStm on the way names an offset where
    nothing parses), or there is a duplicate-free /Prev path ch from startxref that ends at a section
    without /Prev or at a /Prev pointing back into the path (cycle), and the loop returns exactly the
    lookup order of ch: each section once, each followed by its /XRefStm stream *)
Theorem c04_walk_shape : forall f,
  collect_sections f = WErr \/
  exists ch stop,
    path_from (f_at f) (Some (f_start f)) ch stop /\ NoDup (map fst ch) /\
    match stop with None => True | Some b => In b (map fst ch) end /\
    collect_sections f = WOk (concat (map (fun p => s_sec (snd p) :: xrefstm_secs (f_at f) (snd p)) ch)).
Proof. exact walk_shape_lemma. Qed.
Check c04_walk_shape : forall f,
  collect_sections f = WErr \/
  exists ch stop,
    path_from (f_at f) (Some (f_start f)) ch stop /\ NoDup (map fst ch) /\
    match stop with None => True | Some b => In b (map fst ch) end /\
    collect_sections f = WOk (concat (map (fun p => s_sec (snd p) :: xrefstm_secs (f_at f) (snd p)) ch)).
Print Assumptions c04_walk_shape.

(** ... and whatever was collected (any file, cycles included), the loop-carried table is the merge of
    it and the newest collected section that mentions n wins *)
Theorem c04_any_file_newest_collected_wins : forall f l,
  collect_sections f = WOk l ->
  read_xref f = WOk (file_table (rev l)) /\
  forall n, lookup (file_table (rev l)) n = loc_of (spec_lookup (map rev_of_section (rev l)) n).
Proof. exact any_file_newest_collected_wins_lemma. Qed.
Check c04_any_file_newest_collected_wins : forall f l,
  collect_sections f = WOk l ->
  read_xref f = WOk (file_table (rev l)) /\
  forall n, lookup (file_table (rev l)) n = loc_of (spec_lookup (map rev_of_section (rev l)) n).
Print Assumptions c04_any_file_newest_collected_wins.

(** the order ISO 32000-1 7.5.8.4 prescribes on a /Prev chain: each update's section, then the stream
    its trailer names with /XRefStm, then the /Prev chain *)
Theorem c04_iso_sections_chain : forall f ch,
  is_prev_chain f ch ->
  iso_sections f = concat (map (fun p => s_sec (snd p) :: xrefstm_secs (f_at f) (snd p)) ch).
Proof. exact iso_sections_chain_lemma. Qed.
Check c04_iso_sections_chain : forall f ch,
  is_prev_chain f ch ->
  iso_sections f = concat (map (fun p => s_sec (snd p) :: xrefstm_secs (f_at f) (snd p)) ch).
Print Assumptions c04_iso_sections_chain.

(** composition with c04_merge_newest_wins: walk + merge + dispatch = newest revision wins, for every
    well-formed chain, hybrid-reference files included *)
Theorem c04_file_newest_wins : forall f,
  wf_chain f ->
  exists t, read_xref f = WOk t /\ forall n, lookup t n = loc_of (spec_lookup (revisions_of f) n).
Proof. exact file_newest_wins_lemma. Qed.
Check c04_file_newest_wins : forall f,
  wf_chain f ->
  exists t, read_xref f = WOk t /\ forall n, lookup t n = loc_of (spec_lookup (revisions_of f) n).
Print Assumptions c04_file_newest_wins.

(** the pinned loop never read /XRefStm: on a hybrid-reference file the hidden objects stayed free *)
Theorem c04_hybrid_refuted :
  exists f t n, wf_chain f /\ read_xref_pinned f = WOk t /\ lookup t n <> loc_of (spec_lookup (revisions_of f) n).
Proof. exact hybrid_refuted_lemma. Qed.
Check c04_hybrid_refuted :
  exists f t n, wf_chain f /\ read_xref_pinned f = WOk t /\ lookup t n <> loc_of (spec_lookup (revisions_of f) n).
Print Assumptions c04_hybrid_refuted.

(** exactly what the pinned loop did on every /Prev chain: it answered for the file with all /XRefStm
    keys deleted *)
Theorem c04_pinned_ignores_xrefstm : forall f,
  wf_prev_chain f ->
  exists t, read_xref_pinned f = WOk t /\ forall n, lookup t n = loc_of (spec_lookup (revisions_of (strip f)) n).
Proof. exact pinned_ignores_xrefstm_lemma. Qed.
Check c04_pinned_ignores_xrefstm : forall f,
  wf_prev_chain f ->
  exists t, read_xref_pinned f = WOk t /\ forall n, lookup t n = loc_of (spec_lookup (revisions_of (strip f)) n).
Print Assumptions c04_pinned_ignores_xrefstm.

(** find_xref_offset: the last complete startxref/number pair of the tail window wins *)
Theorem c04_startxref_last_wins : forall pre k post,
  settled pre -> ~ In LStartxref post ->
  find_start (pre ++ LStartxref :: LNum k :: post) None = Some k.
Proof. exact startxref_last_wins_lemma. Qed.
Check c04_startxref_last_wins : forall pre k post,
  settled pre -> ~ In LStartxref post ->
  find_start (pre ++ LStartxref :: LNum k :: post) None = Some k.
Print Assumptions c04_startxref_last_wins.

(** tail + offset map -> table: the whole of parse_with_incremental_updates_options *)
Theorem c04_open_newest_wins : forall pre k post m,
  settled pre -> ~ In LStartxref post ->
  let f := {| f_at := m; f_start := k |} in
  wf_chain f ->
  exists t, open_xref (pre ++ LStartxref :: LNum k :: post) m = WOk t /\
            forall n, lookup t n = loc_of (spec_lookup (revisions_of f) n).
Proof. exact open_newest_wins_lemma. Qed.
Check c04_open_newest_wins : forall pre k post m,
  settled pre -> ~ In LStartxref post ->
  let f := {| f_at := m; f_start := k |} in
  wf_chain f ->
  exists t, open_xref (pre ++ LStartxref :: LNum k :: post) m = WOk t /\
            forall n, lookup t n = loc_of (spec_lookup (revisions_of f) n).
Print Assumptions c04_open_newest_wins.

(** non-vacuity: hypotheses hold on a three-revision chain (classic / xref stream / classic, plus an
    unreachable stray section) and on the hybrid witness; the hybrid witness in numbers (pinned loop,
    fixed loop, standard) *)
Example c04_chain_nonvacuous : wf_chain ex_file /\ wf_chain hyb_file.
Proof. exact (conj ex_file_hyps hyb_file_wf). Qed.
Example c04_chain_values :
  collect_sections ex_file = WOk [ex_r3; ex_r2; ex_r1] /\
  (exists t, read_xref ex_file = WOk t /\
     map (lookup t) [1; 2; 3; 4; 9] = [LOffset 17; LOffset 700; LNull; LOffset 500; LMissing]) /\
  map (fun n => loc_of (spec_lookup (revisions_of ex_file) n)) [1; 2; 3; 4; 9]
    = [LOffset 17; LOffset 700; LNull; LOffset 500; LMissing].
Proof. exact ex_file_values. Qed.
Example c04_hybrid_witness_values :
  read_xref_pinned hyb_file = WOk (file_table [hyb_base; hyb_upd]) /\
  map (lookup (file_table [hyb_base; hyb_upd])) [1; 2; 5; 6] = [LOffset 17; LOffset 350; LNull; LNull] /\
  collect_sections hyb_file = WOk [hyb_upd; hyb_stm; hyb_base] /\
  read_xref hyb_file = WOk (file_table [hyb_base; hyb_stm; hyb_upd]) /\
  map (lookup (file_table [hyb_base; hyb_stm; hyb_upd])) [1; 2; 5; 6]
    = [LOffset 17; LOffset 350; LCompressed 6 0; LOffset 250] /\
  map (fun n => loc_of (spec_lookup (revisions_of hyb_file) n)) [1; 2; 5; 6]
    = [LOffset 17; LOffset 350; LCompressed 6 0; LOffset 250].
Proof. exact hybrid_witness_values. Qed.
