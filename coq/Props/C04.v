(** C04 — the newest revision of an object always wins.
    Only statements here; proofs live in theories/C04/Proofs.v. *)
From OxVerif Require Import Base.Util C04.Model C04.Proofs.

(** For every file (any number of revisions, each a classic section or an xref stream, any
    /W[0], any subsections, objects in or out of object streams, freed, re-added) the place the
    reader takes object n from is the definition in the newest revision that mentions n. *)
Theorem c04_merge_newest_wins : forall secs n,
  lookup (file_table secs) n = loc_of (spec_lookup (map rev_of_section secs) n).
Proof. exact merge_newest_wins_lemma. Qed.
Check c04_merge_newest_wins : forall secs n,
  lookup (file_table secs) n = loc_of (spec_lookup (map rev_of_section secs) n).
Print Assumptions c04_merge_newest_wins.

(** the same with the lenient presets (hybrid fill-in from the header scan after the merge) *)
Theorem c04_lenient_newest_wins : forall secs hs n,
  spec_lookup (map rev_of_section secs) n <> None ->
  lookup (file_table_lenient secs hs) n = loc_of (spec_lookup (map rev_of_section secs) n).
Proof. exact lenient_newest_wins_lemma. Qed.
Check c04_lenient_newest_wins : forall secs hs n,
  spec_lookup (map rev_of_section secs) n <> None ->
  lookup (file_table_lenient secs hs) n = loc_of (spec_lookup (map rev_of_section secs) n).
Print Assumptions c04_lenient_newest_wins.

(** cross-reference data unusable: the table rebuilt from the "N G obj" headers (ascending
    offsets) resolves n to the last header of n *)
Theorem c04_recovery_latest_wins : forall hs n,
  lookup (recover hs) n = loc_of (spec_lookup (history_of_headers hs) n).
Proof. exact recovery_latest_wins_lemma. Qed.
Check c04_recovery_latest_wins : forall hs n,
  lookup (recover hs) n = loc_of (spec_lookup (history_of_headers hs) n).
Print Assumptions c04_recovery_latest_wins.

(** ... and a scanned header never overrides an entry supplied by a cross-reference section *)
Theorem c04_headers_never_override : forall t hs ce n,
  mfind n (entries t) <> None -> lookup (add_headers t hs ce) n = lookup t n.
Proof. exact headers_never_override_lemma. Qed.
Check c04_headers_never_override : forall t hs ce n,
  mfind n (entries t) <> None -> lookup (add_headers t hs ce) n = lookup t n.
Print Assumptions c04_headers_never_override.

(** the pinned tree (maps merged independently; zero-width type field read as 0) is refuted *)
Theorem c04_pinned_refuted_stale_direct :
  exists secs n, lookup (file_table_pinned secs) n <> loc_of (spec_lookup (map rev_of_section secs) n).
Proof. exact pinned_refuted_stale_direct. Qed.
Check c04_pinned_refuted_stale_direct :
  exists secs n, lookup (file_table_pinned secs) n <> loc_of (spec_lookup (map rev_of_section secs) n).
Print Assumptions c04_pinned_refuted_stale_direct.

(** non-vacuity *)
Example c04_nonvacuous :
  lookup (file_table [wit_base; Classic [(3, [CE 500 0 true])]]) 3 = LOffset 500 /\
  lookup (file_table [wit_base; Classic [(3, [CE 0 1 false])]]) 3 = LNull /\
  lookup (file_table [XStream 0 [(3, [(T0, 700, 0)])]]) 3 = LOffset 700 /\
  lookup (file_table [wit_base]) 3 = LCompressed 9 0.
Proof. exact fixed_on_witnesses. Qed.
Example c04_lenient_nonvacuous :
  let secs := [wit_base; Classic [(3, [CE 500 0 true]); (7, [CE 0 1 false])]] in
  spec_lookup (map rev_of_section secs) 3 <> None /\
  lookup (file_table_lenient secs [(3, 0, 40); (3, 0, 500); (8, 0, 600)]) 3 = LOffset 500 /\
  lookup (file_table_lenient secs [(3, 0, 40); (3, 0, 500); (8, 0, 600)]) 8 = LOffset 600.
Proof. exact lenient_nonvacuous. Qed.
