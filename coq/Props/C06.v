(** C06 — encrypted files interoperate with an independent implementation (the Gallina
    reference C06/RefDecrypt.v, written from ISO 32000-1/-2 7.6 on top of C23's specifications).
    Only statements here; proofs live in theories/C06/Proofs.v. *)
From OxVerif Require Import Base.Util C05.EncryptLayer C05.Proofs C05.Check C06.RefDecrypt C06.Proofs.
Require Import List NArith. Import ListNotations.

(** RefDecrypt o RefEncrypt = id for every object tree, every key, id, IV choice, EncryptMetadata *)
Theorem c06_refdecrypt_inverts_refencrypt : forall (enc : bytes -> N * N -> bytes -> bytes -> bytes) (dec : bytes -> N * N -> bytes -> option bytes),
  (forall k id iv x, dec k id (enc k id iv x) = Some x) ->
  forall encmeta iv_of k id o p, ref_decrypt dec encmeta k id (ref_encrypt enc encmeta iv_of k id p o) = Some o.
Proof. intros enc dec H encmeta iv_of k id o p. exact (ref_decrypt_encrypt enc dec H encmeta iv_of k id o p). Qed.
Check c06_refdecrypt_inverts_refencrypt : forall (enc : bytes -> N * N -> bytes -> bytes -> bytes) (dec : bytes -> N * N -> bytes -> option bytes),
  (forall k id iv x, dec k id (enc k id iv x) = Some x) ->
  forall encmeta iv_of k id o p, ref_decrypt dec encmeta k id (ref_encrypt enc encmeta iv_of k id p o) = Some o.
Print Assumptions c06_refdecrypt_inverts_refencrypt.

(** the library's writer model is ISO-conformant for stream-free objects of the well-formed class:
    the reference decrypts what [encrypt_obj] produced back to the original object *)
Theorem c06_lib_writer_is_iso_for_direct_objects : forall (enc : bytes -> N * N -> bytes -> bytes -> bytes) (dec : bytes -> N * N -> bytes -> option bytes),
  (forall k id iv x, dec k id (enc k id iv x) = Some x) ->
  forall encmeta iv_of k id o, wf o = true -> no_stream o = true ->
    ref_decrypt dec encmeta k id (encrypt_obj enc true iv_of k id o) = Some o.
Proof. intros enc dec H encmeta iv_of k id o. exact (lib_writer_is_iso_direct enc dec H encmeta iv_of k id o). Qed.
Check c06_lib_writer_is_iso_for_direct_objects : forall (enc : bytes -> N * N -> bytes -> bytes -> bytes) (dec : bytes -> N * N -> bytes -> option bytes),
  (forall k id iv x, dec k id (enc k id iv x) = Some x) ->
  forall encmeta iv_of k id o, wf o = true -> no_stream o = true ->
    ref_decrypt dec encmeta k id (encrypt_obj enc true iv_of k id o) = Some o.
Print Assumptions c06_lib_writer_is_iso_for_direct_objects.

(** ... and for objects with streams inside the class [iso_ok] (stream carries a named filter other
    than /Crypt, no strings in the stream dictionary, no string below a skipped key): the reference
    returns the object with its payload restored (the dictionary keeps the ciphertext /Length) *)
Theorem c06_lib_writer_is_iso : forall (enc : bytes -> N * N -> bytes -> bytes -> bytes) (dec : bytes -> N * N -> bytes -> option bytes),
  (forall k id iv x, dec k id (enc k id iv x) = Some x) ->
  forall iv_of k id o, iso_ok o = true ->
    ref_decrypt dec true k id (encrypt_obj enc true iv_of k id o) = Some (image_obj enc true iv_of k id o).
Proof. intros enc dec H iv_of k id o Hok. exact (lib_writer_is_iso enc dec H iv_of k id o [] Hok). Qed.
Check c06_lib_writer_is_iso : forall (enc : bytes -> N * N -> bytes -> bytes -> bytes) (dec : bytes -> N * N -> bytes -> option bytes),
  (forall k id iv x, dec k id (enc k id iv x) = Some x) ->
  forall iv_of k id o, iso_ok o = true ->
    ref_decrypt dec true k id (encrypt_obj enc true iv_of k id o) = Some (image_obj enc true iv_of k id o).
Print Assumptions c06_lib_writer_is_iso.

(** known finding C06-crypt-marker: outside [iso_ok] (stream without /Filter) the library's
    /Filter /Crypt marker makes the reference leave the payload encrypted *)
Theorem c06_crypt_marker_refuted : exists k id o,
  wf o = true /\ exists o', ref_decrypt toy_dec true k id (encrypt_obj toy_enc true toy_iv k id o) = Some o'
                            /\ payload o' <> payload o.
Proof. exact crypt_marker_refuted. Qed.
Check c06_crypt_marker_refuted : exists k id o,
  wf o = true /\ exists o', ref_decrypt toy_dec true k id (encrypt_obj toy_enc true toy_iv k id o) = Some o'
                            /\ payload o' <> payload o.
Print Assumptions c06_crypt_marker_refuted.

Example c06_hyps_satisfiable : (forall k id iv x, toy_dec k id (toy_enc k id iv x) = Some x)
  /\ iso_ok (OStream [(nm "Filter", OName (nm "FlateDecode")); (nm "Length", ONum "3")] [1;2;3]%N) = true.
Proof. split; [exact toy_dec_enc | reflexivity]. Qed.
