(** C16 — page operations preserve page content and geometry.
    Only statements here; proofs live in theories/C16/Proofs.v. *)
From OxVerif Require Import Base.Util C16.Model C16.Proofs C16.SplitMerge.
Require Import Coq.Sorting.Permutation.

(** rotation: for every /Rotate of the file that is a multiple of 90 (negative and > 360
    included) and every quadrant angle, the new rotation is (r + a) mod 360 *)
Theorem c16_rotate_mod_360 : forall r a,
  (-2147483648 <= r <= 2147483647)%Z -> (r mod 90 = 0)%Z ->
  (a = 0 \/ a = 90 \/ a = 180 \/ a = 270)%Z ->
  rot_combine r a = Some ((r + a) mod 360)%Z.
Proof. exact rotate_mod_360_proof. Qed.
Check c16_rotate_mod_360 : forall r a,
  (-2147483648 <= r <= 2147483647)%Z -> (r mod 90 = 0)%Z ->
  (a = 0 \/ a = 90 \/ a = 180 \/ a = 270)%Z ->
  rot_combine r a = Some ((r + a) mod 360)%Z.
Print Assumptions c16_rotate_mod_360.

(** no arithmetic trap for ANY /Rotate value (after fix_c16_rotate_overflow.patch) *)
Theorem c16_rotate_no_trap : forall r a, (0 <= a <= 270)%Z -> rot_combine r a <> None.
Proof. exact rotate_no_trap_proof. Qed.
Check c16_rotate_no_trap : forall r a, (0 <= a <= 270)%Z -> rot_combine r a <> None.
Print Assumptions c16_rotate_no_trap.

(** the page copy used by every operation preserves boxes (origin included), crop box,
    decoded content (modulo trailing white space), resources and rotation *)
Theorem c16_ops_preserve_page : forall p, same_page p 0 (copy_page p) = true.
Proof. exact copy_preserves_page. Qed.
Check c16_ops_preserve_page : forall p, same_page p 0 (copy_page p) = true.
Print Assumptions c16_ops_preserve_page.

Theorem c16_rotate_preserves_page : forall p a q,
  (a = 0 \/ a = 90 \/ a = 180 \/ a = 270)%Z -> (wrap32 (rotate p) mod 90 = 0)%Z ->
  rotate_page p a = Some q -> same_page p a q = true.
Proof. exact rotate_preserves_page. Qed.
Check c16_rotate_preserves_page : forall p a q,
  (a = 0 \/ a = 90 \/ a = 180 \/ a = 270)%Z -> (wrap32 (rotate p) mod 90 = 0)%Z ->
  rotate_page p a = Some q -> same_page p a q = true.
Print Assumptions c16_rotate_preserves_page.

(** extraction = the requested selection, in the requested order *)
Theorem c16_extract_is_selection : forall d l out,
  op_model [d] (OExtractPages l) = Some [out] ->
  out = List.map (fun i => copy_page (nth (N.to_nat i) d (Build_page [] None 0 [] []))) l
  /\ Forall (fun i => (i < total d)%N) l /\ l <> [].
Proof. exact extract_is_selection_proof. Qed.
Check c16_extract_is_selection : forall d l out,
  op_model [d] (OExtractPages l) = Some [out] ->
  out = List.map (fun i => copy_page (nth (N.to_nat i) d (Build_page [] None 0 [] []))) l
  /\ Forall (fun i => (i < total d)%N) l /\ l <> [].
Print Assumptions c16_extract_is_selection.

(** reordering by a permutation of the indices permutes the pages *)
Theorem c16_reorder_is_permutation : forall d l out,
  Permutation l (ident d) -> op_model [d] (OReorder l) = Some [out] ->
  Permutation out (List.map copy_page d).
Proof. exact reorder_is_permutation_proof. Qed.
Check c16_reorder_is_permutation : forall d l out,
  Permutation l (ident d) -> op_model [d] (OReorder l) = Some [out] ->
  Permutation out (List.map copy_page d).
Print Assumptions c16_reorder_is_permutation.

(** merging the parts of a split document gives back the original page sequence: for every
    non-empty document and every chunk size, split (ChunkSize k) followed by a merge of all
    parts yields one document whose pages are the original pages in the original order
    (each copied twice, and a copy preserves the page: c16_ops_preserve_page) *)
Theorem c16_split_merge_identity : forall d k, d <> [] -> k <> 0%N ->
  op_model [d] (OSplitMerge k) = Some [List.map (fun p => copy_page (copy_page p)) d].
Proof. exact split_merge_identity_proof. Qed.
Check c16_split_merge_identity : forall d k, d <> [] -> k <> 0%N ->
  op_model [d] (OSplitMerge k) = Some [List.map (fun p => copy_page (copy_page p)) d].
Print Assumptions c16_split_merge_identity.

(** the chunks a split requests (specification side) partition the page sequence *)
Theorem c16_split_chunks_partition : forall n k, (0 < k)%nat ->
  concat (chunks n k (nseq 0 n)) = nseq 0 n /\ Forall (fun c => c <> []) (chunks n k (nseq 0 n)).
Proof.
  intros n k Hk. split; [apply chunks_concat; auto | apply chunks_nonempty; auto].
  clear. generalize 0%N. induction n; intro s; cbn [nseq length]; auto. specialize (IHn (N.succ s)). lia.
Qed.
Check c16_split_chunks_partition : forall n k, (0 < k)%nat ->
  concat (chunks n k (nseq 0 n)) = nseq 0 n /\ Forall (fun c => c <> []) (chunks n k (nseq 0 n)).
Print Assumptions c16_split_chunks_partition.

(** * Non-vacuity *)
Definition ex_p (w : Z) (r : Z) (c : bytes) : page :=
  {| media := [100; 200; 100 + w; 600]%Z; crop := Some [110; 210; 390; 590]%Z; rotate := r; content := [c]; res := [7%N] |}.
Definition ex_doc : doc := [ex_p 300 (-450) [113; 32; 81]; ex_p 301 810 [66; 84]; ex_p 302 0 [81]; ex_p 303 90 [113]; ex_p 304 2147483610 [32]].

(** model-level split/merge identity on a five-page document, chunk sizes 1..6 *)
Example c16_split_merge_example :
  forallb (fun k => outs_eqb (op_model [ex_doc] (OSplitMerge k))
                             (Some [List.map (fun p => copy_page (copy_page p)) ex_doc])) [1; 2; 3; 4; 5; 6]%N = true.
Proof. vm_compute. reflexivity. Qed.

Example c16_rotate_examples :
  rot_combine (-450) 90 = Some 0%Z /\ rot_combine 810 270 = Some 0%Z /\ rot_combine (-90) 0 = Some 270%Z
  /\ rot_combine 2147483610 270 = Some ((2147483610 + 270) mod 360)%Z.
Proof. vm_compute. repeat split; reflexivity. Qed.

Example c16_reorder_example :
  exists out, op_model [ex_doc] (OReorder [1; 0; 2; 3; 4]%N) = Some [out] /\ Permutation [1; 0; 2; 3; 4]%N (ident ex_doc).
Proof.
  eexists. split; [vm_compute; reflexivity|].
  unfold ident, ex_doc. cbn. apply perm_swap.
Qed.
