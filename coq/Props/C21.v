(** C21 — content streams parse back to the operators that were written; parsing arbitrary bytes
    as a content stream always terminates.  Only statements here; proofs live in theories/C21. *)
From OxVerif Require Import Base.Util C21.Num C21.Tok C21.Model C21.Total C21.Lexemes C21.Roundtrip C21.Proofs C21.Full C21.Ulp.
Open Scope N_scope.

(** termination: for every byte string the tokenizing loop needs at most |input|+1 steps (the fuel
    is never exhausted) and the operation list is a structurally recursive function of the tokens *)
Theorem c21_content_parse_total : forall l : bytes,
  exists ts, tokens_fuel (S (length l)) l = Some ts /\ parse l = parse_toks ts (PNorm []).
Proof. exact content_parse_total. Qed.
Check c21_content_parse_total : forall l : bytes,
  exists ts, tokens_fuel (S (length l)) l = Some ts /\ parse l = parse_toks ts (PNorm []).
Print Assumptions c21_content_parse_total.

(** every tokenizer step that yields tokens (or skips a stray delimiter) consumes input *)
Theorem c21_next_token_consumes : forall l ts r, next_token l = STok ts r -> (length r < length l)%nat.
Proof. exact next_token_len. Qed.
Check c21_next_token_consumes : forall l ts r, next_token l = STok ts r -> (length r < length l)%nat.
Print Assumptions c21_next_token_consumes.

(** show-text escaping: every byte string comes back from the tokenizer's string reader *)
Theorem c21_escape_unescape : forall s rest, bytes_ok s = true ->
  read_lit (escape s ++ 41 :: rest) 0 = (s, rest).
Proof. exact escape_unescape. Qed.
Check c21_escape_unescape : forall s rest, bytes_ok s = true -> read_lit (escape s ++ 41 :: rest) 0 = (s, rest).
Print Assumptions c21_escape_unescape.
Example c21_escape_unescape_nonvacuous :
  bytes_ok [40; 0; 10; 92; 255; 55] = true /\ escape [40; 0; 10; 92; 255; 55] <> [40; 0; 10; 92; 255; 55].
Proof. split; [reflexivity | discriminate]. Qed.

(** fixed-precision printing: the digits denote the printed scaled integer (n units of 10^-k) *)
Theorem c21_fixed_print_parse : forall k n,
  read_dec (dec (n / 10 ^ k)) (pad (N.to_nat k) (n mod 10 ^ k)) = (n, k).
Proof. exact fixed_print_parse. Qed.
Check c21_fixed_print_parse : forall k n, read_dec (dec (n / 10 ^ k)) (pad (N.to_nat k) (n mod 10 ^ k)) = (n, k).
Print Assumptions c21_fixed_print_parse.

(** … and the tokenizer's number reader returns the nearest f32 of that decimal *)
Theorem c21_number_token : forall neg k n rest, 0 < k -> num_end rest ->
  number_body neg (dec (n / 10 ^ k) ++ 46 :: pad (N.to_nat k) (n mod 10 ^ k) ++ rest)
  = Some (TNum (f32_bits neg n (10 ^ k)), rest).
Proof. exact number_body_fixed. Qed.
Check c21_number_token : forall neg k n rest, 0 < k -> num_end rest ->
  number_body neg (dec (n / 10 ^ k) ++ 46 :: pad (N.to_nat k) (n mod 10 ^ k) ++ rest)
  = Some (TNum (f32_bits neg n (10 ^ k)), rest).
Print Assumptions c21_number_token.
Example c21_number_token_nonvacuous : 0 < 2 /\ num_end [32; 109].
Proof. split; [reflexivity | split; reflexivity]. Qed.

Theorem c21_hex_token : forall h rest, forallb is_uhex h = true ->
  read_hex (h ++ 62 :: rest) None = Some (unhex_pairs h, rest).
Proof. exact read_hex_uhex. Qed.
Check c21_hex_token : forall h rest, forallb is_uhex h = true -> read_hex (h ++ 62 :: rest) None = Some (unhex_pairs h, rest).
Print Assumptions c21_hex_token.
Example c21_hex_token_nonvacuous : forallb is_uhex [48; 65; 70] = true.
Proof. reflexivity. Qed.

(** names as the writer emits them since fix_name_escape (escape_pdf_name, #XX escaping): EVERY name of
    bytes — white space, delimiters, '#', controls, bytes >= 0x80 — is scanned whole and decodes to itself *)
Theorem c21_name_token : forall n rest, bytes_ok n = true -> delim_follows rest ->
  scan_name (esc_name n ++ rest) = (esc_name n, rest) /\ decode_name (esc_name n) = Some n.
Proof. intros. split; [apply scan_name_esc; assumption | apply decode_name_esc; assumption]. Qed.
Check c21_name_token : forall n rest, bytes_ok n = true -> delim_follows rest ->
  scan_name (esc_name n ++ rest) = (esc_name n, rest) /\ decode_name (esc_name n) = Some n.
Print Assumptions c21_name_token.
Example c21_name_token_nonvacuous : bytes_ok [77; 121; 32; 73; 109; 35; 47; 40; 0; 195; 169] = true /\ delim_follows [32]
  /\ esc_name [77; 121; 32; 35] = [77; 121; 35; 50; 48; 35; 50; 51].
Proof. repeat split; reflexivity. Qed.
(** record about raw emission (the writer before fix_name_escape): regular names only; and the escaper
    leaves names made of kept characters unchanged *)
Theorem c21_name_token_pinned : forall n rest, forallb regular_char n = true -> delim_follows rest ->
  scan_name (n ++ rest) = (n, rest) /\ decode_name n = Some n.
Proof. intros. split; [apply scan_name_regular; assumption | apply decode_name_regular; assumption]. Qed.
Check c21_name_token_pinned : forall n rest, forallb regular_char n = true -> delim_follows rest ->
  scan_name (n ++ rest) = (n, rest) /\ decode_name n = Some n.
Print Assumptions c21_name_token_pinned.
Theorem c21_esc_name_plain_identity : forall n, forallb iso_plain n = true -> esc_name n = n.
Proof. exact esc_name_plain. Qed.
Check c21_esc_name_plain_identity : forall n, forallb iso_plain n = true -> esc_name n = n.
Print Assumptions c21_esc_name_plain_identity.

(** the "extreme numeric arguments" clause: refuted for operands beyond f32::MAX (known finding
    C21-f32-overflow) … *)
Theorem c21_f32_overflow_refuted :
  exists o, regular [o] = true /\ f32_overflow o = true
            /\ parse (serialize [o]) = expected [o]
            /\ expected [o] = [CNums (s2b "m") [f32_inf; 1065353216]].
Proof. exact f32_overflow_refuted. Qed.
Check c21_f32_overflow_refuted :
  exists o, regular [o] = true /\ f32_overflow o = true
            /\ parse (serialize [o]) = expected [o]
            /\ expected [o] = [CNums (s2b "m") [f32_inf; 1065353216]].
Print Assumptions c21_f32_overflow_refuted.

(** … and outside that class every expected operand is a finite f32 *)
Theorem c21_expected_finite_outside_class : forall ops, in_known_class ops = false ->
  forallb (fun c => negb (existsb f32_is_inf (cop_nums c))) (expected ops) = true.
Proof. exact expected_finite_outside_class. Qed.
Check c21_expected_finite_outside_class : forall ops, in_known_class ops = false ->
  forallb (fun c => negb (existsb f32_is_inf (cop_nums c))) (expected ops) = true.
Print Assumptions c21_expected_finite_outside_class.

Theorem c21_roundtrip_nonvacuous :
  regular sample_ops = true /\ in_known_class sample_ops = false
  /\ parse (serialize sample_ops) = expected sample_ops.
Proof. exact sample_ops_roundtrip. Qed.
Check c21_roundtrip_nonvacuous :
  regular sample_ops = true /\ in_known_class sample_ops = false
  /\ parse (serialize sample_ops) = expected sample_ops.
Print Assumptions c21_roundtrip_nonvacuous.

(** the operator-level round trip, proved for the operators whose operands are "{:.2}" numbers and
    for the operand-less operators (m l c re w M i cm Td Tw Tc Tz TL Ts and h S f B q Q BT ET n W W-star):
    every sequence, every f64 operand incl. NaN and infinities *)
Theorem c21_ops_roundtrip_partial : forall ops, forallb mvp_op ops = true -> regular ops = true ->
  parse (serialize ops) = expected ops.
Proof. exact ops_roundtrip_partial. Qed.
Check c21_ops_roundtrip_partial : forall ops, forallb mvp_op ops = true -> regular ops = true ->
  parse (serialize ops) = expected ops.
Print Assumptions c21_ops_roundtrip_partial.
Example c21_ops_roundtrip_partial_nonvacuous :
  let ops := [ONums (s2b "re") [FFin false 4503599627370496 (-52); FNan; FInf true; FFin true 5629499534213120 (-57)];
              OPlain (s2b "W*"); OPlain (s2b "n"); ONums (s2b "Tz") [FFin false 7036874417766400 (-46)]] in
  forallb mvp_op ops = true /\ regular ops = true.
Proof. split; reflexivity. Qed.

(** one operator in front of any continuation: every [Op] variant the typed writer API emits
    (all but the untyped Raw), in the shape the list induction consumes.  The per-class lemmas are
    Full.rt_clipstroke / rt_named / rt_color / rt_comps / rt_small / rt_dash / rt_font / rt_showtext /
    rt_showhex / rt_tj / rt_comment / rt_bdc / rt_bdcactual / rt_emc and Roundtrip.roundtrip_op. *)
Theorem c21_op_roundtrip : forall o rest, op_regular o = true ->
  parse (ser_op o ++ rest) = expected_op o ++ parse rest.
Proof. exact roundtrip_op_full. Qed.
Check c21_op_roundtrip : forall o rest, op_regular o = true ->
  parse (ser_op o ++ rest) = expected_op o ++ parse rest.
Print Assumptions c21_op_roundtrip.

(** THE FULL STATEMENT: every sequence of regular operators — names (cs CS gs ri Do sh), colours
    (g G rg RG k K with 3 decimals, sc/SC with 4), J j Tr, dash arrays, Tf (integer, beyond-i32 and
    fractional sizes), Tj (escaped literal and hex), TJ arrays, `W S`, comments, BDC with /MCID and
    /ActualText property dictionaries, EMC, and the numeric/operand-less operators of the partial
    theorem — with every f64 operand (NaN, infinities, -0, denormals, huge values) parses back to the
    source operators with each operand rounded as documented.  [regular] excludes only: Raw, names
    that are not valid UTF-8 (a Rust String cannot hold one; names with white space, delimiters or '#'
    are INCLUDED since fix_name_escape), lower-case/non-hex hex operands, comments containing LF,
    MCIDs >= 2^31. *)
Theorem c21_ops_roundtrip : forall ops, regular ops = true -> parse (serialize ops) = expected ops.
Proof. exact ops_roundtrip. Qed.
Check c21_ops_roundtrip : forall ops, regular ops = true -> parse (serialize ops) = expected ops.
Print Assumptions c21_ops_roundtrip.
Example c21_ops_roundtrip_nonvacuous : regular sample_ops = true /\ length sample_ops = 22%nat
  /\ regular [ONamed (s2b "Do") (s2b "My Image"); OFont (s2b "A#20 (b)") false 12 0; OBdc (s2b "P /x") 3; ONamed (s2b "gs") [195; 169; 0; 37]] = true.
Proof. repeat split; reflexivity. Qed.

(** WHAT THE DOCUMENTED ROUNDING IS, against the source operand.  For a finite operand (sign s, value
    m * 2^e) printed with k decimals, with n the printed integer (units of 10^-k) and 2^e written
    PP e / MM e (all comparisons cross-multiplied, integers only):
      print:  | n / 10^k - m * 2^e |  <=  10^-k / 2;
      read:   the f32 that comes back is (sign s, significand q, exponent eb) with
              | q * 2^eb - n / 10^k |  <=  2^eb / 2,  eb >= -149,  and (q, eb) normalised
              (2^23 <= q < 2^24, or eb = -149 and q < 2^23) so that 2^eb IS the f32 ulp of the result;
      the bit pattern [rnd k x] decodes (IEEE binary32 fields) to exactly (s, q, eb), or, when
      eb > 104, is an infinity (the known class C21-f32-overflow).
    Hence | read-back - source | <= 10^-k / 2 + ulp / 2: half a unit of the last printed decimal
    plus half an f32 ulp — tighter than "one ulp" next to the print error, and the print error is
    the documented precision (2, 3 or 4 decimals).  NaN and infinities are written as 0
    (Ulp.rnd_nonfinite). *)
Theorem c21_rnd_bound : forall k s m e,
  let n := fixed_mag k m e in
  let v := (Z.of_N m * Z.of_N (10 ^ k))%Z in
  (2 * Z.of_N n * MM e <= 2 * v * PP e + MM e /\ 2 * v * PP e <= 2 * Z.of_N n * MM e + MM e)%Z
  /\ exists q eb,
       bin_round 24 (-149) n (10 ^ k) = (q, eb)
       /\ half_ulp (Z.of_N n) (Z.of_N (10 ^ k)) (Z.of_N q) eb
       /\ (-149 <= eb)%Z /\ q < 2 ^ 24 /\ (2 ^ 23 <= q \/ (eb = (-149)%Z /\ q < 2 ^ 23))
       /\ (if (104 <? eb)%Z then f32_is_inf (rnd k (FFin s m e)) = true
           else f32_decode (rnd k (FFin s m e)) = Some (s, q, eb)).
Proof. exact rnd_bound. Qed.
Check c21_rnd_bound : forall k s m e,
  let n := fixed_mag k m e in
  let v := (Z.of_N m * Z.of_N (10 ^ k))%Z in
  (2 * Z.of_N n * MM e <= 2 * v * PP e + MM e /\ 2 * v * PP e <= 2 * Z.of_N n * MM e + MM e)%Z
  /\ exists q eb,
       bin_round 24 (-149) n (10 ^ k) = (q, eb)
       /\ half_ulp (Z.of_N n) (Z.of_N (10 ^ k)) (Z.of_N q) eb
       /\ (-149 <= eb)%Z /\ q < 2 ^ 24 /\ (2 ^ 23 <= q \/ (eb = (-149)%Z /\ q < 2 ^ 23))
       /\ (if (104 <? eb)%Z then f32_is_inf (rnd k (FFin s m e)) = true
           else f32_decode (rnd k (FFin s m e)) = Some (s, q, eb)).
Print Assumptions c21_rnd_bound.
Example c21_rnd_bound_instance :          (* 0.125 = 2^-3 with 2 decimals: ties-to-even print 0.12, read 0x3DF5C28F *)
  fixed 2 (FFin false 1 (-3)) = (false, 12) /\ rnd 2 (FFin false 1 (-3)) = 1039516303
  /\ f32_decode 1039516303 = Some (false, 16106127, (-27)%Z).
Proof. repeat split; reflexivity. Qed.
