(** C21 — content streams parse back to the operators that were written; parsing arbitrary bytes
    as a content stream always terminates.  Only statements here; proofs live in theories/C21. *)
From OxVerif Require Import Base.Util C21.Num C21.Tok C21.Model C21.Total C21.Lexemes C21.Roundtrip C21.Proofs.
Open Scope N_scope.

(** termination: for every byte string the tokenizing loop needs at most |input|+1 steps (the fuel
    is never exhausted) and the operation list is a structurally recursive function of the tokens *)
Theorem c21_content_parse_total : forall l : bytes,
  exists ts, tokens_fuel (S (length l)) l = Some ts /\ parse l = parse_toks ts (PNorm []).
Proof. exact content_parse_total. Qed.
Check c21_content_parse_total : forall l : bytes,
  exists ts, tokens_fuel (S (length l)) l = Some ts /\ parse l = parse_toks ts (PNorm []).
Print Assumptions c21_content_parse_total.

(** every tokenizer step that yields tokens (or skips a stray delimiter) consumes input *)
Theorem c21_next_token_consumes : forall l ts r, next_token l = STok ts r -> (length r < length l)%nat.
Proof. exact next_token_len. Qed.
Check c21_next_token_consumes : forall l ts r, next_token l = STok ts r -> (length r < length l)%nat.
Print Assumptions c21_next_token_consumes.

(** show-text escaping: every byte string comes back from the tokenizer's string reader *)
Theorem c21_escape_unescape : forall s rest, bytes_ok s = true ->
  read_lit (escape s ++ 41 :: rest) 0 = (s, rest).
Proof. exact escape_unescape. Qed.
Check c21_escape_unescape : forall s rest, bytes_ok s = true -> read_lit (escape s ++ 41 :: rest) 0 = (s, rest).
Print Assumptions c21_escape_unescape.
Example c21_escape_unescape_nonvacuous :
  bytes_ok [40; 0; 10; 92; 255; 55] = true /\ escape [40; 0; 10; 92; 255; 55] <> [40; 0; 10; 92; 255; 55].
Proof. split; [reflexivity | discriminate]. Qed.

(** fixed-precision printing: the digits denote the printed scaled integer (n units of 10^-k) *)
Theorem c21_fixed_print_parse : forall k n,
  read_dec (dec (n / 10 ^ k)) (pad (N.to_nat k) (n mod 10 ^ k)) = (n, k).
Proof. exact fixed_print_parse. Qed.
Check c21_fixed_print_parse : forall k n, read_dec (dec (n / 10 ^ k)) (pad (N.to_nat k) (n mod 10 ^ k)) = (n, k).
Print Assumptions c21_fixed_print_parse.

(** … and the tokenizer's number reader returns the nearest f32 of that decimal *)
Theorem c21_number_token : forall neg k n rest, 0 < k -> num_end rest ->
  number_body neg (dec (n / 10 ^ k) ++ 46 :: pad (N.to_nat k) (n mod 10 ^ k) ++ rest)
  = Some (TNum (f32_bits neg n (10 ^ k)), rest).
Proof. exact number_body_fixed. Qed.
Check c21_number_token : forall neg k n rest, 0 < k -> num_end rest ->
  number_body neg (dec (n / 10 ^ k) ++ 46 :: pad (N.to_nat k) (n mod 10 ^ k) ++ rest)
  = Some (TNum (f32_bits neg n (10 ^ k)), rest).
Print Assumptions c21_number_token.
Example c21_number_token_nonvacuous : 0 < 2 /\ num_end [32; 109].
Proof. split; [reflexivity | split; reflexivity]. Qed.

Theorem c21_hex_token : forall h rest, forallb is_uhex h = true ->
  read_hex (h ++ 62 :: rest) None = Some (unhex_pairs h, rest).
Proof. exact read_hex_uhex. Qed.
Check c21_hex_token : forall h rest, forallb is_uhex h = true -> read_hex (h ++ 62 :: rest) None = Some (unhex_pairs h, rest).
Print Assumptions c21_hex_token.
Example c21_hex_token_nonvacuous : forallb is_uhex [48; 65; 70] = true.
Proof. reflexivity. Qed.

Theorem c21_name_token : forall n rest, forallb regular_char n = true -> delim_follows rest ->
  scan_name (n ++ rest) = (n, rest) /\ decode_name n = Some n.
Proof. intros. split; [apply scan_name_regular; assumption | apply decode_name_regular; assumption]. Qed.
Check c21_name_token : forall n rest, forallb regular_char n = true -> delim_follows rest ->
  scan_name (n ++ rest) = (n, rest) /\ decode_name n = Some n.
Print Assumptions c21_name_token.
Example c21_name_token_nonvacuous : forallb regular_char [73; 109; 0; 195; 169] = true /\ delim_follows [32].
Proof. split; reflexivity. Qed.

(** the "extreme numeric arguments" clause: refuted for operands beyond f32::MAX (known finding
    C21-f32-overflow) … *)
Theorem c21_f32_overflow_refuted :
  exists o, regular [o] = true /\ f32_overflow o = true
            /\ parse (serialize [o]) = expected [o]
            /\ expected [o] = [CNums (s2b "m") [f32_inf; 1065353216]].
Proof. exact f32_overflow_refuted. Qed.
Check c21_f32_overflow_refuted :
  exists o, regular [o] = true /\ f32_overflow o = true
            /\ parse (serialize [o]) = expected [o]
            /\ expected [o] = [CNums (s2b "m") [f32_inf; 1065353216]].
Print Assumptions c21_f32_overflow_refuted.

(** … and outside that class every expected operand is a finite f32 *)
Theorem c21_expected_finite_outside_class : forall ops, in_known_class ops = false ->
  forallb (fun c => negb (existsb f32_is_inf (cop_nums c))) (expected ops) = true.
Proof. exact expected_finite_outside_class. Qed.
Check c21_expected_finite_outside_class : forall ops, in_known_class ops = false ->
  forallb (fun c => negb (existsb f32_is_inf (cop_nums c))) (expected ops) = true.
Print Assumptions c21_expected_finite_outside_class.

Theorem c21_roundtrip_nonvacuous :
  regular sample_ops = true /\ in_known_class sample_ops = false
  /\ parse (serialize sample_ops) = expected sample_ops.
Proof. exact sample_ops_roundtrip. Qed.
Check c21_roundtrip_nonvacuous :
  regular sample_ops = true /\ in_known_class sample_ops = false
  /\ parse (serialize sample_ops) = expected sample_ops.
Print Assumptions c21_roundtrip_nonvacuous.

(** the operator-level round trip, proved for the operators whose operands are "{:.2}" numbers and
    for the operand-less operators (m l c re w M i cm Td Tw Tc Tz TL Ts and h S f B q Q BT ET n W W-star):
    every sequence, every f64 operand incl. NaN and infinities *)
Theorem c21_ops_roundtrip_partial : forall ops, forallb mvp_op ops = true -> regular ops = true ->
  parse (serialize ops) = expected ops.
Proof. exact ops_roundtrip_partial. Qed.
Check c21_ops_roundtrip_partial : forall ops, forallb mvp_op ops = true -> regular ops = true ->
  parse (serialize ops) = expected ops.
Print Assumptions c21_ops_roundtrip_partial.
Example c21_ops_roundtrip_partial_nonvacuous :
  let ops := [ONums (s2b "re") [FFin false 4503599627370496 (-52); FNan; FInf true; FFin true 5629499534213120 (-57)];
              OPlain (s2b "W*"); OPlain (s2b "n"); ONums (s2b "Tz") [FFin false 7036874417766400 (-46)]] in
  forallb mvp_op ops = true /\ regular ops = true.
Proof. split; reflexivity. Qed.

(** FULL STATEMENT (kept visible; NOT proved for every operator shape — see notes/C21.md):
      c21_ops_roundtrip : forall ops, regular ops = true -> parse (serialize ops) = expected ops.
    Missing: the operator-level composition for names, colours, sc/SC, J/j/Tr, dash, Tf, Tj, TJ,
    comments and BDC/EMC (their lexeme lemmas are c21_escape_unescape, c21_number_token,
    c21_hex_token, c21_name_token); those shapes are covered by c21_roundtrip_nonvacuous and by the
    correspondence on every run. *)
