(** C27 — page labels follow the numbering styles of ISO 32000-1 §12.4.2.
    Only statements here; proofs live in theories/C27/Proofs.v.  The Roman value table, the
    letter constants and the /S names come from Gen/Labels.v (regenerated from the Rust source). *)
From OxVerif Require Import Base.Util C27.Model C27.Proofs.

(** greedy subtraction over the code's value table = positional Roman numerals, for every n > 0 *)
Theorem c27_roman_greedy_eq_positional : forall n, (0 < n)%N -> to_roman n = spec_roman false n.
Proof. exact roman_greedy_eq_positional. Qed.
Check c27_roman_greedy_eq_positional : forall n, (0 < n)%N -> to_roman n = spec_roman false n.
Print Assumptions c27_roman_greedy_eq_positional.

Theorem c27_roman_upper : forall n, (0 < n)%N -> format_number SUpperRoman n = spec_roman true n.
Proof. exact roman_upper_ok. Qed.
Check c27_roman_upper : forall n, (0 < n)%N -> format_number SUpperRoman n = spec_roman true n.
Print Assumptions c27_roman_upper.

Example c27_roman_nonvacuous : to_roman 4999 = bytes_of_string "mmmmcmxcix" /\ (0 < 4999)%N.
Proof. vm_compute. split; reflexivity. Qed.

(** decimal: digits only, value n, no leading zero (every u64) *)
Theorem c27_decimal_ok : forall n, (n < 10 ^ 20)%N -> spec_decimal_ok n (to_decimal n) = true.
Proof. exact decimal_ok. Qed.
Check c27_decimal_ok : forall n, (n < 10 ^ 20)%N -> spec_decimal_ok n (to_decimal n) = true.
Print Assumptions c27_decimal_ok.

Example c27_decimal_nonvacuous : to_decimal 4294967296 = bytes_of_string "4294967296" /\ (4294967296 < 10 ^ 20)%N.
Proof. vm_compute. split; reflexivity. Qed.

(** letters agree with the standard exactly up to 27 ... *)
Theorem c27_letters_ok_upto_27 : forall n up, (0 < n)%N -> (n < 28)%N -> to_letters n up = spec_letters up n.
Proof. exact letters_ok_upto_27. Qed.
Check c27_letters_ok_upto_27 : forall n up, (0 < n)%N -> (n < 28)%N -> to_letters n up = spec_letters up n.
Print Assumptions c27_letters_ok_upto_27.

(** the executable letters predicate used by [spec_number_ok] is equality with [spec_letters] *)
Theorem c27_letters_match_iff : forall up n out, letters_match up n out = true <-> out = spec_letters up n.
Proof. exact letters_match_iff. Qed.
Check c27_letters_match_iff : forall up n out, letters_match up n out = true <-> out = spec_letters up n.
Print Assumptions c27_letters_match_iff.

(** ... KNOWN FINDING C27-letters-spreadsheet: refuted at 28 ("AB" where §12.4.2 has "BB") ... *)
Theorem c27_letters_refuted :
  exists n up, to_letters n up <> spec_letters up n /\ to_letters n up = [65; 66]%N /\ spec_letters up n = [66; 66]%N.
Proof. exists 28%N, true. split; [vm_compute; discriminate | split; vm_compute; reflexivity]. Qed.
Check c27_letters_refuted :
  exists n up, to_letters n up <> spec_letters up n /\ to_letters n up = [65; 66]%N /\ spec_letters up n = [66; 66]%N.
Print Assumptions c27_letters_refuted.

(** ... and wrong for EVERY number from 28 on (the class of the finding is exact) *)
Theorem c27_letters_differ_from_28 : forall n up, (28 <= n)%N -> to_letters n up <> spec_letters up n.
Proof. exact letters_differ_from_28. Qed.
Check c27_letters_differ_from_28 : forall n up, (28 <= n)%N -> to_letters n up <> spec_letters up n.
Print Assumptions c27_letters_differ_from_28.

(** BTreeMap model: insertion keeps the key order, behaves as a map update; the lookup loop
    with early exit returns the range with the greatest start <= page *)
Theorem c27_build_sorted : forall ops, sorted (build ops).
Proof. exact build_sorted. Qed.
Check c27_build_sorted : forall ops, sorted (build ops).
Print Assumptions c27_build_sorted.

Theorem c27_add_range_is_map_insert : forall t k v k2, sorted t ->
  lookup_key (add_range t k v) k2 = if (k =? k2)%N then Some v else lookup_key t k2.
Proof. exact add_range_lookup. Qed.
Check c27_add_range_is_map_insert : forall t k v k2, sorted t ->
  lookup_key (add_range t k v) k2 = if (k =? k2)%N then Some v else lookup_key t k2.
Print Assumptions c27_add_range_is_map_insert.

Theorem c27_range_lookup_ok : forall t page, sorted t -> find_range t page None = spec_floor t page.
Proof. exact range_lookup_ok. Qed.
Check c27_range_lookup_ok : forall t page, sorted t -> find_range t page None = spec_floor t page.
Print Assumptions c27_range_lookup_ok.

(** the fixed code cannot overflow: u32 start + u32 offset in u64 *)
Theorem c27_label_no_trap : forall l off,
  (l_start l <= u32_max)%N -> (off <= u32_max)%N -> format_label l off <> None.
Proof. exact label_no_trap. Qed.
Check c27_label_no_trap : forall l off,
  (l_start l <= u32_max)%N -> (off <= u32_max)%N -> format_label l off <> None.
Print Assumptions c27_label_no_trap.

(** the defect of the pinned tree the fix removes: u32 addition of St = 4294967295 and offset 1 *)
Theorem c27_label_u32_trap_witness :
  add_u32 4294967295 1 = None /\ add_u64 4294967295 1 = Some 4294967296%N.
Proof. exact label_u32_trap_witness. Qed.
Check c27_label_u32_trap_witness : add_u32 4294967295 1 = None /\ add_u64 4294967295 1 = Some 4294967296%N.
Print Assumptions c27_label_u32_trap_witness.

(** MAIN: every reachable tree, every page index: outside the known class the label is the one
    §12.4.2 defines (prefix, then St + offset in the range's style), and nothing traps *)
Theorem c27_label_ok : forall t page,
  sorted t -> starts_u32 t -> (page <= u32_max)%N ->
  known_letters_class t page = false ->
  spec_label_ok t page (get_label t page) = true.
Proof. exact label_ok. Qed.
Check c27_label_ok : forall t page,
  sorted t -> starts_u32 t -> (page <= u32_max)%N ->
  known_letters_class t page = false ->
  spec_label_ok t page (get_label t page) = true.
Print Assumptions c27_label_ok.

(** the tree is a state machine only through its range set: after ANY interleaving of add_range,
    get_label, get_all_labels and to_dict, a lookup answers from the ranges added so far ... *)
Theorem c27_history_lookup : forall ops p,
  run_ops [] (ops ++ [SGet p]) = run_ops [] ops ++ [SOLabel (get_label (build (adds_of ops)) p)].
Proof. exact history_lookup. Qed.
Check c27_history_lookup : forall ops p,
  run_ops [] (ops ++ [SGet p]) = run_ops [] ops ++ [SOLabel (get_label (build (adds_of ops)) p)].
Print Assumptions c27_history_lookup.

(** ... and that answer is the label §12.4.2 defines for the current range set *)
Theorem c27_history_lookup_ok : forall ops p,
  (forall k l, In (k, l) (adds_of ops) -> (l_start l <= u32_max)%N) -> (p <= u32_max)%N ->
  known_letters_class (build (adds_of ops)) p = false ->
  spec_label_ok (build (adds_of ops)) p (get_label (state_after [] ops) p) = true.
Proof. exact history_lookup_ok. Qed.
Check c27_history_lookup_ok : forall ops p,
  (forall k l, In (k, l) (adds_of ops) -> (l_start l <= u32_max)%N) -> (p <= u32_max)%N ->
  known_letters_class (build (adds_of ops)) p = false ->
  spec_label_ok (build (adds_of ops)) p (get_label (state_after [] ops) p) = true.
Print Assumptions c27_history_lookup_ok.

Example c27_history_nonvacuous :
  let r := {| l_style := SLowerRoman; l_prefix := None; l_start := 1%N |} in
  let d := {| l_style := SDecimal; l_prefix := None; l_start := 1%N |} in
  let a := {| l_style := SUpperLetters; l_prefix := Some [65; 112; 112; 45]%N; l_start := 1%N |} in
  run_ops [] [SAdd 0 r; SAdd 10 d; SGet 4; SAdd 9 a; SGet 9; SGet 10]
  = [SOLabel (RLabel [118]%N); SOLabel (RLabel [65; 112; 112; 45; 65]%N); SOLabel (RLabel [49]%N)].
Proof. exact history_nonvacuous. Qed.

(** the written number tree, read by a Table-159 reader, gives back the authored ranges *)
Theorem c27_written_labels_read_back : forall t, read_nums (tree_to_dict t) = Some t.
Proof. exact written_labels_read_back. Qed.
Check c27_written_labels_read_back : forall t, read_nums (tree_to_dict t) = Some t.
Print Assumptions c27_written_labels_read_back.

Example c27_label_ok_nonvacuous :
  let t := build [(0, {| l_style := SLowerRoman; l_prefix := None; l_start := 1 |});
                  (4, {| l_style := SDecimal; l_prefix := Some [65; 45]; l_start := 4294967295 |});
                  (3, {| l_style := SUpperLetters; l_prefix := None; l_start := 26 |})]%N in
  get_label t 2 = RLabel [105; 105; 105]%N /\ get_label t 3 = RLabel [90]%N
  /\ get_label t 5 = RLabel ([65; 45] ++ [52; 50; 57; 52; 57; 54; 55; 50; 57; 54])%N
  /\ known_letters_class t 5 = false /\ known_letters_class t 3 = false.
Proof. exact label_ok_nonvacuous. Qed.
