(** C05 — encryption round-trips for every strength, configuration and password.
    Only statements here; proofs live in theories/C05/Proofs.v.  The ciphers are arbitrary
    functions with [dec k id (enc k id iv x) = Some x]; the instances used by the correspondence
    run (C05/Check.v: RC4 and AES-CBC with the per-object keys of Algorithm 1) satisfy this by
    C23's [rc4_spec_involutive] and [cbc_pkcs7_roundtrip_partial]. *)
From OxVerif Require Import Base.Util C23.Aes C05.EncryptLayer C05.Proofs C05.Check C05.Instances.
From OxVerif Require C23.AesInv C23.AesCbc C05.AesInstance.
Require Import List NArith. Import ListNotations.

(** object level: the reader's walk inverts the writer's walk; the payload (all strings, the
    stream data) is the original; an object without streams comes back identical *)
Theorem c05_roundtrip_obj : forall (enc : bytes -> N * N -> bytes -> bytes -> bytes) (dec : bytes -> N * N -> bytes -> option bytes),
  (forall k id iv x, dec k id (enc k id iv x) = Some x) ->
  forall iv_of k id o, wf o = true ->
    decrypt_obj dec k id (encrypt_obj enc true iv_of k id o) = Some (image_obj enc true iv_of k id o)
    /\ payload (image_obj enc true iv_of k id o) = payload o
    /\ (no_stream o = true -> image_obj enc true iv_of k id o = o).
Proof. exact roundtrip_obj. Qed.
Check c05_roundtrip_obj : forall (enc : bytes -> N * N -> bytes -> bytes -> bytes) (dec : bytes -> N * N -> bytes -> option bytes),
  (forall k id iv x, dec k id (enc k id iv x) = Some x) ->
  forall iv_of k id o, wf o = true ->
    decrypt_obj dec k id (encrypt_obj enc true iv_of k id o) = Some (image_obj enc true iv_of k id o)
    /\ payload (image_obj enc true iv_of k id o) = payload o
    /\ (no_stream o = true -> image_obj enc true iv_of k id o = o).
Print Assumptions c05_roundtrip_obj.

(** document level (lib_roundtrip): every object of the map, each under its own id.
    This is the guarded positive statement: the unguarded [forall d, decrypt_doc k (encrypt_doc k d) = Some d]
    is refuted outside [wf] (c05_skipped_key_refuted, known finding C05-skipped-keys), and a stream keeps the
    writer's dictionary edits, hence [image_doc] with equal payloads instead of [d] itself.
    NOT proved here (full end-to-end statement of DESIGN 5/C05):
      forall cfg strength pw doc, unlock pw (read (write cfg (encrypt strength pw doc))) = Some doc
    i.e. byte-level serialisation/parsing (C02/C09's subject) and key derivation from passwords (C23's theorems
    owner_recovers_user_pad, r6_key_unwrap_partial) are tied by the correspondence run, not composed into one theorem. *)
Theorem c05_lib_roundtrip : forall (enc : bytes -> N * N -> bytes -> bytes -> bytes) (dec : bytes -> N * N -> bytes -> option bytes),
  (forall k id iv x, dec k id (enc k id iv x) = Some x) ->
  forall iv_of k d, wf_doc d = true ->
    decrypt_doc dec k (encrypt_doc enc true iv_of k d) = Some (image_doc enc true iv_of k d)
    /\ map fst (image_doc enc true iv_of k d) = map fst d
    /\ map (fun e => payload (snd e)) (image_doc enc true iv_of k d) = map (fun e => payload (snd e)) d.
Proof. exact roundtrip_doc. Qed.
Check c05_lib_roundtrip : forall (enc : bytes -> N * N -> bytes -> bytes -> bytes) (dec : bytes -> N * N -> bytes -> option bytes),
  (forall k id iv x, dec k id (enc k id iv x) = Some x) ->
  forall iv_of k d, wf_doc d = true ->
    decrypt_doc dec k (encrypt_doc enc true iv_of k d) = Some (image_doc enc true iv_of k d)
    /\ map fst (image_doc enc true iv_of k d) = map fst d
    /\ map (fun e => payload (snd e)) (image_doc enc true iv_of k d) = map (fun e => payload (snd e)) d.
Print Assumptions c05_lib_roundtrip.

(** the writer's trailer (classic trailer; xref-stream dictionary after fix_xref_stream_encrypt)
    carries /Encrypt, so the reader decrypts: content never comes back as ciphertext *)
Theorem c05_never_ciphertext_when_flagged : forall (enc : bytes -> N * N -> bytes -> bytes -> bytes) (dec : bytes -> N * N -> bytes -> option bytes),
  (forall k id iv x, dec k id (enc k id iv x) = Some x) ->
  forall iv_of base n g fid k id o, wf o = true ->
    exists o', read_obj dec (writer_trailer base (Some (n, g)) fid) k id (encrypt_obj enc true iv_of k id o) = Some o'
               /\ payload o' = payload o.
Proof. exact never_ciphertext_when_flagged. Qed.
Check c05_never_ciphertext_when_flagged : forall (enc : bytes -> N * N -> bytes -> bytes -> bytes) (dec : bytes -> N * N -> bytes -> option bytes),
  (forall k id iv x, dec k id (enc k id iv x) = Some x) ->
  forall iv_of base n g fid k id o, wf o = true ->
    exists o', read_obj dec (writer_trailer base (Some (n, g)) fid) k id (encrypt_obj enc true iv_of k id o) = Some o'
               /\ payload o' = payload o.
Print Assumptions c05_never_ciphertext_when_flagged.

(** the defect of the pinned tree (xref-stream dictionary without /Encrypt): ciphertext handed out *)
Theorem c05_unflagged_trailer_refuted : exists base k id o,
  wf o = true /\ exists o', read_obj toy_dec base k id (encrypt_obj toy_enc true toy_iv k id o) = Some o' /\ payload o' <> payload o.
Proof. exact unflagged_trailer_refuted. Qed.
Check c05_unflagged_trailer_refuted : exists base k id o,
  wf o = true /\ exists o', read_obj toy_dec base k id (encrypt_obj toy_enc true toy_iv k id o) = Some o' /\ payload o' <> payload o.
Print Assumptions c05_unflagged_trailer_refuted.

(** known finding C05-skipped-keys: outside [wf] the round trip fails *)
Theorem c05_skipped_key_refuted : exists k id o,
  wf o = false /\ exists o', decrypt_obj toy_dec k id (encrypt_obj toy_enc true toy_iv k id o) = Some o' /\ payload o' <> payload o.
Proof. exact skipped_key_refuted. Qed.
Check c05_skipped_key_refuted : exists k id o,
  wf o = false /\ exists o', decrypt_obj toy_dec k id (encrypt_obj toy_enc true toy_iv k id o) = Some o' /\ payload o' <> payload o.
Print Assumptions c05_skipped_key_refuted.

(** the cipher hypothesis is satisfiable, on a non-trivial document *)
Example c05_hyps_satisfiable : (forall k id iv x, toy_dec k id (toy_enc k id iv x) = Some x) /\ wf_doc sample_doc = true.
Proof. split; [exact toy_dec_enc | reflexivity]. Qed.

(** the cipher hypothesis discharged for the real ciphers of C05/Check.v: RC4 unconditionally ... *)
Theorem c05_rc4_instance : forall k id iv x, real_dec 0 k id (real_enc 0 k id iv x) = Some x.
Proof. exact rc4_instance. Qed.
Check c05_rc4_instance : forall k id iv x, real_dec 0 k id (real_enc 0 k id iv x) = Some x.
Print Assumptions c05_rc4_instance.

(** ... hence the RC4 strengths round-trip with no hypothesis left *)
Theorem c05_lib_roundtrip_rc4 : forall iv_of k d, wf_doc d = true ->
  decrypt_doc (real_dec 0) k (encrypt_doc (real_enc 0) true iv_of k d) = Some (image_doc (real_enc 0) true iv_of k d)
  /\ map (fun e => payload (snd e)) (image_doc (real_enc 0) true iv_of k d) = map (fun e => payload (snd e)) d.
Proof. exact roundtrip_doc_rc4. Qed.
Check c05_lib_roundtrip_rc4 : forall iv_of k d, wf_doc d = true ->
  decrypt_doc (real_dec 0) k (encrypt_doc (real_enc 0) true iv_of k d) = Some (image_doc (real_enc 0) true iv_of k d)
  /\ map (fun e => payload (snd e)) (image_doc (real_enc 0) true iv_of k d) = map (fun e => payload (snd e)) d.
Print Assumptions c05_lib_roundtrip_rc4.

(** ... AES-CBC (AESV2, AESV3) given the AES block inverse law (general form; the law itself is C23's
    [aes_inv], with which the hypotheses are discharged below: [c05_aesv2_instance], [c05_aesv3_instance]) *)
Theorem c05_aes_instance_partial :
  (forall k b, List.length b = 16%nat -> inv_cipher k (cipher k b) = b) ->
  (forall k b, List.length b = 16%nat -> List.length (cipher k b) = 16%nat) ->
  forall meth, meth <> 0%N -> forall k id iv x, real_dec meth k id (real_enc meth k id iv x) = Some x.
Proof. exact aes_instance. Qed.
Check c05_aes_instance_partial :
  (forall k b, List.length b = 16%nat -> inv_cipher k (cipher k b) = b) ->
  (forall k b, List.length b = 16%nat -> List.length (cipher k b) = 16%nat) ->
  forall meth, meth <> 0%N -> forall k id iv x, real_dec meth k id (real_enc meth k id iv x) = Some x.
Print Assumptions c05_aes_instance_partial.

(** * AES strengths with no cipher hypothesis left (C23's aes_inv) *)
Theorem c05_aes_instance : forall meth k id iv x,
  meth <> 0%N -> AesInv.key_ok (okey meth k id) -> bytes_ok iv = true -> bytes_ok x = true ->
  real_dec meth k id (real_enc meth k id iv x) = Some x.
Proof. exact AesInstance.aes_instance_full. Qed.
Check c05_aes_instance : forall meth k id iv x,
  meth <> 0%N -> AesInv.key_ok (okey meth k id) -> bytes_ok iv = true -> bytes_ok x = true ->
  real_dec meth k id (real_enc meth k id iv x) = Some x.
Print Assumptions c05_aes_instance.

(** AES-128 (AESV2, 128-bit file key): every object id, IV and byte string *)
Theorem c05_aesv2_instance : forall k id iv x,
  List.length k = 16%nat -> bytes_ok iv = true -> bytes_ok x = true ->
  real_dec 1 k id (real_enc 1 k id iv x) = Some x.
Proof. exact AesInstance.aesv2_instance. Qed.
Check c05_aesv2_instance : forall k id iv x,
  List.length k = 16%nat -> bytes_ok iv = true -> bytes_ok x = true ->
  real_dec 1 k id (real_enc 1 k id iv x) = Some x.
Print Assumptions c05_aesv2_instance.

(** AES-256 (AESV3, 256-bit file key) *)
Theorem c05_aesv3_instance : forall k id iv x,
  List.length k = 32%nat -> bytes_ok k = true -> bytes_ok iv = true -> bytes_ok x = true ->
  real_dec 2 k id (real_enc 2 k id iv x) = Some x.
Proof. exact AesInstance.aesv3_instance. Qed.
Check c05_aesv3_instance : forall k id iv x,
  List.length k = 32%nat -> bytes_ok k = true -> bytes_ok iv = true -> bytes_ok x = true ->
  real_dec 2 k id (real_enc 2 k id iv x) = Some x.
Print Assumptions c05_aesv3_instance.
