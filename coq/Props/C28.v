(** C28 — outlines and destinations written are navigable as authored.  Statements only. *)
From OxVerif Require Import Base.Util C28.Model C28.Proofs.
Open Scope N_scope.

(** For every outline forest (any nesting, any open/closed flags) and every root object id, the
    dictionaries the writer emits are navigable as authored: walking /First and /Next from the
    root reproduces the authored forest item by item, every /Parent, /Prev and /Last link is
    consistent with it, every /Count is the Table-153 value (visible descendants, negative for
    closed items, absent without children), and the root /Count is the number of visible items. *)
Theorem c28_written_outline_navigable : forall root items,
  let '(first, last, count, recs) := write_tree root items in
  navigable root items first last count recs = true.
Proof. exact written_outline_navigable. Qed.
Check c28_written_outline_navigable : forall root items,
  let '(first, last, count, recs) := write_tree root items in
  navigable root items first last count recs = true.
Print Assumptions c28_written_outline_navigable.

(** all item dictionaries live in the reserved id block right after the root *)
Theorem c28_written_ids_in_block : forall root items,
  let '(_, _, _, recs) := write_tree root items in
  forall r, In r recs -> root + 1 <= r_id r /\ r_id r < root + 1 + count_all_list items.
Proof. exact written_ids_in_block. Qed.
Check c28_written_ids_in_block : forall root items,
  let '(_, _, _, recs) := write_tree root items in
  forall r, In r recs -> root + 1 <= r_id r /\ r_id r < root + 1 + count_all_list items.
Print Assumptions c28_written_ids_in_block.

(** /Count sign convention *)
Theorem c28_count_sign_convention : forall lbl o c cs,
  item_count (Item lbl o (c :: cs)) =
  Some (if o then Z.of_N (count_visible_list (c :: cs)) else (- Z.of_N (count_visible_list (c :: cs)))%Z).
Proof. exact count_sign_convention. Qed.
Check c28_count_sign_convention : forall lbl o c cs,
  item_count (Item lbl o (c :: cs)) =
  Some (if o then Z.of_N (count_visible_list (c :: cs)) else (- Z.of_N (count_visible_list (c :: cs)))%Z).
Print Assumptions c28_count_sign_convention.

Theorem c28_count_absent_without_children : forall lbl o, item_count (Item lbl o []) = None.
Proof. exact count_absent_without_children. Qed.
Check c28_count_absent_without_children : forall lbl o, item_count (Item lbl o []) = None.
Print Assumptions c28_count_absent_without_children.

(** the contiguous-sibling id computation of the pinned tree (repaired by the fix: commit) is not
    what a navigable outline needs: witness forest [A[A1]; B] *)
Theorem c28_pinned_links_refuted : exists root items,
  let '(_, _, _, recs) := write_tree root items in
  match find (root + 1) recs with
  | Some r => r_next r <> pinned_next_of_first_root root items
  | None => False
  end.
Proof. exact pinned_links_refuted. Qed.
Check c28_pinned_links_refuted : exists root items,
  let '(_, _, _, recs) := write_tree root items in
  match find (root + 1) recs with
  | Some r => r_next r <> pinned_next_of_first_root root items
  | None => False
  end.
Print Assumptions c28_pinned_links_refuted.

(** destinations authored by page number (known finding C28-dest-bare-page-number, FIXED by
    fix_dest_page_reference): the writer replaces the leading integer n of an outline /Dest array or a
    named-destination array by a reference to page_ids[n], which resolves to the authored page as
    ISO 32000-1 12.3.2.2 requires (page object ids are pairwise distinct) *)
Theorem c28_page_number_dest_resolves : forall page_ids p,
  NoDup page_ids -> (N.to_nat p < length page_ids)%nat ->
  dest_resolves (Some p) (written_page_number page_ids p) = true.
Proof. exact page_number_dest_resolves. Qed.
Check c28_page_number_dest_resolves : forall page_ids p,
  NoDup page_ids -> (N.to_nat p < length page_ids)%nat ->
  dest_resolves (Some p) (written_page_number page_ids p) = true.
Print Assumptions c28_page_number_dest_resolves.

(** ... a number that names no page of the document is left as authored *)
Theorem c28_page_number_out_of_range_untouched : forall page_ids p,
  (length page_ids <= N.to_nat p)%nat ->
  resolve_destination_page page_ids (OInt (Z.of_N p)) = OInt (Z.of_N p).
Proof. exact page_number_out_of_range_untouched. Qed.
Check c28_page_number_out_of_range_untouched : forall page_ids p,
  (length page_ids <= N.to_nat p)%nat ->
  resolve_destination_page page_ids (OInt (Z.of_N p)) = OInt (Z.of_N p).
Print Assumptions c28_page_number_out_of_range_untouched.

(** ... and the record of the PINNED behaviour, about the pre-fix writer: never resolves *)
Theorem c28_pinned_page_number_dest_unresolved : forall page_ids p,
  dest_resolves (Some p) (written_page_number_pinned page_ids p) = false.
Proof. exact pinned_page_number_dest_unresolved. Qed.
Check c28_pinned_page_number_dest_unresolved : forall page_ids p,
  dest_resolves (Some p) (written_page_number_pinned page_ids p) = false.
Print Assumptions c28_pinned_page_number_dest_unresolved.

(** non-vacuity: a forest with a non-last sibling that has children and a closed item with a
    closed child that has children *)
Example c28_nonvacuous :
  let items := [Item 1 true [Item 2 false [Item 3 false [Item 4 true []; Item 5 true []]]]; Item 6 false [Item 7 true []]] in
  let '(first, last, count, recs) := write_tree 20 items in
  first = Some 21 /\ last = Some 26 /\ count = 3%Z /\
  option_map r_next (find 21 recs) = Some (Some 26) /\
  option_map r_count (find 22 recs) = Some (Some (-1)%Z) /\
  option_map r_count (find 23 recs) = Some (Some (-2)%Z).
Proof. vm_compute. repeat split. Qed.
