(** C13 — text in embedded fonts is recoverable exactly (partial: writer-side structures proved,
    font program internals and the end-to-end file are validated per output).
    Only statements here; proofs live in theories/C13/Proofs.v. *)
From OxVerif Require Import Base.Util C26.Model C13.Model C13.Proofs.

(** /W: for every sorted width list and every CID the ISO 9.7.4.3 lookup in the generated array is
    the listed width, and /DW ([None]) for a CID that is not listed *)
Theorem c13_w_lookup_correct : forall ws c, sorted_unique ws -> w_lookup (w_array ws) c = assoc ws c.
Proof. exact w_lookup_correct. Qed.
Check c13_w_lookup_correct : forall ws c, sorted_unique ws -> w_lookup (w_array ws) c = assoc ws c.
Print Assumptions c13_w_lookup_correct.

(** CIDToGIDMap: every CID up to the maximum reads back the mapped glyph (0 when unmapped) *)
Theorem c13_cid_gid_map_correct : forall m maxc c, c <= maxc ->
  stream_gid (cid_gid_map m maxc) c = gid_or0 m c.
Proof. exact cid_gid_map_correct. Qed.
Check c13_cid_gid_map_correct : forall m maxc c, c <= maxc ->
  stream_gid (cid_gid_map m maxc) c = gid_or0 m c.
Print Assumptions c13_cid_gid_map_correct.

(** ToUnicode: every BMP string shown with a custom font reads back exactly through the generated
    CMap under the reference semantics of C26 *)
Theorem c13_tounicode_inverts_show : forall s, bmp s ->
  to_unicode cs16 (cmap_of s) (codes_of (show s)) = s.
Proof. exact tounicode_inverts_show. Qed.
Check c13_tounicode_inverts_show : forall s, bmp s ->
  to_unicode cs16 (cmap_of s) (codes_of (show s)) = s.
Print Assumptions c13_tounicode_inverts_show.

(** known finding C13-astral-text: a string with a code point above 0xFFFF does not read back *)
Theorem c13_tounicode_astral_refuted : exists s,
  (exists c, In c s /\ 0xFFFF < c) /\ to_unicode cs16 (cmap_of s) (codes_of (show s)) <> s.
Proof. exact tounicode_astral_refuted. Qed.
Check c13_tounicode_astral_refuted : exists s,
  (exists c, In c s /\ 0xFFFF < c) /\ to_unicode cs16 (cmap_of s) (codes_of (show s)) <> s.
Print Assumptions c13_tounicode_astral_refuted.

(** non-vacuity *)
Example c13_w_nonvacuous :
  let ws := [(32, 250); (65, 600); (66, 600); (67, 600); (68, 611); (70, 611); (0x1F600, 900)] in
  sorted_unique ws /\ w_array ws = [WList 32 [250]; WRange 65 67 600; WList 68 [611]; WList 70 [611]; WList 0x1F600 [900]]
  /\ w_lookup (w_array ws) 67 = Some 600 /\ w_lookup (w_array ws) 69 = None.
Proof. exact w_lookup_nonvacuous. Qed.
Example c13_tounicode_nonvacuous :
  let s := [72; 233; 108; 108; 111; 32; 0x416; 0x417; 0x418; 0x3A9; 72] in
  bmp s /\ cmap_of s <> [] /\ to_unicode cs16 (cmap_of s) (codes_of (show s)) = s.
Proof. exact tounicode_nonvacuous. Qed.

(** NOT proved (validated per written file by the correspondence run): glyphs_present — every CID of
    the content resolves to a gid < numGlyphs of the embedded program; declared width = hmtx advance
    scaled; the library's extractor returns the string. *)
