(** C15 — the document-to-chunks pipeline preserves content and provenance (partial: the
    logic below is proved; the geometric partitioning of text into elements is observed
    end-to-end by the harness only).  Only statements here; proofs in theories/C15/Proofs.v. *)
From OxVerif Require Import Base.Util C15.Model C15.Proofs.
From Coq Require Import Sorting.Sorted.

(** the heading_path of every element is the declarative breadcrumb: the titles up to the
    element for which every later title is strictly deeper (bucket ranks of the code) *)
Theorem c15_heading_path_is_governing : forall es i, (i < length es)%nat ->
  nth_error (assign es) i = Some (governing (lev_of es) es i).
Proof. exact heading_path_is_governing. Qed.
Check c15_heading_path_is_governing : forall es i, (i < length es)%nat ->
  nth_error (assign es) i = Some (governing (lev_of es) es i).
Print Assumptions c15_heading_path_is_governing.

(** the same for an arbitrary level function: the stack discipline itself is correct *)
Theorem c15_walk_is_governing : forall lev es i, (i < length es)%nat ->
  nth_error (walk lev [] es) i = Some (governing lev es i).
Proof. exact walk_is_governing. Qed.
Check c15_walk_is_governing : forall lev es i, (i < length es)%nat ->
  nth_error (walk lev [] es) i = Some (governing lev es i).
Print Assumptions c15_walk_is_governing.

Theorem c15_assign_is_governing_all : forall es, assign es = governing_all es.
Proof. exact assign_is_governing_all. Qed.
Check c15_assign_is_governing_all : forall es, assign es = governing_all es.
Print Assumptions c15_assign_is_governing_all.

(** breadcrumb levels strictly increase root -> leaf; its leaf is the latest title *)
Theorem c15_breadcrumb_levels_increase : forall ts,
  StronglySorted (fun a b => fst a < fst b) (gov ts).
Proof. exact gov_levels_increasing. Qed.
Check c15_breadcrumb_levels_increase : forall ts, StronglySorted (fun a b => fst a < fst b) (gov ts).
Print Assumptions c15_breadcrumb_levels_increase.

Theorem c15_breadcrumb_leaf_is_latest_title : forall ts x, last_opt (gov (ts ++ [x])) = Some x.
Proof. exact gov_last. Qed.
Check c15_breadcrumb_leaf_is_latest_title : forall ts x, last_opt (gov (ts ++ [x])) = Some x.
Print Assumptions c15_breadcrumb_leaf_is_latest_title.

(** page numbers of a chunk: strictly ascending, exactly the pages of its elements *)
Theorem c15_pages_exact : forall ps,
  Sorted N.lt (collect_pages ps) /\ forall p, In p (collect_pages ps) <-> In p ps.
Proof. exact pages_exact. Qed.
Check c15_pages_exact : forall ps,
  Sorted N.lt (collect_pages ps) /\ forall p, In p (collect_pages ps) <-> In p ps.
Print Assumptions c15_pages_exact.

Theorem c15_pages_unique : forall a b, Sorted N.lt a -> Sorted N.lt b ->
  (forall p, In p a <-> In p b) -> a = b.
Proof. exact sorted_set_unique. Qed.
Check c15_pages_unique : forall a b, Sorted N.lt a -> Sorted N.lt b -> (forall p, In p a <-> In p b) -> a = b.
Print Assumptions c15_pages_unique.

Theorem c15_pages_ok_collect : forall ps, pages_ok ps (collect_pages ps) = true.
Proof. exact pages_ok_collect. Qed.
Check c15_pages_ok_collect : forall ps, pages_ok ps (collect_pages ps) = true.
Print Assumptions c15_pages_ok_collect.

(** ids: a function of (doc hash, index, full text) only — for every hash function *)
Theorem c15_ids_deterministic : forall h dh cs1 cs2,
  map c_full_text cs1 = map c_full_text cs2 ->
  map o_id (build h dh cs1) = map o_id (build h dh cs2).
Proof. exact ids_deterministic. Qed.
Check c15_ids_deterministic : forall h dh cs1 cs2,
  map c_full_text cs1 = map c_full_text cs2 -> map o_id (build h dh cs1) = map o_id (build h dh cs2).
Print Assumptions c15_ids_deterministic.

Theorem c15_build_ids : forall h dh cs, map o_id (build h dh cs) = ids_from h dh 0 cs.
Proof. exact build_ids. Qed.
Check c15_build_ids : forall h dh cs, map o_id (build h dh cs) = ids_from h dh 0 cs.
Print Assumptions c15_build_ids.

Theorem c15_link_spec : forall ids p i,
  nth_error (link p ids) i =
  match nth_error ids i with
  | None => None
  | Some _ => Some (match i with O => p | S j => nth_error ids j end, nth_error ids (S i))
  end.
Proof. exact link_spec. Qed.
Check c15_link_spec : forall ids p i,
  nth_error (link p ids) i =
  match nth_error ids i with
  | None => None
  | Some _ => Some (match i with O => p | S j => nth_error ids j end, nth_error ids (S i))
  end.
Print Assumptions c15_link_spec.

(** document level (known finding C15-breadcrumb-page-reset, FIXED by fix_breadcrumb_across_pages):
    do_partition_pages re-runs assign_heading_paths over the concatenated pages, so every element
    carries the declarative breadcrumb of the whole document — headings of earlier pages included *)
Theorem c15_document_breadcrumb_governing : forall pages,
  do_partition_paths pages = governing_all (concat pages).
Proof. exact document_breadcrumb_governing. Qed.
Check c15_document_breadcrumb_governing : forall pages,
  do_partition_paths pages = governing_all (concat pages).
Print Assumptions c15_document_breadcrumb_governing.

Theorem c15_document_breadcrumb_governing_nth : forall pages i, (i < length (concat pages))%nat ->
  nth_error (do_partition_paths pages) i = Some (governing (lev_of (concat pages)) (concat pages) i).
Proof. exact document_breadcrumb_governing_nth. Qed.
Check c15_document_breadcrumb_governing_nth : forall pages i, (i < length (concat pages))%nat ->
  nth_error (do_partition_paths pages) i = Some (governing (lev_of (concat pages)) (concat pages) i).
Print Assumptions c15_document_breadcrumb_governing_nth.

(** record of the PINNED (pre-fix) behaviour, about the pre-fix definition [assign_per_page]:
    applied page by page, an element loses the headings that govern it from earlier pages *)
Theorem c15_per_page_pinned_refuted : exists pages, assign_per_page pages <> governing_all (concat pages).
Proof. exact per_page_pinned_refuted. Qed.
Check c15_per_page_pinned_refuted : exists pages, assign_per_page pages <> governing_all (concat pages).
Print Assumptions c15_per_page_pinned_refuted.

(** the repair is conservative: documents of at most one page get the paths they got before *)
Theorem c15_per_page_ok_single : forall pages, ~ MultiPage pages ->
  assign_per_page pages = do_partition_paths pages.
Proof. exact per_page_ok_single. Qed.
Check c15_per_page_ok_single : forall pages, ~ MultiPage pages -> assign_per_page pages = do_partition_paths pages.
Print Assumptions c15_per_page_ok_single.

(** ---- stretch (theories/C15/Stretch.v) ---- *)
From OxVerif Require Import C15.Stretch.

(** the model's decimal printer is injective on its whole exact range (fuel 40: below 10^40;
    a usize is below 2^64) ... *)
Theorem c15_dec_inj : forall a b, a < dec_limit -> b < dec_limit -> dec a = dec b -> a = b.
Proof. exact dec_inj. Qed.
Check c15_dec_inj : forall a b, a < 10 ^ 40 -> b < 10 ^ 40 -> dec a = dec b -> a = b.
Print Assumptions c15_dec_inj.

(** ... the bound is necessary for [dec] itself (beyond its fuel it drops leading digits) ... *)
Theorem c15_dec_not_injective_beyond_limit : exists a b, a <> b /\ dec a = dec b.
Proof. exact dec_not_injective_beyond_limit. Qed.
Check c15_dec_not_injective_beyond_limit : exists a b, a <> b /\ dec a = dec b.
Print Assumptions c15_dec_not_injective_beyond_limit.

(** ... and the same digit loop with fuel taken from the number is [dec] on that range and
    injective on ALL of N, no bound *)
Theorem c15_dec_full_is_dec : forall n, n < dec_limit -> dec_full n = dec n.
Proof. exact dec_full_is_dec. Qed.
Check c15_dec_full_is_dec : forall n, n < 10 ^ 40 -> dec_full n = dec n.
Print Assumptions c15_dec_full_is_dec.

Theorem c15_dec_full_inj : forall a b, dec_full a = dec_full b -> a = b.
Proof. exact dec_full_inj. Qed.
Check c15_dec_full_inj : forall a b, dec_full a = dec_full b -> a = b.
Print Assumptions c15_dec_full_inj.

(** equal ids have equal indices (the index is printed in clear after the first colon) *)
Theorem c15_chunk_id_index_inj : forall h dh i j t1 t2,
  (dh = None -> ~ In 58 (h t1) /\ ~ In 58 (h t2)) ->
  i < dec_limit -> j < dec_limit -> chunk_id h dh i t1 = chunk_id h dh j t2 -> i = j.
Proof. exact chunk_id_index_inj. Qed.
Check c15_chunk_id_index_inj : forall h dh i j t1 t2,
  (dh = None -> ~ In 58 (h t1) /\ ~ In 58 (h t2)) ->
  i < dec_limit -> j < dec_limit -> chunk_id h dh i t1 = chunk_id h dh j t2 -> i = j.
Print Assumptions c15_chunk_id_index_inj.

(** the ids of the chunks of one document are pairwise distinct — for every hash function,
    every document; with content prefixes the only hypothesis is that the prefixes of THESE
    texts contain no colon (16 hex digits in the code); with a document hash none at all *)
Theorem c15_ids_pairwise_distinct : forall h dh cs,
  (dh = None -> forall c, In c cs -> ~ In 58 (h (c_full_text c))) ->
  N.of_nat (length cs) <= dec_limit ->
  NoDup (map o_id (build h dh cs)).
Proof. exact build_ids_nodup. Qed.
Check c15_ids_pairwise_distinct : forall h dh cs,
  (dh = None -> forall c, In c cs -> ~ In 58 (h (c_full_text c))) ->
  N.of_nat (length cs) <= 10 ^ 40 ->
  NoDup (map o_id (build h dh cs)).
Print Assumptions c15_ids_pairwise_distinct.

Theorem c15_ids_pairwise_distinct_doc_hash : forall h d cs,
  N.of_nat (length cs) <= dec_limit -> NoDup (map o_id (build h (Some d) cs)).
Proof. exact build_ids_nodup_doc_hash. Qed.
Check c15_ids_pairwise_distinct_doc_hash : forall h d cs,
  N.of_nat (length cs) <= 10 ^ 40 -> NoDup (map o_id (build h (Some d) cs)).
Print Assumptions c15_ids_pairwise_distinct_doc_hash.

Theorem c15_ids_from_nodup : forall h dh cs i,
  (dh = None -> forall c, In c cs -> ~ In 58 (h (c_full_text c))) ->
  i + N.of_nat (length cs) <= dec_limit -> NoDup (ids_from h dh i cs).
Proof. exact ids_from_nodup. Qed.
Check c15_ids_from_nodup : forall h dh cs i,
  (dh = None -> forall c, In c cs -> ~ In 58 (h (c_full_text c))) ->
  i + N.of_nat (length cs) <= dec_limit -> NoDup (ids_from h dh i cs).
Print Assumptions c15_ids_from_nodup.

(** the executable predicate used on the implementation's ids holds of the model *)
Theorem c15_ids_nodupb : forall h dh cs,
  (dh = None -> forall c, In c cs -> ~ In 58 (h (c_full_text c))) ->
  N.of_nat (length cs) <= dec_limit -> nodupb (map o_id (build h dh cs)) = true.
Proof. exact build_ids_nodupb. Qed.
Check c15_ids_nodupb : forall h dh cs,
  (dh = None -> forall c, In c cs -> ~ In 58 (h (c_full_text c))) ->
  N.of_nat (length cs) <= dec_limit -> nodupb (map o_id (build h dh cs)) = true.
Print Assumptions c15_ids_nodupb.

(** the breadcrumb read leaf-to-root ("latest titles with strictly decreasing rank") is the
    governing-headings breadcrumb, for every history of headings *)
Theorem c15_chain_back_is_gov : forall ts, chain_back None (rev ts) = gov ts.
Proof. exact chain_back_is_gov. Qed.
Check c15_chain_back_is_gov : forall ts, chain_back None (rev ts) = gov ts.
Print Assumptions c15_chain_back_is_gov.

Theorem c15_chain_back_filter_gov : forall ts b,
  chain_back b (rev ts) = filter (fun t => match b with None => true | Some b => fst t <? b end) (gov ts).
Proof. exact chain_back_filter_gov. Qed.
Check c15_chain_back_filter_gov : forall ts b,
  chain_back b (rev ts) = filter (fun t => match b with None => true | Some b => fst t <? b end) (gov ts).
Print Assumptions c15_chain_back_filter_gov.

Theorem c15_heading_path_is_chain_back : forall es i, (i < length es)%nat ->
  nth_error (assign es) i = Some (map snd (chain_back None (rev (titles_upto (lev_of es) es i)))).
Proof. exact heading_path_is_chain_back. Qed.
Check c15_heading_path_is_chain_back : forall es i, (i < length es)%nat ->
  nth_error (assign es) i = Some (map snd (chain_back None (rev (titles_upto (lev_of es) es i)))).
Print Assumptions c15_heading_path_is_chain_back.

(** the heading-size buckets: strictly descending and pairwise more than 5 % (of the larger)
    apart; each is a title size; every valid title size lies within 5 % of a bucket >= it *)
Theorem c15_buckets_char : forall es,
  StronglySorted (fun a b => b < a /\ a < 20 * (a - b)) (buckets es)
  /\ (forall b, In b (buckets es) -> In b (title_sizes es))
  /\ (forall s, In s (title_sizes es) -> exists b, In b (buckets es) /\ s <= b /\ 20 * (b - s) <= b).
Proof. exact buckets_char. Qed.
Check c15_buckets_char : forall es,
  StronglySorted (fun a b => b < a /\ a < 20 * (a - b)) (buckets es)
  /\ (forall b, In b (buckets es) -> In b (title_sizes es))
  /\ (forall s, In s (title_sizes es) -> exists b, In b (buckets es) /\ s <= b /\ 20 * (b - s) <= b).
Print Assumptions c15_buckets_char.

Theorem c15_title_sizes_spec : forall es s,
  In s (title_sizes es) <-> exists e, In e es /\ is_title e = true /\ fsize e = Some s /\ 0 < s.
Proof. exact title_sizes_spec. Qed.
Check c15_title_sizes_spec : forall es s,
  In s (title_sizes es) <-> exists e, In e es /\ is_title e = true /\ fsize e = Some s /\ 0 < s.
Print Assumptions c15_title_sizes_spec.

(** and these three properties determine the list: a characterisation *)
Theorem c15_buckets_characterised : forall es bs,
  (StronglySorted (fun a b => b < a /\ a < 20 * (a - b)) bs
   /\ (forall b, In b bs -> In b (title_sizes es))
   /\ (forall s, In s (title_sizes es) -> exists b, In b bs /\ s <= b /\ 20 * (b - s) <= b))
  <-> bs = buckets es.
Proof. exact buckets_characterised. Qed.
Check c15_buckets_characterised : forall es bs,
  (StronglySorted (fun a b => b < a /\ a < 20 * (a - b)) bs
   /\ (forall b, In b bs -> In b (title_sizes es))
   /\ (forall s, In s (title_sizes es) -> exists b, In b bs /\ s <= b /\ 20 * (b - s) <= b))
  <-> bs = buckets es.
Print Assumptions c15_buckets_characterised.

Theorem c15_title_size_has_rank : forall es s, In s (title_sizes es) ->
  exists l, find_bucket 0 (buckets es) s = Some l.
Proof. exact title_size_has_rank. Qed.
Check c15_title_size_has_rank : forall es s, In s (title_sizes es) ->
  exists l, find_bucket 0 (buckets es) s = Some l.
Print Assumptions c15_title_size_has_rank.
