(** C15 — the document-to-chunks pipeline preserves content and provenance (partial: the
    logic below is proved; the geometric partitioning of text into elements is observed
    end-to-end by the harness only).  Only statements here; proofs in theories/C15/Proofs.v. *)
From OxVerif Require Import Base.Util C15.Model C15.Proofs.
From Coq Require Import Sorting.Sorted.

(** the heading_path of every element is the declarative breadcrumb: the titles up to the
    element for which every later title is strictly deeper (bucket ranks of the code) *)
Theorem c15_heading_path_is_governing : forall es i, (i < length es)%nat ->
  nth_error (assign es) i = Some (governing (lev_of es) es i).
Proof. exact heading_path_is_governing. Qed.
Check c15_heading_path_is_governing : forall es i, (i < length es)%nat ->
  nth_error (assign es) i = Some (governing (lev_of es) es i).
Print Assumptions c15_heading_path_is_governing.

(** the same for an arbitrary level function: the stack discipline itself is correct *)
Theorem c15_walk_is_governing : forall lev es i, (i < length es)%nat ->
  nth_error (walk lev [] es) i = Some (governing lev es i).
Proof. exact walk_is_governing. Qed.
Check c15_walk_is_governing : forall lev es i, (i < length es)%nat ->
  nth_error (walk lev [] es) i = Some (governing lev es i).
Print Assumptions c15_walk_is_governing.

Theorem c15_assign_is_governing_all : forall es, assign es = governing_all es.
Proof. exact assign_is_governing_all. Qed.
Check c15_assign_is_governing_all : forall es, assign es = governing_all es.
Print Assumptions c15_assign_is_governing_all.

(** breadcrumb levels strictly increase root -> leaf; its leaf is the latest title *)
Theorem c15_breadcrumb_levels_increase : forall ts,
  StronglySorted (fun a b => fst a < fst b) (gov ts).
Proof. exact gov_levels_increasing. Qed.
Check c15_breadcrumb_levels_increase : forall ts, StronglySorted (fun a b => fst a < fst b) (gov ts).
Print Assumptions c15_breadcrumb_levels_increase.

Theorem c15_breadcrumb_leaf_is_latest_title : forall ts x, last_opt (gov (ts ++ [x])) = Some x.
Proof. exact gov_last. Qed.
Check c15_breadcrumb_leaf_is_latest_title : forall ts x, last_opt (gov (ts ++ [x])) = Some x.
Print Assumptions c15_breadcrumb_leaf_is_latest_title.

(** page numbers of a chunk: strictly ascending, exactly the pages of its elements *)
Theorem c15_pages_exact : forall ps,
  Sorted N.lt (collect_pages ps) /\ forall p, In p (collect_pages ps) <-> In p ps.
Proof. exact pages_exact. Qed.
Check c15_pages_exact : forall ps,
  Sorted N.lt (collect_pages ps) /\ forall p, In p (collect_pages ps) <-> In p ps.
Print Assumptions c15_pages_exact.

Theorem c15_pages_unique : forall a b, Sorted N.lt a -> Sorted N.lt b ->
  (forall p, In p a <-> In p b) -> a = b.
Proof. exact sorted_set_unique. Qed.
Check c15_pages_unique : forall a b, Sorted N.lt a -> Sorted N.lt b -> (forall p, In p a <-> In p b) -> a = b.
Print Assumptions c15_pages_unique.

Theorem c15_pages_ok_collect : forall ps, pages_ok ps (collect_pages ps) = true.
Proof. exact pages_ok_collect. Qed.
Check c15_pages_ok_collect : forall ps, pages_ok ps (collect_pages ps) = true.
Print Assumptions c15_pages_ok_collect.

(** ids: a function of (doc hash, index, full text) only — for every hash function *)
Theorem c15_ids_deterministic : forall h dh cs1 cs2,
  map c_full_text cs1 = map c_full_text cs2 ->
  map o_id (build h dh cs1) = map o_id (build h dh cs2).
Proof. exact ids_deterministic. Qed.
Check c15_ids_deterministic : forall h dh cs1 cs2,
  map c_full_text cs1 = map c_full_text cs2 -> map o_id (build h dh cs1) = map o_id (build h dh cs2).
Print Assumptions c15_ids_deterministic.

Theorem c15_build_ids : forall h dh cs, map o_id (build h dh cs) = ids_from h dh 0 cs.
Proof. exact build_ids. Qed.
Check c15_build_ids : forall h dh cs, map o_id (build h dh cs) = ids_from h dh 0 cs.
Print Assumptions c15_build_ids.

Theorem c15_link_spec : forall ids p i,
  nth_error (link p ids) i =
  match nth_error ids i with
  | None => None
  | Some _ => Some (match i with O => p | S j => nth_error ids j end, nth_error ids (S i))
  end.
Proof. exact link_spec. Qed.
Check c15_link_spec : forall ids p i,
  nth_error (link p ids) i =
  match nth_error ids i with
  | None => None
  | Some _ => Some (match i with O => p | S j => nth_error ids j end, nth_error ids (S i))
  end.
Print Assumptions c15_link_spec.

(** document level (known finding C15-breadcrumb-page-reset, FIXED by fix_breadcrumb_across_pages):
    do_partition_pages re-runs assign_heading_paths over the concatenated pages, so every element
    carries the declarative breadcrumb of the whole document — headings of earlier pages included *)
Theorem c15_document_breadcrumb_governing : forall pages,
  do_partition_paths pages = governing_all (concat pages).
Proof. exact document_breadcrumb_governing. Qed.
Check c15_document_breadcrumb_governing : forall pages,
  do_partition_paths pages = governing_all (concat pages).
Print Assumptions c15_document_breadcrumb_governing.

Theorem c15_document_breadcrumb_governing_nth : forall pages i, (i < length (concat pages))%nat ->
  nth_error (do_partition_paths pages) i = Some (governing (lev_of (concat pages)) (concat pages) i).
Proof. exact document_breadcrumb_governing_nth. Qed.
Check c15_document_breadcrumb_governing_nth : forall pages i, (i < length (concat pages))%nat ->
  nth_error (do_partition_paths pages) i = Some (governing (lev_of (concat pages)) (concat pages) i).
Print Assumptions c15_document_breadcrumb_governing_nth.

(** record of the PINNED (pre-fix) behaviour, about the pre-fix definition [assign_per_page]:
    applied page by page, an element loses the headings that govern it from earlier pages *)
Theorem c15_per_page_pinned_refuted : exists pages, assign_per_page pages <> governing_all (concat pages).
Proof. exact per_page_pinned_refuted. Qed.
Check c15_per_page_pinned_refuted : exists pages, assign_per_page pages <> governing_all (concat pages).
Print Assumptions c15_per_page_pinned_refuted.

(** the repair is conservative: documents of at most one page get the paths they got before *)
Theorem c15_per_page_ok_single : forall pages, ~ MultiPage pages ->
  assign_per_page pages = do_partition_paths pages.
Proof. exact per_page_ok_single. Qed.
Check c15_per_page_ok_single : forall pages, ~ MultiPage pages -> assign_per_page pages = do_partition_paths pages.
Print Assumptions c15_per_page_ok_single.
