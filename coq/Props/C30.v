(** C30 — user-chosen resource names cannot break the page.
    FULL STATEMENT (refuted before fix_name_escape, see c30_raw_name_refuted_pinned; PROVED for the
    repaired writer as c30_name_roundtrip + c30_content_name_roundtrip):
      forall n rest, bytes_ok n = true -> good_rest rest -> lex1 (47 :: esc_iso n ++ rest) = (TName n, rest)
    i.e. every name written at a name-emission site (escape_pdf_name, #XX escaping) reads back as the
    same bytes — in the resource dictionary (object lexer, C09's model) and in the content stream
    (ContentTokenizer::read_name/decode_name, C21's model).  At the level of Rust Strings, with the
    reader after fix_name_utf8 (decoded name bytes that are valid UTF-8 are the String), this gives
    "reads back as the same name, as key and as Do operand" for EVERY name that is a Rust String
    (valid UTF-8: white space, delimiters, '#', controls, non-ASCII included):
      c30_image_utf8_reads_back : forall n, Tok.utf8_valid n = true -> predicted EImage n = 0
    (c30_form_utf8_never_broken, c30_key_is_operand).  The reader's former one-char-per-byte decoding
    of non-ASCII names (finding C30-name-nonascii, fixed) is kept as a record: c30_nonascii_refuted_pinned. *)
From OxVerif Require Import Base.Util C09.Model C09.Tokens C09.FracSweep C09.Proofs C30.Model C30.Proofs.
From OxVerif Require C21.Tok C21.Model C21.Lexemes.

Theorem c30_name_roundtrip : forall n rest, bytes_ok n = true -> good_rest rest ->
  lex1 (47 :: esc_iso n ++ rest) = (TName n, rest).
Proof. exact name_roundtrip. Qed.
Check c30_name_roundtrip : forall n rest, bytes_ok n = true -> good_rest rest -> lex1 (47 :: esc_iso n ++ rest) = (TName n, rest).
Print Assumptions c30_name_roundtrip.

Theorem c30_content_name_roundtrip : forall n rest, bytes_ok n = true -> C21.Lexemes.delim_follows rest ->
  Tok.scan_name (esc_iso n ++ rest) = (esc_iso n, rest) /\ Tok.decode_name (esc_iso n) = Some n.
Proof. exact content_name_roundtrip. Qed.
Check c30_content_name_roundtrip : forall n rest, bytes_ok n = true -> C21.Lexemes.delim_follows rest ->
  Tok.scan_name (esc_iso n ++ rest) = (esc_iso n, rest) /\ Tok.decode_name (esc_iso n) = Some n.
Print Assumptions c30_content_name_roundtrip.

(** the two packages' escaper models are one function *)
Theorem c30_escaper_models_agree : forall n, C21.Model.esc_name n = esc_iso n.
Proof. exact esc_same. Qed.
Check c30_escaper_models_agree : forall n, C21.Model.esc_name n = esc_iso n.
Print Assumptions c30_escaper_models_agree.

(** String level: an ungated entry point (images) given ANY name (a Rust String: valid UTF-8) reads back with
    that name, as the dictionary key and as the Do operand *)
Theorem c30_image_utf8_reads_back : forall n, Tok.utf8_valid n = true -> predicted EImage n = 0.
Proof. exact image_utf8_reads_back. Qed.
Check c30_image_utf8_reads_back : forall n, Tok.utf8_valid n = true -> predicted EImage n = 0.
Print Assumptions c30_image_utf8_reads_back.
(** key read back = Do operand read back = the user's String *)
Theorem c30_key_is_operand : forall n, Tok.utf8_valid n = true -> key_back n = operand_back n /\ key_back n = Some n.
Proof. exact key_is_operand. Qed.
Check c30_key_is_operand : forall n, Tok.utf8_valid n = true -> key_back n = operand_back n /\ key_back n = Some n.
Print Assumptions c30_key_is_operand.

(** a gated entry point either rejects or writes a name that reads back *)
Theorem c30_form_utf8_never_broken : forall n, Tok.utf8_valid n = true -> predicted EForm n <> 2.
Proof. exact form_utf8_never_broken. Qed.
Check c30_form_utf8_never_broken : forall n, Tok.utf8_valid n = true -> predicted EForm n <> 2.
Print Assumptions c30_form_utf8_never_broken.

(** the former ASCII-only statements are instances *)
Theorem c30_image_ascii_reads_back : forall n, ascii_name n = true -> predicted EImage n = 0.
Proof. exact image_ascii_reads_back. Qed.
Check c30_image_ascii_reads_back : forall n, ascii_name n = true -> predicted EImage n = 0.
Print Assumptions c30_image_ascii_reads_back.
Theorem c30_form_ascii_never_broken : forall n, ascii_name n = true -> predicted EForm n <> 2.
Proof. exact form_ascii_never_broken. Qed.
Check c30_form_ascii_never_broken : forall n, ascii_name n = true -> predicted EForm n <> 2.
Print Assumptions c30_form_ascii_never_broken.
(** the hypothesis is satisfiable on non-ASCII names (2-, 3-, 4-byte sequences); surrogates, overlongs, > U+10FFFF are not UTF-8 *)
Example c30_utf8_hyp_nonvacuous :
  Tok.utf8_valid [195; 169; 228; 184; 173; 49] = true /\ ascii_name [195; 169; 228; 184; 173; 49] = false
  /\ predicted EImage [195; 169; 228; 184; 173; 49] = 0 /\ predicted EForm [195; 169; 228; 184; 173; 49] = 0
  /\ predicted EImage [240; 159; 152; 128; 32; 35] = 0 /\ predicted EForm [240; 159; 152; 128; 32; 35] = 1
  /\ Tok.utf8_valid [237; 160; 128] = false /\ Tok.utf8_valid [192; 128] = false /\ Tok.utf8_valid [244; 144; 128; 128] = false.
Proof. exact utf8_hyp_nonvacuous. Qed.

Theorem c30_validator_implies_regular : forall n, valid_resource_name n = true -> regular_name n = true.
Proof. exact valid_regular. Qed.
Check c30_validator_implies_regular : forall n, valid_resource_name n = true -> regular_name n = true.
Print Assumptions c30_validator_implies_regular.

Theorem c30_validator_implies_content_regular : forall n, valid_resource_name n = true -> content_regular_name n = true.
Proof. exact valid_content_regular. Qed.
Check c30_validator_implies_content_regular : forall n, valid_resource_name n = true -> content_regular_name n = true.
Print Assumptions c30_validator_implies_content_regular.

Theorem c30_gated_name_reads_back : forall n rest, valid_resource_name n = true -> bytes_ok n = true -> good_rest rest ->
  lex1 (47 :: esc_iso n ++ rest) = (TName n, rest).
Proof. exact gated_name_reads_back. Qed.
Check c30_gated_name_reads_back : forall n rest, valid_resource_name n = true -> bytes_ok n = true -> good_rest rest -> lex1 (47 :: esc_iso n ++ rest) = (TName n, rest).
Print Assumptions c30_gated_name_reads_back.

(** record about the writer BEFORE fix_name_escape (finding C30-name-raw, fixed), and the same witness after *)
Theorem c30_raw_name_refuted_pinned : exists n, lex1 (47 :: n ++ [32]) <> (TName n, [32])
                                   /\ parse (ser raw_name (ODict [(n, ORef 5 0)])) = None
                                   /\ predicted_pinned EImage n = 2
                                   /\ lex1 (47 :: esc_iso n ++ [32]) = (TName n, [32])
                                   /\ parse (ser esc_iso (ODict [(n, ORef 5 0)])) = Some (PDict [(n, PRef 5 0)])
                                   /\ predicted EImage n = 0.
Proof. exact raw_name_refuted_pinned. Qed.
Check c30_raw_name_refuted_pinned : exists n, lex1 (47 :: n ++ [32]) <> (TName n, [32])
  /\ parse (ser raw_name (ODict [(n, ORef 5 0)])) = None /\ predicted_pinned EImage n = 2
  /\ lex1 (47 :: esc_iso n ++ [32]) = (TName n, [32])
  /\ parse (ser esc_iso (ODict [(n, ORef 5 0)])) = Some (PDict [(n, PRef 5 0)]) /\ predicted EImage n = 0.
Print Assumptions c30_raw_name_refuted_pinned.

(** RECORD of the reader before fix_name_utf8 (finding C30-name-nonascii, fixed): with the one-char-per-byte view
    ([key_back_pinned], [predicted_latin1_pinned]) "é" came back as the key "Ã©" although the Do operand was "é";
    with the repaired reader the same name reads back at both sites *)
Theorem c30_nonascii_refuted_pinned : exists n, bytes_ok n = true /\ Tok.utf8_valid n = true /\ ascii_name n = false
  /\ key_back_pinned n = Some [195; 131; 194; 169] /\ operand_back n = Some n
  /\ predicted_latin1_pinned EImage n = 2 /\ predicted_latin1_pinned EForm n = 2
  /\ key_back n = Some n /\ predicted EImage n = 0 /\ predicted EForm n = 0 /\ n = [195; 169].
Proof. exact nonascii_refuted_pinned. Qed.
Check c30_nonascii_refuted_pinned : exists n, bytes_ok n = true /\ Tok.utf8_valid n = true /\ ascii_name n = false
  /\ key_back_pinned n = Some [195; 131; 194; 169] /\ operand_back n = Some n
  /\ predicted_latin1_pinned EImage n = 2 /\ predicted_latin1_pinned EForm n = 2
  /\ key_back n = Some n /\ predicted EImage n = 0 /\ predicted EForm n = 0 /\ n = [195; 169].
Print Assumptions c30_nonascii_refuted_pinned.

(** pages channel: the Coq judgement is exactly "every name resolves, on its page, to the resource registered there" *)
Theorem c30_pages_judgement_sound : forall c, pages_code c = 0 <->
  forall pg n e f, In (pg, n, e, f) c -> f = Some e.
Proof. exact pages_code_sound. Qed.
Check c30_pages_judgement_sound : forall c, pages_code c = 0 <-> forall pg n e f, In (pg, n, e, f) c -> f = Some e.
Print Assumptions c30_pages_judgement_sound.

Example c30_nonvacuous : valid_resource_name (b "Im{1") = false /\ valid_resource_name (b "Fm0+x") = true
                          /\ predicted EImage (b "My Image") = 0 /\ predicted EForm (b "My Image") = 1
                          /\ predicted EImage (b "A#20") = 0 /\ predicted EImage (b "Im{1}") = 0
                          /\ predicted EImage [110; 0; 9; 10; 12; 13; 37; 40; 41; 47; 60; 62; 91; 93; 127] = 0
                          /\ predicted_pinned EImage (b "My Image") = 2.
Proof. exact gate_nonvacuous. Qed.
