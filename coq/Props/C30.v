(** C30 — user-chosen resource names cannot break the page.
    FULL STATEMENT (refuted before fix_name_escape, see c30_raw_name_refuted_pinned; PROVED for the
    repaired writer as c30_name_roundtrip + c30_content_name_roundtrip):
      forall n rest, bytes_ok n = true -> good_rest rest -> lex1 (47 :: esc_iso n ++ rest) = (TName n, rest)
    i.e. every name written at a name-emission site (escape_pdf_name, #XX escaping) reads back as the
    same bytes — in the resource dictionary (object lexer, C09's model) and in the content stream
    (ContentTokenizer::read_name/decode_name, C21's model).  At the level of Rust Strings this gives
    "reads back as the same name" for every ASCII name — white space, delimiters, '#', controls
    included (c30_image_ascii_reads_back, c30_form_ascii_never_broken).  What remains open is the
    READER's one-char-per-byte decoding of non-ASCII names (c30_nonascii_refuted, finding
    C30-name-nonascii). *)
From OxVerif Require Import Base.Util C09.Model C09.Tokens C09.FracSweep C09.Proofs C30.Model C30.Proofs.
From OxVerif Require C21.Tok C21.Model C21.Lexemes.

Theorem c30_name_roundtrip : forall n rest, bytes_ok n = true -> good_rest rest ->
  lex1 (47 :: esc_iso n ++ rest) = (TName n, rest).
Proof. exact name_roundtrip. Qed.
Check c30_name_roundtrip : forall n rest, bytes_ok n = true -> good_rest rest -> lex1 (47 :: esc_iso n ++ rest) = (TName n, rest).
Print Assumptions c30_name_roundtrip.

Theorem c30_content_name_roundtrip : forall n rest, bytes_ok n = true -> C21.Lexemes.delim_follows rest ->
  Tok.scan_name (esc_iso n ++ rest) = (esc_iso n, rest) /\ Tok.decode_name (esc_iso n) = Some n.
Proof. exact content_name_roundtrip. Qed.
Check c30_content_name_roundtrip : forall n rest, bytes_ok n = true -> C21.Lexemes.delim_follows rest ->
  Tok.scan_name (esc_iso n ++ rest) = (esc_iso n, rest) /\ Tok.decode_name (esc_iso n) = Some n.
Print Assumptions c30_content_name_roundtrip.

(** the two packages' escaper models are one function *)
Theorem c30_escaper_models_agree : forall n, C21.Model.esc_name n = esc_iso n.
Proof. exact esc_same. Qed.
Check c30_escaper_models_agree : forall n, C21.Model.esc_name n = esc_iso n.
Print Assumptions c30_escaper_models_agree.

(** String level: an ungated entry point (images) given ANY ASCII name reads back with that name, as the
    dictionary key and as the Do operand *)
Theorem c30_image_ascii_reads_back : forall n, ascii_name n = true -> predicted EImage n = 0.
Proof. exact image_ascii_reads_back. Qed.
Check c30_image_ascii_reads_back : forall n, ascii_name n = true -> predicted EImage n = 0.
Print Assumptions c30_image_ascii_reads_back.

(** a gated entry point either rejects or writes a name that reads back *)
Theorem c30_form_ascii_never_broken : forall n, ascii_name n = true -> predicted EForm n <> 2.
Proof. exact form_ascii_never_broken. Qed.
Check c30_form_ascii_never_broken : forall n, ascii_name n = true -> predicted EForm n <> 2.
Print Assumptions c30_form_ascii_never_broken.

Theorem c30_validator_implies_regular : forall n, valid_resource_name n = true -> regular_name n = true.
Proof. exact valid_regular. Qed.
Check c30_validator_implies_regular : forall n, valid_resource_name n = true -> regular_name n = true.
Print Assumptions c30_validator_implies_regular.

Theorem c30_validator_implies_content_regular : forall n, valid_resource_name n = true -> content_regular_name n = true.
Proof. exact valid_content_regular. Qed.
Check c30_validator_implies_content_regular : forall n, valid_resource_name n = true -> content_regular_name n = true.
Print Assumptions c30_validator_implies_content_regular.

Theorem c30_gated_name_reads_back : forall n rest, valid_resource_name n = true -> bytes_ok n = true -> good_rest rest ->
  lex1 (47 :: esc_iso n ++ rest) = (TName n, rest).
Proof. exact gated_name_reads_back. Qed.
Check c30_gated_name_reads_back : forall n rest, valid_resource_name n = true -> bytes_ok n = true -> good_rest rest -> lex1 (47 :: esc_iso n ++ rest) = (TName n, rest).
Print Assumptions c30_gated_name_reads_back.

(** record about the writer BEFORE fix_name_escape (finding C30-name-raw, fixed), and the same witness after *)
Theorem c30_raw_name_refuted_pinned : exists n, lex1 (47 :: n ++ [32]) <> (TName n, [32])
                                   /\ parse (ser raw_name (ODict [(n, ORef 5 0)])) = None
                                   /\ predicted_pinned EImage n = 2
                                   /\ lex1 (47 :: esc_iso n ++ [32]) = (TName n, [32])
                                   /\ parse (ser esc_iso (ODict [(n, ORef 5 0)])) = Some (PDict [(n, PRef 5 0)])
                                   /\ predicted EImage n = 0.
Proof. exact raw_name_refuted_pinned. Qed.
Check c30_raw_name_refuted_pinned : exists n, lex1 (47 :: n ++ [32]) <> (TName n, [32])
  /\ parse (ser raw_name (ODict [(n, ORef 5 0)])) = None /\ predicted_pinned EImage n = 2
  /\ lex1 (47 :: esc_iso n ++ [32]) = (TName n, [32])
  /\ parse (ser esc_iso (ODict [(n, ORef 5 0)])) = Some (PDict [(n, PRef 5 0)]) /\ predicted EImage n = 0.
Print Assumptions c30_raw_name_refuted_pinned.

(** what remains open (C30-name-nonascii): "é" comes back as the key "Ã©" although the Do operand is "é" *)
Theorem c30_nonascii_refuted : exists n, bytes_ok n = true /\ Tok.utf8_valid n = true /\ ascii_name n = false
  /\ key_back n = Some [195; 131; 194; 169] /\ operand_back n = Some n
  /\ predicted EImage n = 2 /\ predicted EForm n = 2 /\ n = [195; 169].
Proof. exact nonascii_refuted. Qed.
Check c30_nonascii_refuted : exists n, bytes_ok n = true /\ Tok.utf8_valid n = true /\ ascii_name n = false
  /\ key_back n = Some [195; 131; 194; 169] /\ operand_back n = Some n
  /\ predicted EImage n = 2 /\ predicted EForm n = 2 /\ n = [195; 169].
Print Assumptions c30_nonascii_refuted.

(** pages channel: the Coq judgement is exactly "every name resolves, on its page, to the resource registered there" *)
Theorem c30_pages_judgement_sound : forall c, pages_code c = 0 <->
  forall pg n e f, In (pg, n, e, f) c -> f = Some e.
Proof. exact pages_code_sound. Qed.
Check c30_pages_judgement_sound : forall c, pages_code c = 0 <-> forall pg n e f, In (pg, n, e, f) c -> f = Some e.
Print Assumptions c30_pages_judgement_sound.

Example c30_nonvacuous : valid_resource_name (b "Im{1") = false /\ valid_resource_name (b "Fm0+x") = true
                          /\ predicted EImage (b "My Image") = 0 /\ predicted EForm (b "My Image") = 1
                          /\ predicted EImage (b "A#20") = 0 /\ predicted EImage (b "Im{1}") = 0
                          /\ predicted EImage [110; 0; 9; 10; 12; 13; 37; 40; 41; 47; 60; 62; 91; 93; 127] = 0
                          /\ predicted_pinned EImage (b "My Image") = 2.
Proof. exact gate_nonvacuous. Qed.
