(** C30 — user-chosen resource names cannot break the page.
    FULL STATEMENT (refuted on the pinned tree, see c30_raw_name_refuted):
      forall n rest, good_rest rest -> lex1 (47 :: n ++ rest) = (TName n, rest)
    i.e. every name written at a name-emission site reads back.  Proved: for every regular name;
    for every name accepted by validate_pdf_resource_name (so the six gated entry points can
    only write names that read back, or reject); for every name under #XX escaping (the shape
    of the repair, already used by the incremental writer).  The content-stream tokenizer
    (parser/content.rs) is observed by the harness, not modelled. *)
From OxVerif Require Import Base.Util C09.Model C09.Tokens C09.FracSweep C09.Proofs C30.Model C30.Proofs.

Theorem c30_name_roundtrip : forall n rest, regular_name n = true -> good_rest rest ->
  lex1 (47 :: n ++ rest) = (TName n, rest).
Proof. exact lex1_name. Qed.
Check c30_name_roundtrip : forall n rest, regular_name n = true -> good_rest rest -> lex1 (47 :: n ++ rest) = (TName n, rest).
Print Assumptions c30_name_roundtrip.

Theorem c30_validator_implies_regular : forall n, valid_resource_name n = true -> regular_name n = true.
Proof. exact valid_regular. Qed.
Check c30_validator_implies_regular : forall n, valid_resource_name n = true -> regular_name n = true.
Print Assumptions c30_validator_implies_regular.

Theorem c30_validator_implies_content_regular : forall n, valid_resource_name n = true -> content_regular_name n = true.
Proof. exact valid_content_regular. Qed.
Check c30_validator_implies_content_regular : forall n, valid_resource_name n = true -> content_regular_name n = true.
Print Assumptions c30_validator_implies_content_regular.

Theorem c30_gated_name_reads_back : forall n rest, valid_resource_name n = true -> good_rest rest ->
  lex1 (47 :: n ++ rest) = (TName n, rest).
Proof. exact gated_name_reads_back. Qed.
Check c30_gated_name_reads_back : forall n rest, valid_resource_name n = true -> good_rest rest -> lex1 (47 :: n ++ rest) = (TName n, rest).
Print Assumptions c30_gated_name_reads_back.

Theorem c30_escaped_name_roundtrip : forall n rest, bytes_ok n = true -> good_rest rest ->
  lex1 (47 :: esc_name n ++ rest) = (TName n, rest).
Proof. exact lex_esc_name. Qed.
Check c30_escaped_name_roundtrip : forall n rest, bytes_ok n = true -> good_rest rest -> lex1 (47 :: esc_name n ++ rest) = (TName n, rest).
Print Assumptions c30_escaped_name_roundtrip.

Theorem c30_raw_name_refuted : exists n, lex1 (47 :: n ++ [32]) <> (TName n, [32])
                                   /\ parse (ser raw_name (ODict [(n, ORef 5 0)])) = None.
Proof. exact raw_name_refuted. Qed.
Check c30_raw_name_refuted : exists n, lex1 (47 :: n ++ [32]) <> (TName n, [32]) /\ parse (ser raw_name (ODict [(n, ORef 5 0)])) = None.
Print Assumptions c30_raw_name_refuted.

(** pages channel: the Coq judgement is exactly "every name resolves, on its page, to the resource registered there" *)
Theorem c30_pages_judgement_sound : forall c, pages_code c = 0 <->
  forall pg n e f, In (pg, n, e, f) c -> f = Some e.
Proof. exact pages_code_sound. Qed.
Check c30_pages_judgement_sound : forall c, pages_code c = 0 <-> forall pg n e f, In (pg, n, e, f) c -> f = Some e.
Print Assumptions c30_pages_judgement_sound.

Example c30_nonvacuous : valid_resource_name (b "Im{1") = false /\ valid_resource_name (b "Fm0+x") = true
                          /\ predicted EImage (b "My Image") = 2 /\ predicted EForm (b "My Image") = 1.
Proof. exact gate_nonvacuous. Qed.
