(** C20 — writing the same document twice gives identical bytes.
    Only statements here; proofs live in theories/C20/Proofs.v.  [ser raw_name] (C09.Model) is the
    model of PdfWriter::write_object_value; the list inside [ODict] is the HashMap's iteration order. *)
From OxVerif Require Import Base.Util C09.Model C20.Model C20.Proofs.
From OxGen Require Import IterSites.
Require Import Permutation.

(** the sort the writer uses yields the same vector for every iteration order of the map *)
Theorem c20_sort_by_key_order_irrelevant : forall (l l' : list (bytes * obj)),
  Permutation l l' -> NoDup (map fst l) -> sort_kv l = sort_kv l'.
Proof. intros. apply sort_kv_perm_invariant; assumption. Qed.
Check c20_sort_by_key_order_irrelevant : forall (l l' : list (bytes * obj)),
  Permutation l l' -> NoDup (map fst l) -> sort_kv l = sort_kv l'.
Print Assumptions c20_sort_by_key_order_irrelevant.

(** dictionary emission (sort by key, then print) does not depend on the iteration order *)
Theorem c20_dict_order_irrelevant : forall l l',
  Permutation l l' -> NoDup (map fst l) -> ser_sorted l = ser_sorted l'.
Proof. exact dict_order_irrelevant. Qed.
Check c20_dict_order_irrelevant : forall l l',
  Permutation l l' -> NoDup (map fst l) -> ser_sorted l = ser_sorted l'.
Print Assumptions c20_dict_order_irrelevant.

(** ... at any nesting depth: the same logical object held in differently ordered maps serializes identically *)
Theorem c20_ser_order_irrelevant : forall v, keys_nodup v -> forall v', operm v v' -> ser raw_name v = ser raw_name v'.
Proof. exact (ser_order_irrelevant raw_name). Qed.
Check c20_ser_order_irrelevant : forall v, keys_nodup v -> forall v', operm v v' -> ser raw_name v = ser raw_name v'.
Print Assumptions c20_ser_order_irrelevant.

(** the xref-stream dictionary (after the repair: sorted like every dictionary) *)
Theorem c20_xref_dict_order_irrelevant : forall l l',
  Permutation l l' -> NoDup (map fst l) -> ser_xref_dict l = ser_xref_dict l'.
Proof. exact xref_dict_order_irrelevant. Qed.
Check c20_xref_dict_order_irrelevant : forall l l',
  Permutation l l' -> NoDup (map fst l) -> ser_xref_dict l = ser_xref_dict l'.
Print Assumptions c20_xref_dict_order_irrelevant.

(** object-stream packing: members, /First, payload and stream ids do not depend on the order of buffered_objects *)
Theorem c20_objstm_order_irrelevant : forall cap l l',
  Permutation l l' -> NoDup (map fst l) -> pack_sorted cap l = pack_sorted cap l'.
Proof. exact objstm_order_irrelevant. Qed.
Check c20_objstm_order_irrelevant : forall cap l l',
  Permutation l l' -> NoDup (map fst l) -> pack_sorted cap l = pack_sorted cap l'.
Print Assumptions c20_objstm_order_irrelevant.

Theorem c20_objstm_deterministic : forall cap objs m objs',
  Forall2 (fun a b => fst a = fst b /\ operm (snd a) (snd b)) objs m -> Permutation m objs' ->
  NoDup (map fst objs) -> Forall (fun e => keys_nodup (snd e)) objs ->
  objstm_of cap objs = objstm_of cap objs'.
Proof. exact objstm_deterministic. Qed.
Check c20_objstm_deterministic : forall cap objs m objs',
  Forall2 (fun a b => fst a = fst b /\ operm (snd a) (snd b)) objs m -> Permutation m objs' ->
  NoDup (map fst objs) -> Forall (fun e => keys_nodup (snd e)) objs ->
  objstm_of cap objs = objstm_of cap objs'.
Print Assumptions c20_objstm_deterministic.

(** cross-reference rows do not depend on the order of xref_positions *)
Theorem c20_xref_order_irrelevant : forall positions positions' maxn,
  Permutation positions positions' -> NoDup (map fst positions) ->
  xref_rows positions maxn = xref_rows positions' maxn.
Proof. exact xref_order_irrelevant. Qed.
Check c20_xref_order_irrelevant : forall positions positions' maxn,
  Permutation positions positions' -> NoDup (map fst positions) ->
  xref_rows positions maxn = xref_rows positions' maxn.
Print Assumptions c20_xref_order_irrelevant.

(** inline streams made indirect inside a loop over a dictionary: with the entries sorted first (repaired tree)
    ids, file order and the rewritten dictionary do not depend on the iteration order *)
Theorem c20_externalize_order_irrelevant : forall next l l',
  Permutation l l' -> NoDup (map fst l) -> externalize_sorted next l = externalize_sorted next l'.
Proof. exact externalize_order_irrelevant. Qed.
Check c20_externalize_order_irrelevant : forall next l l',
  Permutation l l' -> NoDup (map fst l) -> externalize_sorted next l = externalize_sorted next l'.
Print Assumptions c20_externalize_order_irrelevant.

(** refutations: the three emitter shapes that follow the iteration order (pinned tree: write_xref_stream,
    the /AP and externalize loops; hypothetical: flush_object_streams without its sort) *)
Theorem c20_xrefstream_dict_order_refuted :
  exists l l', Permutation l l' /\ NoDup (map fst l) /\ ser_unsorted l <> ser_unsorted l'.
Proof. exact xrefstream_dict_order_refuted. Qed.
Check c20_xrefstream_dict_order_refuted :
  exists l l', Permutation l l' /\ NoDup (map fst l) /\ ser_unsorted l <> ser_unsorted l'.
Print Assumptions c20_xrefstream_dict_order_refuted.

Theorem c20_externalize_order_refuted :
  exists l l', Permutation l l' /\ NoDup (map fst l)
               /\ ext_bytes (externalize_pinned 10 l) <> ext_bytes (externalize_pinned 10 l').
Proof. exact externalize_order_refuted. Qed.
Check c20_externalize_order_refuted :
  exists l l', Permutation l l' /\ NoDup (map fst l)
               /\ ext_bytes (externalize_pinned 10 l) <> ext_bytes (externalize_pinned 10 l').
Print Assumptions c20_externalize_order_refuted.

Theorem c20_objstm_unsorted_refuted :
  exists l l', Permutation l l' /\ NoDup (map fst l) /\ pack_unsorted 100 l <> pack_unsorted 100 l'.
Proof. exact objstm_unsorted_refuted. Qed.
Check c20_objstm_unsorted_refuted :
  exists l l', Permutation l l' /\ NoDup (map fst l) /\ pack_unsorted 100 l <> pack_unsorted 100 l'.
Print Assumptions c20_objstm_unsorted_refuted.

(** full statement, NOT proved as one theorem (the page/catalog/font writers are not modelled):
      writer_deterministic : forall orders orders' d cfg, unencrypted cfg -> write orders d cfg = write orders' d cfg.
    What stands for it: the stage theorems above + the census obligation below (every iteration over a
    hash-ordered container in the writer files sorts before use or is an order-insensitive fold) + the
    cross-process byte comparison of whole files. *)

(** census (regenerated from the sources on every run): no site emits in iteration order, none is unresolved *)
Example c20_no_unsorted_emission_site : bad_sites sites = [].
Proof. vm_compute. reflexivity. Qed.
Example c20_census_nonempty : (20 <=? N.of_nat (length sites))%N = true.
Proof. vm_compute. reflexivity. Qed.

(** non-vacuity *)
Example c20_nonvacuous_deep : operm ex_outer ex_outer' /\ keys_nodup ex_outer /\ ex_outer <> ex_outer'
                              /\ ser raw_name ex_outer = ser raw_name ex_outer'.
Proof. split; [exact ex_operm|]. split; [exact ex_keys_nodup|]. destruct ex_deep_equal. split; assumption. Qed.
Example c20_nonvacuous_perm : Permutation ex_inner ex_inner' /\ NoDup (map fst ex_inner) /\ ex_inner <> ex_inner'.
Proof. split; [exact ex_perm|]. split; [exact ex_nodup | discriminate]. Qed.
