(** C12 — font subsetting keeps every requested glyph intact (TrueType, table level).
    Only statements here; proofs live in theories/C12/Proofs.v.  The statements hold for ALL
    abstract fonts and character sets; the sfnt byte encoding and CFF are validated per output by
    the correspondence run (see notes/C12.md). *)
From OxVerif Require Import Base.Util C12.Model C12.Proofs.

(** every component of a kept glyph is kept; .notdef and every requested glyph are kept *)
Theorem c12_closure_complete : forall f cs kept,
  closure f cs = Some kept ->
  closed f kept /\ In 0 kept
  /\ (forall c g, In c cs -> cmap f c = Some g -> In g kept) /\ NoDup kept.
Proof. exact closure_complete. Qed.
Check c12_closure_complete : forall f cs kept,
  closure f cs = Some kept ->
  closed f kept /\ In 0 kept
  /\ (forall c g, In c cs -> cmap f c = Some g -> In g kept) /\ NoDup kept.
Print Assumptions c12_closure_complete.

(** the fuel (number of glyphs) suffices whenever glyph references are in range *)
Theorem c12_closure_terminates : forall f cs, wf f -> exists kept, closure f cs = Some kept.
Proof. exact closure_terminates. Qed.
Check c12_closure_terminates : forall f cs, wf f -> exists kept, closure f cs = Some kept.
Print Assumptions c12_closure_terminates.

Theorem c12_subset_total : forall f cs, wf f -> exists r, subset f cs = Some r.
Proof. exact subset_total. Qed.
Check c12_subset_total : forall f cs, wf f -> exists r, subset f cs = Some r.
Print Assumptions c12_subset_total.

(** renumbering: total on the kept set, injective, order-preserving, .notdef stays 0 *)
Theorem c12_renumber_bijective : forall kept, NoDup kept ->
  (forall g, In g kept -> exists g', renumber kept g = Some g' /\ g' < N.of_nat (length kept))
  /\ (forall a b i, renumber kept a = Some i -> renumber kept b = Some i -> a = b)
  /\ (forall a b i j, renumber kept a = Some i -> renumber kept b = Some j -> a < b -> i < j)
  /\ (In 0 kept -> renumber kept 0 = Some 0)
  /\ (forall g g', renumber kept g = Some g' -> In g kept).
Proof. exact renumber_bijective. Qed.
Check c12_renumber_bijective : forall kept, NoDup kept ->
  (forall g, In g kept -> exists g', renumber kept g = Some g' /\ g' < N.of_nat (length kept))
  /\ (forall a b i, renumber kept a = Some i -> renumber kept b = Some i -> a = b)
  /\ (forall a b i j, renumber kept a = Some i -> renumber kept b = Some j -> a < b -> i < j)
  /\ (In 0 kept -> renumber kept 0 = Some 0)
  /\ (forall g g', renumber kept g = Some g' -> In g kept).
Print Assumptions c12_renumber_bijective.

(** every component reference in the subset points at the renumbered component *)
Theorem c12_remap_consistent : forall f cs kept f',
  subset f cs = Some (Subset kept f') ->
  forall g g', index_of g kept = Some g' ->
    List.map Some (comp_gids (glyphs f' g')) = List.map (fun c => index_of c kept) (comp_gids (glyphs f g))
    /\ (forall c, In c (comp_gids (glyphs f g)) -> exists c', index_of c kept = Some c').
Proof. exact remap_consistent. Qed.
Check c12_remap_consistent : forall f cs kept f',
  subset f cs = Some (Subset kept f') ->
  forall g g', index_of g kept = Some g' ->
    List.map Some (comp_gids (glyphs f' g')) = List.map (fun c => index_of c kept) (comp_gids (glyphs f g))
    /\ (forall c, In c (comp_gids (glyphs f g)) -> exists c', index_of c kept = Some c').
Print Assumptions c12_remap_consistent.

Theorem c12_subset_kept_is_sorted_closure : forall f cs kept f',
  subset f cs = Some (Subset kept f') ->
  exists k, closure f cs = Some k /\ kept = sort k /\ asc kept /\ index_of 0 kept = Some 0.
Proof. exact subset_kept_is_sorted_closure. Qed.
Check c12_subset_kept_is_sorted_closure : forall f cs kept f',
  subset f cs = Some (Subset kept f') ->
  exists k, closure f cs = Some k /\ kept = sort k /\ asc kept /\ index_of 0 kept = Some 0.
Print Assumptions c12_subset_kept_is_sorted_closure.

(** the property at table level *)
Theorem c12_subset_preserves_glyph : forall f cs r c g,
  subset f cs = Some r -> cmap f c = Some g -> In c cs ->
  exists g', cmap (result_font f r) c = Some g'
             /\ (forall fuel, flatten fuel (result_font f r) g' = flatten fuel f g)
             /\ advance (result_font f r) g' = advance f g.
Proof. exact subset_preserves_glyph. Qed.
Check c12_subset_preserves_glyph : forall f cs r c g,
  subset f cs = Some r -> cmap f c = Some g -> In c cs ->
  exists g', cmap (result_font f r) c = Some g'
             /\ (forall fuel, flatten fuel (result_font f r) g' = flatten fuel f g)
             /\ advance (result_font f r) g' = advance f g.
Print Assumptions c12_subset_preserves_glyph.

(** [flatten] has a limit: more fuel never changes a result *)
Theorem c12_flatten_fuel_mono : forall f k g r, flatten k f g = Some r -> flatten (S k) f g = Some r.
Proof. exact flatten_fuel_mono. Qed.
Check c12_flatten_fuel_mono : forall f k g r, flatten k f g = Some r -> flatten (S k) f g = Some r.
Print Assumptions c12_flatten_fuel_mono.

(** non-vacuity: a well-formed font with a composite chain, subset for a set that reaches it *)
Example c12_nonvacuous_wf : wf ex_font.
Proof. exact ex_wf. Qed.
Example c12_nonvacuous_subset :
  match subset ex_font [65; 66; 67] with
  | Some (Subset kept f') =>
      kept = [0; 2; 3; 4; 5; 7] /\ cmap f' 65 = Some 4 /\ cmap f' 67 = None
      /\ comp_gids (glyphs f' 4) = [2; 3] /\ comp_gids (glyphs f' 3) = [1]
      /\ flatten 12 f' 4 = flatten 12 ex_font 5 /\ flatten 12 ex_font 5 <> None
  | _ => False
  end.
Proof. exact ex_subset. Qed.

(** NOT proved (validated per output by the correspondence run, see notes):
    subset_wellformed : Sfnt.parse (encode (subset f cs)) succeeds with consistent
    offsets/lengths/checksums; CFF charstring subsetting. *)
