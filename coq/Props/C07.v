(** C07 — every supported stream filter decodes exactly what a reference encoder encoded.
    Only statements here; proofs live in theories/C07/Proofs*.v. *)
From OxVerif Require Import C07.Proofs C07.LzwBits C07.LzwFull.
From OxGen Require Import FilterConsts.
Require Import Lia.

(** ASCIIHex: every encoding the ISO text allows (either case, white space anywhere, EOD optional,
    odd final digit) decodes to the original, under any limit that fits it *)
Theorem c07_hex_roundtrip : forall e x L, hex_encodes e x -> (len x <= L)%N -> decode_hex_lim e L = Some x.
Proof. exact hex_roundtrip_rel. Qed.
Check c07_hex_roundtrip : forall e x L, hex_encodes e x -> (len x <= L)%N -> decode_hex_lim e L = Some x.
Print Assumptions c07_hex_roundtrip.

Theorem c07_hex_encoder_roundtrip : forall x, bytes_ok x = true -> (len x <= MAX_DECOMPRESSED_SIZE)%N ->
  decode_hex (encode_hex x) = Some x.
Proof. exact hex_roundtrip. Qed.
Check c07_hex_encoder_roundtrip : forall x, bytes_ok x = true -> (len x <= MAX_DECOMPRESSED_SIZE)%N -> decode_hex (encode_hex x) = Some x.
Print Assumptions c07_hex_encoder_roundtrip.

Theorem c07_hex_ws_irrelevant : forall e e' L, iso_strip e = iso_strip e' -> decode_hex_lim e L = decode_hex_lim e' L.
Proof. exact hex_ws_irrelevant. Qed.
Check c07_hex_ws_irrelevant : forall e e' L, iso_strip e = iso_strip e' -> decode_hex_lim e L = decode_hex_lim e' L.
Print Assumptions c07_hex_ws_irrelevant.

(** ASCII85: `z` or five digits for a zero group, partial final group, EOD, optional lead-in, white space *)
Theorem c07_a85_roundtrip : forall e x L, a85_encodes e x -> (len x <= L)%N -> decode_a85_lim e L = Some x.
Proof. exact a85_roundtrip_rel. Qed.
Check c07_a85_roundtrip : forall e x L, a85_encodes e x -> (len x <= L)%N -> decode_a85_lim e L = Some x.
Print Assumptions c07_a85_roundtrip.

(** RunLength: every segmentation into literal and repeat runs *)
Theorem c07_rl_roundtrip : forall e x L, rl_enc e x -> (len x <= L)%N -> decode_rl_lim e L = Some x.
Proof. exact rl_roundtrip_rel. Qed.
Check c07_rl_roundtrip : forall e x L, rl_enc e x -> (len x <= L)%N -> decode_rl_lim e L = Some x.
Print Assumptions c07_rl_roundtrip.

Theorem c07_rl_encoder_roundtrip : forall x, (len x <= MAX_DECOMPRESSED_SIZE)%N -> decode_rl (rl_encode x) = Some x.
Proof. exact rl_roundtrip. Qed.
Check c07_rl_encoder_roundtrip : forall x, (len x <= MAX_DECOMPRESSED_SIZE)%N -> decode_rl (rl_encode x) = Some x.
Print Assumptions c07_rl_encoder_roundtrip.

(** the executable judges used by the correspondence are sound for the relations *)
Theorem c07_judges_sound :
  (forall x s, bytes_ok x = true -> hex_enc_b s x = true -> hex_enc s x) /\
  (forall e x, rl_valid_b e x = true -> rl_enc e x).
Proof. split; [exact hex_enc_b_sound | exact rl_valid_b_sound]. Qed.
Check c07_judges_sound :
  (forall x s, bytes_ok x = true -> hex_enc_b s x = true -> hex_enc s x) /\
  (forall e x, rl_valid_b e x = true -> rl_enc e x).
Print Assumptions c07_judges_sound.


(** PNG predictors 10..15: every valid Columns/Colors/BitsPerComponent, any per-row filter types 0..4 *)
Theorem c07_png_predictor_roundtrip : forall pr columns colors bpc early tags x,
  (10 <= pr <= 15)%N -> (0 < columns)%N -> (0 < colors)%N -> (0 < bpc)%N -> (columns * colors * bpc < 4294967296)%N ->
  forallb (fun t => t <? 5)%N tags = true -> bytes_ok x = true ->
  length x = (length tags * N.to_nat (png_row_bytes columns colors bpc))%nat ->
  apply_predictor (png_forward tags (png_bpp colors bpc) (N.to_nat (png_row_bytes columns colors bpc)) x []) pr
                  (mkP (Some (Z.of_N pr)) (Some (Z.of_N columns)) (Some (Z.of_N colors)) (Some (Z.of_N bpc)) early)
  = Some x.
Proof. exact png_predictor_roundtrip. Qed.
Check c07_png_predictor_roundtrip : forall pr columns colors bpc early tags x,
  (10 <= pr <= 15)%N -> (0 < columns)%N -> (0 < colors)%N -> (0 < bpc)%N -> (columns * colors * bpc < 4294967296)%N ->
  forallb (fun t => t <? 5)%N tags = true -> bytes_ok x = true ->
  length x = (length tags * N.to_nat (png_row_bytes columns colors bpc))%nat ->
  apply_predictor (png_forward tags (png_bpp colors bpc) (N.to_nat (png_row_bytes columns colors bpc)) x []) pr
                  (mkP (Some (Z.of_N pr)) (Some (Z.of_N columns)) (Some (Z.of_N colors)) (Some (Z.of_N bpc)) early)
  = Some x.
Print Assumptions c07_png_predictor_roundtrip.

(** TIFF predictor 2 (finding C07-TIFF-PREDICTOR, repaired by fix_tiff_predictor2.patch): for BitsPerComponent
    1, 2, 4, 8, 16, any Colors >= 1 and Columns >= 1, apply_predictor undoes the TIFF 6.0 section 14 horizontal
    differencing of Codecs.v.  [tiff_params_ok] = 0 < columns, 0 < colors, bpc in {1,2,4,8,16}, columns*colors*bpc < 2^32.
    [tiff_canonical_rows]: every row of x is the packing of its own samples, i.e. the padding bits after the last
    sample of a row are zero (the decoder writes zero padding); it holds for every x at 8 and 16 bits (next two theorems)
    and is decidable ([tiff_canonical_rows_b], evaluated by the case judge). *)
Theorem c07_tiff_predictor_roundtrip : forall columns colors bpc early rows x,
  tiff_params_ok columns colors bpc ->
  let n := N.to_nat (columns * colors) in
  let rb := N.to_nat (png_row_bytes columns colors bpc) in
  bytes_ok x = true -> length x = (rows * rb)%nat -> tiff_canonical_rows rows bpc n rb x ->
  apply_predictor (tiff_forward rows bpc colors n rb x) 2
                  (mkP (Some 2%Z) (Some (Z.of_N columns)) (Some (Z.of_N colors)) (Some (Z.of_N bpc)) early)
  = Some x.
Proof. exact tiff_predictor_roundtrip. Qed.
Check c07_tiff_predictor_roundtrip : forall columns colors bpc early rows x,
  tiff_params_ok columns colors bpc ->
  let n := N.to_nat (columns * colors) in
  let rb := N.to_nat (png_row_bytes columns colors bpc) in
  bytes_ok x = true -> length x = (rows * rb)%nat -> tiff_canonical_rows rows bpc n rb x ->
  apply_predictor (tiff_forward rows bpc colors n rb x) 2
                  (mkP (Some 2%Z) (Some (Z.of_N columns)) (Some (Z.of_N colors)) (Some (Z.of_N bpc)) early)
  = Some x.
Print Assumptions c07_tiff_predictor_roundtrip.

Theorem c07_tiff_predictor_roundtrip_8 : forall columns colors early rows x,
  (0 < columns)%N -> (0 < colors)%N -> (columns * colors * 8 < 4294967296)%N ->
  bytes_ok x = true -> length x = (rows * N.to_nat (columns * colors))%nat ->
  apply_predictor (tiff_forward rows 8 colors (N.to_nat (columns * colors)) (N.to_nat (columns * colors)) x) 2
                  (mkP (Some 2%Z) (Some (Z.of_N columns)) (Some (Z.of_N colors)) (Some 8%Z) early) = Some x.
Proof. exact tiff_predictor_roundtrip_8. Qed.
Check c07_tiff_predictor_roundtrip_8 : forall columns colors early rows x,
  (0 < columns)%N -> (0 < colors)%N -> (columns * colors * 8 < 4294967296)%N ->
  bytes_ok x = true -> length x = (rows * N.to_nat (columns * colors))%nat ->
  apply_predictor (tiff_forward rows 8 colors (N.to_nat (columns * colors)) (N.to_nat (columns * colors)) x) 2
                  (mkP (Some 2%Z) (Some (Z.of_N columns)) (Some (Z.of_N colors)) (Some 8%Z) early) = Some x.
Print Assumptions c07_tiff_predictor_roundtrip_8.

Theorem c07_tiff_predictor_roundtrip_16 : forall columns colors early rows x,
  (0 < columns)%N -> (0 < colors)%N -> (columns * colors * 16 < 4294967296)%N ->
  bytes_ok x = true -> length x = (rows * (2 * N.to_nat (columns * colors)))%nat ->
  apply_predictor (tiff_forward rows 16 colors (N.to_nat (columns * colors)) (2 * N.to_nat (columns * colors)) x) 2
                  (mkP (Some 2%Z) (Some (Z.of_N columns)) (Some (Z.of_N colors)) (Some 16%Z) early) = Some x.
Proof. exact tiff_predictor_roundtrip_16. Qed.
Check c07_tiff_predictor_roundtrip_16 : forall columns colors early rows x,
  (0 < columns)%N -> (0 < colors)%N -> (columns * colors * 16 < 4294967296)%N ->
  bytes_ok x = true -> length x = (rows * (2 * N.to_nat (columns * colors)))%nat ->
  apply_predictor (tiff_forward rows 16 colors (N.to_nat (columns * colors)) (2 * N.to_nat (columns * colors)) x) 2
                  (mkP (Some 2%Z) (Some (Z.of_N columns)) (Some (Z.of_N colors)) (Some 16%Z) early) = Some x.
Print Assumptions c07_tiff_predictor_roundtrip_16.

(** every depth, rows ending on a byte boundary: every x of the right length *)
Theorem c07_tiff_predictor_roundtrip_aligned : forall columns colors bpc early rows x,
  tiff_params_ok columns colors bpc -> ((columns * colors * bpc) mod 8 = 0)%N ->
  bytes_ok x = true -> length x = (rows * N.to_nat (png_row_bytes columns colors bpc))%nat ->
  apply_predictor (tiff_forward rows bpc colors (N.to_nat (columns * colors)) (N.to_nat (png_row_bytes columns colors bpc)) x) 2
                  (mkP (Some 2%Z) (Some (Z.of_N columns)) (Some (Z.of_N colors)) (Some (Z.of_N bpc)) early) = Some x.
Proof. exact tiff_predictor_roundtrip_aligned. Qed.
Check c07_tiff_predictor_roundtrip_aligned : forall columns colors bpc early rows x,
  tiff_params_ok columns colors bpc -> ((columns * colors * bpc) mod 8 = 0)%N ->
  bytes_ok x = true -> length x = (rows * N.to_nat (png_row_bytes columns colors bpc))%nat ->
  apply_predictor (tiff_forward rows bpc colors (N.to_nat (columns * colors)) (N.to_nat (png_row_bytes columns colors bpc)) x) 2
                  (mkP (Some 2%Z) (Some (Z.of_N columns)) (Some (Z.of_N colors)) (Some (Z.of_N bpc)) early) = Some x.
Print Assumptions c07_tiff_predictor_roundtrip_aligned.

(** one row: the per-sample identity ((x - p) + p) mod 2^bpc = x lifted over the row, plus unpack/pack *)
Theorem c07_tiff_row_roundtrip : forall bpc colors n row,
  tiff_bpc_ok bpc = true -> (0 < colors)%N -> samples_ok (2 ^ bpc)%N (tiff_samples bpc n row) ->
  (bpc <> 16%N -> length (tiff_samples bpc n row) = n) -> tiff_canonical bpc n row ->
  tiff_row bpc colors (N.of_nat n) (tiff_forward_row bpc colors n row) = row.
Proof. exact tiff_row_roundtrip. Qed.
Check c07_tiff_row_roundtrip : forall bpc colors n row,
  tiff_bpc_ok bpc = true -> (0 < colors)%N -> samples_ok (2 ^ bpc)%N (tiff_samples bpc n row) ->
  (bpc <> 16%N -> length (tiff_samples bpc n row) = n) -> tiff_canonical bpc n row ->
  tiff_row bpc colors (N.of_nat n) (tiff_forward_row bpc colors n row) = row.
Print Assumptions c07_tiff_row_roundtrip.

(** record of the behaviour before the fix ([apply_predictor_pinned] = the old definition: `_ =>` arm returns the
    data as-is): predictor 2 was passed through *)
Theorem c07_tiff_predictor_refuted : exists x ps, apply_predictor_pinned (tiff_forward8 1 1 4 x) 2 ps = Some (tiff_forward8 1 1 4 x) /\ tiff_forward8 1 1 4 x <> x.
Proof. exact tiff_predictor_roundtrip_refuted. Qed.
Check c07_tiff_predictor_refuted : exists x ps, apply_predictor_pinned (tiff_forward8 1 1 4 x) 2 ps = Some (tiff_forward8 1 1 4 x) /\ tiff_forward8 1 1 4 x <> x.
Print Assumptions c07_tiff_predictor_refuted.

(** chains: any length; each stage's round trip composes (Flate's inflate is a Section variable pair) *)
Theorem c07_chain_roundtrip : forall zlib recover dp fs d x,
  decodes_chain zlib recover dp 0 fs d x -> decode_stream zlib recover (Some fs) dp d = Some x.
Proof. exact chain_roundtrip. Qed.
Check c07_chain_roundtrip : forall zlib recover dp fs d x,
  decodes_chain zlib recover dp 0 fs d x -> decode_stream zlib recover (Some fs) dp d = Some x.
Print Assumptions c07_chain_roundtrip.

Theorem c07_stage_roundtrips : forall zlib recover p e x L, no_pred p -> (len x <= 67108864)%N -> (len x <= L)%N ->
  (hex_encodes e x -> apply_filter_with_params zlib recover FHex p e = Some x /\ stage_lim zlib FHex p e L = Some x) /\
  (a85_encodes e x -> apply_filter_with_params zlib recover F85 p e = Some x /\ stage_lim zlib F85 p e L = Some x) /\
  (rl_enc e x -> apply_filter_with_params zlib recover FRl p e = Some x /\ stage_lim zlib FRl p e L = Some x) /\
  (zlib e = Some x -> apply_filter_with_params zlib recover FFlate p e = Some x /\ stage_lim zlib FFlate p e L = Some x).
Proof.
  intros zlib recover p e x L Hp HM HL. assert (len x <= MAX_DECOMPRESSED_SIZE)%N by (change MAX_DECOMPRESSED_SIZE with 268435456%N; lia).
  repeat split; intros; first [eapply stage_hex | eapply stage_a85 | eapply stage_rl | eapply stage_flate]; eassumption.
Qed.
Check c07_stage_roundtrips : forall zlib recover p e x L, no_pred p -> (len x <= 67108864)%N -> (len x <= L)%N ->
  (hex_encodes e x -> apply_filter_with_params zlib recover FHex p e = Some x /\ stage_lim zlib FHex p e L = Some x) /\
  (a85_encodes e x -> apply_filter_with_params zlib recover F85 p e = Some x /\ stage_lim zlib F85 p e L = Some x) /\
  (rl_enc e x -> apply_filter_with_params zlib recover FRl p e = Some x /\ stage_lim zlib FRl p e L = Some x) /\
  (zlib e = Some x -> apply_filter_with_params zlib recover FFlate p e = Some x /\ stage_lim zlib FFlate p e L = Some x).
Print Assumptions c07_stage_roundtrips.

(** LZW: the reference encoder of ISO 32000-1 7.4.4 (both EarlyChange values, Clear at table full, EOD)
    against the code-shaped decoder model, ALL inputs (theories/C07/LzwBits.v, LzwFull.v).  The hypothesis
    len x <= limit is needed: the decoder refuses to produce more than the limit. *)
Theorem c07_lzw_roundtrip : forall ec x, bytes_ok x = true -> (len x <= MAX_DECOMPRESSED_SIZE)%N ->
  decode_lzw (lzw_encode ec x) ec = Some x.
Proof. exact lzw_roundtrip. Qed.
Check c07_lzw_roundtrip : forall ec x, bytes_ok x = true -> (len x <= MAX_DECOMPRESSED_SIZE)%N ->
  decode_lzw (lzw_encode ec x) ec = Some x.
Print Assumptions c07_lzw_roundtrip.

(** the same under any limit that fits the result (decode_lzw_with_limit) *)
Theorem c07_lzw_roundtrip_lim : forall ec x L, bytes_ok x = true -> (len x <= L)%N ->
  decode_lzw_lim (lzw_encode ec x) ec L = Some x.
Proof. exact lzw_roundtrip_lim. Qed.
Check c07_lzw_roundtrip_lim : forall ec x L, bytes_ok x = true -> (len x <= L)%N ->
  decode_lzw_lim (lzw_encode ec x) ec L = Some x.
Print Assumptions c07_lzw_roundtrip_lim.

(** layer (c): MSB-first variable-width packing, read back with the same width schedule *)
Theorem c07_lzw_unpack_pack : forall cws, Forall cw_ok cws ->
  unpack_codes (map snd cws) (bits_of (pack_codes cws)) = Some (map fst cws).
Proof. exact unpack_pack. Qed.
Check c07_lzw_unpack_pack : forall cws, Forall cw_ok cws ->
  unpack_codes (map snd cws) (bits_of (pack_codes cws)) = Some (map fst cws).
Print Assumptions c07_lzw_unpack_pack.

(** layer (b): the decoder's width update once its table holds [next] entries is the encoder's
    [widen ec (next+1)] (the decoder lags one entry: thresholds 2^w - 1 / 2^w against 2^w / 2^w + 1) *)
Theorem c07_lzw_width_agreement : forall (ec : bool) next cs, (9 <= cs <= 12)%N ->
  (if ((if ec then 2 ^ cs - 1 else 2 ^ cs) <=? next)%N && (cs <? 12)%N then cs + 1 else cs)%N = widen ec (next + 1) cs.
Proof. exact dec_widen. Qed.
Check c07_lzw_width_agreement : forall (ec : bool) next cs, (9 <= cs <= 12)%N ->
  (if ((if ec then 2 ^ cs - 1 else 2 ^ cs) <=? next)%N && (cs <? 12)%N then cs + 1 else cs)%N = widen ec (next + 1) cs.
Print Assumptions c07_lzw_width_agreement.

(** layers (a)+(d): one decoder step on the code the encoder emits, under the lock-step invariant [Inv]
    (decoder dictionary = encoder dictionary [E] without its newest entry; KwKwK included): the decoder
    outputs the code's string in the ENCODER's dictionary and its table becomes [E]; its
    "table full" branch is not taken (next <= 4096 is part of [Inv]) *)
Theorem c07_lzw_lockstep_step : forall ec w tbl next cs E rd dlen prev f bs n L,
  Inv w tbl next cs E rd dlen prev -> (n + len (dict_get E next w) <= L)%N ->
  lzw_loop (S f) ec (code_bits (N.to_nat cs) w ++ bs) rd dlen cs prev n L =
  napp (dict_get E next w)
       (lzw_loop f ec bs E next (widen ec (next + 1) cs) (Some w) (n + len (dict_get E next w)) L).
Proof. exact dec_emit. Qed.
Check c07_lzw_lockstep_step : forall ec w tbl next cs E rd dlen prev f bs n L,
  Inv w tbl next cs E rd dlen prev -> (n + len (dict_get E next w) <= L)%N ->
  lzw_loop (S f) ec (code_bits (N.to_nat cs) w ++ bs) rd dlen cs prev n L =
  napp (dict_get E next w)
       (lzw_loop f ec bs E next (widen ec (next + 1) cs) (Some w) (n + len (dict_get E next w)) L).
Print Assumptions c07_lzw_lockstep_step.

(** the LZW stage of both chain drivers (completes c07_stage_roundtrips) *)
Theorem c07_lzw_stage_roundtrip : forall zlib recover p ec x L, no_pred p -> spec_early p = Some ec ->
  bytes_ok x = true -> (len x <= MAX_DECOMPRESSED_SIZE)%N -> (len x <= L)%N ->
  apply_filter_with_params zlib recover FLzw p (lzw_encode ec x) = Some x /\
  stage_lim zlib FLzw p (lzw_encode ec x) L = Some x.
Proof. exact stage_lzw. Qed.
Check c07_lzw_stage_roundtrip : forall zlib recover p ec x L, no_pred p -> spec_early p = Some ec ->
  bytes_ok x = true -> (len x <= MAX_DECOMPRESSED_SIZE)%N -> (len x <= L)%N ->
  apply_filter_with_params zlib recover FLzw p (lzw_encode ec x) = Some x /\
  stage_lim zlib FLzw p (lzw_encode ec x) L = Some x.
Print Assumptions c07_lzw_stage_roundtrip.

(** kept as a computed sanity check of the theorem above (inputs crossing every width boundary and the reset) *)
Theorem c07_lzw_roundtrip_partial :
  forallb (fun ec => forallb (fun n => let x := lzw_probe n in
     option_eqb bytes_eqb (decode_lzw (lzw_encode ec x) ec) (Some x)) [0; 1; 2; 255; 256; 600; 1200; 2400; 4200]%N)
    [true; false] = true.
Proof. exact lzw_boundaries_computed. Qed.
Check c07_lzw_roundtrip_partial :
  forallb (fun ec => forallb (fun n => let x := lzw_probe n in
     option_eqb bytes_eqb (decode_lzw (lzw_encode ec x) ec) (Some x)) [0; 1; 2; 255; 256; 600; 1200; 2400; 4200]%N)
    [true; false] = true.
Print Assumptions c07_lzw_roundtrip_partial.

(** non-vacuity of the hypotheses *)
Example c07_nonvacuous_hex : hex_encodes (bytes_of_string "4a 6B
7>") [74; 107; 112]%N.
Proof. unfold hex_encodes. apply hex_enc_b_sound; vm_compute; reflexivity. Qed.
Example c07_nonvacuous_rl : rl_enc [1; 7; 8; 254; 9; 128]%N [7; 8; 9; 9; 9]%N.
Proof. apply rl_valid_b_sound. vm_compute. reflexivity. Qed.
Example c07_nonvacuous_a85 : decode_a85 (bytes_of_string "<~87cURD]i,""Ebo80~>") = Some (bytes_of_string "Hello World!").
Proof. vm_compute. reflexivity. Qed.
Example c07_nonvacuous_png : apply_predictor (png_forward [4; 3; 1]%N (png_bpp 3 8) (N.to_nat (png_row_bytes 2 3 8)) [1;2;3;4;5;6; 9;8;7;6;5;4; 250;0;3;1;255;7]%N []) 15
    (mkP (Some 15%Z) (Some 2%Z) (Some 3%Z) (Some 8%Z) None) = Some [1;2;3;4;5;6; 9;8;7;6;5;4; 250;0;3;1;255;7]%N.
Proof. exact png_predictor_roundtrip_nonvacuous. Qed.
Example c07_nonvacuous_tiff4 :
  let x := [18; 52; 86; 120; 144;  255; 238; 221; 204; 176]%N in
  tiff_params_ok 3 3 4 /\ tiff_canonical_rows 2 4 9 5 x /\
  tiff_forward 2 4 3 9 5 x <> x /\
  apply_predictor (tiff_forward 2 4 3 9 5 x) 2 (mkP (Some 2%Z) (Some 3%Z) (Some 3%Z) (Some 4%Z) None) = Some x.
Proof. exact tiff_predictor_roundtrip_nonvacuous_4. Qed.
Example c07_nonvacuous_tiff16 :
  let x := [0; 1; 255; 255; 18; 52; 0; 0]%N in
  tiff_forward 1 16 2 4 8 x <> x /\
  apply_predictor (tiff_forward 1 16 2 4 8 x) 2 (mkP (Some 2%Z) (Some 2%Z) (Some 2%Z) (Some 16%Z) None) = Some x.
Proof. exact tiff_predictor_roundtrip_nonvacuous_16. Qed.
Example c07_tiff_msb_first :
  (tiff_samples 2 4 [180] = [2; 3; 1; 0] /\ tiff_samples 4 2 [180] = [11; 4] /\ tiff_samples 1 8 [180] = [1;0;1;1;0;1;0;0] /\
  tiff_samples 16 1 [18; 52] = [4660] /\ tiff_pack 4 [11; 4; 7] = [180; 112] /\ tiff_pack 1 [1; 1; 0] = [192] /\
  unpack_samples [180] 2 4 = [2; 3; 1; 0] /\ pack_samples [11; 4; 7] 4 = [180; 112])%N.
Proof. exact tiff_msb_first. Qed.
Example c07_nonvacuous_lzw : bytes_ok [97; 97; 97; 97; 97; 98; 97; 98; 97]%N = true /\
  lzw_encode true [97; 97; 97; 97; 97; 98; 97; 98; 97]%N <> [] /\
  decode_lzw (lzw_encode false [97; 97; 97; 97; 97; 98; 97; 98; 97]%N) false = Some [97; 97; 97; 97; 97; 98; 97; 98; 97]%N.
Proof. exact lzw_roundtrip_nonvacuous. Qed.
Example c07_nonvacuous_lzw_inv : forall k, (k < 256)%N -> Inv k (PM.empty N) 258 9 [] [] 258 None.
Proof. exact Inv_fresh. Qed.
