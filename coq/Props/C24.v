(** C24 — embedded raster images decode to the pixels that were supplied.
    Only statements here; proofs live in theories/C24/Proofs*.v. *)
From OxVerif Require Import Base.Util C07.Filters C07.Predictor C07.Codecs C24.Png C24.Model C24.Check.
From OxVerif Require Import C24.ProofsRow C24.ProofsPix C24.Proofs C24.ProofsC07.

(** unfilter_row computes the reconstruction functions of the PNG standard for every filter byte and row *)
Theorem c24_unfilter_row_is_recon : forall ft bpp prev row, 1 <= bpp ->
  m_unfilter_row ft row prev bpp = recon_row ft bpp prev row.
Proof. exact unfilter_row_is_recon. Qed.
Check c24_unfilter_row_is_recon : forall ft bpp prev row, 1 <= bpp -> m_unfilter_row ft row prev bpp = recon_row ft bpp prev row.
Print Assumptions c24_unfilter_row_is_recon.

(** the row loop of decode_image_data is the standard's scanline loop (row-by-row invariant) *)
Theorem c24_rows_is_recon : forall rb bpp, 1 <= bpp -> forall h raw prev,
  (h * S rb <= length raw)%nat ->
  m_rows h (S rb) bpp raw prev =
  match recon_rows h rb bpp raw prev with Some rows => Some (concat rows) | None => None end.
Proof. exact m_rows_is_recon. Qed.
Check c24_rows_is_recon : forall rb bpp, 1 <= bpp -> forall h raw prev, (h * S rb <= length raw)%nat ->
  m_rows h (S rb) bpp raw prev = match recon_rows h rb bpp raw prev with Some rows => Some (concat rows) | None => None end.
Print Assumptions c24_rows_is_recon.

(** main theorem: all widths, heights, filter bytes and data *)
Theorem c24_png_model_eq_spec_8bit : forall (inflate : bytes -> option bytes) ihdr_data idat raw plte i ps,
  inflate idat = Some raw -> parse_ihdr ihdr_data = Some i ->
  i_bd i = 8 -> i_il i = 0 -> In (i_ct i) [0; 2; 4; 6] ->
  spec_pixels ihdr_data plte None raw = Some ps ->
  exists x, m_from_png inflate ihdr_data idat = Some x /\ xobj_pixels x = Some ps.
Proof. exact png_model_eq_spec_8bit. Qed.
Check c24_png_model_eq_spec_8bit : forall (inflate : bytes -> option bytes) ihdr_data idat raw plte i ps,
  inflate idat = Some raw -> parse_ihdr ihdr_data = Some i -> i_bd i = 8 -> i_il i = 0 -> In (i_ct i) [0; 2; 4; 6] ->
  spec_pixels ihdr_data plte None raw = Some ps ->
  exists x, m_from_png inflate ihdr_data idat = Some x /\ xobj_pixels x = Some ps.
Print Assumptions c24_png_model_eq_spec_8bit.

Theorem c24_png_model_eq_spec_8bit_nonvacuous :
  exists i ps, parse_ihdr ex_ihdr = Some i /\ i_bd i = 8 /\ i_il i = 0 /\ ct8 (i_ct i) /\
               spec_pixels ex_ihdr None None ex_raw = Some ps /\ length ps = 4%nat /\
               png_decodes_right ex_ihdr None None ex_raw = true /\ ~ known_class i None.
Proof. exact png_model_eq_spec_8bit_nonvacuous. Qed.
Check c24_png_model_eq_spec_8bit_nonvacuous :
  exists i ps, parse_ihdr ex_ihdr = Some i /\ i_bd i = 8 /\ i_il i = 0 /\ ct8 (i_ct i) /\
               spec_pixels ex_ihdr None None ex_raw = Some ps /\ length ps = 4%nat /\
               png_decodes_right ex_ihdr None None ex_raw = true /\ ~ known_class i None.
Print Assumptions c24_png_model_eq_spec_8bit_nonvacuous.

(** guarded positive theorem: outside the known classes the property holds on the model *)
Theorem c24_png_decodes_right_outside_known : forall ih plte trns raw i,
  parse_ihdr ih = Some i -> ~ known_class i trns -> png_decodes_right ih plte trns raw = true.
Proof. exact png_decodes_right_outside_known. Qed.
Check c24_png_decodes_right_outside_known : forall ih plte trns raw i,
  parse_ihdr ih = Some i -> ~ (i_il i <> 0 \/ i_ct i = 3 \/ i_bd i <> 8 \/ trns <> None) -> png_decodes_right ih plte trns raw = true.
Print Assumptions c24_png_decodes_right_outside_known.

(** /SMask = the alpha samples *)
Theorem c24_smask_is_alpha : forall (inflate : bytes -> option bytes) ihdr_data idat raw plte i ps,
  inflate idat = Some raw -> parse_ihdr ihdr_data = Some i ->
  i_bd i = 8 -> i_il i = 0 -> In (i_ct i) [4; 6] ->
  spec_pixels ihdr_data plte None raw = Some ps ->
  exists x m, m_from_png inflate ihdr_data idat = Some x /\ x_smask x = Some m /\
              m_data m = map p_a ps /\ Forall (fun p => p_amax p = 255) ps /\
              m_bpc m = 8%Z /\ m_cs m = 1 /\ m_plain m = true /\ m_w m = x_w x /\ m_h m = x_h x.
Proof. exact smask_is_alpha. Qed.
Check c24_smask_is_alpha :
  forall (inflate : bytes -> option bytes) ihdr_data idat raw plte i ps,
  inflate idat = Some raw -> parse_ihdr ihdr_data = Some i ->
  i_bd i = 8 -> i_il i = 0 -> In (i_ct i) [4; 6] ->
  spec_pixels ihdr_data plte None raw = Some ps ->
  exists x m, m_from_png inflate ihdr_data idat = Some x /\ x_smask x = Some m /\
              m_data m = map p_a ps /\ Forall (fun p => p_amax p = 255) ps /\
              m_bpc m = 8%Z /\ m_cs m = 1 /\ m_plain m = true /\ m_w m = x_w x /\ m_h m = x_h x.
Print Assumptions c24_smask_is_alpha.

(** raw Gray / RGB / RGBA buffers are embedded sample for sample, alpha split correct *)
Theorem c24_raw_rgb_identity :
  (forall data w h cs bpc,
     m_from_raw data w h cs bpc = Some (mkX (Z.of_N w) (Z.of_N h) cs (Z.of_N bpc) true data None) /\
     forall ps, raw_pixels KRaw w h cs bpc data = Some ps ->
                exists x, m_from_raw data w h cs bpc = Some x /\ xobj_pixels x = Some ps) /\
  (forall data w h, 0 < w -> 0 < h -> lenN data = w * h ->
     exists x, m_from_gray data w h = Some x /\ x_data x = data /\
               xobj_pixels x = Some (map (fun g => opaque [g] 255) data)) /\
  (forall data w h, 0 < w -> 0 < h -> lenN data = w * h * 4 ->
     exists x m, m_from_rgba data w h = Some x /\ x_smask x = Some m /\
                 xobj_pixels x = Some (rgba_pixels data) /\ m_data m = map p_a (rgba_pixels data)).
Proof. exact raw_rgb_identity. Qed.
Check c24_raw_rgb_identity :
  (forall data w h cs bpc,
     m_from_raw data w h cs bpc = Some (mkX (Z.of_N w) (Z.of_N h) cs (Z.of_N bpc) true data None) /\
     forall ps, raw_pixels KRaw w h cs bpc data = Some ps ->
                exists x, m_from_raw data w h cs bpc = Some x /\ xobj_pixels x = Some ps) /\
  (forall data w h, 0 < w -> 0 < h -> lenN data = w * h ->
     exists x, m_from_gray data w h = Some x /\ x_data x = data /\
               xobj_pixels x = Some (map (fun g => opaque [g] 255) data)) /\
  (forall data w h, 0 < w -> 0 < h -> lenN data = w * h * 4 ->
     exists x m, m_from_rgba data w h = Some x /\ x_smask x = Some m /\
                 xobj_pixels x = Some (rgba_pixels data) /\ m_data m = map p_a (rgba_pixels data)).
Print Assumptions c24_raw_rgb_identity.

(** Png.v's reconstruction (and the decoder model) invert the forward filters of the standard (C07/Codecs.v) *)
Theorem c24_recon_inverts_forward : forall tag bpp prior orig,
  tag < 5 -> 1 <= bpp -> bytes_ok orig = true -> bytes_ok prior = true ->
  recon_row tag bpp prior (png_filter_from tag bpp orig prior orig 0) = Some orig.
Proof. exact recon_inverts_forward. Qed.
Check c24_recon_inverts_forward :
  forall tag bpp prior orig,
  tag < 5 -> 1 <= bpp -> bytes_ok orig = true -> bytes_ok prior = true ->
  recon_row tag bpp prior (png_filter_from tag bpp orig prior orig 0) = Some orig.
Print Assumptions c24_recon_inverts_forward.
Theorem c24_unfilter_inverts_forward : forall tag bpp prior orig,
  tag < 5 -> 1 <= bpp -> bytes_ok orig = true -> bytes_ok prior = true ->
  m_unfilter_row tag (png_filter_from tag bpp orig prior orig 0) prior bpp = Some orig.
Proof. exact unfilter_inverts_forward. Qed.
Check c24_unfilter_inverts_forward :
  forall tag bpp prior orig,
  tag < 5 -> 1 <= bpp -> bytes_ok orig = true -> bytes_ok prior = true ->
  m_unfilter_row tag (png_filter_from tag bpp orig prior orig 0) prior bpp = Some orig.
Print Assumptions c24_unfilter_inverts_forward.

(** refutation witnesses (pinned tree) *)
Theorem c24_png_subbyte_refuted : refuted (fun i _ => i_ct i = 0 /\ i_bd i = 1 /\ i_il i = 0).
Proof. exact png_subbyte_refuted. Qed.
Check c24_png_subbyte_refuted :
  refuted (fun i _ => i_ct i = 0 /\ i_bd i = 1 /\ i_il i = 0).
Print Assumptions c24_png_subbyte_refuted.
Theorem c24_png_subbyte_w1_refuted : refuted (fun i _ => i_ct i = 0 /\ i_bd i = 1 /\ i_w i = 1).
Proof. exact png_subbyte_w1_refuted. Qed.
Check c24_png_subbyte_w1_refuted :
  refuted (fun i _ => i_ct i = 0 /\ i_bd i = 1 /\ i_w i = 1).
Print Assumptions c24_png_subbyte_w1_refuted.
Theorem c24_png_palette_refuted : refuted (fun i _ => i_ct i = 3 /\ i_bd i = 8 /\ i_il i = 0).
Proof. exact png_palette_refuted. Qed.
Check c24_png_palette_refuted :
  refuted (fun i _ => i_ct i = 3 /\ i_bd i = 8 /\ i_il i = 0).
Print Assumptions c24_png_palette_refuted.
Theorem c24_png_16bit_refuted : refuted (fun i _ => i_ct i = 0 /\ i_bd i = 16 /\ i_il i = 0).
Proof. exact png_16bit_refuted. Qed.
Check c24_png_16bit_refuted :
  refuted (fun i _ => i_ct i = 0 /\ i_bd i = 16 /\ i_il i = 0).
Print Assumptions c24_png_16bit_refuted.
Theorem c24_png_16bit_alpha_refuted : refuted (fun i _ => i_ct i = 4 /\ i_bd i = 16 /\ i_il i = 0).
Proof. exact png_16bit_alpha_refuted. Qed.
Check c24_png_16bit_alpha_refuted :
  refuted (fun i _ => i_ct i = 4 /\ i_bd i = 16 /\ i_il i = 0).
Print Assumptions c24_png_16bit_alpha_refuted.
Theorem c24_png_trns_refuted : refuted (fun i t => i_ct i = 0 /\ i_bd i = 8 /\ i_il i = 0 /\ t <> None).
Proof. exact png_trns_refuted. Qed.
Check c24_png_trns_refuted :
  refuted (fun i t => i_ct i = 0 /\ i_bd i = 8 /\ i_il i = 0 /\ t <> None).
Print Assumptions c24_png_trns_refuted.
Theorem c24_png_interlace_refuted : refuted (fun i _ => i_il i = 1 /\ i_bd i = 8 /\ i_ct i = 0).
Proof. exact png_interlace_refuted. Qed.
Check c24_png_interlace_refuted :
  refuted (fun i _ => i_il i = 1 /\ i_bd i = 8 /\ i_ct i = 0).
Print Assumptions c24_png_interlace_refuted.
