(** C09 — serialized objects parse back to the same value.
    Only statements here; proofs live in theories/C09/{Tokens,FracSweep,Proofs,Reals,Full,IncrFull}.v.

    FULL STATEMENT (proved below as c09_ser_parse_roundtrip, by structural induction over
    arbitrarily nested arrays/dictionaries; theories/C09/Full.v):
      c09_ser_parse_roundtrip :
        forall v, wf v = true -> parse (ser esc_iso v) = Some (norm v).
    where [ser esc_iso] is the repaired writer (names #XX-escaped, ISO 32000-1 7.3.5) and [wf] requires
    names of bytes (EVERY name), integral reals within i64, object numbers <= 9 999 999
    and no [i g /R] inside an array (the three open classes, each refuted below by a witness),
    besides the type invariants of the Rust values (i64 integers, u8 bytes, u16 generations).
    STRING LEVEL (reader after fix_name_utf8: decoded name bytes that are valid UTF-8 are the String):
      c09_ser_parse_roundtrip_strings :
        forall v, wf v = true -> utf8_names v = true -> option_map strview (parse (ser esc_iso v)) = Some (norm v).
    for EVERY tree whose names are Rust Strings (valid UTF-8), not only ASCII ones.
    INCREMENTAL WRITER (theories/C09/IncrFull.v; names #XX via esc_name, strings always hex, dictionaries
    "<< /k v /k v >>" sorted by key), the same nested theorem, no [canon] needed:
      c09_incr_parse_roundtrip :
        forall v, wf_incr v = true -> parse (ser_incr v) = Some (norm v).
    where [wf_incr] = [wf] without reals (not modelled by [ser_incr]) and with bytes < 256 in literal strings
    too (they are written hex); String level c09_incr_parse_roundtrip_strings / c09_incr_parse_strings_canon;
    verdict link c09_incr_code_never_2.
    The [_partial] theorems are the per-token-class statements the induction is built from;
    c09_lex_nested / c09_parse_nested are its two continuation-style layers.

    INDEPENDENT READER (theories/C09/Lex.v, written from ISO 32000-1 7.2/7.3; proofs LexFull.v):
      c09_ser_iso_roundtrip :
        forall v, iso_wf v = true -> iso_parse (ser esc_iso v) = Some (norm v).
    where [iso_wf] requires no CR in literal strings and bytes < 256 in names and hex strings — and nothing else: the
    [i g /R] collision, the i64 bound on integral reals and the object-number bound are flaws of the
    library's reader only.  c09_ser_both_readers: both readers, for [wf] values with [iso_extra]. *)
From OxVerif Require Import Base.Util C09.Model C09.Tokens C09.FracSweep C09.Proofs C09.Reals C09.Full C09.IncrFull C09.Lex C09.LexFull.

(** literal strings: every byte string, whatever follows *)
Theorem c09_literal_string_roundtrip : forall s rest,
  read_lit (esc_str s ++ 41 :: rest) 0 = Some (s, rest).
Proof. exact read_lit_esc. Qed.
Check c09_literal_string_roundtrip : forall s rest, read_lit (esc_str s ++ 41 :: rest) 0 = Some (s, rest).
Print Assumptions c09_literal_string_roundtrip.

Theorem c09_string_token_partial : forall s rest,
  lex1 (ser esc_iso (OStr s) ++ rest) = (TStr s, rest).
Proof. exact (lex_ser_str esc_iso). Qed.
Check c09_string_token_partial : forall s rest, lex1 (ser esc_iso (OStr s) ++ rest) = (TStr s, rest).
Print Assumptions c09_string_token_partial.

(** hex strings: every string of bytes *)
Theorem c09_hex_token_partial : forall s rest, bytes_ok s = true ->
  lex1 (ser esc_iso (OHex s) ++ rest) = (TStr s, rest).
Proof. exact (lex_ser_hex esc_iso). Qed.
Check c09_hex_token_partial : forall s rest, bytes_ok s = true -> lex1 (ser esc_iso (OHex s) ++ rest) = (TStr s, rest).
Print Assumptions c09_hex_token_partial.

(** names, #XX-escaped by the repaired writer (escape_pdf_name): EVERY name of bytes — white space,
    delimiters, '#', controls, bytes >= 0x80 — reads back as the same bytes *)
Theorem c09_name_token_partial : forall n rest, bytes_ok n = true -> good_rest rest ->
  lex1 (ser esc_iso (OName n) ++ rest) = (TName n, rest).
Proof. exact lex_ser_name_iso. Qed.
Check c09_name_token_partial : forall n rest, bytes_ok n = true -> good_rest rest -> lex1 (ser esc_iso (OName n) ++ rest) = (TName n, rest).
Print Assumptions c09_name_token_partial.
(** record about the writer before the repair (names raw): exactly the regular names *)
Theorem c09_name_token_pinned : forall n rest, regular_name n = true -> good_rest rest ->
  lex1 (ser raw_name (OName n) ++ rest) = (TName n, rest).
Proof. exact lex_ser_name. Qed.
Check c09_name_token_pinned : forall n rest, regular_name n = true -> good_rest rest -> lex1 (ser raw_name (OName n) ++ rest) = (TName n, rest).
Print Assumptions c09_name_token_pinned.
(** the escaper is the identity on names made of kept characters (no output change for them) *)
Theorem c09_esc_iso_plain_identity : forall n, forallb iso_plain n = true -> esc_iso n = n.
Proof. exact esc_iso_plain. Qed.
Check c09_esc_iso_plain_identity : forall n, forallb iso_plain n = true -> esc_iso n = n.
Print Assumptions c09_esc_iso_plain_identity.

(** integers: all of i64 *)
Theorem c09_int_token_partial : forall z rest, int_ok z = true -> good_rest rest ->
  lex1 (ser esc_iso (OInt z) ++ rest) = (TInt z, rest).
Proof. exact (lex_ser_int esc_iso). Qed.
Check c09_int_token_partial : forall z rest, int_ok z = true -> good_rest rest -> lex1 (ser esc_iso (OInt z) ++ rest) = (TInt z, rest).
Print Assumptions c09_int_token_partial.

Theorem c09_decimal_roundtrip : forall n, dval 0 (dec n) = n.
Proof. exact dec_val. Qed.
Check c09_decimal_roundtrip : forall n, dval 0 (dec n) = n.
Print Assumptions c09_decimal_roundtrip.

Theorem c09_null_bool_token_partial : forall rest, good_rest rest ->
  lex1 (ser esc_iso ONull ++ rest) = (TNull, rest)
  /\ forall b, lex1 (ser esc_iso (OBool b) ++ rest) = (TBool b, rest).
Proof. intros rest G. split; [apply (lex_ser_null esc_iso) | intro; apply (lex_ser_bool esc_iso)]; exact G. Qed.
Check c09_null_bool_token_partial : forall rest, good_rest rest ->
  lex1 (ser esc_iso ONull ++ rest) = (TNull, rest) /\ forall b, lex1 (ser esc_iso (OBool b) ++ rest) = (TBool b, rest).
Print Assumptions c09_null_bool_token_partial.

(** the six fraction digits after trimming denote the same millionths: all 10^6 values *)
Theorem c09_fraction_digits : forall x, x < 1000000 -> frac_ok x = true.
Proof. exact frac_sweep. Qed.
Check c09_fraction_digits : forall x, x < 1000000 -> frac_ok x = true.
Print Assumptions c09_fraction_digits.

(** reals: every finite value as the writer prints it ({:.6}, trimmed); an integral one comes back as that integer *)
Theorem c09_real_token_partial : forall neg m rest, real_ok neg m = true -> good_rest rest ->
  lex1 (ser esc_iso (OReal neg m) ++ rest) = (real_tok neg m, rest).
Proof. exact (lex_ser_real esc_iso). Qed.
Check c09_real_token_partial : forall neg m rest, real_ok neg m = true -> good_rest rest -> lex1 (ser esc_iso (OReal neg m) ++ rest) = (real_tok neg m, rest).
Print Assumptions c09_real_token_partial.

(** references: the three tokens n, g, R *)
Theorem c09_ref_tokens_partial : forall n g rest, good_rest rest ->
  (Z.of_N n <=? i64_max)%Z = true -> (Z.of_N g <=? i64_max)%Z = true ->
  exists r1 r2, lex1 (ser esc_iso (ORef n g) ++ rest) = (TInt (Z.of_N n), r1)
             /\ lex1 r1 = (TInt (Z.of_N g), r2) /\ lex1 r2 = (TName name_R, rest).
Proof. exact (lex_ser_ref esc_iso). Qed.
Check c09_ref_tokens_partial : forall n g rest, good_rest rest ->
  (Z.of_N n <=? i64_max)%Z = true -> (Z.of_N g <=? i64_max)%Z = true ->
  exists r1 r2, lex1 (ser esc_iso (ORef n g) ++ rest) = (TInt (Z.of_N n), r1)
             /\ lex1 r1 = (TInt (Z.of_N g), r2) /\ lex1 r2 = (TName name_R, rest).
Print Assumptions c09_ref_tokens_partial.

(** the incremental writer's #XX escaper: every name *)
Theorem c09_incr_name_roundtrip : forall n rest, bytes_ok n = true -> good_rest rest ->
  lex1 (47 :: esc_name n ++ rest) = (TName n, rest).
Proof. exact lex_esc_name. Qed.
Check c09_incr_name_roundtrip : forall n rest, bytes_ok n = true -> good_rest rest -> lex1 (47 :: esc_name n ++ rest) = (TName n, rest).
Print Assumptions c09_incr_name_roundtrip.

(** record about the writer BEFORE the repair (finding C09-name-raw, fixed): raw emission breaks
    'My Image'; the repaired emitter reads it back *)
Theorem c09_name_raw_refuted_pinned : exists n, regular_name n = false /\ roundtrips_pinned (OName n) = false
                                   /\ parse (ser raw_name (ODict [(n, OInt 1)])) = None
                                   /\ roundtrips (OName n) = true
                                   /\ parse (ser esc_iso (ODict [(n, OInt 1)])) = Some (PDict [(n, PInt 1)]).
Proof. exact name_raw_refuted_pinned. Qed.
Check c09_name_raw_refuted_pinned : exists n, regular_name n = false /\ roundtrips_pinned (OName n) = false
  /\ parse (ser raw_name (ODict [(n, OInt 1)])) = None /\ roundtrips (OName n) = true
  /\ parse (ser esc_iso (ODict [(n, OInt 1)])) = Some (PDict [(n, PInt 1)]).
Print Assumptions c09_name_raw_refuted_pinned.

(** RECORD of the reader before fix_name_utf8 (former finding C09-name-nonascii, fixed): with the
    one-char-per-byte view [strview_pinned] the source String "é" (UTF-8 C3 A9) came back as "Ã©"; with
    the repaired reader [strview] it comes back as itself (general: c09_ser_parse_roundtrip_strings) *)
Theorem c09_name_nonascii_refuted_pinned : exists n, wf (OName n) = true /\ ascii_name n = false
                                   /\ parse (ser esc_iso (OName n)) = Some (PName n)
                                   /\ strview_pinned (PName n) = PName [195; 131; 194; 169]
                                   /\ strview (PName n) = PName n /\ n = [195; 169].
Proof. exact name_nonascii_refuted_pinned. Qed.
Check c09_name_nonascii_refuted_pinned : exists n, wf (OName n) = true /\ ascii_name n = false
  /\ parse (ser esc_iso (OName n)) = Some (PName n) /\ strview_pinned (PName n) = PName [195; 131; 194; 169]
  /\ strview (PName n) = PName n /\ n = [195; 169].
Print Assumptions c09_name_nonascii_refuted_pinned.

(** refuted on the current tree (known findings), each by a witness *)
Theorem c09_int_int_nameR_refuted : exists v, wf v = false /\ parse (ser esc_iso v) = Some (PArr [PRef 1 0]) /\ roundtrips v = false.
Proof. exact int_int_nameR_refuted. Qed.
Check c09_int_int_nameR_refuted : exists v, wf v = false /\ parse (ser esc_iso v) = Some (PArr [PRef 1 0]) /\ roundtrips v = false.
Print Assumptions c09_int_int_nameR_refuted.

Theorem c09_real_ge_2p63_refuted : exists v, wf v = false /\ parse (ser esc_iso v) = None.
Proof. exact real_ge_2p63_refuted. Qed.
Check c09_real_ge_2p63_refuted : exists v, wf v = false /\ parse (ser esc_iso v) = None.
Print Assumptions c09_real_ge_2p63_refuted.

Theorem c09_objnum_refuted : exists v, wf v = false /\ parse (ser esc_iso v) = Some (PInt 10000000).
Proof. exact objnum_refuted. Qed.
Check c09_objnum_refuted : exists v, wf v = false /\ parse (ser esc_iso v) = Some (PInt 10000000).
Print Assumptions c09_objnum_refuted.

(** RECORD (former finding C09-incr-nonascii-name, repaired by the reader fix): Latin-1 byte E9 -> String
    "é" -> incremental writer /#C3#A9 -> old reader: two chars; repaired reader: "é" *)
Theorem c09_incr_nonascii_refuted_pinned : exists n, bytes_ok n = true /\ parse (ser_incr_name_pinned n) = Some (PName [195; 169]) /\ n = [233]
  /\ strview_pinned (PName [195; 169]) = PName [195; 131; 194; 169]
  /\ option_map strview (parse (ser_incr (OName [195; 169]))) = Some (PName [195; 169]).
Proof. exact incr_nonascii_refuted_pinned. Qed.
Check c09_incr_nonascii_refuted_pinned : exists n, bytes_ok n = true /\ parse (ser_incr_name_pinned n) = Some (PName [195; 169]) /\ n = [233]
  /\ strview_pinned (PName [195; 169]) = PName [195; 131; 194; 169]
  /\ option_map strview (parse (ser_incr (OName [195; 169]))) = Some (PName [195; 169]).
Print Assumptions c09_incr_nonascii_refuted_pinned.
(** the incremental writer's name escaper at the String level: every Rust String reads back as itself *)
Theorem c09_incr_name_roundtrip_strings : forall n, Tok.utf8_valid n = true ->
  option_map strview (parse (ser_incr (OName n))) = Some (PName n).
Proof. exact incr_name_roundtrip_strings. Qed.
Check c09_incr_name_roundtrip_strings : forall n, Tok.utf8_valid n = true ->
  option_map strview (parse (ser_incr (OName n))) = Some (PName n).
Print Assumptions c09_incr_name_roundtrip_strings.

(** THE NESTED THEOREM FOR THE INCREMENTAL WRITER: every tree [ser_incr] models (arbitrary nesting; every
    name/key of bytes, #XX-escaped; every string of bytes, written hex; dictionaries sorted by key) parses
    back to [norm v] itself — the entries come back in [sort_kv] order, which is [norm]'s, so no [canon] *)
Theorem c09_incr_parse_roundtrip : forall v, wf_incr v = true -> parse (ser_incr v) = Some (norm v).
Proof. exact incr_parse_roundtrip. Qed.
Check c09_incr_parse_roundtrip : forall v, wf_incr v = true -> parse (ser_incr v) = Some (norm v).
Print Assumptions c09_incr_parse_roundtrip.
(** in the shape the checker of channel [incr] judges by *)
Theorem c09_incr_parse_roundtrip_canon : forall v, wf_incr v = true ->
  option_map canon (parse (ser_incr v)) = Some (canon (norm v)).
Proof. exact incr_parse_roundtrip_canon. Qed.
Check c09_incr_parse_roundtrip_canon : forall v, wf_incr v = true ->
  option_map canon (parse (ser_incr v)) = Some (canon (norm v)).
Print Assumptions c09_incr_parse_roundtrip_canon.
(** [wf_incr] asks nothing that [wf] does not, except: no reals, literal strings of bytes *)
Theorem c09_wf_incr_wf : forall v, wf_incr v = true -> wf v = true.
Proof. exact wf_incr_wf. Qed.
Check c09_wf_incr_wf : forall v, wf_incr v = true -> wf v = true.
Print Assumptions c09_wf_incr_wf.
(** its bytes -> tokens layer in continuation form (the tokens -> value layer is c09_parse_nested) *)
Theorem c09_incr_lex_nested : forall v rest f, wf_incr v = true -> good_rest rest -> (length (toks v) <= f)%nat ->
  lex_all f (ser_incr v ++ rest) = toks v ++ lex_all (f - length (toks v)) rest.
Proof. exact incr_lex_all_gen. Qed.
Check c09_incr_lex_nested : forall v rest f, wf_incr v = true -> good_rest rest -> (length (toks v) <= f)%nat ->
  lex_all f (ser_incr v ++ rest) = toks v ++ lex_all (f - length (toks v)) rest.
Print Assumptions c09_incr_lex_nested.
(** String level: every tree of Rust Strings (valid UTF-8 names) reads back with the same Strings *)
Theorem c09_incr_parse_roundtrip_strings : forall v, wf_incr v = true -> utf8_names v = true ->
  option_map strview (parse (ser_incr v)) = Some (norm v).
Proof. exact incr_parse_roundtrip_strings. Qed.
Check c09_incr_parse_roundtrip_strings : forall v, wf_incr v = true -> utf8_names v = true ->
  option_map strview (parse (ser_incr v)) = Some (norm v).
Print Assumptions c09_incr_parse_roundtrip_strings.
Theorem c09_incr_parse_strings_canon : forall v, wf_incr v = true -> utf8_names v = true ->
  parse_strings (ser_incr v) = Some (canon (norm v)).
Proof. exact incr_parse_strings_canon. Qed.
Check c09_incr_parse_strings_canon : forall v, wf_incr v = true -> utf8_names v = true ->
  parse_strings (ser_incr v) = Some (canon (norm v)).
Print Assumptions c09_incr_parse_strings_canon.
(** link to the verdict of channel [incr] (FULL, no opobj_eqb-soundness needed: with equal bytes the model bit
    and the property bit of [incr_code] are the same test): "model agrees, property fails" is impossible *)
Theorem c09_incr_code_bytes_agree : forall v bs p, wf_incr v = true -> utf8_names v = true ->
  bytes_eqb (ser_incr v) bs = true ->
  incr_code (v, bs, p) = code_of (opobj_eqb (Some (canon (norm v))) p) (opobj_eqb (Some (canon (norm v))) p).
Proof. exact incr_code_bytes_agree. Qed.
Check c09_incr_code_bytes_agree : forall v bs p, wf_incr v = true -> utf8_names v = true ->
  bytes_eqb (ser_incr v) bs = true ->
  incr_code (v, bs, p) = code_of (opobj_eqb (Some (canon (norm v))) p) (opobj_eqb (Some (canon (norm v))) p).
Print Assumptions c09_incr_code_bytes_agree.
Theorem c09_incr_code_never_2 : forall v bs p, wf_incr v = true -> utf8_names v = true -> incr_code (v, bs, p) <> 2.
Proof. exact incr_code_never_2. Qed.
Check c09_incr_code_never_2 : forall v bs p, wf_incr v = true -> utf8_names v = true -> incr_code (v, bs, p) <> 2.
Print Assumptions c09_incr_code_never_2.
(** non-vacuity: a dictionary containing an array containing a non-ASCII name, a string with parentheses,
    a reference and nested dictionaries satisfies [wf_incr]; what [wf_incr] excludes *)
Example c09_incr_nonvacuous : wf_incr incr_sample = true /\ utf8_names incr_sample = true
  /\ ascii_names incr_sample = false /\ wf incr_sample = true
  /\ parse (ser_incr incr_sample) = Some (norm incr_sample)
  /\ parse_strings (ser_incr incr_sample) = Some (canon (norm incr_sample)).
Proof. exact incr_sample_ok. Qed.
Example c09_incr_excluded : wf_incr (OReal false 1500000) = false /\ ser_incr (OReal false 1500000) = []
  /\ wf_incr (OArr [OInt 1; OInt 0; OName name_R]) = false
  /\ parse (ser_incr (OArr [OInt 1; OInt 0; OName name_R])) = Some (PArr [PRef 1 0]).
Proof. exact incr_excluded. Qed.

(** non-vacuity *)
Example c09_nonvacuous : wf sample_names = true /\ wf_pinned sample_names = false /\ ascii_names sample_names = true
  /\ parse (ser esc_iso sample_names) = Some (norm sample_names) /\ strview (norm sample_names) = norm sample_names.
Proof. exact sample_wf_roundtrips. Qed.
(** ... and with 2-, 3- and 4-byte UTF-8 names (hypotheses of c09_ser_parse_roundtrip_strings on a non-ASCII tree;
    the pre-fix view does not read it back) *)
Example c09_nonvacuous_utf8 : wf sample_utf8 = true /\ utf8_names sample_utf8 = true /\ ascii_names sample_utf8 = false
  /\ option_map strview (parse (ser esc_iso sample_utf8)) = Some (norm sample_utf8)
  /\ option_map strview_pinned (parse (ser esc_iso sample_utf8)) <> Some (norm sample_utf8).
Proof. exact sample_utf8_roundtrips. Qed.
(** names whose bytes are NOT UTF-8 keep the Latin-1 view (lone E9, truncated C3, surrogate ED A0 80, overlong C0 80,
    F4 90 80 80, stray 80); the boundary cases ED 9F BF and F4 8F BF BF are valid *)
Example c09_name_string_invalid_examples :
  name_string [99; 97; 102; 233] = [99; 97; 102; 195; 169] /\ name_string [195] = [195; 131]
  /\ name_string [237; 160; 128] = [195; 173; 194; 160; 194; 128] /\ name_string [192; 128] = [195; 128; 194; 128]
  /\ name_string [244; 144; 128; 128] = [195; 180; 194; 144; 194; 128; 194; 128] /\ name_string [128] = [194; 128]
  /\ name_string [237; 159; 191] = [237; 159; 191] /\ name_string [244; 143; 191; 191] = [244; 143; 191; 191].
Proof. exact name_string_invalid_examples. Qed.

(** * The nested theorem (theories/C09/Full.v) *)

(** layer 1, continuation style: the eager lexer on [ser v] followed by anything that is empty or
    starts with SP, LF or ']' yields [toks v] and continues on the rest *)
Theorem c09_lex_nested : forall v rest f, wf v = true -> good_rest rest -> (length (toks v) <= f)%nat ->
  lex_all f (ser esc_iso v ++ rest) = toks v ++ lex_all (f - length (toks v)) rest.
Proof. exact lex_all_ser. Qed.
Check c09_lex_nested : forall v rest f, wf v = true -> good_rest rest -> (length (toks v) <= f)%nat ->
  lex_all f (ser esc_iso v ++ rest) = toks v ++ lex_all (f - length (toks v)) rest.
Print Assumptions c09_lex_nested.

(** the integer arm's look-ahead pushes back exactly what it peeked *)
Theorem c09_int_lookahead_pushback : forall i rest, rest_ok rest = true -> ahead_ok (CInt i) rest = true ->
  parse_int i rest = Some (PInt i, rest).
Proof. exact parse_int_back. Qed.
Check c09_int_lookahead_pushback : forall i rest, rest_ok rest = true -> ahead_ok (CInt i) rest = true ->
  parse_int i rest = Some (PInt i, rest).
Print Assumptions c09_int_lookahead_pushback.

(** layer 2, continuation style: the parser on [toks v] followed by any tokens that the look-ahead
    can put back ([rest_ok]) and that are not "gen R" after an object number ([ahead_ok]) *)
Theorem c09_parse_nested : forall v, wf v = true -> forall rest fuel, rest_ok rest = true ->
  ahead_ok (tokcls v) rest = true -> (2 * length (toks v) <= fuel)%nat ->
  parse_toks fuel (toks v ++ rest) = Some (norm v, rest).
Proof. exact parse_toks_ser. Qed.
Check c09_parse_nested : forall v, wf v = true -> forall rest fuel, rest_ok rest = true ->
  ahead_ok (tokcls v) rest = true -> (2 * length (toks v) <= fuel)%nat ->
  parse_toks fuel (toks v ++ rest) = Some (norm v, rest).
Print Assumptions c09_parse_nested.

(** hypotheses of the two layers are satisfiable on a nested value with a non-trivial continuation *)
Example c09_lex_nested_hyps : wf sample = true /\ good_rest (bytes_of_string " 12 0 R]").
Proof. exact lex_all_ser_hyps. Qed.
Example c09_parse_nested_hyps :
  wf sample = true /\ rest_ok [TInt 12; TInt 0; TName name_R; TArrE; TEof] = true
  /\ ahead_ok (tokcls sample) [TInt 12; TInt 0; TName name_R; TArrE; TEof] = true
  /\ ahead_ok (tokcls (OInt 10000000)) [TInt 12; TName name_R; TArrE; TEof] = true
  /\ ahead_ok (tokcls (OInt 3)) [TInt 70000; TName name_R; TArrE; TEof] = true.
Proof. exact parse_toks_ser_hyps. Qed.

(** THE property: every well-formed object tree, nested arbitrarily *)
Theorem c09_ser_parse_roundtrip : forall v, wf v = true -> parse (ser esc_iso v) = Some (norm v).
Proof. exact ser_parse_roundtrip. Qed.
Check c09_ser_parse_roundtrip : forall v, wf v = true -> parse (ser esc_iso v) = Some (norm v).
Print Assumptions c09_ser_parse_roundtrip.
(** the same at the level of Rust Strings: when every name is a Rust String (valid UTF-8 — every Rust String
    is; any chars: white space, delimiters, '#', controls, non-ASCII) the names the reader builds ARE the source names *)
Theorem c09_ser_parse_roundtrip_strings : forall v, wf v = true -> utf8_names v = true ->
  option_map strview (parse (ser esc_iso v)) = Some (norm v).
Proof. exact ser_parse_roundtrip_strings. Qed.
Check c09_ser_parse_roundtrip_strings : forall v, wf v = true -> utf8_names v = true ->
  option_map strview (parse (ser esc_iso v)) = Some (norm v).
Print Assumptions c09_ser_parse_roundtrip_strings.
(** the former ASCII-only statement is an instance *)
Theorem c09_ser_parse_roundtrip_strings_ascii : forall v, wf v = true -> ascii_names v = true ->
  option_map strview (parse (ser esc_iso v)) = Some (norm v).
Proof. exact ser_parse_roundtrip_strings_ascii. Qed.
Check c09_ser_parse_roundtrip_strings_ascii : forall v, wf v = true -> ascii_names v = true ->
  option_map strview (parse (ser esc_iso v)) = Some (norm v).
Print Assumptions c09_ser_parse_roundtrip_strings_ascii.
(** the parser's only look at a name String (the comparison with "R") agrees with the model's test on the decoded bytes *)
Theorem c09_name_string_R : forall n, name_string n = name_R <-> n = name_R.
Proof. exact name_string_R. Qed.
Check c09_name_string_R : forall n, name_string n = name_R <-> n = name_R.
Print Assumptions c09_name_string_R.
(** valid UTF-8 consists of bytes (so [wf]'s name condition follows from [utf8_names]) *)
Theorem c09_utf8_valid_bytes_ok : forall n, Tok.utf8_valid n = true -> bytes_ok n = true.
Proof. exact utf8_valid_bytes_ok. Qed.
Check c09_utf8_valid_bytes_ok : forall n, Tok.utf8_valid n = true -> bytes_ok n = true.
Print Assumptions c09_utf8_valid_bytes_ok.
(** record about the writer before the repair (regular names only) *)
Theorem c09_ser_parse_roundtrip_pinned : forall v, wf_pinned v = true -> parse (ser raw_name v) = Some (norm v).
Proof. exact ser_parse_roundtrip_pinned. Qed.
Check c09_ser_parse_roundtrip_pinned : forall v, wf_pinned v = true -> parse (ser raw_name v) = Some (norm v).
Print Assumptions c09_ser_parse_roundtrip_pinned.

(** * The same theorem against the ISO-shaped reference reader (theories/C09/Lex.v, LexFull.v) *)

Theorem c09_iso_lex_nested : forall v rest f, iso_wf v = true -> good_rest rest -> (length (itoks v) <= f)%nat ->
  ilex_all f (ser esc_iso v ++ rest) = itoks v ++ ilex_all (f - length (itoks v)) rest.
Proof. exact ilex_all_ser. Qed.
Check c09_iso_lex_nested : forall v rest f, iso_wf v = true -> good_rest rest -> (length (itoks v) <= f)%nat ->
  ilex_all f (ser esc_iso v ++ rest) = itoks v ++ ilex_all (f - length (itoks v)) rest.
Print Assumptions c09_iso_lex_nested.

Theorem c09_iso_parse_nested : forall v, iso_wf v = true -> forall rest fuel, inokw rest = true ->
  (2 * length (itoks v) <= fuel)%nat -> iparse_toks fuel (itoks v ++ rest) = Some (norm v, rest).
Proof. exact iparse_toks_ser. Qed.
Check c09_iso_parse_nested : forall v, iso_wf v = true -> forall rest fuel, inokw rest = true ->
  (2 * length (itoks v) <= fuel)%nat -> iparse_toks fuel (itoks v ++ rest) = Some (norm v, rest).
Print Assumptions c09_iso_parse_nested.

Theorem c09_ser_iso_roundtrip : forall v, iso_wf v = true -> iso_parse (ser esc_iso v) = Some (norm v).
Proof. exact ser_iso_roundtrip. Qed.
Check c09_ser_iso_roundtrip : forall v, iso_wf v = true -> iso_parse (ser esc_iso v) = Some (norm v).
Print Assumptions c09_ser_iso_roundtrip.
Theorem c09_ser_iso_roundtrip_pinned : forall v, iso_wf_pinned v = true -> iso_parse (ser raw_name v) = Some (norm v).
Proof. exact ser_iso_roundtrip_pinned. Qed.
Check c09_ser_iso_roundtrip_pinned : forall v, iso_wf_pinned v = true -> iso_parse (ser raw_name v) = Some (norm v).
Print Assumptions c09_ser_iso_roundtrip_pinned.

(** [wf] values without CR in strings: both readers (names no longer matter: NUL and braces are escaped) *)
Theorem c09_wf_iso_wf : forall v, wf v = true -> iso_extra v = true -> iso_wf v = true.
Proof. exact wf_iso_wf. Qed.
Check c09_wf_iso_wf : forall v, wf v = true -> iso_extra v = true -> iso_wf v = true.
Print Assumptions c09_wf_iso_wf.

Theorem c09_ser_both_readers : forall v, wf v = true -> iso_extra v = true ->
  parse (ser esc_iso v) = Some (norm v) /\ iso_parse (ser esc_iso v) = Some (norm v).
Proof. exact ser_both_readers. Qed.
Check c09_ser_both_readers : forall v, wf v = true -> iso_extra v = true ->
  parse (ser esc_iso v) = Some (norm v) /\ iso_parse (ser esc_iso v) = Some (norm v).
Print Assumptions c09_ser_both_readers.

(** where the two readers part (candidate input classes for the correspondence) *)
Theorem c09_iso_cr_refuted : exists v, wf v = true /\ iso_wf v = false
  /\ parse (ser esc_iso v) = Some (norm v)
  /\ iso_parse (ser esc_iso v) = Some (PStr [97; 10; 98]) /\ norm v = PStr [97; 13; 98].
Proof. exact iso_cr_refuted. Qed.
Check c09_iso_cr_refuted : exists v, wf v = true /\ iso_wf v = false
  /\ parse (ser esc_iso v) = Some (norm v)
  /\ iso_parse (ser esc_iso v) = Some (PStr [97; 10; 98]) /\ norm v = PStr [97; 13; 98].
Print Assumptions c09_iso_cr_refuted.

Theorem c09_iso_name_refuted_pinned : exists v1 v2, wf_pinned v1 = true /\ wf_pinned v2 = true
  /\ parse (ser raw_name v1) = Some (norm v1) /\ parse (ser raw_name v2) = Some (norm v2)
  /\ iso_parse (ser raw_name v1) = Some (PName [65]) /\ iso_parse (ser raw_name v2) = Some (PName [65])
  /\ iso_parse (ser esc_iso v1) = Some (norm v1) /\ iso_parse (ser esc_iso v2) = Some (norm v2).
Proof. exact iso_name_refuted_pinned. Qed.
Check c09_iso_name_refuted_pinned : exists v1 v2, wf_pinned v1 = true /\ wf_pinned v2 = true
  /\ parse (ser raw_name v1) = Some (norm v1) /\ parse (ser raw_name v2) = Some (norm v2)
  /\ iso_parse (ser raw_name v1) = Some (PName [65]) /\ iso_parse (ser raw_name v2) = Some (PName [65])
  /\ iso_parse (ser esc_iso v1) = Some (norm v1) /\ iso_parse (ser esc_iso v2) = Some (norm v2).
Print Assumptions c09_iso_name_refuted_pinned.

(** non-vacuity of [iso_wf], [wf] + [iso_extra]; and values outside [wf] the ISO reader reads back *)
Example c09_iso_nonvacuous : wf isample = true /\ iso_extra isample = true /\ iso_wf isample = true
  /\ iso_parse (ser esc_iso isample) = Some (norm isample)
  /\ wf sample_names = true /\ iso_extra sample_names = false
  /\ iso_parse (ser esc_iso (OArr [OName (b "My Image"); OName [65; 0; 66]; OName (b "A{B}#"); ODict [(b "k 1", OName (b "(x)"))]]))
     = Some (norm (OArr [OName (b "My Image"); OName [65; 0; 66]; OName (b "A{B}#"); ODict [(b "k 1", OName (b "(x)"))]])).
Proof. exact isample_ok. Qed.
Example c09_iso_reads_known_classes : wf isample2 = false /\ iso_wf isample2 = true
  /\ iso_parse (ser esc_iso isample2) = Some (norm isample2).
Proof. exact isample2_ok. Qed.

(** link to the verdict.  FULL STATEMENT (not re-proved after the String-level comparison was added to
    [ser_code]; it needs soundness of opobj_eqb):
      forall v bs p, wf v = true -> utf8_names v = true -> ser_code (v, bs, p) <> 2.
    Proved part: implementation bytes equal to the model's parse, in the model, to [norm v] — as bytes and,
    for trees of Rust Strings, at the String view [parse_strings] the checker compares. *)
Theorem c09_ser_code_model_parse_partial : forall v bs, wf v = true -> bytes_eqb (ser esc_iso v) bs = true ->
  option_map canon (parse bs) = Some (canon (norm v)).
Proof. exact ser_code_model_parse_partial. Qed.
Check c09_ser_code_model_parse_partial : forall v bs, wf v = true -> bytes_eqb (ser esc_iso v) bs = true ->
  option_map canon (parse bs) = Some (canon (norm v)).
Print Assumptions c09_ser_code_model_parse_partial.
Theorem c09_ser_code_model_strings_partial : forall v bs, wf v = true -> utf8_names v = true ->
  bytes_eqb (ser esc_iso v) bs = true -> parse_strings bs = Some (canon (norm v)).
Proof. exact ser_code_model_strings_partial. Qed.
Check c09_ser_code_model_strings_partial : forall v bs, wf v = true -> utf8_names v = true ->
  bytes_eqb (ser esc_iso v) bs = true -> parse_strings bs = Some (canon (norm v)).
Print Assumptions c09_ser_code_model_strings_partial.
