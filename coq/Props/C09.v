(** C09 — serialized objects parse back to the same value.
    Only statements here; proofs live in theories/C09/{Tokens,FracSweep,Proofs}.v.

    FULL STATEMENT (kept visible; the structural induction over nesting is not finished):
      c09_ser_parse_roundtrip :
        forall v, wf v = true -> parse (ser raw_name v) = Some (norm v).
    where [wf] requires regular names, integral reals within i64, object numbers <= 9 999 999
    and no [i g /R] inside an array (the four known classes, each refuted below by a witness).
    PROVED below: every token class for all values of that class (the [_partial] part), the
    escaper of the incremental writer for all names, the refutations. *)
From OxVerif Require Import Base.Util C09.Model C09.Tokens C09.FracSweep C09.Proofs C09.Reals.

(** literal strings: every byte string, whatever follows *)
Theorem c09_literal_string_roundtrip : forall s rest,
  read_lit (esc_str s ++ 41 :: rest) 0 = Some (s, rest).
Proof. exact read_lit_esc. Qed.
Check c09_literal_string_roundtrip : forall s rest, read_lit (esc_str s ++ 41 :: rest) 0 = Some (s, rest).
Print Assumptions c09_literal_string_roundtrip.

Theorem c09_string_token_partial : forall s rest,
  lex1 (ser raw_name (OStr s) ++ rest) = (TStr s, rest).
Proof. exact lex_ser_str. Qed.
Check c09_string_token_partial : forall s rest, lex1 (ser raw_name (OStr s) ++ rest) = (TStr s, rest).
Print Assumptions c09_string_token_partial.

(** hex strings: every string of bytes *)
Theorem c09_hex_token_partial : forall s rest, bytes_ok s = true ->
  lex1 (ser raw_name (OHex s) ++ rest) = (TStr s, rest).
Proof. exact lex_ser_hex. Qed.
Check c09_hex_token_partial : forall s rest, bytes_ok s = true -> lex1 (ser raw_name (OHex s) ++ rest) = (TStr s, rest).
Print Assumptions c09_hex_token_partial.

(** names, emitted raw: exactly the regular ones (no white space, delimiter or '#'; bytes >= 0x80 allowed) *)
Theorem c09_name_token_partial : forall n rest, regular_name n = true -> good_rest rest ->
  lex1 (ser raw_name (OName n) ++ rest) = (TName n, rest).
Proof. exact lex_ser_name. Qed.
Check c09_name_token_partial : forall n rest, regular_name n = true -> good_rest rest -> lex1 (ser raw_name (OName n) ++ rest) = (TName n, rest).
Print Assumptions c09_name_token_partial.

(** integers: all of i64 *)
Theorem c09_int_token_partial : forall z rest, int_ok z = true -> good_rest rest ->
  lex1 (ser raw_name (OInt z) ++ rest) = (TInt z, rest).
Proof. exact lex_ser_int. Qed.
Check c09_int_token_partial : forall z rest, int_ok z = true -> good_rest rest -> lex1 (ser raw_name (OInt z) ++ rest) = (TInt z, rest).
Print Assumptions c09_int_token_partial.

Theorem c09_decimal_roundtrip : forall n, dval 0 (dec n) = n.
Proof. exact dec_val. Qed.
Check c09_decimal_roundtrip : forall n, dval 0 (dec n) = n.
Print Assumptions c09_decimal_roundtrip.

Theorem c09_null_bool_token_partial : forall rest, good_rest rest ->
  lex1 (ser raw_name ONull ++ rest) = (TNull, rest)
  /\ forall b, lex1 (ser raw_name (OBool b) ++ rest) = (TBool b, rest).
Proof. intros rest G. split; [apply lex_ser_null | intro; apply lex_ser_bool]; exact G. Qed.
Check c09_null_bool_token_partial : forall rest, good_rest rest ->
  lex1 (ser raw_name ONull ++ rest) = (TNull, rest) /\ forall b, lex1 (ser raw_name (OBool b) ++ rest) = (TBool b, rest).
Print Assumptions c09_null_bool_token_partial.

(** the six fraction digits after trimming denote the same millionths: all 10^6 values *)
Theorem c09_fraction_digits : forall x, x < 1000000 -> frac_ok x = true.
Proof. exact frac_sweep. Qed.
Check c09_fraction_digits : forall x, x < 1000000 -> frac_ok x = true.
Print Assumptions c09_fraction_digits.

(** reals: every finite value as the writer prints it ({:.6}, trimmed); an integral one comes back as that integer *)
Theorem c09_real_token_partial : forall neg m rest, real_ok neg m = true -> good_rest rest ->
  lex1 (ser raw_name (OReal neg m) ++ rest) = (real_tok neg m, rest).
Proof. exact lex_ser_real. Qed.
Check c09_real_token_partial : forall neg m rest, real_ok neg m = true -> good_rest rest -> lex1 (ser raw_name (OReal neg m) ++ rest) = (real_tok neg m, rest).
Print Assumptions c09_real_token_partial.

(** references: the three tokens n, g, R *)
Theorem c09_ref_tokens_partial : forall n g rest, good_rest rest ->
  (Z.of_N n <=? i64_max)%Z = true -> (Z.of_N g <=? i64_max)%Z = true ->
  exists r1 r2, lex1 (ser raw_name (ORef n g) ++ rest) = (TInt (Z.of_N n), r1)
             /\ lex1 r1 = (TInt (Z.of_N g), r2) /\ lex1 r2 = (TName name_R, rest).
Proof. exact lex_ser_ref. Qed.
Check c09_ref_tokens_partial : forall n g rest, good_rest rest ->
  (Z.of_N n <=? i64_max)%Z = true -> (Z.of_N g <=? i64_max)%Z = true ->
  exists r1 r2, lex1 (ser raw_name (ORef n g) ++ rest) = (TInt (Z.of_N n), r1)
             /\ lex1 r1 = (TInt (Z.of_N g), r2) /\ lex1 r2 = (TName name_R, rest).
Print Assumptions c09_ref_tokens_partial.

(** the incremental writer's #XX escaper: every name *)
Theorem c09_incr_name_roundtrip : forall n rest, bytes_ok n = true -> good_rest rest ->
  lex1 (47 :: esc_name n ++ rest) = (TName n, rest).
Proof. exact lex_esc_name. Qed.
Check c09_incr_name_roundtrip : forall n rest, bytes_ok n = true -> good_rest rest -> lex1 (47 :: esc_name n ++ rest) = (TName n, rest).
Print Assumptions c09_incr_name_roundtrip.

(** refuted on the pinned tree (known findings), each by a witness *)
Theorem c09_name_raw_refuted : exists n, regular_name n = false /\ roundtrips (OName n) = false
                                   /\ parse (ser raw_name (ODict [(n, OInt 1)])) = None.
Proof. exact name_raw_refuted. Qed.
Check c09_name_raw_refuted : exists n, regular_name n = false /\ roundtrips (OName n) = false /\ parse (ser raw_name (ODict [(n, OInt 1)])) = None.
Print Assumptions c09_name_raw_refuted.

Theorem c09_int_int_nameR_refuted : exists v, wf v = false /\ parse (ser raw_name v) = Some (PArr [PRef 1 0]) /\ roundtrips v = false.
Proof. exact int_int_nameR_refuted. Qed.
Check c09_int_int_nameR_refuted : exists v, wf v = false /\ parse (ser raw_name v) = Some (PArr [PRef 1 0]) /\ roundtrips v = false.
Print Assumptions c09_int_int_nameR_refuted.

Theorem c09_real_ge_2p63_refuted : exists v, wf v = false /\ parse (ser raw_name v) = None.
Proof. exact real_ge_2p63_refuted. Qed.
Check c09_real_ge_2p63_refuted : exists v, wf v = false /\ parse (ser raw_name v) = None.
Print Assumptions c09_real_ge_2p63_refuted.

Theorem c09_objnum_refuted : exists v, wf v = false /\ parse (ser raw_name v) = Some (PInt 10000000).
Proof. exact objnum_refuted. Qed.
Check c09_objnum_refuted : exists v, wf v = false /\ parse (ser raw_name v) = Some (PInt 10000000).
Print Assumptions c09_objnum_refuted.

Theorem c09_incr_nonascii_refuted : exists n, bytes_ok n = true /\ parse (ser_incr (OName n)) = Some (PName [195; 169]) /\ n = [233].
Proof. exact incr_nonascii_refuted. Qed.
Check c09_incr_nonascii_refuted : exists n, bytes_ok n = true /\ parse (ser_incr (OName n)) = Some (PName [195; 169]) /\ n = [233].
Print Assumptions c09_incr_nonascii_refuted.

(** non-vacuity *)
Example c09_nonvacuous : wf sample = true /\ parse (ser raw_name sample) = Some (norm sample).
Proof. exact sample_wf_roundtrips. Qed.
