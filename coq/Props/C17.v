(** C17 — incremental updates are append-only and take effect.
    Only statements here; proofs live in theories/C17/Proofs.v. *)
From OxVerif Require Import Base.Util C04.Model C04.Proofs C17.Model C17.Proofs C17.Filler.

(** every output begins with the previous file's bytes, whatever is replaced *)
Theorem c17_update_is_append : forall base u, is_prefix base (finish base u).
Proof. exact update_is_append_lemma. Qed.
Check c17_update_is_append : forall base u, is_prefix base (finish base u).
Print Assumptions c17_update_is_append.

(** the partial cross-reference section lists exactly the rewritten objects, in order, in
    subsections whose numbering (first, first+1, ...) gives back their object numbers *)
Theorem c17_partial_xref_covers : forall (l : list (N * centry)), flatten (group l) = l.
Proof. exact (@group_flatten centry). Qed.
Check c17_partial_xref_covers : forall (l : list (N * centry)), flatten (group l) = l.
Print Assumptions c17_partial_xref_covers.

(** ... and every entry line is exactly 20 bytes *)
Theorem c17_partial_xref_entry_20 : forall off g u,
  off < 10000000000 -> g < 100000 -> length (render_entry (CE off g u)) = 20%nat.
Proof. exact render_entry_20. Qed.
Check c17_partial_xref_entry_20 : forall off g u,
  off < 10000000000 -> g < 100000 -> length (render_entry (CE off g u)) = 20%nat.
Print Assumptions c17_partial_xref_entry_20.

(** through C04's reader: a rewritten object resolves to its new definition, any other object
    resolves exactly as in the previous file *)
Theorem c17_update_reads_latest : forall secs base u n,
  lookup (file_table (secs ++ [section_of base u])) n =
  match new_def base u n with
  | Some d => loc_of (Some d)
  | None => lookup (file_table secs) n
  end.
Proof. exact update_reads_latest_lemma. Qed.
Check c17_update_reads_latest : forall secs base u n,
  lookup (file_table (secs ++ [section_of base u])) n =
  match new_def base u n with
  | Some d => loc_of (Some d)
  | None => lookup (file_table secs) n
  end.
Print Assumptions c17_update_reads_latest.

Theorem c17_untouched_unchanged : forall secs base u n,
  ~ In n (map (fun o : robj => fst (fst o)) (u_objs u)) ->
  lookup (file_table (secs ++ [section_of base u])) n = lookup (file_table secs) n.
Proof. exact untouched_unchanged_lemma. Qed.
Check c17_untouched_unchanged : forall secs base u n,
  ~ In n (map (fun o : robj => fst (fst o)) (u_objs u)) ->
  lookup (file_table (secs ++ [section_of base u])) n = lookup (file_table secs) n.
Print Assumptions c17_untouched_unchanged.

Theorem c17_rewritten_reads_new : forall secs base u n,
  In n (map (fun o : robj => fst (fst o)) (u_objs u)) ->
  exists off, lookup (file_table (secs ++ [section_of base u])) n = LOffset off /\ len base <= off.
Proof. exact rewritten_reads_new_lemma. Qed.
Check c17_rewritten_reads_new : forall secs base u n,
  In n (map (fun o : robj => fst (fst o)) (u_objs u)) ->
  exists off, lookup (file_table (secs ++ [section_of base u])) n = LOffset off /\ len base <= off.
Print Assumptions c17_rewritten_reads_new.

(** any number of edits: still an extension of the ORIGINAL file, and the last edit reads latest *)
Theorem c17_updates_compose : forall us u base secs n,
  let st := run (base, secs) us in
  is_prefix base (fst (step st u)) /\
  lookup (file_table (snd (step st u))) n =
    match new_def (fst st) u n with
    | Some d => loc_of (Some d)
    | None => lookup (file_table (snd st)) n
    end.
Proof. exact updates_compose_lemma. Qed.
Check c17_updates_compose : forall us u base secs n,
  let st := run (base, secs) us in
  is_prefix base (fst (step st u)) /\
  lookup (file_table (snd (step st u))) n =
    match new_def (fst st) u n with
    | Some d => loc_of (Some d)
    | None => lookup (file_table (snd st)) n
    end.
Print Assumptions c17_updates_compose.

(** non-vacuity of the implications *)
Example c17_nonvacuous_reads :
  lookup (file_table ([Classic [(0, [CE 0 65535 false; CE 15 0 true; CE 30 0 true; CE 40 0 true])]] ++ [section_of (s "%PDF") ex_upd])) 3 = LOffset 5 /\
  lookup (file_table ([Classic [(0, [CE 0 65535 false; CE 15 0 true; CE 30 0 true; CE 40 0 true])]] ++ [section_of (s "%PDF") ex_upd])) 2 = LOffset 30 /\
  In 3 (map (fun o : robj => fst (fst o)) (u_objs ex_upd)) /\ ~ In 2 (map (fun o : robj => fst (fst o)) (u_objs ex_upd)).
Proof. exact ex_reads. Qed.
Example c17_nonvacuous_entry : length (render_entry (CE 1234567 3 true)) = 20%nat /\ 1234567 < 10000000000 /\ 3 < 100000.
Proof. exact ex_entry_20. Qed.

From Coq Require Import Permutation.

(** * IncrementalFormFiller's own tail assembly ([filler_out], theories/C17/Filler.v): base ++ objects
    in emission order ++ xref subsections over the lines sorted by object number ++ trailer with
    /Prev ++ startxref; NO end-of-line guard.  For every base and every fill: *)
(** the base is a prefix of the output *)
Theorem c17_filler_is_append : forall base f, is_prefix base (filler_out base f).
Proof. exact filler_is_append_lemma. Qed.
Check c17_filler_is_append : forall base f, is_prefix base (filler_out base f).
Print Assumptions c17_filler_is_append.

(** every written object has a line in the appended section whose offset is the exact byte at which
    its "N G obj" starts in the output.  No hypothesis on how the base ends: with a base lacking the
    final EOL the object starts on the %%EOF line and the offset is still that byte (readers address
    objects by offset) *)
Theorem c17_filler_xref_covers : forall base f pre o post,
  ff_objs f = pre ++ o :: post ->
  let off := len base + len (body_bytes pre) in
  In (fst (fst o), CE off (snd (fst o)) true) (flatten (group (entries_of (fxref base f))))
  /\ exists t, skipn (N.to_nat off) (filler_out base f) = obj_bytes o ++ t.
Proof. exact filler_xref_covers_lemma. Qed.
Check c17_filler_xref_covers : forall base f pre o post,
  ff_objs f = pre ++ o :: post ->
  let off := len base + len (body_bytes pre) in
  In (fst (fst o), CE off (snd (fst o)) true) (flatten (group (entries_of (fxref base f))))
  /\ exists t, skipn (N.to_nat off) (filler_out base f) = obj_bytes o ++ t.
Print Assumptions c17_filler_xref_covers.

(** ... exactly one line per object: the lines are a permutation of the written objects, and with distinct
    object numbers (the filler deduplicates by id) the line for a number is unique *)
Theorem c17_filler_xref_perm : forall base f, Permutation (flatten (group (entries_of (fxref base f)))) (entries_of (fchanged base f)).
Proof. exact filler_xref_perm_lemma. Qed.
Check c17_filler_xref_perm : forall base f, Permutation (flatten (group (entries_of (fxref base f)))) (entries_of (fchanged base f)).
Print Assumptions c17_filler_xref_perm.

Theorem c17_filler_xref_count : forall base f, length (flatten (group (entries_of (fxref base f)))) = length (ff_objs f).
Proof. exact filler_xref_count_lemma. Qed.
Check c17_filler_xref_count : forall base f, length (flatten (group (entries_of (fxref base f)))) = length (ff_objs f).
Print Assumptions c17_filler_xref_count.

Theorem c17_filler_xref_unique : forall base f pre o post c,
  NoDup (fnums f) -> ff_objs f = pre ++ o :: post ->
  In (fst (fst o), c) (flatten (group (entries_of (fxref base f)))) ->
  c = CE (len base + len (body_bytes pre)) (snd (fst o)) true.
Proof. exact filler_xref_unique_lemma. Qed.
Check c17_filler_xref_unique : forall base f pre o post c,
  NoDup (fnums f) -> ff_objs f = pre ++ o :: post ->
  In (fst (fst o), c) (flatten (group (entries_of (fxref base f)))) ->
  c = CE (len base + len (body_bytes pre)) (snd (fst o)) true.
Print Assumptions c17_filler_xref_unique.

(** the no-final-EOL case spelled out *)
Theorem c17_filler_first_offset_no_eol : forall base f o post,
  ends_eol base = false -> ff_objs f = o :: post ->
  In (fst (fst o), CE (len base) (snd (fst o)) true) (flatten (group (entries_of (fxref base f))))
  /\ is_prefix (header_of o) (skipn (length base) (filler_out base f)).
Proof. exact filler_first_offset_no_eol_lemma. Qed.
Check c17_filler_first_offset_no_eol : forall base f o post,
  ends_eol base = false -> ff_objs f = o :: post ->
  In (fst (fst o), CE (len base) (snd (fst o)) true) (flatten (group (entries_of (fxref base f))))
  /\ is_prefix (header_of o) (skipn (length base) (filler_out base f)).
Print Assumptions c17_filler_first_offset_no_eol.

Theorem c17_filler_no_eol_guard : forall base f o post, ff_objs f = o :: post -> exists t, filler_out base f = base ++ header_of o ++ t.
Proof. exact filler_no_eol_guard_lemma. Qed.
Check c17_filler_no_eol_guard : forall base f o post, ff_objs f = o :: post -> exists t, filler_out base f = base ++ header_of o ++ t.
Print Assumptions c17_filler_no_eol_guard.

(** the number after "startxref" is the byte at which the appended "xref" keyword starts *)
Theorem c17_filler_startxref : forall base f,
  let xpos := len base + len (body_bytes (ff_objs f)) in
  (exists t, skipn (N.to_nat xpos) (filler_out base f) = s "xref" ++ nl ++ t) /\
  (exists h, filler_out base f = h ++ s "startxref" ++ nl ++ dec xpos ++ nl ++ s "%%EOF" ++ nl).
Proof. exact filler_startxref_lemma. Qed.
Check c17_filler_startxref : forall base f,
  let xpos := len base + len (body_bytes (ff_objs f)) in
  (exists t, skipn (N.to_nat xpos) (filler_out base f) = s "xref" ++ nl ++ t) /\
  (exists h, filler_out base f = h ++ s "startxref" ++ nl ++ dec xpos ++ nl ++ s "%%EOF" ++ nl).
Print Assumptions c17_filler_startxref.

(** through C04's merge theorem, as [c17_update_reads_latest] *)
Theorem c17_filler_reads_latest : forall secs base f n,
  lookup (file_table (secs ++ [fsection base f])) n =
  match fnew_def base f n with
  | Some d => loc_of (Some d)
  | None => lookup (file_table secs) n
  end.
Proof. exact filler_reads_latest_lemma. Qed.
Check c17_filler_reads_latest : forall secs base f n,
  lookup (file_table (secs ++ [fsection base f])) n =
  match fnew_def base f n with
  | Some d => loc_of (Some d)
  | None => lookup (file_table secs) n
  end.
Print Assumptions c17_filler_reads_latest.

Theorem c17_filler_untouched_unchanged : forall secs base f n,
  ~ In n (fnums f) ->
  lookup (file_table (secs ++ [fsection base f])) n = lookup (file_table secs) n.
Proof. exact filler_untouched_unchanged_lemma. Qed.
Check c17_filler_untouched_unchanged : forall secs base f n,
  ~ In n (fnums f) ->
  lookup (file_table (secs ++ [fsection base f])) n = lookup (file_table secs) n.
Print Assumptions c17_filler_untouched_unchanged.

(** a rewritten object resolves to the exact byte of its "N G obj" *)
Theorem c17_filler_rewritten_reads_exact : forall secs base f pre o post,
  NoDup (fnums f) -> ff_objs f = pre ++ o :: post ->
  lookup (file_table (secs ++ [fsection base f])) (fst (fst o)) = LOffset (len base + len (body_bytes pre)).
Proof. exact filler_rewritten_reads_exact_lemma. Qed.
Check c17_filler_rewritten_reads_exact : forall secs base f pre o post,
  NoDup (fnums f) -> ff_objs f = pre ++ o :: post ->
  lookup (file_table (secs ++ [fsection base f])) (fst (fst o)) = LOffset (len base + len (body_bytes pre)).
Print Assumptions c17_filler_rewritten_reads_exact.

(** histories mixing IncrementalUpdate::finish and the form filler stay extensions of the ORIGINAL file *)
Theorem c17_edits_are_append : forall es st, is_prefix (fst st) (fst (erun st es)).
Proof. exact edits_are_append_lemma. Qed.
Check c17_edits_are_append : forall es st, is_prefix (fst st) (fst (erun st es)).
Print Assumptions c17_edits_are_append.

Theorem c17_fill_after_edits : forall es f base secs n,
  let st := erun (base, secs) es in
  is_prefix base (fst (estep st (EFill f))) /\
  lookup (file_table (snd (estep st (EFill f)))) n =
    match fnew_def (fst st) f n with
    | Some d => loc_of (Some d)
    | None => lookup (file_table (snd st)) n
    end.
Proof. exact fill_after_edits_lemma. Qed.
Check c17_fill_after_edits : forall es f base secs n,
  let st := erun (base, secs) es in
  is_prefix base (fst (estep st (EFill f))) /\
  lookup (file_table (snd (estep st (EFill f)))) n =
    match fnew_def (fst st) f n with
    | Some d => loc_of (Some d)
    | None => lookup (file_table (snd st)) n
    end.
Print Assumptions c17_fill_after_edits.

(** non-vacuity: hypotheses hold on a hand example (emission order 7, 4, 5; base without final EOL) and the
    model reproduces four outputs of the real [IncrementalFormFiller::fill_many] byte for byte *)
Example c17_filler_nonvacuous :
  NoDup (fnums ex_fill) /\ ends_eol (s "%%EOF") = false /\
  ff_objs ex_fill = [(7, 0, s "B")] ++ (4, 0, s "A") :: [(5, 0, s "F")] /\
  lookup (file_table ([Classic [(0, [CE 0 65535 false; CE 15 0 true])]] ++ [fsection (s "%%EOF") ex_fill])) 4 = LOffset 22 /\
  lookup (file_table ([Classic [(0, [CE 0 65535 false; CE 15 0 true])]] ++ [fsection (s "%%EOF") ex_fill])) 1 = LOffset 15 /\
  filler_code {| fc_base := s "%%EOF"; fc_fill := ex_fill; fc_out := filler_out (s "%%EOF") ex_fill |} = 0.
Proof. exact ex_filler_hyps. Qed.
