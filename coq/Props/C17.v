(** C17 — incremental updates are append-only and take effect.
    Only statements here; proofs live in theories/C17/Proofs.v. *)
From OxVerif Require Import Base.Util C04.Model C04.Proofs C17.Model C17.Proofs C17.Filler.

(** every output begins with the previous file's bytes, whatever is replaced *)
Theorem c17_update_is_append : forall base u, is_prefix base (finish base u).
Proof. exact update_is_append_lemma. Qed.
Check c17_update_is_append : forall base u, is_prefix base (finish base u).
Print Assumptions c17_update_is_append.

(** the partial cross-reference section lists exactly the rewritten objects, in order, in
    subsections whose numbering (first, first+1, ...) gives back their object numbers *)
Theorem c17_partial_xref_covers : forall (l : list (N * centry)), flatten (group l) = l.
Proof. exact (@group_flatten centry). Qed.
Check c17_partial_xref_covers : forall (l : list (N * centry)), flatten (group l) = l.
Print Assumptions c17_partial_xref_covers.

(** ... and every entry line is exactly 20 bytes *)
Theorem c17_partial_xref_entry_20 : forall off g u,
  off < 10000000000 -> g < 100000 -> length (render_entry (CE off g u)) = 20%nat.
Proof. exact render_entry_20. Qed.
Check c17_partial_xref_entry_20 : forall off g u,
  off < 10000000000 -> g < 100000 -> length (render_entry (CE off g u)) = 20%nat.
Print Assumptions c17_partial_xref_entry_20.

(** through C04's reader: a rewritten object resolves to its new definition, any other object
    resolves exactly as in the previous file *)
Theorem c17_update_reads_latest : forall secs base u n,
  lookup (file_table (secs ++ [section_of base u])) n =
  match new_def base u n with
  | Some d => loc_of (Some d)
  | None => lookup (file_table secs) n
  end.
Proof. exact update_reads_latest_lemma. Qed.
Check c17_update_reads_latest : forall secs base u n,
  lookup (file_table (secs ++ [section_of base u])) n =
  match new_def base u n with
  | Some d => loc_of (Some d)
  | None => lookup (file_table secs) n
  end.
Print Assumptions c17_update_reads_latest.

Theorem c17_untouched_unchanged : forall secs base u n,
  ~ In n (map (fun o : robj => fst (fst o)) (u_objs u)) ->
  lookup (file_table (secs ++ [section_of base u])) n = lookup (file_table secs) n.
Proof. exact untouched_unchanged_lemma. Qed.
Check c17_untouched_unchanged : forall secs base u n,
  ~ In n (map (fun o : robj => fst (fst o)) (u_objs u)) ->
  lookup (file_table (secs ++ [section_of base u])) n = lookup (file_table secs) n.
Print Assumptions c17_untouched_unchanged.

Theorem c17_rewritten_reads_new : forall secs base u n,
  In n (map (fun o : robj => fst (fst o)) (u_objs u)) ->
  exists off, lookup (file_table (secs ++ [section_of base u])) n = LOffset off /\ len base <= off.
Proof. exact rewritten_reads_new_lemma. Qed.
Check c17_rewritten_reads_new : forall secs base u n,
  In n (map (fun o : robj => fst (fst o)) (u_objs u)) ->
  exists off, lookup (file_table (secs ++ [section_of base u])) n = LOffset off /\ len base <= off.
Print Assumptions c17_rewritten_reads_new.

(** any number of edits: still an extension of the ORIGINAL file, and the last edit reads latest *)
Theorem c17_updates_compose : forall us u base secs n,
  let st := run (base, secs) us in
  is_prefix base (fst (step st u)) /\
  lookup (file_table (snd (step st u))) n =
    match new_def (fst st) u n with
    | Some d => loc_of (Some d)
    | None => lookup (file_table (snd st)) n
    end.
Proof. exact updates_compose_lemma. Qed.
Check c17_updates_compose : forall us u base secs n,
  let st := run (base, secs) us in
  is_prefix base (fst (step st u)) /\
  lookup (file_table (snd (step st u))) n =
    match new_def (fst st) u n with
    | Some d => loc_of (Some d)
    | None => lookup (file_table (snd st)) n
    end.
Print Assumptions c17_updates_compose.

(** non-vacuity of the implications *)
Example c17_nonvacuous_reads :
  lookup (file_table ([Classic [(0, [CE 0 65535 false; CE 15 0 true; CE 30 0 true; CE 40 0 true])]] ++ [section_of (s "%PDF") ex_upd])) 3 = LOffset 5 /\
  lookup (file_table ([Classic [(0, [CE 0 65535 false; CE 15 0 true; CE 30 0 true; CE 40 0 true])]] ++ [section_of (s "%PDF") ex_upd])) 2 = LOffset 30 /\
  In 3 (map (fun o : robj => fst (fst o)) (u_objs ex_upd)) /\ ~ In 2 (map (fun o : robj => fst (fst o)) (u_objs ex_upd)).
Proof. exact ex_reads. Qed.
Example c17_nonvacuous_entry : length (render_entry (CE 1234567 3 true)) = 20%nat /\ 1234567 < 10000000000 /\ 3 < 100000.
Proof. exact ex_entry_20. Qed.

From Coq Require Import Permutation.

(** * IncrementalFormFiller's own tail assembly ([filler_out], theories/C17/Filler.v): base ++ objects
    in emission order ++ xref subsections over the lines sorted by object number ++ trailer with
    /Prev ++ startxref; NO end-of-line guard.  For every base and every fill: *)
(** the base is a prefix of the output *)
Theorem c17_filler_is_append : forall base f, is_prefix base (filler_out base f).
Proof. exact filler_is_append_lemma. Qed.
Check c17_filler_is_append : forall base f, is_prefix base (filler_out base f).
Print Assumptions c17_filler_is_append.

(** every written object has a line in the appended section whose offset is the exact byte at which
    its "N G obj" starts in the output.  No hypothesis on how the base ends: with a base lacking the
    final EOL the object starts on the %%EOF line and the offset is still that byte (readers address
    objects by offset) *)
Theorem c17_filler_xref_covers : forall base f pre o post,
  ff_objs f = pre ++ o :: post ->
  let off := len base + len (body_bytes pre) in
  In (fst (fst o), CE off (snd (fst o)) true) (flatten (group (entries_of (fxref base f))))
  /\ exists t, skipn (N.to_nat off) (filler_out base f) = obj_bytes o ++ t.
Proof. exact filler_xref_covers_lemma. Qed.
Check c17_filler_xref_covers : forall base f pre o post,
  ff_objs f = pre ++ o :: post ->
  let off := len base + len (body_bytes pre) in
  In (fst (fst o), CE off (snd (fst o)) true) (flatten (group (entries_of (fxref base f))))
  /\ exists t, skipn (N.to_nat off) (filler_out base f) = obj_bytes o ++ t.
Print Assumptions c17_filler_xref_covers.

(** ... exactly one line per object: the lines are a permutation of the written objects, and with distinct
    object numbers (the filler deduplicates by id) the line for a number is unique *)
Theorem c17_filler_xref_perm : forall base f, Permutation (flatten (group (entries_of (fxref base f)))) (entries_of (fchanged base f)).
Proof. exact filler_xref_perm_lemma. Qed.
Check c17_filler_xref_perm : forall base f, Permutation (flatten (group (entries_of (fxref base f)))) (entries_of (fchanged base f)).
Print Assumptions c17_filler_xref_perm.

Theorem c17_filler_xref_count : forall base f, length (flatten (group (entries_of (fxref base f)))) = length (ff_objs f).
Proof. exact filler_xref_count_lemma. Qed.
Check c17_filler_xref_count : forall base f, length (flatten (group (entries_of (fxref base f)))) = length (ff_objs f).
Print Assumptions c17_filler_xref_count.

Theorem c17_filler_xref_unique : forall base f pre o post c,
  NoDup (fnums f) -> ff_objs f = pre ++ o :: post ->
  In (fst (fst o), c) (flatten (group (entries_of (fxref base f)))) ->
  c = CE (len base + len (body_bytes pre)) (snd (fst o)) true.
Proof. exact filler_xref_unique_lemma. Qed.
Check c17_filler_xref_unique : forall base f pre o post c,
  NoDup (fnums f) -> ff_objs f = pre ++ o :: post ->
  In (fst (fst o), c) (flatten (group (entries_of (fxref base f)))) ->
  c = CE (len base + len (body_bytes pre)) (snd (fst o)) true.
Print Assumptions c17_filler_xref_unique.

(** the no-final-EOL case spelled out *)
Theorem c17_filler_first_offset_no_eol : forall base f o post,
  ends_eol base = false -> ff_objs f = o :: post ->
  In (fst (fst o), CE (len base) (snd (fst o)) true) (flatten (group (entries_of (fxref base f))))
  /\ is_prefix (header_of o) (skipn (length base) (filler_out base f)).
Proof. exact filler_first_offset_no_eol_lemma. Qed.
Check c17_filler_first_offset_no_eol : forall base f o post,
  ends_eol base = false -> ff_objs f = o :: post ->
  In (fst (fst o), CE (len base) (snd (fst o)) true) (flatten (group (entries_of (fxref base f))))
  /\ is_prefix (header_of o) (skipn (length base) (filler_out base f)).
Print Assumptions c17_filler_first_offset_no_eol.

Theorem c17_filler_no_eol_guard : forall base f o post, ff_objs f = o :: post -> exists t, filler_out base f = base ++ header_of o ++ t.
Proof. exact filler_no_eol_guard_lemma. Qed.
Check c17_filler_no_eol_guard : forall base f o post, ff_objs f = o :: post -> exists t, filler_out base f = base ++ header_of o ++ t.
Print Assumptions c17_filler_no_eol_guard.

(** the number after "startxref" is the byte at which the appended "xref" keyword starts *)
Theorem c17_filler_startxref : forall base f,
  let xpos := len base + len (body_bytes (ff_objs f)) in
  (exists t, skipn (N.to_nat xpos) (filler_out base f) = s "xref" ++ nl ++ t) /\
  (exists h, filler_out base f = h ++ s "startxref" ++ nl ++ dec xpos ++ nl ++ s "%%EOF" ++ nl).
Proof. exact filler_startxref_lemma. Qed.
Check c17_filler_startxref : forall base f,
  let xpos := len base + len (body_bytes (ff_objs f)) in
  (exists t, skipn (N.to_nat xpos) (filler_out base f) = s "xref" ++ nl ++ t) /\
  (exists h, filler_out base f = h ++ s "startxref" ++ nl ++ dec xpos ++ nl ++ s "%%EOF" ++ nl).
Print Assumptions c17_filler_startxref.

(** through C04's merge theorem, as [c17_update_reads_latest] *)
Theorem c17_filler_reads_latest : forall secs base f n,
  lookup (file_table (secs ++ [fsection base f])) n =
  match fnew_def base f n with
  | Some d => loc_of (Some d)
  | None => lookup (file_table secs) n
  end.
Proof. exact filler_reads_latest_lemma. Qed.
Check c17_filler_reads_latest : forall secs base f n,
  lookup (file_table (secs ++ [fsection base f])) n =
  match fnew_def base f n with
  | Some d => loc_of (Some d)
  | None => lookup (file_table secs) n
  end.
Print Assumptions c17_filler_reads_latest.

Theorem c17_filler_untouched_unchanged : forall secs base f n,
  ~ In n (fnums f) ->
  lookup (file_table (secs ++ [fsection base f])) n = lookup (file_table secs) n.
Proof. exact filler_untouched_unchanged_lemma. Qed.
Check c17_filler_untouched_unchanged : forall secs base f n,
  ~ In n (fnums f) ->
  lookup (file_table (secs ++ [fsection base f])) n = lookup (file_table secs) n.
Print Assumptions c17_filler_untouched_unchanged.

(** a rewritten object resolves to the exact byte of its "N G obj" *)
Theorem c17_filler_rewritten_reads_exact : forall secs base f pre o post,
  NoDup (fnums f) -> ff_objs f = pre ++ o :: post ->
  lookup (file_table (secs ++ [fsection base f])) (fst (fst o)) = LOffset (len base + len (body_bytes pre)).
Proof. exact filler_rewritten_reads_exact_lemma. Qed.
Check c17_filler_rewritten_reads_exact : forall secs base f pre o post,
  NoDup (fnums f) -> ff_objs f = pre ++ o :: post ->
  lookup (file_table (secs ++ [fsection base f])) (fst (fst o)) = LOffset (len base + len (body_bytes pre)).
Print Assumptions c17_filler_rewritten_reads_exact.

(** histories mixing IncrementalUpdate::finish and the form filler stay extensions of the ORIGINAL file *)
Theorem c17_edits_are_append : forall es st, is_prefix (fst st) (fst (erun st es)).
Proof. exact edits_are_append_lemma. Qed.
Check c17_edits_are_append : forall es st, is_prefix (fst st) (fst (erun st es)).
Print Assumptions c17_edits_are_append.

Theorem c17_fill_after_edits : forall es f base secs n,
  let st := erun (base, secs) es in
  is_prefix base (fst (estep st (EFill f))) /\
  lookup (file_table (snd (estep st (EFill f)))) n =
    match fnew_def (fst st) f n with
    | Some d => loc_of (Some d)
    | None => lookup (file_table (snd st)) n
    end.
Proof. exact fill_after_edits_lemma. Qed.
Check c17_fill_after_edits : forall es f base secs n,
  let st := erun (base, secs) es in
  is_prefix base (fst (estep st (EFill f))) /\
  lookup (file_table (snd (estep st (EFill f)))) n =
    match fnew_def (fst st) f n with
    | Some d => loc_of (Some d)
    | None => lookup (file_table (snd st)) n
    end.
Print Assumptions c17_fill_after_edits.

(** non-vacuity: hypotheses hold on a hand example (emission order 7, 4, 5; base without final EOL) and the
    model reproduces four outputs of the real [IncrementalFormFiller::fill_many] byte for byte *)
Example c17_filler_nonvacuous :
  NoDup (fnums ex_fill) /\ ends_eol (s "%%EOF") = false /\
  ff_objs ex_fill = [(7, 0, s "B")] ++ (4, 0, s "A") :: [(5, 0, s "F")] /\
  lookup (file_table ([Classic [(0, [CE 0 65535 false; CE 15 0 true])]] ++ [fsection (s "%%EOF") ex_fill])) 4 = LOffset 22 /\
  lookup (file_table ([Classic [(0, [CE 0 65535 false; CE 15 0 true])]] ++ [fsection (s "%%EOF") ex_fill])) 1 = LOffset 15 /\
  filler_code {| fc_base := s "%%EOF"; fc_fill := ex_fill; fc_out := filler_out (s "%%EOF") ex_fill |} = 0.
Proof. exact ex_filler_hyps. Qed.

(** * C17 x C09: the bytes at the recorded offset parse back (theories/C17/ParseBack.v).
    The serialised bodies are inputs of [finish] / [filler_out]; when a body is C09's [ser_incr v]
    (the incremental writer's object serialiser, C09/Model.v) of a value with [wf_incr v]
    (C09/IncrFull.v), C09's reader — lexer [lex_all] + parser [parse_tok], unchanged — run on what
    follows the "N G obj\n" header returns [norm v] and leaves the keyword [endobj] as next token. *)
From OxVerif Require Import C09.Model C09.Proofs C09.Full C09.IncrFull.
From OxVerif Require Import C04.Model C17.Model C17.Proofs C17.Filler C17.ParseBack.

(** [read_value] is C09's [parse] that also hands back the unread tokens *)
Theorem c17_parse_is_read_value : forall bs, parse bs = option_map fst (read_value bs).
Proof. exact parse_is_read_value. Qed.
Check c17_parse_is_read_value : forall bs, parse bs = option_map fst (read_value bs).
Print Assumptions c17_parse_is_read_value.

(** C09 alone: a [ser_incr] value followed by LF "endobj" LF and anything *)
Theorem c17_value_then_endobj_reads : forall v rest, wf_incr v = true ->
  exists ts', read_value (ser_incr v ++ endobj_tail rest) = Some (norm v, TKw w_endobj :: ts').
Proof. exact incr_read_value_endobj. Qed.
Check c17_value_then_endobj_reads : forall v rest, wf_incr v = true ->
  exists ts', read_value (ser_incr v ++ endobj_tail rest) = Some (norm v, TKw w_endobj :: ts').
Print Assumptions c17_value_then_endobj_reads.

(** [finish]: every written object has a line whose offset is the exact byte of its "N G obj"
    (the analogue of [c17_filler_xref_covers]); with distinct numbers C04's reader resolves to it *)
Theorem c17_update_xref_covers : forall base u pre o post,
  sort (u_objs u) = pre ++ o :: post ->
  let off := len (start_of base) + len (body_bytes pre) in
  In (fst (fst o), CE off (snd (fst o)) true) (flatten (group (entries_of (changed base u))))
  /\ exists t, skipn (N.to_nat off) (finish base u) = obj_bytes o ++ t.
Proof. exact update_xref_covers_lemma. Qed.
Check c17_update_xref_covers : forall base u pre o post,
  sort (u_objs u) = pre ++ o :: post ->
  let off := len (start_of base) + len (body_bytes pre) in
  In (fst (fst o), CE off (snd (fst o)) true) (flatten (group (entries_of (changed base u))))
  /\ exists t, skipn (N.to_nat off) (finish base u) = obj_bytes o ++ t.
Print Assumptions c17_update_xref_covers.

Theorem c17_update_rewritten_reads_exact : forall secs base u pre o post,
  NoDup (map (fun o : robj => fst (fst o)) (u_objs u)) -> sort (u_objs u) = pre ++ o :: post ->
  lookup (file_table (secs ++ [section_of base u])) (fst (fst o)) =
  LOffset (len (start_of base) + len (body_bytes pre)).
Proof. exact update_rewritten_reads_exact_lemma. Qed.
Check c17_update_rewritten_reads_exact : forall secs base u pre o post,
  NoDup (map (fun o : robj => fst (fst o)) (u_objs u)) -> sort (u_objs u) = pre ++ o :: post ->
  lookup (file_table (secs ++ [section_of base u])) (fst (fst o)) =
  LOffset (len (start_of base) + len (body_bytes pre)).
Print Assumptions c17_update_rewritten_reads_exact.

(** the composition, one object located by its position in the written (sorted) order *)
Theorem c17_rewritten_object_parses_back_at : forall base u pre o post v,
  sort (u_objs u) = pre ++ o :: post -> snd o = ser_incr v -> wf_incr v = true ->
  let off := len (start_of base) + len (body_bytes pre) in
  In (fst (fst o), CE off (snd (fst o)) true) (flatten (group (entries_of (changed base u))))
  /\ exists t ts',
       skipn (N.to_nat off) (finish base u) = header_of o ++ ser_incr v ++ endobj_tail t
       /\ read_value (ser_incr v ++ endobj_tail t) = Some (norm v, TKw w_endobj :: ts')
       /\ parse (ser_incr v ++ endobj_tail t) = Some (norm v).
Proof. exact rewritten_object_parses_back_at. Qed.
Check c17_rewritten_object_parses_back_at : forall base u pre o post v,
  sort (u_objs u) = pre ++ o :: post -> snd o = ser_incr v -> wf_incr v = true ->
  let off := len (start_of base) + len (body_bytes pre) in
  In (fst (fst o), CE off (snd (fst o)) true) (flatten (group (entries_of (changed base u))))
  /\ exists t ts',
       skipn (N.to_nat off) (finish base u) = header_of o ++ ser_incr v ++ endobj_tail t
       /\ read_value (ser_incr v ++ endobj_tail t) = Some (norm v, TKw w_endobj :: ts')
       /\ parse (ser_incr v ++ endobj_tail t) = Some (norm v).
Print Assumptions c17_rewritten_object_parses_back_at.

(** for every base and every update whose replacement bodies are [ser_incr] of [wf_incr] values:
    every replacement object has a line in the appended section; from the offset of that line on,
    the output is "N G obj\n" ++ ser_incr v ++ "\nendobj\n" ++ t; C09's reader on what follows the
    header returns [norm v] and the next token is the keyword [endobj] *)
Theorem c17_rewritten_object_parses_back : forall base u vals,
  map (fun o : robj => snd o) (u_objs u) = map ser_incr vals -> forallb wf_incr vals = true ->
  forall o, In o (u_objs u) ->
  exists off v t ts',
    In (fst (fst o), CE off (snd (fst o)) true) (flatten (group (entries_of (changed base u))))
    /\ len base <= off
    /\ In v vals /\ snd o = ser_incr v
    /\ skipn (N.to_nat off) (finish base u) = header_of o ++ ser_incr v ++ endobj_tail t
    /\ read_value (ser_incr v ++ endobj_tail t) = Some (norm v, TKw w_endobj :: ts')
    /\ parse (ser_incr v ++ endobj_tail t) = Some (norm v).
Proof. exact rewritten_object_parses_back_lemma. Qed.
Check c17_rewritten_object_parses_back : forall base u vals,
  map (fun o : robj => snd o) (u_objs u) = map ser_incr vals -> forallb wf_incr vals = true ->
  forall o, In o (u_objs u) ->
  exists off v t ts',
    In (fst (fst o), CE off (snd (fst o)) true) (flatten (group (entries_of (changed base u))))
    /\ len base <= off
    /\ In v vals /\ snd o = ser_incr v
    /\ skipn (N.to_nat off) (finish base u) = header_of o ++ ser_incr v ++ endobj_tail t
    /\ read_value (ser_incr v ++ endobj_tail t) = Some (norm v, TKw w_endobj :: ts')
    /\ parse (ser_incr v ++ endobj_tail t) = Some (norm v).
Print Assumptions c17_rewritten_object_parses_back.

(** with distinct object numbers: the offset C04's reader resolves the object to IS that byte *)
Theorem c17_rewritten_object_resolves_and_parses_back : forall secs base u vals,
  NoDup (map (fun o : robj => fst (fst o)) (u_objs u)) ->
  map (fun o : robj => snd o) (u_objs u) = map ser_incr vals -> forallb wf_incr vals = true ->
  forall o, In o (u_objs u) ->
  exists off v t ts',
    lookup (file_table (secs ++ [section_of base u])) (fst (fst o)) = LOffset off
    /\ In v vals /\ snd o = ser_incr v
    /\ skipn (N.to_nat off) (finish base u) = header_of o ++ ser_incr v ++ endobj_tail t
    /\ read_value (ser_incr v ++ endobj_tail t) = Some (norm v, TKw w_endobj :: ts').
Proof. exact rewritten_object_resolves_and_parses_back_lemma. Qed.
Check c17_rewritten_object_resolves_and_parses_back : forall secs base u vals,
  NoDup (map (fun o : robj => fst (fst o)) (u_objs u)) ->
  map (fun o : robj => snd o) (u_objs u) = map ser_incr vals -> forallb wf_incr vals = true ->
  forall o, In o (u_objs u) ->
  exists off v t ts',
    lookup (file_table (secs ++ [section_of base u])) (fst (fst o)) = LOffset off
    /\ In v vals /\ snd o = ser_incr v
    /\ skipn (N.to_nat off) (finish base u) = header_of o ++ ser_incr v ++ endobj_tail t
    /\ read_value (ser_incr v ++ endobj_tail t) = Some (norm v, TKw w_endobj :: ts').
Print Assumptions c17_rewritten_object_resolves_and_parses_back.

(** the form filler's own tail, from [c17_filler_xref_covers] *)
Theorem c17_filler_object_parses_back : forall base f pre o post v,
  ff_objs f = pre ++ o :: post -> snd o = ser_incr v -> wf_incr v = true ->
  let off := len base + len (body_bytes pre) in
  In (fst (fst o), CE off (snd (fst o)) true) (flatten (group (entries_of (fxref base f))))
  /\ exists t ts',
       skipn (N.to_nat off) (filler_out base f) = header_of o ++ ser_incr v ++ endobj_tail t
       /\ read_value (ser_incr v ++ endobj_tail t) = Some (norm v, TKw w_endobj :: ts')
       /\ parse (ser_incr v ++ endobj_tail t) = Some (norm v).
Proof. exact filler_object_parses_back_lemma. Qed.
Check c17_filler_object_parses_back : forall base f pre o post v,
  ff_objs f = pre ++ o :: post -> snd o = ser_incr v -> wf_incr v = true ->
  let off := len base + len (body_bytes pre) in
  In (fst (fst o), CE off (snd (fst o)) true) (flatten (group (entries_of (fxref base f))))
  /\ exists t ts',
       skipn (N.to_nat off) (filler_out base f) = header_of o ++ ser_incr v ++ endobj_tail t
       /\ read_value (ser_incr v ++ endobj_tail t) = Some (norm v, TKw w_endobj :: ts')
       /\ parse (ser_incr v ++ endobj_tail t) = Some (norm v).
Print Assumptions c17_filler_object_parses_back.

(** * the whole indirect object, header included.  [read_indirect] (ParseBack.v) reads integer,
    integer, keyword [obj], one value (C09's [parse_tok]), keyword [endobj] from C09's token sequence
    [lex_all]; it packages the token-level facts and is itself not tied to reader.rs by a channel.
    Object numbers are u32 and generations u16 in the code (ObjectId(u32, u16)). *)
Theorem c17_obj_bytes_lexes : forall o v t,
  fst (fst o) <= 4294967295 -> snd (fst o) <= 65535 -> wf_incr v = true ->
  Lexes (header_of o ++ ser_incr v ++ endobj_tail t)
        (TInt (Z.of_N (fst (fst o))) :: TInt (Z.of_N (snd (fst o))) :: TKw w_obj :: toks v ++ [TKw w_endobj])
        (10 :: t).
Proof. exact obj_bytes_lexes. Qed.
Check c17_obj_bytes_lexes : forall o v t,
  fst (fst o) <= 4294967295 -> snd (fst o) <= 65535 -> wf_incr v = true ->
  Lexes (header_of o ++ ser_incr v ++ endobj_tail t)
        (TInt (Z.of_N (fst (fst o))) :: TInt (Z.of_N (snd (fst o))) :: TKw w_obj :: toks v ++ [TKw w_endobj])
        (10 :: t).
Print Assumptions c17_obj_bytes_lexes.

Theorem c17_rewritten_object_read_indirect : forall base u pre o post v,
  sort (u_objs u) = pre ++ o :: post -> snd o = ser_incr v -> wf_incr v = true ->
  fst (fst o) <= 4294967295 -> snd (fst o) <= 65535 ->
  let off := len (start_of base) + len (body_bytes pre) in
  In (fst (fst o), CE off (snd (fst o)) true) (flatten (group (entries_of (changed base u))))
  /\ read_indirect (skipn (N.to_nat off) (finish base u)) =
     Some (Z.of_N (fst (fst o)), Z.of_N (snd (fst o)), norm v).
Proof. exact rewritten_object_read_indirect_lemma. Qed.
Check c17_rewritten_object_read_indirect : forall base u pre o post v,
  sort (u_objs u) = pre ++ o :: post -> snd o = ser_incr v -> wf_incr v = true ->
  fst (fst o) <= 4294967295 -> snd (fst o) <= 65535 ->
  let off := len (start_of base) + len (body_bytes pre) in
  In (fst (fst o), CE off (snd (fst o)) true) (flatten (group (entries_of (changed base u))))
  /\ read_indirect (skipn (N.to_nat off) (finish base u)) =
     Some (Z.of_N (fst (fst o)), Z.of_N (snd (fst o)), norm v).
Print Assumptions c17_rewritten_object_read_indirect.

Theorem c17_filler_object_read_indirect : forall base f pre o post v,
  ff_objs f = pre ++ o :: post -> snd o = ser_incr v -> wf_incr v = true ->
  fst (fst o) <= 4294967295 -> snd (fst o) <= 65535 ->
  let off := len base + len (body_bytes pre) in
  In (fst (fst o), CE off (snd (fst o)) true) (flatten (group (entries_of (fxref base f))))
  /\ read_indirect (skipn (N.to_nat off) (filler_out base f)) =
     Some (Z.of_N (fst (fst o)), Z.of_N (snd (fst o)), norm v).
Proof. exact filler_object_read_indirect_lemma. Qed.
Check c17_filler_object_read_indirect : forall base f pre o post v,
  ff_objs f = pre ++ o :: post -> snd o = ser_incr v -> wf_incr v = true ->
  fst (fst o) <= 4294967295 -> snd (fst o) <= 65535 ->
  let off := len base + len (body_bytes pre) in
  In (fst (fst o), CE off (snd (fst o)) true) (flatten (group (entries_of (fxref base f))))
  /\ read_indirect (skipn (N.to_nat off) (filler_out base f)) =
     Some (Z.of_N (fst (fst o)), Z.of_N (snd (fst o)), norm v).
Print Assumptions c17_filler_object_read_indirect.

(** non-vacuity: base without final EOL, two replacements registered in descending order, one body a
    nested dictionary with a non-ASCII name, a string with parentheses and a backslash, a reference
    and nested dictionaries (C09's [incr_sample]); hypotheses hold and the conclusion computes *)
Example c17_parses_back_hyps :
  map (fun o : robj => snd o) (u_objs pb_upd) = map ser_incr pb_vals
  /\ forallb wf_incr pb_vals = true
  /\ sort (u_objs pb_upd) = [] ++ (3, 0, ser_incr incr_sample) :: [(7, 0, ser_incr (nth 0 pb_vals ONull))]
  /\ ends_eol pb_base = false.
Proof. exact pb_hyps. Qed.
Example c17_parses_back_nodup : NoDup (map (fun o : robj => fst (fst o)) (u_objs pb_upd)).
Proof. exact pb_nodup. Qed.
Example c17_parses_back_concl :
  let out := finish pb_base pb_upd in
  In (3, CE 19 0 true) (flatten (group (entries_of (changed pb_base pb_upd))))
  /\ lookup (file_table ([Classic [(0, [CE 0 65535 false; CE 15 0 true; CE 30 0 true; CE 40 0 true])]] ++ [section_of pb_base pb_upd])) 3 = LOffset 19
  /\ is_prefixb (s "3 0 obj" ++ nl ++ ser_incr incr_sample ++ nl ++ s "endobj" ++ nl ++ s "7 0 obj" ++ nl) (skipn 19 out) = true
  /\ option_map (fun r => (fst r, hd TEof (snd r))) (read_value (skipn (19 + 8) out)) = Some (norm incr_sample, TKw w_endobj)
  /\ parse (ser_incr incr_sample ++ endobj_tail (skipn (19 + 8 + length (ser_incr incr_sample) + 8) out)) = Some (norm incr_sample)
  /\ read_indirect (skipn 19 out) = Some (3%Z, 0%Z, norm incr_sample)
  /\ ascii_names incr_sample = false.
Proof. exact pb_concl. Qed.
