(** C17 — incremental updates are append-only and take effect.
    Only statements here; proofs live in theories/C17/Proofs.v. *)
From OxVerif Require Import Base.Util C04.Model C04.Proofs C17.Model C17.Proofs.

(** every output begins with the previous file's bytes, whatever is replaced *)
Theorem c17_update_is_append : forall base u, is_prefix base (finish base u).
Proof. exact update_is_append_lemma. Qed.
Check c17_update_is_append : forall base u, is_prefix base (finish base u).
Print Assumptions c17_update_is_append.

(** the partial cross-reference section lists exactly the rewritten objects, in order, in
    subsections whose numbering (first, first+1, ...) gives back their object numbers *)
Theorem c17_partial_xref_covers : forall (l : list (N * centry)), flatten (group l) = l.
Proof. exact (@group_flatten centry). Qed.
Check c17_partial_xref_covers : forall (l : list (N * centry)), flatten (group l) = l.
Print Assumptions c17_partial_xref_covers.

(** ... and every entry line is exactly 20 bytes *)
Theorem c17_partial_xref_entry_20 : forall off g u,
  off < 10000000000 -> g < 100000 -> length (render_entry (CE off g u)) = 20%nat.
Proof. exact render_entry_20. Qed.
Check c17_partial_xref_entry_20 : forall off g u,
  off < 10000000000 -> g < 100000 -> length (render_entry (CE off g u)) = 20%nat.
Print Assumptions c17_partial_xref_entry_20.

(** through C04's reader: a rewritten object resolves to its new definition, any other object
    resolves exactly as in the previous file *)
Theorem c17_update_reads_latest : forall secs base u n,
  lookup (file_table (secs ++ [section_of base u])) n =
  match new_def base u n with
  | Some d => loc_of (Some d)
  | None => lookup (file_table secs) n
  end.
Proof. exact update_reads_latest_lemma. Qed.
Check c17_update_reads_latest : forall secs base u n,
  lookup (file_table (secs ++ [section_of base u])) n =
  match new_def base u n with
  | Some d => loc_of (Some d)
  | None => lookup (file_table secs) n
  end.
Print Assumptions c17_update_reads_latest.

Theorem c17_untouched_unchanged : forall secs base u n,
  ~ In n (map (fun o : robj => fst (fst o)) (u_objs u)) ->
  lookup (file_table (secs ++ [section_of base u])) n = lookup (file_table secs) n.
Proof. exact untouched_unchanged_lemma. Qed.
Check c17_untouched_unchanged : forall secs base u n,
  ~ In n (map (fun o : robj => fst (fst o)) (u_objs u)) ->
  lookup (file_table (secs ++ [section_of base u])) n = lookup (file_table secs) n.
Print Assumptions c17_untouched_unchanged.

Theorem c17_rewritten_reads_new : forall secs base u n,
  In n (map (fun o : robj => fst (fst o)) (u_objs u)) ->
  exists off, lookup (file_table (secs ++ [section_of base u])) n = LOffset off /\ len base <= off.
Proof. exact rewritten_reads_new_lemma. Qed.
Check c17_rewritten_reads_new : forall secs base u n,
  In n (map (fun o : robj => fst (fst o)) (u_objs u)) ->
  exists off, lookup (file_table (secs ++ [section_of base u])) n = LOffset off /\ len base <= off.
Print Assumptions c17_rewritten_reads_new.

(** any number of edits: still an extension of the ORIGINAL file, and the last edit reads latest *)
Theorem c17_updates_compose : forall us u base secs n,
  let st := run (base, secs) us in
  is_prefix base (fst (step st u)) /\
  lookup (file_table (snd (step st u))) n =
    match new_def (fst st) u n with
    | Some d => loc_of (Some d)
    | None => lookup (file_table (snd st)) n
    end.
Proof. exact updates_compose_lemma. Qed.
Check c17_updates_compose : forall us u base secs n,
  let st := run (base, secs) us in
  is_prefix base (fst (step st u)) /\
  lookup (file_table (snd (step st u))) n =
    match new_def (fst st) u n with
    | Some d => loc_of (Some d)
    | None => lookup (file_table (snd st)) n
    end.
Print Assumptions c17_updates_compose.

(** non-vacuity of the implications *)
Example c17_nonvacuous_reads :
  lookup (file_table ([Classic [(0, [CE 0 65535 false; CE 15 0 true; CE 30 0 true; CE 40 0 true])]] ++ [section_of (s "%PDF") ex_upd])) 3 = LOffset 5 /\
  lookup (file_table ([Classic [(0, [CE 0 65535 false; CE 15 0 true; CE 30 0 true; CE 40 0 true])]] ++ [section_of (s "%PDF") ex_upd])) 2 = LOffset 30 /\
  In 3 (map (fun o : robj => fst (fst o)) (u_objs ex_upd)) /\ ~ In 2 (map (fun o : robj => fst (fst o)) (u_objs ex_upd)).
Proof. exact ex_reads. Qed.
Example c17_nonvacuous_entry : length (render_entry (CE 1234567 3 true)) = 20%nat /\ 1234567 < 10000000000 /\ 3 < 100000.
Proof. exact ex_entry_20. Qed.
