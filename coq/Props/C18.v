(** C18 — page-tree navigation follows document order and inheritance.
    Only statements here; proofs live in theories/C18/Proofs.v. *)
From OxVerif Require Import Base.Util C18.Model C18.Proofs.

(** ANY object store (cycles, shared kids, dangling references, wrong /Count, foreign
    types): the flattening never runs out of the fuel |root kids| + |/Kids edges| + 1,
    i.e. it terminates within that many pops, and the flat index has no duplicates *)
Theorem c18_flatten_total : forall s root,
  exists l, run (S (length (resolve_kids s (nkids root)) + edges s)) s (resolve_kids s (nkids root)) [] [] = Some l
            /\ flatten s root = Some l /\ NoDup l.
Proof. intros. destruct (flatten_total_proof s root) as (l & H & Hn). exists l. auto. Qed.
Check c18_flatten_total : forall s root,
  exists l, run (S (length (resolve_kids s (nkids root)) + edges s)) s (resolve_kids s (nkids root)) [] [] = Some l
            /\ flatten s root = Some l /\ NoDup l.
Print Assumptions c18_flatten_total.

(** a well-formed tree (every object once, /Kids as in the tree, direct or through one
    reference, fewer than MAX_PAGES leaves): the flat index — hence page_count and the page
    at each index — is the list of leaves in document order *)
Theorem c18_flatten_wellformed : forall s r a ks root,
  wf s (Node r a ks) = true -> find s r = Some (SDict root) ->
  flatten s root = Some (leaves (Node r a ks)).
Proof. exact flatten_wellformed_proof. Qed.
Check c18_flatten_wellformed : forall s r a ks root,
  wf s (Node r a ks) = true -> find s r = Some (SDict root) ->
  flatten s root = Some (leaves (Node r a ks)).
Print Assumptions c18_flatten_wellformed.

(** inheritance: for each of MediaBox/CropBox/Rotate/Resources, what the walk along /Parent
    (own value first) finds for a leaf is the value the specification hands down the tree,
    i.e. the one of the nearest ancestor-or-self that sets it (hypothesis inside [wf]:
    /Parent consistent with /Kids) *)
Theorem c18_inherit_nearest : forall s t get sel, attr_pair get sel -> wf s t = true ->
  forall r v, In (r, v) (leaf_vals sel None t) ->
  exists nd, find s r = Some (SDict nd) /\ effective s get nd = Some v.
Proof. exact inherit_nearest_proof. Qed.
Check c18_inherit_nearest : forall s t get sel, attr_pair get sel -> wf s t = true ->
  forall r v, In (r, v) (leaf_vals sel None t) ->
  exists nd, find s r = Some (SDict nd) /\ effective s get nd = Some v.
Print Assumptions c18_inherit_nearest.

(** the specification's top-down hand-over is "nearest setter wins" *)
Theorem c18_spec_is_nearest : forall ctx own path, ctx = nearest path -> over ctx own = nearest (own :: path).
Proof. exact over_nearest. Qed.
Check c18_spec_is_nearest : forall ctx own path, ctx = nearest path -> over ctx own = nearest (own :: path).
Print Assumptions c18_spec_is_nearest.

(** the /Parent walk terminates on every store (cyclic /Parent chains included) *)
Theorem c18_inherit_total : forall s get n, effective s get n <> None.
Proof. exact effective_total_proof. Qed.
Check c18_inherit_total : forall s get n, effective s get n <> None.
Print Assumptions c18_inherit_total.

(** * Non-vacuity *)
Definition ex_box (w : Z) : pval := VArr [VInt 10%Z; VInt 20%Z; VInt w; VInt 500%Z].
Definition ex_store : store :=
  [ (2, SDict (Build_node KPages (Some (VRef 9)) None false (Some (ex_box 300)) None (Some (VInt 90%Z)) None));
    (9, SVal (VArr [VRef 4; VRef 5]));
    (4, SDict (Build_node KPages (Some (VArr [VRef 6; VRef 7])) (Some (VRef 2)) false None None (Some (VInt 180%Z)) (Some (VDict 1))));
    (6, SDict (Build_node KPage None (Some (VRef 4)) true None None None None));
    (7, SDict (Build_node KPage None (Some (VRef 4)) true (Some (ex_box 400)) None None None));
    (5, SDict (Build_node KPage None (Some (VRef 2)) true None None None None)) ].
Definition ex_tree : tree :=
  Node 2 (Build_attrs (Some (ex_box 300)) None (Some (VInt 90%Z)) None)
    [ Node 4 (Build_attrs None None (Some (VInt 180%Z)) (Some (VDict 1)))
        [ Leaf 6 (Build_attrs None None None None); Leaf 7 (Build_attrs (Some (ex_box 400)) None None None) ];
      Leaf 5 (Build_attrs None None None None) ].

(** the hypotheses of the two implications hold on a tree with an indirect /Kids array,
    two levels and attributes set at three places *)
Example c18_wf_satisfiable :
  wf ex_store ex_tree = true
  /\ leaves ex_tree = [6; 7; 5]
  /\ leaf_vals t_rot None ex_tree = [(6, Some (VInt 180%Z)); (7, Some (VInt 180%Z)); (5, Some (VInt 90%Z))]
  /\ leaf_vals t_media None ex_tree = [(6, Some (ex_box 300)); (7, Some (ex_box 400)); (5, Some (ex_box 300))].
Proof. vm_compute. repeat split; reflexivity. Qed.

(** a cyclic and shared graph: node 4 lists the root, itself and leaf 5 (also a kid of the root) *)
Definition ex_cyclic : store :=
  [ (2, SDict (Build_node KPages (Some (VArr [VRef 4; VRef 5])) None false None None None None));
    (4, SDict (Build_node KPages (Some (VArr [VRef 2; VRef 4; VRef 5; VRef 6])) (Some (VRef 4)) false None None None None));
    (5, SDict (Build_node KPage None (Some (VRef 4)) true None None None None));
    (6, SDict (Build_node KPage None (Some (VRef 6)) true None None None None)) ].
Example c18_cyclic_terminates :
  model_pages ex_cyclic 2 =
    Some ([5; 6], [POk (Build_pinfo 5 letter None 0%Z None); POk (Build_pinfo 6 letter None 0%Z None)]).
Proof. vm_compute. reflexivity. Qed.
