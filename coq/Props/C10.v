(** C10 — text given through the API reads back unchanged, by the library and by an independent
    (ISO 32000-1 shaped) reader, whether written whole or applied as an incremental form fill.
    [valid_text s] says that [s] is a list of Unicode scalar values, i.e. exactly what a Rust
    [String] can hold: it is the type of the input, not a restriction of the property.
    Only statements here; proofs live in theories/C10/Proofs.v. *)
From OxVerif Require Import Base.Util C09.Model C10.Spec C10.Model C10.Proofs.

(** whole-document writer (Info x6, outline /Title, annotation /Contents, field /V): the library
    reads the written object back as the same text, whatever follows it in the file *)
Theorem c10_lib_roundtrip_whole : forall s rest, valid_text s = true -> lib_read (emit_whole s ++ rest) = Some s.
Proof. exact lib_roundtrip_whole. Qed.
Check c10_lib_roundtrip_whole : forall s rest, valid_text s = true -> lib_read (emit_whole s ++ rest) = Some s.
Print Assumptions c10_lib_roundtrip_whole.

(** ... and so does a reader built from ISO 32000-1 7.3.4.2/7.3.4.3/7.9.2.2 + Annex D.3 *)
Theorem c10_iso_roundtrip_whole : forall s rest, valid_text s = true -> iso_read (emit_whole s ++ rest) = Some s.
Proof. exact iso_roundtrip_whole. Qed.
Check c10_iso_roundtrip_whole : forall s rest, valid_text s = true -> iso_read (emit_whole s ++ rest) = Some s.
Print Assumptions c10_iso_roundtrip_whole.

(** incremental form fill *)
Theorem c10_lib_roundtrip_incr : forall s rest, valid_text s = true -> lib_read (emit_incr s ++ rest) = Some s.
Proof. exact lib_roundtrip_incr. Qed.
Check c10_lib_roundtrip_incr : forall s rest, valid_text s = true -> lib_read (emit_incr s ++ rest) = Some s.
Print Assumptions c10_lib_roundtrip_incr.

Theorem c10_iso_roundtrip_incr : forall s rest, valid_text s = true -> iso_read (emit_incr s ++ rest) = Some s.
Proof. exact iso_roundtrip_incr. Qed.
Check c10_iso_roundtrip_incr : forall s rest, valid_text s = true -> iso_read (emit_incr s ++ rest) = Some s.
Print Assumptions c10_iso_roundtrip_incr.

(** the hypotheses are satisfiable on a non-plain, non-BMP value with delimiters and CR LF *)
Example c10_sample : valid_text sample = true /\ is_plain sample = false
  /\ lib_read (emit_whole sample) = Some sample /\ iso_read (emit_whole sample) = Some sample
  /\ lib_read (emit_incr sample) = Some sample /\ iso_read (emit_incr sample) = Some sample.
Proof. exact sample_valid. Qed.

(** UTF-16: encode_utf16 then from_utf16_lossy (library) / strict UTF-16 (spec) is the identity *)
Theorem c10_utf16_roundtrip : forall s, valid_text s = true -> utf16_lossy (units_of s) = s.
Proof. exact utf16_lossy_roundtrip. Qed.
Check c10_utf16_roundtrip : forall s, valid_text s = true -> utf16_lossy (units_of s) = s.
Print Assumptions c10_utf16_roundtrip.

Theorem c10_decode_text_bom : forall s, valid_text s = true -> decode_text (bom ++ utf16be s) = s.
Proof. exact decode_text_bom. Qed.
Check c10_decode_text_bom : forall s, valid_text s = true -> decode_text (bom ++ utf16be s) = s.
Print Assumptions c10_decode_text_bom.

Theorem c10_spec_decode_bom : forall s, valid_text s = true -> spec_decode (bom ++ utf16be s) = Some s.
Proof. exact spec_decode_bom. Qed.
Check c10_spec_decode_bom : forall s, valid_text s = true -> spec_decode (bom ++ utf16be s) = Some s.
Print Assumptions c10_spec_decode_bom.

(** the byte content chosen by Object::text_string decodes to the text under both readings *)
Theorem c10_decode_payload : forall s, valid_text s = true ->
  decode_text (payload s) = s /\ spec_decode (payload s) = Some s.
Proof. exact decode_payload. Qed.
Check c10_decode_payload : forall s, valid_text s = true -> decode_text (payload s) = s /\ spec_decode (payload s) = Some s.
Print Assumptions c10_decode_payload.

(** plain text (TAB, LF, printable ASCII) is its own UTF-8 and is written as a literal string *)
Theorem c10_plain_text : forall s, is_plain s = true -> utf8s s = s /\ forallb plain_byte s = true.
Proof. exact plain_text. Qed.
Check c10_plain_text : forall s, is_plain s = true -> utf8s s = s /\ forallb plain_byte s = true.
Print Assumptions c10_plain_text.

(** ISO literal-string reading of an escaped string without CR; ISO hex-string reading *)
Theorem c10_iso_lit_esc : forall s rest, forallb (fun c => negb (c =? 13)) s = true ->
  iso_lit (esc_str s ++ 41 :: rest) 0 = Some (s, rest).
Proof. exact iso_lit_esc. Qed.
Check c10_iso_lit_esc : forall s rest, forallb (fun c => negb (c =? 13)) s = true -> iso_lit (esc_str s ++ 41 :: rest) 0 = Some (s, rest).
Print Assumptions c10_iso_lit_esc.

Theorem c10_iso_hex_ser : forall s rest, bytes_ok s = true -> iso_hex (ser_hex s ++ 62 :: rest) None = Some (s, rest).
Proof. exact iso_hex_ser. Qed.
Check c10_iso_hex_ser : forall s rest, bytes_ok s = true -> iso_hex (ser_hex s ++ 62 :: rest) None = Some (s, rest).
Print Assumptions c10_iso_hex_ser.

(** * The behaviour before the repair (bare UTF-8 in a literal string): what held, what did not.
    These keep the reason for [Object::text_string] machine-checked. *)
Theorem c10_raw_roundtrip_ascii : forall s rest, forallb (fun c => c <? 128) s = true ->
  lib_read (emit_whole_raw s ++ rest) = Some s.
Proof. exact raw_roundtrip_ascii. Qed.
Check c10_raw_roundtrip_ascii : forall s rest, forallb (fun c => c <? 128) s = true -> lib_read (emit_whole_raw s ++ rest) = Some s.
Print Assumptions c10_raw_roundtrip_ascii.

Theorem c10_raw_utf8_refuted : exists s, valid_text s = true /\
  lib_read (emit_whole_raw s) = Some [195; 177] /\ iso_read (emit_whole_raw s) = Some [195; 177] /\
  lib_read (emit_incr_raw s) = Some [195; 177] /\ s = [241].
Proof. exact raw_utf8_refuted. Qed.
Check c10_raw_utf8_refuted : exists s, valid_text s = true /\ lib_read (emit_whole_raw s) = Some [195; 177] /\ iso_read (emit_whole_raw s) = Some [195; 177] /\ lib_read (emit_incr_raw s) = Some [195; 177] /\ s = [241].
Print Assumptions c10_raw_utf8_refuted.

Theorem c10_raw_cr_refuted : exists s, forallb (fun c => c <? 128) s = true /\
  lib_read (emit_whole_raw s) = Some s /\ iso_read (emit_whole_raw s) = Some [97; 10; 98] /\ s = [97; 13; 98].
Proof. exact raw_cr_refuted. Qed.
Check c10_raw_cr_refuted : exists s, forallb (fun c => c <? 128) s = true /\ lib_read (emit_whole_raw s) = Some s /\ iso_read (emit_whole_raw s) = Some [97; 10; 98] /\ s = [97; 13; 98].
Print Assumptions c10_raw_cr_refuted.

Theorem c10_raw_ctrl_refuted : exists s, forallb (fun c => c <? 128) s = true /\
  iso_read (emit_whole_raw s) = Some [728] /\ s = [24].
Proof. exact raw_ctrl_refuted. Qed.
Check c10_raw_ctrl_refuted : exists s, forallb (fun c => c <? 128) s = true /\ iso_read (emit_whole_raw s) = Some [728] /\ s = [24].
Print Assumptions c10_raw_ctrl_refuted.
