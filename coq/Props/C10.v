(** C10 — text given through the API reads back unchanged, by the library and by an independent
    (ISO 32000-1 shaped) reader, whether written whole or applied as an incremental form fill.
    [valid_text s] says that [s] is a list of Unicode scalar values, i.e. exactly what a Rust
    [String] can hold: it is the type of the input, not a restriction of the property.
    Only statements here; proofs live in theories/C10/Proofs.v. *)
From OxVerif Require Import Base.Util C09.Model C25.Model C10.Spec C10.Model C10.Proofs C10.Decode.
From OxGen Require Import Encodings.

(** whole-document writer (Info x6, outline /Title, annotation /Contents, field /V): the library
    reads the written object back as the same text, whatever follows it in the file *)
Theorem c10_lib_roundtrip_whole : forall s rest, valid_text s = true -> lib_read (emit_whole s ++ rest) = Some s.
Proof. exact lib_roundtrip_whole. Qed.
Check c10_lib_roundtrip_whole : forall s rest, valid_text s = true -> lib_read (emit_whole s ++ rest) = Some s.
Print Assumptions c10_lib_roundtrip_whole.

(** ... and so does a reader built from ISO 32000-1 7.3.4.2/7.3.4.3/7.9.2.2 + Annex D.3 *)
Theorem c10_iso_roundtrip_whole : forall s rest, valid_text s = true -> iso_read (emit_whole s ++ rest) = Some s.
Proof. exact iso_roundtrip_whole. Qed.
Check c10_iso_roundtrip_whole : forall s rest, valid_text s = true -> iso_read (emit_whole s ++ rest) = Some s.
Print Assumptions c10_iso_roundtrip_whole.

(** incremental form fill *)
Theorem c10_lib_roundtrip_incr : forall s rest, valid_text s = true -> lib_read (emit_incr s ++ rest) = Some s.
Proof. exact lib_roundtrip_incr. Qed.
Check c10_lib_roundtrip_incr : forall s rest, valid_text s = true -> lib_read (emit_incr s ++ rest) = Some s.
Print Assumptions c10_lib_roundtrip_incr.

Theorem c10_iso_roundtrip_incr : forall s rest, valid_text s = true -> iso_read (emit_incr s ++ rest) = Some s.
Proof. exact iso_roundtrip_incr. Qed.
Check c10_iso_roundtrip_incr : forall s rest, valid_text s = true -> iso_read (emit_incr s ++ rest) = Some s.
Print Assumptions c10_iso_roundtrip_incr.

(** the hypotheses are satisfiable on a non-plain, non-BMP value with delimiters and CR LF *)
Example c10_sample : valid_text sample = true /\ is_plain sample = false
  /\ lib_read (emit_whole sample) = Some sample /\ iso_read (emit_whole sample) = Some sample
  /\ lib_read (emit_incr sample) = Some sample /\ iso_read (emit_incr sample) = Some sample.
Proof. exact sample_valid. Qed.

(** UTF-16: encode_utf16 then from_utf16_lossy (library) / strict UTF-16 (spec) is the identity *)
Theorem c10_utf16_roundtrip : forall s, valid_text s = true -> utf16_lossy (units_of s) = s.
Proof. exact utf16_lossy_roundtrip. Qed.
Check c10_utf16_roundtrip : forall s, valid_text s = true -> utf16_lossy (units_of s) = s.
Print Assumptions c10_utf16_roundtrip.

Theorem c10_decode_text_bom : forall s, valid_text s = true -> decode_text (bom ++ utf16be s) = s.
Proof. exact decode_text_bom. Qed.
Check c10_decode_text_bom : forall s, valid_text s = true -> decode_text (bom ++ utf16be s) = s.
Print Assumptions c10_decode_text_bom.

Theorem c10_spec_decode_bom : forall s, valid_text s = true -> spec_decode (bom ++ utf16be s) = Some s.
Proof. exact spec_decode_bom. Qed.
Check c10_spec_decode_bom : forall s, valid_text s = true -> spec_decode (bom ++ utf16be s) = Some s.
Print Assumptions c10_spec_decode_bom.

(** the byte content chosen by Object::text_string decodes to the text under both readings *)
Theorem c10_decode_payload : forall s, valid_text s = true ->
  decode_text (payload s) = s /\ spec_decode (payload s) = Some s.
Proof. exact decode_payload. Qed.
Check c10_decode_payload : forall s, valid_text s = true -> decode_text (payload s) = s /\ spec_decode (payload s) = Some s.
Print Assumptions c10_decode_payload.

(** plain text (TAB, LF, printable ASCII) is its own UTF-8 and is written as a literal string *)
Theorem c10_plain_text : forall s, is_plain s = true -> utf8s s = s /\ forallb plain_byte s = true.
Proof. exact plain_text. Qed.
Check c10_plain_text : forall s, is_plain s = true -> utf8s s = s /\ forallb plain_byte s = true.
Print Assumptions c10_plain_text.

(** ISO literal-string reading of an escaped string without CR; ISO hex-string reading *)
Theorem c10_iso_lit_esc : forall s rest, forallb (fun c => negb (c =? 13)) s = true ->
  iso_lit (esc_str s ++ 41 :: rest) 0 = Some (s, rest).
Proof. exact iso_lit_esc. Qed.
Check c10_iso_lit_esc : forall s rest, forallb (fun c => negb (c =? 13)) s = true -> iso_lit (esc_str s ++ 41 :: rest) 0 = Some (s, rest).
Print Assumptions c10_iso_lit_esc.

Theorem c10_iso_hex_ser : forall s rest, bytes_ok s = true -> iso_hex (ser_hex s ++ 62 :: rest) None = Some (s, rest).
Proof. exact iso_hex_ser. Qed.
Check c10_iso_hex_ser : forall s rest, bytes_ok s = true -> iso_hex (ser_hex s ++ 62 :: rest) None = Some (s, rest).
Print Assumptions c10_iso_hex_ser.

(** * The reader on ARBITRARY byte strings (channel [dec]); proofs in theories/C10/Decode.v.
    [bytes_ok b] = every element is below 256 = the type [&[u8]], not a restriction.
    [decode_text] is total (a Gallina function); its value is a Rust [String]: scalar values only *)
Theorem c10_decode_text_total : forall b, bytes_ok b = true -> exists t, decode_text b = t /\ valid_text t = true /\ (length t <= length b)%nat.
Proof. exact decode_text_total. Qed.
Check c10_decode_text_total : forall b, bytes_ok b = true -> exists t, decode_text b = t /\ valid_text t = true /\ (length t <= length b)%nat.
Print Assumptions c10_decode_text_total.

(** FE FF prefix: exactly std's [String::from_utf16_lossy] over [chunks_exact(2)] + [from_be_bytes]
    ([std_decode_bom]: index-written chunking, the [DecodeUtf16 {iter, buf}] state machine, U+FFFD for
    every [Err]); an odd final byte is in no chunk *)
Theorem c10_decode_bom_is_utf16_lossy : forall r, decode_text (bom ++ r) = std_decode_bom r.
Proof. exact decode_bom_is_utf16_lossy. Qed.
Check c10_decode_bom_is_utf16_lossy : forall r, decode_text (bom ++ r) = std_decode_bom r.
Print Assumptions c10_decode_bom_is_utf16_lossy.

Theorem c10_utf16_lossy_is_std : forall v, utf16_lossy v = std_from_utf16_lossy v.
Proof. exact utf16_lossy_is_std. Qed.
Check c10_utf16_lossy_is_std : forall v, utf16_lossy v = std_from_utf16_lossy v.
Print Assumptions c10_utf16_lossy_is_std.

Theorem c10_units_is_std_units : forall b, units b = std_units b.
Proof. exact units_is_std_units. Qed.
Check c10_units_is_std_units : forall b, units b = std_units b.
Print Assumptions c10_units_is_std_units.

(** no BOM (shorter than two bytes or not starting FE FF): byte-wise through the generated table *)
Theorem c10_decode_single_byte_is_table : forall b, has_bom b = false -> decode_text b = List.map (dec_table win_dec_char win_dec_char_default) b /\ length (decode_text b) = length b.
Proof. exact decode_single_byte_is_table. Qed.
Check c10_decode_single_byte_is_table : forall b, has_bom b = false -> decode_text b = List.map (dec_table win_dec_char win_dec_char_default) b /\ length (decode_text b) = length b.
Print Assumptions c10_decode_single_byte_is_table.

(** the library-shaped and the ISO-shaped reader where both are defined *)
Theorem c10_readers_agree_on_bom : forall r t, spec_decode (bom ++ r) = Some t -> decode_text (bom ++ r) = t.
Proof. exact readers_agree_on_bom. Qed.
Check c10_readers_agree_on_bom : forall r t, spec_decode (bom ++ r) = Some t -> decode_text (bom ++ r) = t.
Print Assumptions c10_readers_agree_on_bom.

Theorem c10_iso_bom_defined_iff : forall r t, spec_decode (bom ++ r) = Some t <-> Nat.even (length r) = true /\ utf16_strict (units r) = Some t.
Proof. exact iso_bom_defined_iff. Qed.
Check c10_iso_bom_defined_iff : forall r t, spec_decode (bom ++ r) = Some t <-> Nat.even (length r) = true /\ utf16_strict (units r) = Some t.
Print Assumptions c10_iso_bom_defined_iff.

Theorem c10_readers_agree_on_same_cells : forall p, has_bom p = false -> forallb same_cell p = true -> spec_decode p = Some (decode_text p).
Proof. exact readers_agree_on_same_cells. Qed.
Check c10_readers_agree_on_same_cells : forall p, has_bom p = false -> forallb same_cell p = true -> spec_decode p = Some (decode_text p).
Print Assumptions c10_readers_agree_on_same_cells.

(** the predicate the [dec] channel evaluates *)
Theorem c10_readers_agree_on_agree : forall p t, agree p = true -> spec_decode p = Some t -> decode_text p = t.
Proof. exact readers_agree_on_agree. Qed.
Check c10_readers_agree_on_agree : forall p t, agree p = true -> spec_decode p = Some t -> decode_text p = t.
Print Assumptions c10_readers_agree_on_agree.

(** ... and exactly where they differ: without BOM, on the cells of [differ_cells] (0x18..0x1F,
    0x80..0x9B, 0x9D, 0xA0), each of which lies in the class of C25's recorded finding
    C25-pdfdoc-textstring-winansi ([c25_pdfdoc_matches_refuted]) *)
Theorem c10_readers_differ_exactly : forall p t, has_bom p = false -> spec_decode p = Some t -> (decode_text p = t <-> forallb same_cell p = true).
Proof. exact readers_differ_exactly. Qed.
Check c10_readers_differ_exactly : forall p t, has_bom p = false -> spec_decode p = Some t -> (decode_text p = t <-> forallb same_cell p = true).
Print Assumptions c10_readers_differ_exactly.

Theorem c10_same_cell_exactly : forall b, same_cell b = false <-> pdfdoc_char b = None \/ In b differ_cells.
Proof. exact same_cell_exactly. Qed.
Check c10_same_cell_exactly : forall b, same_cell b = false <-> pdfdoc_char b = None \/ In b differ_cells.
Print Assumptions c10_same_cell_exactly.

Theorem c10_differ_cells_in_c25_class : forall b, In b differ_cells -> known_class 15 b = 5.
Proof. exact differ_cells_in_c25_class. Qed.
Check c10_differ_cells_in_c25_class : forall b, In b differ_cells -> known_class 15 b = 5.
Print Assumptions c10_differ_cells_in_c25_class.

Theorem c10_readers_agree_unless_differ_cell : forall p t, spec_decode p = Some t -> decode_text p = t \/ (has_bom p = false /\ exists b, In b p /\ In b differ_cells).
Proof. exact readers_agree_unless_differ_cell. Qed.
Check c10_readers_agree_unless_differ_cell : forall p t, spec_decode p = Some t -> decode_text p = t \/ (has_bom p = false /\ exists b, In b p /\ In b differ_cells).
Print Assumptions c10_readers_agree_unless_differ_cell.

(** the [dec] channel: output = model implies the channel's property predicate (code 0) *)
Theorem c10_dec_prop_follows_from_model : forall p r, otext_eqb (option_map of_utf8 r) (Some (decode_text p)) = true -> dec_code (p, r) = 0.
Proof. exact dec_prop_follows_from_model. Qed.
Check c10_dec_prop_follows_from_model : forall p r, otext_eqb (option_map of_utf8 r) (Some (decode_text p)) = true -> dec_code (p, r) = 0.
Print Assumptions c10_dec_prop_follows_from_model.

(** hypotheses satisfiable / the disagreement is real *)
Example c10_agree_samples :
  agree (bom ++ [216; 61; 222; 0; 0; 241]) = true /\
  spec_decode (bom ++ [216; 61; 222; 0; 0; 241]) = Some [128512; 241] /\
  agree [65; 241; 156; 255] = true /\ has_bom [65; 241; 156; 255] = false /\
  spec_decode [65; 241; 156; 255] = Some [65; 241; 339; 255] /\
  decode_text [65; 241; 156; 255] = [65; 241; 339; 255] /\
  agree [65; 128] = false /\ spec_decode [65; 128] = Some [65; 8226] /\ decode_text [65; 128] = [65; 8364].
Proof. exact agree_samples. Qed.

(** * The behaviour before the repair (bare UTF-8 in a literal string): what held, what did not.
    These keep the reason for [Object::text_string] machine-checked. *)
Theorem c10_raw_roundtrip_ascii : forall s rest, forallb (fun c => c <? 128) s = true ->
  lib_read (emit_whole_raw s ++ rest) = Some s.
Proof. exact raw_roundtrip_ascii. Qed.
Check c10_raw_roundtrip_ascii : forall s rest, forallb (fun c => c <? 128) s = true -> lib_read (emit_whole_raw s ++ rest) = Some s.
Print Assumptions c10_raw_roundtrip_ascii.

Theorem c10_raw_utf8_refuted : exists s, valid_text s = true /\
  lib_read (emit_whole_raw s) = Some [195; 177] /\ iso_read (emit_whole_raw s) = Some [195; 177] /\
  lib_read (emit_incr_raw s) = Some [195; 177] /\ s = [241].
Proof. exact raw_utf8_refuted. Qed.
Check c10_raw_utf8_refuted : exists s, valid_text s = true /\ lib_read (emit_whole_raw s) = Some [195; 177] /\ iso_read (emit_whole_raw s) = Some [195; 177] /\ lib_read (emit_incr_raw s) = Some [195; 177] /\ s = [241].
Print Assumptions c10_raw_utf8_refuted.

Theorem c10_raw_cr_refuted : exists s, forallb (fun c => c <? 128) s = true /\
  lib_read (emit_whole_raw s) = Some s /\ iso_read (emit_whole_raw s) = Some [97; 10; 98] /\ s = [97; 13; 98].
Proof. exact raw_cr_refuted. Qed.
Check c10_raw_cr_refuted : exists s, forallb (fun c => c <? 128) s = true /\ lib_read (emit_whole_raw s) = Some s /\ iso_read (emit_whole_raw s) = Some [97; 10; 98] /\ s = [97; 13; 98].
Print Assumptions c10_raw_cr_refuted.

Theorem c10_raw_ctrl_refuted : exists s, forallb (fun c => c <? 128) s = true /\
  iso_read (emit_whole_raw s) = Some [728] /\ s = [24].
Proof. exact raw_ctrl_refuted. Qed.
Check c10_raw_ctrl_refuted : exists s, forallb (fun c => c <? 128) s = true /\ iso_read (emit_whole_raw s) = Some [728] /\ s = [24].
Print Assumptions c10_raw_ctrl_refuted.
