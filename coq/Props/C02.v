(** C02 — documents written by the library read back with the same content (PARTIAL).
    Carried by proof: (1) the emission/validity theorems of C03 (Props/C03.v), (2) the
    tolerance comparison below, (3) the content-stream round trip of C21 (its own package).
    The Document -> objects translation is NOT modelled: it is validated per produced file. *)
From OxVerif Require Import Base.Util C02.Model C02.Proofs.
Require Import ZArith.
Open Scope Z_scope.

(** the comparison used by the judge IS the stated bound (sound and complete) *)
Theorem c02_close_is_bound : forall d v r, close d v r = true <-> Z.abs (v - r) <= tol d v.
Proof. exact close_iff. Qed.
Check c02_close_is_bound : forall d v r, close d v r = true <-> Z.abs (v - r) <= tol d v.
Print Assumptions c02_close_is_bound.

(** rounding to d decimals moves a value by at most half a unit of the last decimal *)
Theorem c02_round_within_half_unit : forall d v, Z.abs (round_to d v - v) <= half_unit d.
Proof. exact round_within_half_unit. Qed.
Check c02_round_within_half_unit : forall d v, Z.abs (round_to d v - v) <= half_unit d.
Print Assumptions c02_round_within_half_unit.

(** no false alarm: the correctly rounded value, re-read within the f32 slack, is accepted *)
Theorem c02_rounded_value_accepted : forall d v r,
  Z.abs (r - round_to d v) <= slack v -> close d v r = true.
Proof. exact rounded_value_accepted. Qed.
Check c02_rounded_value_accepted : forall d v r,
  Z.abs (r - round_to d v) <= slack v -> close d v r = true.
Print Assumptions c02_rounded_value_accepted.

(** no miss: an accepted value is within half a unit + slack of the authored value *)
Theorem c02_accepted_value_close : forall d v r,
  close d v r = true -> Z.abs (v - r) <= half_unit d + slack v.
Proof. exact accepted_value_close. Qed.
Check c02_accepted_value_close : forall d v r,
  close d v r = true -> Z.abs (v - r) <= half_unit d + slack v.
Print Assumptions c02_accepted_value_close.

(** the operator comparison is pointwise over the colour-normalised sequence: same length,
    same operator names in the same order, operands within tolerance, same colours in force *)
Theorem c02_ops_ok_sound : forall e r, ops_ok e r = true -> Forall2 OpClose e (normalise g0 r).
Proof. exact ops_ok_sound. Qed.
Check c02_ops_ok_sound : forall e r, ops_ok e r = true -> Forall2 OpClose e (normalise g0 r).
Print Assumptions c02_ops_ok_sound.

(** hypotheses satisfiable / the bound bites *)
Example c02_nonvacuous_accept : close 2 123456000 123459999 = true /\ Z.abs (123459999 - round_to 2 123456000) <= slack 123456000.
Proof. split; vm_compute; [reflexivity | discriminate]. Qed.
Example c02_one_decimal_less_rejected : close 2 123460000 123500000 = false.
Proof. reflexivity. Qed.
Example c02_normalise_demo :
  normalise g0
    [(S_ "rg", [ANum 1000000; ANum 0; ANum 0]); (S_ "re", [ANum 0; ANum 0; ANum 10; ANum 10]);
     (S_ "q", []); (S_ "g", [ANum 500000]); (S_ "f", []); (S_ "Q", []); (S_ "f", [])]
  = [(S_ "re", [ANum 0; ANum 0; ANum 10; ANum 10], None, None); (S_ "q", [], None, None);
     (S_ "f", [], Some [500000], None); (S_ "Q", [], None, None);
     (S_ "f", [], Some [1000000; 0; 0], None)].
Proof. exact normalise_demo. Qed.
