#!/bin/bash
# regenerates _CoqProject (all theories/**.v and Gen/*.v; Props are compiled by the driver) and the Makefile
cd "$(dirname "$0")"
{
 echo "-Q theories OxVerif"
 echo "-Q Gen OxGen"
 echo "-arg -w -arg -notation-overridden,-deprecated-hint-without-locality,-deprecated-syntactic-definition,-ambiguous-paths"
 find theories Gen -name '*.v' | sort
} > _CoqProject.new
if ! cmp -s _CoqProject.new _CoqProject || [ ! -f Makefile ]; then
  mv _CoqProject.new _CoqProject
  coq_makefile -f _CoqProject -o Makefile >/dev/null 2>&1
else
  rm -f _CoqProject.new
fi
