(** C14 — code-shaped model of pipeline/hybrid_chunking.rs ([HybridChunker::chunk],
    [chunk_with_graph], [split_by_sentences], [split_into_sentences],
    [make_text_fragment_element], [make_chunk]) and pipeline/graph.rs
    ([ElementGraph::build], [top_level_sections], [elements_in_section]).

    Text is a list of Unicode scalar values ([char]s of a Rust [String]); white space
    is the Unicode White_Space set used by [char::is_whitespace], [str::trim] and
    [split_whitespace].  Token counts are [N] (usize without overflow: a counter
    returning values near [usize::MAX] is outside the model).  Not modelled: bbox,
    confidence, font fields of the metadata (copied or defaulted, never consulted),
    [overlap_tokens] and [context_mode] (never read by the chunker). *)
From OxVerif Require Import Base.Util.

Definition text := list N.

Definition is_ws (c : N) : bool :=
  ((9 <=? c) && (c <=? 13)) || (c =? 32) || (c =? 133) || (c =? 160) || (c =? 5760)
  || ((8192 <=? c) && (c <=? 8202)) || (c =? 8232) || (c =? 8233) || (c =? 8239)
  || (c =? 8287) || (c =? 12288).

Definition isnil {A} (l : list A) : bool := match l with [] => true | _ => false end.

Fixpoint trim_start (t : text) : text :=
  match t with
  | [] => []
  | c :: r => if is_ws c then trim_start r else t
  end.

Fixpoint trim_end (t : text) : text :=
  match t with
  | [] => []
  | c :: r => let r' := trim_end r in if is_ws c && isnil r' then [] else c :: r'
  end.

Definition trim (t : text) : text := trim_end (trim_start t).

(** [str::split_whitespace]: maximal runs of non-white-space characters *)
Fixpoint words_aux (cur : text) (t : text) : list text :=
  match t with
  | [] => if isnil cur then [] else [cur]
  | c :: r =>
      if is_ws c then (if isnil cur then words_aux [] r else cur :: words_aux [] r)
      else words_aux (cur ++ [c]) r
  end.
Definition words (t : text) : list text := words_aux [] t.

(** [[a,b,c].join(sep)] *)
Fixpoint join_with (sep : text) (l : list text) : text :=
  match l with
  | [] => []
  | [x] => x
  | x :: r => x ++ sep ++ join_with sep r
  end.

Definition text_eqb : text -> text -> bool := list_eqb N.eqb.

(** * Elements *)
Inductive kind := KTitle | KParagraph | KTable | KHeader | KFooter | KListItem | KImage
                | KCodeBlock | KKeyValue.
Inductive payload :=
| PText (t : text)
| PTable (rows : list (list text))
| PImage (alt : option text)
| PKV (k v : text).

Record elem := E { ekind : kind; body : payload; parent : option text;
                   hpath : list text; page : N }.

(** [Element::display_text] *)
Definition display (e : elem) : text :=
  match body e with
  | PText t => t
  | PTable rows => join_with [10] (map (join_with [32; 124; 32]) rows)
  | PImage a => match a with Some t => t | None => [] end
  | PKV k v => k ++ [58; 32] ++ v
  end.

(** [Element::text] *)
Definition etext (e : elem) : text :=
  match body e with
  | PText t => t
  | PTable _ => []
  | PImage a => match a with Some t => t | None => [] end
  | PKV _ v => v
  end.

Definition kind_eqb (a b : kind) : bool :=
  match a, b with
  | KTitle, KTitle | KParagraph, KParagraph | KTable, KTable | KHeader, KHeader
  | KFooter, KFooter | KListItem, KListItem | KImage, KImage | KCodeBlock, KCodeBlock
  | KKeyValue, KKeyValue => true
  | _, _ => false
  end.

Definition payload_eqb (a b : payload) : bool :=
  match a, b with
  | PText x, PText y => text_eqb x y
  | PTable x, PTable y => list_eqb (list_eqb text_eqb) x y
  | PImage x, PImage y => option_eqb text_eqb x y
  | PKV k v, PKV k' v' => text_eqb k k' && text_eqb v v'
  | _, _ => false
  end.

Definition elem_eqb (a b : elem) : bool :=
  kind_eqb (ekind a) (ekind b) && payload_eqb (body a) (body b)
  && option_eqb text_eqb (parent a) (parent b)
  && list_eqb text_eqb (hpath a) (hpath b) && (page a =? page b).

Definition is_title (e : elem) : bool := kind_eqb (ekind e) KTitle.

(** * Configuration *)
Inductive merge_policy := SameTypeOnly | AnyInlineContent.
Record cfg := Cfg { max_tokens : N; merge_adjacent : bool; propagate : bool;
                    policy : merge_policy }.

Definition is_inline (e : elem) : bool :=
  match ekind e with KParagraph | KListItem | KKeyValue => true | _ => false end.

Definition can_merge_elements (a b : elem) (p : merge_policy) : bool :=
  match p with
  | SameTypeOnly =>
      match ekind a, ekind b with
      | KParagraph, KParagraph | KListItem, KListItem => true
      | _, _ => false
      end
  | AnyInlineContent => is_inline a && is_inline b
  end.

Definition is_splittable (e : elem) : bool :=
  match ekind e with KParagraph | KListItem => true | _ => false end.

(** [make_text_fragment_element] *)
Definition frag_elem (src : elem) (f : text) : elem :=
  E KParagraph (PText f) (parent src) (hpath src) (page src).

(** * Sentence splitting (independent of the counter) *)
Definition is_term (c : N) : bool := (c =? 46) || (c =? 33) || (c =? 63).

(** [split_into_sentences]; [cur] is the accumulated [current] string *)
Fixpoint sis (cur : text) (t : text) : list text :=
  match t with
  | [] => let r := trim cur in if isnil r then [] else [r]
  | c :: rest =>
      let cur' := cur ++ [c] in
      if is_term c then
        match rest with
        | d :: rest' => if d =? 32 then trim cur' :: sis [] rest' else sis cur' rest
        | [] => sis cur' rest
        end
      else if c =? 10 then
        (let tr := trim cur' in if isnil tr then sis [] rest else tr :: sis [] rest)
      else sis cur' rest
  end.
Definition split_into_sentences (t : text) : list text := sis [] t.

Record chunk := Ch { celems : list elem; heading : option text; oversized : bool;
                     tokens : N }.

Definition chunk_text (es : list elem) : text := join_with [10] (map display es).

Section Counter.
  Variable count : text -> N.
  Variable additive : bool.      (* is_additive_over_whitespace_join() *)

  (** [split_by_sentences]: state = (fragments, current, current_tokens) *)
  Definition sbs_step (mx : N) (st : list text * text * N) (sentence0 : text)
    : list text * text * N :=
    let '(frags, current, ctok) := st in
    let sentence := trim sentence0 in
    if isnil sentence then st
    else if isnil current then
      (frags, sentence, if additive then count sentence else 0)
    else
      let stok := count sentence in
      let candidate := current ++ [32] ++ sentence in
      let fits := if additive then ctok + stok <=? mx else count candidate <=? mx in
      if fits then (frags, candidate, if additive then ctok + stok else ctok)
      else (frags ++ [current], sentence, stok).

  Definition split_by_sentences (t : text) (mx : N) : list text :=
    let '(frags, current, _) :=
      fold_left (sbs_step mx) (split_into_sentences t) ([], [], 0) in
    let frags := if isnil current then frags else frags ++ [current] in
    if isnil frags then [t] else frags.

  (** [make_chunk] *)
  Definition mk_chunk (es : list elem) (h : option text) (over : bool) : chunk :=
    Ch es h over (count (chunk_text es)).

  Record st := St { chunks : list chunk; buf : list elem; btext : text; btok : N;
                    bhead : option text }.

  (** [flush_buffer] *)
  Definition flush (s : st) : st :=
    St (chunks s ++ [mk_chunk (buf s) (bhead s) false]) [] [] 0 None.

  Definition last_can_merge (b : list elem) (e : elem) (p : merge_policy) : bool :=
    match rev b with
    | l :: _ => can_merge_elements l e p
    | [] => false
    end.

  (** one iteration of the [for element in elements] loop of [HybridChunker::chunk] *)
  Definition step (c : cfg) (s : st) (e : elem) : st :=
    let et := display e in
    let etok := count et in
    let eh := if propagate c then parent e else None in
    let joined_text :=
      if negb (isnil (buf s)) && negb additive then Some (btext s ++ [10] ++ et) else None in
    let jt := match joined_text with
              | Some j => count j
              | None => if isnil (buf s) then etok else btok s + etok
              end in
    let cm := last_can_merge (buf s) e (policy c) in
    let can_merge := merge_adjacent c && negb (isnil (buf s)) && cm && (jt <=? max_tokens c) in
    if can_merge then
      St (chunks s) (buf s ++ [e])
         (match joined_text with Some j => j | None => btext s end) jt (bhead s)
    else
      let s1 :=
        if negb (isnil (buf s))
           && ((max_tokens c <? jt) || negb cm || negb (merge_adjacent c))
        then flush s else s in
      if (max_tokens c <? etok) && isnil (buf s1) then
        if is_splittable e then
          St (chunks s1 ++
                map (fun f => let f' := trim f in
                              mk_chunk [frag_elem e f'] eh (max_tokens c <? count f'))
                    (split_by_sentences et (max_tokens c)))
             (buf s1) (btext s1) (btok s1) (bhead s1)
        else
          St (chunks s1 ++ [mk_chunk [e] eh true]) (buf s1) (btext s1) (btok s1) (bhead s1)
      else
        St (chunks s1) (buf s1 ++ [e]) (if additive then btext s1 else et) etok eh.

  Definition init_st : st := St [] [] [] 0 None.

  Definition finish (s : st) : list chunk :=
    if isnil (buf s) then chunks s else chunks s ++ [mk_chunk (buf s) (bhead s) false].

  (** [HybridChunker::chunk] *)
  Definition chunk_seq (c : cfg) (es : list elem) : list chunk :=
    finish (fold_left (step c) es init_st).

  (** * ElementGraph::build — the parent vector *)
  Fixpoint alookup (h : text) (m : list (text * N)) : option N :=
    match m with
    | [] => None
    | (k, v) :: r => if text_eqb k h then Some v else alookup h r
    end.

  (** [active_title_for_heading]: the newest insertion is found first *)
  Fixpoint parents_from (i : N) (act : list (text * N)) (es : list elem) : list (option N) :=
    match es with
    | [] => []
    | e :: r =>
        if is_title e then None :: parents_from (N.succ i) ((etext e, i) :: act) r
        else (match parent e with Some h => alookup h act | None => None end)
               :: parents_from (N.succ i) act r
    end.

  Fixpoint indexed {A} (i : N) (l : list A) : list (N * A) :=
    match l with [] => [] | x :: r => (i, x) :: indexed (N.succ i) r end.

  (** children of title [t], in index order *)
  Fixpoint select (t : N) (ps : list (option N)) (es : list elem) : list elem :=
    match ps, es with
    | p :: ps', e :: es' =>
        if option_eqb N.eqb p (Some t) then e :: select t ps' es' else select t ps' es'
    | _, _ => []
    end.

  Fixpoint sumN (l : list N) : N := match l with [] => 0 | x :: r => x + sumN r end.

  Definition set_heading (h : option text) (c : chunk) : chunk :=
    Ch (celems c) h (oversized c) (tokens c).

  Definition title_heading (te : elem) : option text :=
    match parent te with Some h => Some h | None => Some (etext te) end.

  (** [section_tokens] (after fix_graph_budget_joined): the per-element sum only for a counter
      that declares itself additive over the join separator, otherwise the count of the
      joined text [make_chunk] will emit — the same rule [chunk] follows since #435 *)
  Definition section_tokens (sec : list elem) : N :=
    if additive then sumN (map (fun e => count (display e)) sec) else count (chunk_text sec).

  Definition section_chunks (c : cfg) (ps : list (option N)) (es : list elem)
             (t : N * elem) : list chunk :=
    let '(ti, te) := t in
    let th := title_heading te in
    let sec := te :: select ti ps es in
    if section_tokens sec <=? max_tokens c
    then [mk_chunk sec th false]
    else map (set_heading th) (chunk_seq c sec).

  (** the code before fix_graph_budget_joined (pinned tree): the per-element sum for every
      counter.  Kept only as the subject of [graph_budget_pinned_refuted]. *)
  Definition section_chunks_pinned (c : cfg) (ps : list (option N)) (es : list elem)
             (t : N * elem) : list chunk :=
    let '(ti, te) := t in
    let th := title_heading te in
    let sec := te :: select ti ps es in
    if sumN (map (fun e => count (display e)) sec) <=? max_tokens c
    then [mk_chunk sec th false]
    else map (set_heading th) (chunk_seq c sec).

  Definition titles_of (es : list elem) : list (N * elem) :=
    filter (fun ie => is_title (snd ie)) (indexed 0 es).

  Fixpoint preamble (es : list elem) : list elem :=
    match es with
    | [] => []
    | e :: r => if is_title e then [] else e :: preamble r
    end.

  (** [chunk_with_graph elements (ElementGraph::build elements)] *)
  Definition chunk_graph (c : cfg) (es : list elem) : list chunk :=
    if isnil es then [] else
    let ps := parents_from 0 [] es in
    let pre := preamble es in
    (if isnil pre then [] else chunk_seq c pre)
      ++ flat_map (section_chunks c ps es) (titles_of es).

  Definition chunk_graph_pinned (c : cfg) (es : list elem) : list chunk :=
    if isnil es then [] else
    let ps := parents_from 0 [] es in
    let pre := preamble es in
    (if isnil pre then [] else chunk_seq c pre)
      ++ flat_map (section_chunks_pinned c ps es) (titles_of es).
End Counter.

(** * The concrete counters of the correspondence (implemented identically in the harness
      through the public [TokenCounter] trait; id 0 is the library's [WordProxyCounter]) *)
Definition len {A} (t : list A) : N := N.of_nat (length t).
Definition count_words (t : text) : N := len (words t).
Definition count_chars4 (t : text) : N := (len t + 3) / 4.
Definition count_toy (t : text) : N :=
  len (words t) + len (filter (fun c => (c =? 10) || is_term c) t).
Definition count_nonws (t : text) : N := len (filter (fun c => negb (is_ws c)) t).

Definition counter_of (id : N) : (text -> N) * bool :=
  if id =? 0 then (count_words, true)
  else if id =? 1 then (count_chars4, false)
  else if id =? 2 then (count_toy, false)
  else (count_nonws, true).

(** * The property's predicates, evaluated on a chunk list (bit 2 of the correspondence) *)
Definition flat (cs : list chunk) : list elem := concat (map celems cs).

Definition is_frag_of (e f : elem) : bool :=
  match body f with
  | PText _ => elem_eqb f (frag_elem e (etext f))
  | _ => false
  end.

(** consume the fragments of [e] at the head of [fl]: at least one, stopping as soon as
    the accumulated words equal the element's words; the rest of [fl] is returned *)
Fixpoint frag_take (e : elem) (target acc : list text) (fl : list elem) : option (list elem) :=
  match fl with
  | [] => None
  | f :: fl' =>
      if is_frag_of e f then
        let acc' := acc ++ words (etext f) in
        if list_eqb text_eqb acc' target then Some fl' else frag_take e target acc' fl'
      else None
  end.

(** every input element exactly once and in order, split fragments re-join to the
    element modulo white space *)
Fixpoint part_b (es : list elem) : list elem -> bool :=
  match es with
  | [] => fun fl => isnil fl
  | e :: r => fun fl =>
      match fl with
      | [] => false
      | f :: fl' =>
          if elem_eqb e f then part_b r fl'
          else is_splittable e &&
               match frag_take e (words (display e)) [] fl with
               | Some rest => part_b r rest
               | None => false
               end
      end
  end.

Definition budget_b (count : text -> N) (mx : N) (c : chunk) : bool :=
  (tokens c =? count (chunk_text (celems c)))
  && (oversized c || (count (chunk_text (celems c)) <=? mx)).

Definition head_parent (c : chunk) : option text :=
  match celems c with e :: _ => parent e | [] => None end.

Definition heading_seq_b (prop : bool) (c : chunk) : bool :=
  negb (isnil (celems c))
  && option_eqb text_eqb (heading c) (if prop then head_parent c else None).

(** graph entry point: preamble chunks as above; a section chunk carries the heading of
    its title ([parent_heading], else the title's text).  Demanded only for
    title-consistent input (each title's [parent_heading] is absent or its own text),
    where it is also the [parent_heading] of every child in the section. *)
Definition title_consistent (es : list elem) : bool :=
  forallb (fun e => negb (is_title e) ||
                    match parent e with None => true | Some h => text_eqb h (etext e) end) es.

(** elements after the first title resolve to the nearest preceding title *)
Fixpoint nearest_from (i : N) (cur : option N) (es : list elem) : list (option N) :=
  match es with
  | [] => []
  | e :: r => if is_title e then None :: nearest_from (N.succ i) (Some i) r
              else cur :: nearest_from (N.succ i) cur r
  end.
Definition well_sectioned (es : list elem) : bool :=
  list_eqb (option_eqb N.eqb) (parents_from 0 [] es) (nearest_from 0 None es).

Definition chunk_eqb (a b : chunk) : bool :=
  list_eqb elem_eqb (celems a) (celems b) && option_eqb text_eqb (heading a) (heading b)
  && Bool.eqb (oversized a) (oversized b) && (tokens a =? tokens b).

(** transport of texts: token indices into a table written by the harness into the case
    file header; values >= 1000 are single scalar values (offset 1000) *)
Definition detok (tbl : list text) (l : list N) : text :=
  flat_map (fun i => if i <? 1000 then nth (N.to_nat i) tbl [] else [i - 1000]) l.

(** transport: output elements are sent as references into the input (expanded here, so
    the comparison is always on full elements) *)
Inductive oelem := OIn (i : N) | OFrag (i : N) (t : text) | OEl (e : elem).
Definition dummy_elem : elem := E KParagraph (PText []) None [] 0.
Definition resolve (es : list elem) (o : oelem) : elem :=
  match o with
  | OIn i => nth (N.to_nat i) es dummy_elem
  | OFrag i t => frag_elem (nth (N.to_nat i) es dummy_elem) t
  | OEl e => e
  end.
Definition ochunk := (list oelem * option text * bool * N)%type.
Definition resolve_chunk (es : list elem) (o : ochunk) : chunk :=
  let '(oe, h, ov, tk) := o in Ch (map (resolve es) oe) h ov tk.

(** one correspondence case: config, counter id, entry point (0 = chunk, 1 = graph),
    input, implementation output *)
Definition case := (cfg * N * N * list elem * list ochunk)%type.

Definition heading_graph_b (prop : bool) (c : chunk) : bool :=
  match celems c with
  | [] => false
  | f :: _ =>
      if is_title f then option_eqb text_eqb (heading c) (title_heading f)
      else option_eqb text_eqb (heading c) (parent f)
           || (negb prop && option_eqb text_eqb (heading c) None)
  end.

(** what [chunk_with_graph] feeds to the per-section chunking, in emission order *)
Definition gather (es : list elem) : list elem :=
  let ps := parents_from 0 [] es in
  preamble es ++ flat_map (fun t : N * elem => snd t :: select (fst t) ps es) (titles_of es).

(** failure code: 1 model<>impl; 2 partition; 4 budget; 8 heading;
    16 partition fails only by the known graph class (input not well-sectioned, output is a
       faithful partition of the gathered sections).
    (32 was the class of C14-graph-budget-sum, fixed by fix_graph_budget_joined: any budget
     failure is now bit 4.) *)
Definition case_code (k : case) : N :=
  let '(c, cid, entry, es, oimpl) := k in
  let impl := map (resolve_chunk es) oimpl in
  let '(cnt, add) := counter_of cid in
  let model := if entry =? 0 then chunk_seq cnt add c es else chunk_graph cnt add c es in
  let model_ok := list_eqb chunk_eqb model impl in
  let part_code :=
    if part_b es (flat impl) then 0
    else if (entry =? 1) && negb (well_sectioned es) && part_b (gather es) (flat impl) then 16
    else 2 in
  let bad_budget := filter (fun ch => negb (budget_b cnt (max_tokens c) ch)) impl in
  let budget_code :=
    if isnil bad_budget then 0 else 4 in
  let head_ok :=
    if entry =? 0 then forallb (heading_seq_b (propagate c)) impl
    else negb (title_consistent es) || forallb (heading_graph_b (propagate c)) impl in
  code_of model_ok true + part_code + budget_code + (if head_ok then 0 else 8).
