(** C14 — proofs about the chunker model. *)
From OxVerif Require Import Base.Util C14.Model.
From Coq Require Import Lia.

(** the documented contract of [TokenCounter::is_additive_over_whitespace_join] *)
Definition AdditiveContract (count : text -> N) (additive : bool) : Prop :=
  additive = true -> forall a b w, is_ws w = true -> count (a ++ w :: b) = count a + count b.

(** * White space and words *)
Lemma isnil_true {A} (l : list A) : isnil l = true -> l = [].
Proof. destruct l; [reflexivity | discriminate]. Qed.
Lemma isnil_false {A} (l : list A) : isnil l = false -> l <> [].
Proof. destruct l; [discriminate | discriminate]. Qed.

Lemma words_aux_app_ws cur a w b : is_ws w = true ->
  words_aux cur (a ++ w :: b) = words_aux cur a ++ words b.
Proof.
  intro Hw. revert cur. induction a as [|c a IH]; intro cur; cbn [app words_aux].
  - rewrite Hw. unfold words. destruct (isnil cur); reflexivity.
  - destruct (is_ws c).
    + destruct (isnil cur); cbn [app]; rewrite IH; reflexivity.
    + apply IH.
Qed.

Lemma words_app_ws a w b : is_ws w = true -> words (a ++ w :: b) = words a ++ words b.
Proof. intro. unfold words at 1 2. apply words_aux_app_ws. assumption. Qed.

Lemma words_trim_start t : words (trim_start t) = words t.
Proof.
  induction t as [|c r IH]; [reflexivity|]. cbn [trim_start].
  destruct (is_ws c) eqn:E; [|reflexivity].
  rewrite IH. unfold words. cbn [words_aux]. rewrite E. reflexivity.
Qed.

Lemma words_aux_trim_end t : forall cur, words_aux cur (trim_end t) = words_aux cur t.
Proof.
  induction t as [|c r IH]; intro cur; [reflexivity|]. cbn [trim_end].
  destruct (is_ws c) eqn:E; cbn [andb].
  - destruct (isnil (trim_end r)) eqn:En.
    + apply isnil_true in En. cbn [words_aux]. rewrite E.
      pose proof (IH []) as H0. rewrite En in H0. cbn [words_aux isnil] in H0. rewrite <- H0.
      destruct (isnil cur); reflexivity.
    + cbn [words_aux]. rewrite E. rewrite IH. reflexivity.
  - cbn [words_aux]. rewrite E. apply IH.
Qed.

Lemma words_trim t : words (trim t) = words t.
Proof. unfold trim, words. rewrite words_aux_trim_end. apply words_trim_start. Qed.

Lemma words_nil : words [] = [].
Proof. reflexivity. Qed.

Lemma words_join w l : is_ws w = true -> words (join_with [w] l) = concat (map words l).
Proof.
  intro Hw. induction l as [|x r IH]; [reflexivity|].
  destruct r as [|y r'].
  - cbn. rewrite app_nil_r. reflexivity.
  - change (join_with [w] (x :: y :: r')) with (x ++ [w] ++ join_with [w] (y :: r')).
    cbn [app]. rewrite words_app_ws by assumption. rewrite IH. reflexivity.
Qed.

Lemma join_with_snoc sep l x : l <> [] -> join_with sep (l ++ [x]) = join_with sep l ++ sep ++ x.
Proof.
  induction l as [|a r IH]; intro H; [congruence|].
  destruct r as [|b r'].
  - reflexivity.
  - change (join_with sep ((a :: b :: r') ++ [x])) with (a ++ sep ++ join_with sep ((b :: r') ++ [x])).
    rewrite IH by discriminate.
    change (join_with sep (a :: b :: r')) with (a ++ sep ++ join_with sep (b :: r')).
    rewrite <- !app_assoc. reflexivity.
Qed.

(** * split_into_sentences keeps the words *)
Lemma sis_words_len : forall n t cur, (length t <= n)%nat ->
  concat (map words (sis cur t)) = words (cur ++ t).
Proof.
  induction n as [|n IH]; intros t cur Hn.
  - destruct t; [|cbn in Hn; lia]. cbn [sis]. rewrite app_nil_r.
    destruct (isnil (trim cur)) eqn:E.
    + apply isnil_true in E. rewrite <- (words_trim cur), E. reflexivity.
    + cbn. rewrite app_nil_r. apply words_trim.
  - destruct t as [|c rest].
    { cbn [sis]. rewrite app_nil_r.
      destruct (isnil (trim cur)) eqn:E.
      + apply isnil_true in E. rewrite <- (words_trim cur), E. reflexivity.
      + cbn. rewrite app_nil_r. apply words_trim. }
    cbn [length] in Hn. cbn [sis].
    assert (Hstep : concat (map words (sis (cur ++ [c]) rest)) = words (cur ++ c :: rest)).
    { rewrite IH by lia. rewrite <- app_assoc. reflexivity. }
    destruct (is_term c).
    + destruct rest as [|d rest']; [exact Hstep|].
      destruct (d =? 32) eqn:Ed; [|exact Hstep].
      apply N.eqb_eq in Ed. subst d. cbn [map concat].
      rewrite words_trim. rewrite (IH rest' []) by (cbn [length] in Hn; lia). cbn [app].
      replace (cur ++ c :: 32 :: rest') with ((cur ++ [c]) ++ 32 :: rest')
        by (rewrite <- app_assoc; reflexivity).
      rewrite (words_app_ws (cur ++ [c]) 32 rest') by reflexivity. reflexivity.
    + destruct (c =? 10) eqn:Ec; [|exact Hstep].
      apply N.eqb_eq in Ec. subst c.
      assert (Hw : words (trim (cur ++ [10])) ++ concat (map words (sis [] rest))
                   = words (cur ++ 10 :: rest)).
      { rewrite words_trim. rewrite (IH rest []) by lia. cbn [app].
        rewrite (words_app_ws cur 10 rest), (words_app_ws cur 10 []) by reflexivity.
        rewrite words_nil, app_nil_r. reflexivity. }
      destruct (isnil (trim (cur ++ [10]))) eqn:E.
      * apply isnil_true in E. rewrite E in Hw. exact Hw.
      * exact Hw.
Qed.

Lemma sis_words t : concat (map words (split_into_sentences t)) = words t.
Proof. unfold split_into_sentences. apply (sis_words_len (length t) t []). lia. Qed.

(** * The partition relation *)
Inductive Covers : list elem -> list elem -> Prop :=
| cov_nil : Covers [] []
| cov_same e r fl : Covers r fl -> Covers (e :: r) (e :: fl)
| cov_split e r fs fl :
    is_splittable e = true -> fs <> [] ->
    words (join_with [32] fs) = words (display e) ->
    Covers r fl -> Covers (e :: r) (map (frag_elem e) fs ++ fl).

Lemma Covers_app a fa b fb : Covers a fa -> Covers b fb -> Covers (a ++ b) (fa ++ fb).
Proof.
  induction 1; intro Hb; cbn [app].
  - exact Hb.
  - constructor. auto.
  - rewrite <- app_assoc. constructor; auto.
Qed.

Lemma Covers_refl l : Covers l l.
Proof. induction l; constructor; auto. Qed.

Definition budget_ok (count : text -> N) (mx : N) (c : chunk) : Prop :=
  tokens c = count (chunk_text (celems c))
  /\ (oversized c = false -> count (chunk_text (celems c)) <= mx).

Definition heading_ok (prop : bool) (c : chunk) : Prop :=
  celems c <> [] /\ heading c = (if prop then head_parent c else None).

Lemma flat_app a b : flat (a ++ b) = flat a ++ flat b.
Proof. unfold flat. rewrite map_app, concat_app. reflexivity. Qed.

Section Counter.
  Variable count : text -> N.
  Variable additive : bool.
  (** the contract of [is_additive_over_whitespace_join]: only demanded of a counter
      that answers [true] *)
  Hypothesis additive_ok : additive = true ->
    forall a b w, is_ws w = true -> count (a ++ w :: b) = count a + count b.

  Notation sbs_step := (sbs_step count additive).
  Notation split_by_sentences := (split_by_sentences count additive).
  Notation mk_chunk := (mk_chunk count).
  Notation step := (step count additive).
  Notation chunk_seq := (chunk_seq count additive).
  Notation chunk_graph := (chunk_graph count additive).

  Definition W (st : list text * text * N) : list text :=
    let '(frags, current, _) := st in concat (map words frags) ++ words current.

  Lemma sbs_step_words mx st s : W (sbs_step mx st s) = W st ++ words s.
  Proof.
    destruct st as [[frags current] ctok]. unfold Model.sbs_step.
    destruct (isnil (trim s)) eqn:E1.
    - apply isnil_true in E1. rewrite <- (words_trim s), E1, words_nil, app_nil_r. reflexivity.
    - destruct (isnil current) eqn:E2.
      + apply isnil_true in E2. subst current. cbn [W]. rewrite words_nil, app_nil_r, words_trim.
        reflexivity.
      + match goal with |- W (if ?c then _ else _) = _ => destruct c end; cbn [W].
        * cbn [app]. rewrite words_app_ws by reflexivity. rewrite words_trim, app_assoc. reflexivity.
        * rewrite map_app, concat_app. cbn [map concat]. rewrite app_nil_r, words_trim.
          rewrite <- app_assoc. reflexivity.
  Qed.

  Lemma sbs_fold_words mx ss : forall st,
    W (fold_left (sbs_step mx) ss st) = W st ++ concat (map words ss).
  Proof.
    induction ss as [|s r IH]; intro st; cbn [fold_left map concat].
    - rewrite app_nil_r. reflexivity.
    - rewrite IH, sbs_step_words, <- app_assoc. reflexivity.
  Qed.

  Lemma split_by_sentences_words t mx :
    concat (map words (split_by_sentences t mx)) = words t.
  Proof.
    unfold Model.split_by_sentences.
    pose proof (sbs_fold_words mx (split_into_sentences t) ([], [], 0)) as H.
    destruct (fold_left (sbs_step mx) (split_into_sentences t) ([], [], 0)) as [[frags current] ctok].
    cbn [W map concat app] in H. rewrite sis_words in H.
    assert (H2 : concat (map words (if isnil current then frags else frags ++ [current])) = words t).
    { destruct (isnil current) eqn:E.
      - apply isnil_true in E. subst. rewrite words_nil, app_nil_r in H. exact H.
      - rewrite map_app, concat_app. cbn [map concat]. rewrite app_nil_r. exact H. }
    destruct (isnil (if isnil current then frags else frags ++ [current])) eqn:E.
    - apply isnil_true in E. rewrite E in H2. cbn in H2. cbn. rewrite app_nil_r. reflexivity.
    - exact H2.
  Qed.

  Lemma split_by_sentences_nonempty t mx : split_by_sentences t mx <> [].
  Proof.
    unfold Model.split_by_sentences.
    destruct (fold_left (sbs_step mx) (split_into_sentences t) ([], [], 0)) as [[frags current] ctok].
    destruct (isnil (if isnil current then frags else frags ++ [current])) eqn:E.
    - discriminate.
    - apply isnil_false in E. exact E.
  Qed.
End Counter.

(** * The loop invariant of [HybridChunker::chunk] *)
Lemma flat_snoc cs c : flat (cs ++ [c]) = flat cs ++ celems c.
Proof. rewrite flat_app. unfold flat at 2. cbn. rewrite app_nil_r. reflexivity. Qed.

Lemma chunk_text_snoc b e : b <> [] -> chunk_text (b ++ [e]) = chunk_text b ++ 10 :: display e.
Proof.
  intro H. unfold chunk_text. rewrite map_app. cbn [map].
  rewrite join_with_snoc by (destruct b; [congruence | discriminate]). reflexivity.
Qed.

Lemma hd_app_nonnil (b : list elem) e : b <> [] ->
  match b ++ [e] with x :: _ => parent x | [] => None end
  = match b with x :: _ => parent x | [] => None end.
Proof. destruct b; [congruence | reflexivity]. Qed.

Section Loop.
  Variable count : text -> N.
  Variable additive : bool.
  Hypothesis additive_ok : additive = true ->
    forall a b w, is_ws w = true -> count (a ++ w :: b) = count a + count b.
  Variable c : cfg.

  Notation mk_chunk := (mk_chunk count).
  Notation step := (step count additive c).
  Notation flush := (flush count).

  Definition good_chunk (ch : chunk) : Prop :=
    budget_ok count (max_tokens c) ch /\ heading_ok (propagate c) ch.

  Record Inv (es : list elem) (s : st) : Prop := {
    inv_cov : Covers es (flat (chunks s) ++ buf s);
    inv_chunks : Forall good_chunk (chunks s);
    inv_buf : buf s <> [] ->
      btok s = count (chunk_text (buf s)) /\ btok s <= max_tokens c
      /\ (additive = false -> btext s = chunk_text (buf s))
      /\ bhead s = (if propagate c then match buf s with x :: _ => parent x | [] => None end else None)
  }.

  Lemma good_mk_single e h over :
    h = (if propagate c then parent e else None) ->
    (over = false -> count (display e) <= max_tokens c) ->
    good_chunk (mk_chunk [e] h over).
  Proof.
    intros Hh Hb. unfold Model.mk_chunk.
    split; split; unfold head_parent; cbn [celems tokens oversized heading].
    - reflexivity.
    - unfold chunk_text. cbn [map join_with]. exact Hb.
    - discriminate.
    - exact Hh.
  Qed.

  Lemma good_flush s : buf s <> [] ->
    (btok s = count (chunk_text (buf s)) /\ btok s <= max_tokens c
      /\ (additive = false -> btext s = chunk_text (buf s))
      /\ bhead s = (if propagate c then match buf s with x :: _ => parent x | [] => None end else None)) ->
    good_chunk (mk_chunk (buf s) (bhead s) false).
  Proof.
    intros Hne (Ht & Hle & _ & Hh). unfold Model.mk_chunk.
    split; split; unfold head_parent; cbn [celems tokens oversized heading].
    - reflexivity.
    - intros _. rewrite <- Ht. exact Hle.
    - exact Hne.
    - exact Hh.
  Qed.

  Lemma step_inv es s e : Inv es s -> Inv (es ++ [e]) (step s e).
  Proof.
    intros [Hcov Hch Hbuf]. unfold Model.step.
    set (et := display e). set (etok := count et).
    set (eh := if propagate c then parent e else None).
    set (jtxt := if negb (isnil (buf s)) && negb additive then Some (btext s ++ [10] ++ et) else None).
    set (jt := match jtxt with Some j => count j
               | None => if isnil (buf s) then etok else btok s + etok end).
    set (cm := last_can_merge (buf s) e (policy c)).
    destruct (merge_adjacent c && negb (isnil (buf s)) && cm && (jt <=? max_tokens c)) eqn:Emerge.
    - (* merge *)
      apply andb_true_iff in Emerge. destruct Emerge as [Em Hjt].
      apply andb_true_iff in Em. destruct Em as [Em _].
      apply andb_true_iff in Em. destruct Em as [_ Hne].
      apply N.leb_le in Hjt.
      assert (Hne' : buf s <> []) by (destruct (buf s); [discriminate | discriminate]).
      destruct (Hbuf Hne') as (Ht & Hle & Htx & Hh).
      assert (Hjt_eq : jt = count (chunk_text (buf s ++ [e]))
                       /\ (additive = false -> match jtxt with Some j => j | None => btext s end
                                               = chunk_text (buf s ++ [e]))).
      { rewrite chunk_text_snoc by exact Hne'. unfold jt, jtxt.
        destruct (isnil (buf s)) eqn:En; [apply isnil_true in En; congruence|]. cbn [negb andb].
        destruct additive eqn:Ea; cbn [negb].
        - split; [|discriminate]. rewrite (additive_ok eq_refl) by reflexivity.
          rewrite Ht. reflexivity.
        - rewrite (Htx eq_refl). cbn [app]. split; [reflexivity | intros _; reflexivity]. }
      destruct Hjt_eq as [Hj1 Hj2].
      constructor; cbn [chunks buf btext btok bhead].
      + rewrite app_assoc. apply Covers_app; [exact Hcov | apply Covers_refl].
      + exact Hch.
      + intros _. repeat split.
        * exact Hj1.
        * exact Hjt.
        * exact Hj2.
        * rewrite Hh. destruct (propagate c); [|reflexivity].
          symmetry. apply hd_app_nonnil. exact Hne'.
    - (* no merge *)
      set (s1 := if negb (isnil (buf s)) && ((max_tokens c <? jt) || negb cm || negb (merge_adjacent c))
                 then flush s else s).
      assert (Hs1 : buf s1 = [] /\ flat (chunks s1) = flat (chunks s) ++ buf s
                    /\ Forall good_chunk (chunks s1)).
      { unfold s1. destruct (isnil (buf s)) eqn:En.
        - apply isnil_true in En. cbn [negb andb]. rewrite En, app_nil_r. auto.
        - cbn [negb andb].
          assert (Hc : (max_tokens c <? jt) || negb cm || negb (merge_adjacent c) = true).
          { try rewrite En in Emerge. cbn [negb] in Emerge. rewrite N.ltb_antisym.
            destruct (merge_adjacent c), cm, (jt <=? max_tokens c); cbn in *; congruence. }
          rewrite Hc. cbn [Model.flush chunks buf]. split; [reflexivity|]. split.
          + apply flat_snoc.
          + apply Forall_app. split; [exact Hch|]. constructor; [|constructor].
            apply isnil_false in En. apply good_flush; auto. }
      destruct Hs1 as (Hb1 & Hf1 & Hg1). fold s1. rewrite Hb1. cbn [isnil].
      rewrite andb_true_r.
      assert (Hcov1 : Covers es (flat (chunks s1))) by (rewrite Hf1; exact Hcov).
      destruct (max_tokens c <? etok) eqn:Eover.
      + destruct (is_splittable e) eqn:Espl.
        * (* split into sentence fragments *)
          constructor; cbn [chunks buf btext btok bhead]; [| |congruence].
          -- rewrite app_nil_r, flat_app.
             apply Covers_app; [exact Hcov1|].
             set (frs := split_by_sentences count additive et (max_tokens c)).
             replace (flat (map (fun f => mk_chunk [frag_elem e (trim f)] eh (max_tokens c <? count (trim f))) frs))
               with (map (frag_elem e) (map trim frs) ++ []).
             2:{ rewrite app_nil_r. unfold flat. induction frs as [|f r IHr]; [reflexivity|].
                 cbn [map concat celems Model.mk_chunk app]. rewrite <- IHr. reflexivity. }
             apply cov_split; [exact Espl | | | constructor].
             ++ pose proof (split_by_sentences_nonempty count additive et (max_tokens c)) as Hn.
                fold frs in Hn. destruct frs; [congruence | discriminate].
             ++ rewrite words_join by reflexivity. rewrite map_map.
                rewrite (map_ext (fun x => words (trim x)) words) by (intro; apply words_trim).
                apply split_by_sentences_words.
          -- apply Forall_app. split; [exact Hg1|].
             apply Forall_forall. intros ch Hin. apply in_map_iff in Hin.
             destruct Hin as (f & <- & _).
             apply good_mk_single; [reflexivity|]. cbn [display frag_elem body].
             intro Hf. apply N.ltb_ge in Hf. exact Hf.
        * (* atomic oversized *)
          constructor; cbn [chunks buf btext btok bhead]; [| |congruence].
          -- rewrite app_nil_r, flat_snoc. cbn [celems Model.mk_chunk].
             apply Covers_app; [exact Hcov1 | apply Covers_refl].
          -- apply Forall_app. split; [exact Hg1|]. constructor; [|constructor].
             apply good_mk_single; [reflexivity | discriminate].
      + (* start a new buffer *)
        apply N.ltb_ge in Eover.
        constructor; cbn [chunks buf btext btok bhead app].
        * apply Covers_app; [exact Hcov1 | apply Covers_refl].
        * exact Hg1.
        * intros _. unfold chunk_text. cbn [map join_with]. repeat split.
          -- exact Eover.
          -- intro Ha. rewrite Ha. reflexivity.
  Qed.

  Lemma fold_inv es : forall es0 s, Inv es0 s -> Inv (es0 ++ es) (fold_left step es s).
  Proof.
    induction es as [|e r IH]; intros es0 s H; cbn [fold_left].
    - rewrite app_nil_r. exact H.
    - replace (es0 ++ e :: r) with ((es0 ++ [e]) ++ r) by (rewrite <- app_assoc; reflexivity).
      apply IH. apply step_inv. exact H.
  Qed.

  Lemma inv_init : Inv [] (init_st).
  Proof. constructor; cbn; [constructor | constructor | congruence]. Qed.

  Theorem chunk_seq_all es :
    Covers es (flat (chunk_seq count additive c es))
    /\ Forall good_chunk (chunk_seq count additive c es).
  Proof.
    unfold Model.chunk_seq.
    pose proof (fold_inv es [] init_st inv_init) as [Hcov Hch Hbuf]. cbn [app] in *.
    set (s := fold_left step es init_st) in *. unfold finish.
    destruct (isnil (buf s)) eqn:En.
    - apply isnil_true in En. rewrite En, app_nil_r in Hcov. auto.
    - apply isnil_false in En. split.
      + rewrite flat_snoc. exact Hcov.
      + apply Forall_app. split; [exact Hch|]. constructor; [|constructor].
        apply good_flush; auto.
  Qed.
End Loop.

(** * The section-graph entry point *)
Lemma flat_set_heading h cs : flat (map (set_heading h) cs) = flat cs.
Proof. unfold flat. rewrite map_map. reflexivity. Qed.

Section Graph.
  Variable count : text -> N.
  Variable additive : bool.
  Hypothesis additive_ok : additive = true ->
    forall a b w, is_ws w = true -> count (a ++ w :: b) = count a + count b.
  Variable c : cfg.

  Lemma count_join_additive l : additive = true -> l <> [] ->
    count (join_with [10] l) = sumN (map count l).
  Proof.
    intros Ha. induction l as [|x r IH]; intro Hne; [congruence|].
    destruct r as [|y r'].
    - cbn. rewrite N.add_0_r. reflexivity.
    - change (join_with [10] (x :: y :: r')) with (x ++ 10 :: join_with [10] (y :: r')).
      rewrite (additive_ok Ha) by reflexivity. rewrite IH by discriminate. reflexivity.
  Qed.

  Lemma section_covers ps es t :
    Covers (snd t :: select (fst t) ps es) (flat (section_chunks count additive c ps es t)).
  Proof.
    destruct t as [ti te]. cbn [fst snd Model.section_chunks].
    match goal with |- context [if ?b then _ else _] => destruct b end.
    - unfold flat. cbn. rewrite app_nil_r. apply Covers_refl.
    - rewrite flat_set_heading. apply (chunk_seq_all count additive additive_ok c).
  Qed.

  Lemma sections_cover ps es ts :
    Covers (flat_map (fun t : N * elem => snd t :: select (fst t) ps es) ts)
           (flat (flat_map (section_chunks count additive c ps es) ts)).
  Proof.
    induction ts as [|t r IH]; cbn [flat_map].
    - constructor.
    - rewrite flat_app. apply Covers_app; [apply section_covers | exact IH].
  Qed.

  (** unconditional: the output is a faithful partition of the gathered sections *)
  Theorem graph_covers_gather es : Covers (gather es) (flat (chunk_graph count additive c es)).
  Proof.
    unfold Model.chunk_graph, gather. destruct es as [|e0 r]; [constructor|].
    cbn [isnil]. rewrite flat_app. apply Covers_app; [|apply sections_cover].
    destruct (isnil (preamble (e0 :: r))) eqn:E.
    - apply isnil_true in E. rewrite E. constructor.
    - apply (chunk_seq_all count additive additive_ok c).
  Qed.

  Lemma budget_set_heading h ch :
    budget_ok count (max_tokens c) ch -> budget_ok count (max_tokens c) (set_heading h ch).
  Proof. intro H. exact H. Qed.

  (** the approval test of a whole-section chunk measures the emitted text *)
  Lemma section_tokens_joined sec : sec <> [] ->
    section_tokens count additive sec = count (chunk_text sec).
  Proof.
    intro Hne. unfold Model.section_tokens, chunk_text.
    destruct (Bool.bool_dec additive true) as [Ha|Ha].
    - rewrite Ha. rewrite (count_join_additive _ Ha).
      + rewrite map_map. reflexivity.
      + destruct sec; [congruence | discriminate].
    - apply Bool.not_true_is_false in Ha. rewrite Ha. reflexivity.
  Qed.

  (** budget of the section-graph chunker, every counter honouring its declaration (fixed code) *)
  Theorem graph_budget es :
    Forall (budget_ok count (max_tokens c)) (chunk_graph count additive c es).
  Proof.
    unfold Model.chunk_graph. destruct (isnil es); [constructor|].
    apply Forall_app. split.
    - destruct (isnil (preamble es)); [constructor|].
      pose proof (proj2 (chunk_seq_all count additive additive_ok c (preamble es))) as H.
      eapply Forall_impl; [|exact H]. intros ch [Hb _]. exact Hb.
    - apply Forall_flat_map. apply Forall_forall. intros [ti te] _.
      cbn [Model.section_chunks].
      match goal with |- context [if ?b then _ else _] => destruct b eqn:Eb end.
      + constructor; [|constructor]. unfold Model.mk_chunk. split; cbn [celems tokens oversized].
        * reflexivity.
        * intros _. apply N.leb_le in Eb.
          rewrite section_tokens_joined in Eb by discriminate. exact Eb.
      + apply Forall_forall. intros ch Hin. apply in_map_iff in Hin. destruct Hin as (ch0 & <- & Hin).
        apply budget_set_heading.
        pose proof (proj2 (chunk_seq_all count additive additive_ok c (te :: select ti (parents_from 0 [] es) es))) as H.
        rewrite Forall_forall in H. exact (proj1 (H _ Hin)).
  Qed.

  (** for an additive counter the fix changes nothing: fixed and pinned code coincide *)
  Lemma chunk_graph_pinned_additive es : additive = true ->
    chunk_graph_pinned count additive c es = chunk_graph count additive c es.
  Proof.
    intro Ha. unfold Model.chunk_graph_pinned, Model.chunk_graph.
    destruct (isnil es); [reflexivity|]. f_equal.
    apply flat_map_ext. intros [ti te].
    unfold Model.section_chunks_pinned, Model.section_chunks, Model.section_tokens.
    rewrite Ha. reflexivity.
  Qed.
End Graph.

(** * Refutation witnesses for the section-graph entry point (confirmed on the real code:
      corpus/C14/graph_drop.json) *)
Definition wit_title (t : text) : elem := E KTitle (PText t) (Some t) [t] 0.
Definition wit_para (t : text) (p : option text) : elem := E KParagraph (PText t) p [] 0.
Definition wit_cfg (mx : N) : cfg := Cfg mx true true AnyInlineContent.

Lemma count_words_additive : forall a b w, is_ws w = true ->
  count_words (a ++ w :: b) = count_words a + count_words b.
Proof.
  intros. unfold count_words, len. rewrite words_app_ws by assumption.
  rewrite app_length. lia.
Qed.

Lemma graph_partition_refuted :
  exists es, ~ Covers es (flat (chunk_graph count_words true (wit_cfg 512) es)).
Proof.
  exists [wit_title [65]; wit_para [120] None].
  vm_compute. intro H. inversion H; subst.
  - match goal with H1 : Covers [_] [] |- _ => inversion H1; subst end.
    match goal with H2 : map _ ?fs ++ _ = [] |- _ => destruct fs; [congruence | discriminate] end.
  - match goal with H1 : is_splittable _ = true |- _ => discriminate H1 end.
Qed.

(** record of the pinned behaviour (known finding C14-graph-budget-sum, fixed): the pre-fix
    definition approves a section by the per-element sum although the emitted text is over budget *)
Lemma graph_budget_pinned_refuted :
  exists es, ~ Forall (budget_ok count_chars4 2) (chunk_graph_pinned count_chars4 false (wit_cfg 2) es).
Proof.
  exists [wit_title [97;98;99;100]; wit_para [101;102;103;104] (Some [97;98;99;100])].
  intro H. vm_compute in H. inversion H as [|ch l [_ Hb] _]; subst.
  specialize (Hb eq_refl). vm_compute in Hb. apply Hb. reflexivity.
Qed.

(** the same input on the fixed code: the section is re-chunked, every chunk within budget *)
Example graph_budget_witness_fixed :
  let es := [wit_title [97;98;99;100]; wit_para [101;102;103;104] (Some [97;98;99;100])] in
  map (fun ch => (length (celems ch), oversized ch, tokens ch))
      (chunk_graph count_chars4 false (wit_cfg 2) es) = [(1%nat, false, 1); (1%nat, false, 1)].
Proof. vm_compute. reflexivity. Qed.

(** non-vacuity of the whole-section branch under a non-additive counter: with max 3 the joined
    text "abcd\nefgh" (9 characters, 3 tokens) is approved as one chunk of two elements *)
Example graph_budget_whole_section_nonadditive :
  let es := [wit_title [97;98;99;100]; wit_para [101;102;103;104] (Some [97;98;99;100])] in
  map (fun ch => (length (celems ch), oversized ch, tokens ch))
      (chunk_graph count_chars4 false (wit_cfg 3) es) = [(2%nat, false, 3)].
Proof. vm_compute. reflexivity. Qed.

(** * Well-sectioned input: the gathered sections are the input *)
Lemma flat_map_ext_in' {A B} (f g : A -> list B) l :
  (forall x, In x l -> f x = g x) -> flat_map f l = flat_map g l.
Proof.
  induction l as [|a r IH]; intro H; [reflexivity|]. cbn [flat_map].
  rewrite (H a) by (left; reflexivity). rewrite IH; [reflexivity|].
  intros x Hx. apply H. right. exact Hx.
Qed.

Lemma indexed_ge {A} (l : list A) : forall j t x, In (t, x) (indexed j l) -> j <= t.
Proof.
  induction l as [|a r IH]; intros j t x H; cbn in H; [contradiction|].
  destruct H as [H|H].
  - injection H as <- _. lia.
  - apply IH in H. lia.
Qed.

Lemma select_nearest_nil r : forall j k t0, t0 < k -> t0 < j ->
  select t0 (nearest_from j (Some k) r) r = [].
Proof.
  induction r as [|e r IH]; intros j k t0 Hk Hj; [reflexivity|].
  cbn [nearest_from]. destruct (is_title e).
  - cbn [select option_eqb]. apply IH; lia.
  - cbn [select option_eqb]. replace (k =? t0) with false by (symmetry; apply N.eqb_neq; lia).
    apply IH; lia.
Qed.

Lemma flat_map_cons' {A B} (f : A -> list B) x l : flat_map f (x :: l) = f x ++ flat_map f l.
Proof. reflexivity. Qed.

Definition lead (cur : option N) (ps : list (option N)) (l : list elem) : list elem :=
  match cur with Some t0 => select t0 ps l | None => preamble l end.

Definition sections_from (i : N) (ps : list (option N)) (l : list elem) : list elem :=
  flat_map (fun t : N * elem => snd t :: select (fst t) ps l)
           (filter (fun ie : N * elem => is_title (snd ie)) (indexed i l)).

Lemma sections_skip i p ps e r :
  (forall t, i < t -> option_eqb N.eqb p (Some t) = false) ->
  flat_map (fun t : N * elem => snd t :: select (fst t) (p :: ps) (e :: r))
           (filter (fun ie : N * elem => is_title (snd ie)) (indexed (N.succ i) r))
  = sections_from (N.succ i) ps r.
Proof.
  intro Hp. unfold sections_from. apply flat_map_ext_in'. intros [t x] Hin.
  apply filter_In in Hin. destruct Hin as [Hin _]. apply indexed_ge in Hin.
  cbn [fst snd select]. rewrite Hp by lia. reflexivity.
Qed.

Lemma gather_nearest l : forall i cur,
  (forall t0, cur = Some t0 -> t0 < i) ->
  lead cur (nearest_from i cur l) l ++ sections_from i (nearest_from i cur l) l = l.
Proof.
  induction l as [|e r IH]; intros i cur Hc.
  - destruct cur; reflexivity.
  - cbn [nearest_from]. destruct (is_title e) eqn:Et.
    + (* a title closes the current section and opens its own *)
      assert (Hlead : lead cur (None :: nearest_from (N.succ i) (Some i) r) (e :: r) = []).
      { destruct cur as [t0|]; cbn [lead].
        - cbn [select option_eqb]. apply select_nearest_nil; [apply Hc; reflexivity | specialize (Hc t0 eq_refl); lia].
        - cbn [preamble]. rewrite Et. reflexivity. }
      rewrite Hlead. cbn [app]. unfold sections_from at 1. cbn [indexed filter snd]. rewrite Et.
      rewrite flat_map_cons'. rewrite sections_skip by reflexivity.
      cbn [fst snd select option_eqb app]. f_equal.
      specialize (IH (N.succ i) (Some i)). cbn [lead] in IH. apply IH.
      intros t0 H. injection H as <-. lia.
    + unfold sections_from at 1. cbn [indexed filter snd]. rewrite Et.
      destruct cur as [t0|]; cbn [lead].
      * rewrite sections_skip.
        2:{ intros t Ht. cbn [option_eqb]. apply N.eqb_neq. specialize (Hc t0 eq_refl). lia. }
        cbn [select option_eqb]. rewrite N.eqb_refl. cbn [app].
        f_equal. specialize (IH (N.succ i) (Some t0)). cbn [lead] in IH. apply IH.
        intros t1 H. injection H as <-. specialize (Hc t0 eq_refl). lia.
      * rewrite sections_skip by reflexivity. cbn [preamble]. rewrite Et. cbn [app].
        f_equal. specialize (IH (N.succ i) None). cbn [lead] in IH. apply IH. discriminate.
Qed.

Lemma option_N_eqb_eq (a b : option N) : option_eqb N.eqb a b = true <-> a = b.
Proof.
  destruct a, b; cbn; split; intro H; try discriminate; try reflexivity.
  - apply N.eqb_eq in H. congruence.
  - injection H as ->. apply N.eqb_refl.
Qed.

Theorem gather_well_sectioned es : well_sectioned es = true -> gather es = es.
Proof.
  unfold well_sectioned. intro H. apply (list_eqb_spec _ option_N_eqb_eq) in H.
  unfold gather, titles_of. rewrite H.
  exact (gather_nearest es 0 None ltac:(discriminate)).
Qed.

(** * Soundness of the executable partition predicate *)
Lemma text_eqb_eq a b : text_eqb a b = true <-> a = b.
Proof. apply bytes_eqb_eq. Qed.

Lemma kind_eqb_eq a b : kind_eqb a b = true -> a = b.
Proof. destruct a, b; cbn; intro H; try reflexivity; discriminate. Qed.

Lemma opt_text_eqb_eq (a b : option text) : option_eqb text_eqb a b = true -> a = b.
Proof.
  destruct a, b; cbn; intro H; try discriminate; try reflexivity.
  apply text_eqb_eq in H. congruence.
Qed.

Lemma payload_eqb_eq a b : payload_eqb a b = true -> a = b.
Proof.
  destruct a, b; cbn; intro H; try discriminate.
  - apply text_eqb_eq in H. congruence.
  - apply (list_eqb_spec _ (list_eqb_spec _ text_eqb_eq)) in H. congruence.
  - apply opt_text_eqb_eq in H. congruence.
  - apply andb_true_iff in H. destruct H as [H1 H2].
    apply text_eqb_eq in H1. apply text_eqb_eq in H2. congruence.
Qed.

Lemma elem_eqb_eq a b : elem_eqb a b = true -> a = b.
Proof.
  destruct a as [k1 b1 p1 h1 g1], b as [k2 b2 p2 h2 g2]. unfold elem_eqb.
  cbn [ekind body parent hpath page]. intro H.
  repeat (apply andb_true_iff in H; destruct H as [H ?]).
  apply kind_eqb_eq in H. apply payload_eqb_eq in H3. apply opt_text_eqb_eq in H2.
  apply (list_eqb_spec _ text_eqb_eq) in H1. apply N.eqb_eq in H0. congruence.
Qed.

Lemma frag_take_sound e target : forall fl acc rest,
  frag_take e target acc fl = Some rest ->
  exists fs, fs <> [] /\ fl = map (frag_elem e) fs ++ rest
             /\ acc ++ concat (map words fs) = target.
Proof.
  induction fl as [|f fl' IH]; intros acc rest H; cbn [frag_take] in H; [discriminate|].
  destruct (is_frag_of e f) eqn:Ef; [|discriminate].
  assert (Hf : f = frag_elem e (etext f)).
  { unfold is_frag_of in Ef. destruct (body f); try discriminate. apply elem_eqb_eq. exact Ef. }
  destruct (list_eqb text_eqb (acc ++ words (etext f)) target) eqn:Eq.
  - injection H as <-. apply (list_eqb_spec _ text_eqb_eq) in Eq.
    exists [etext f]. split; [discriminate|]. split.
    + cbn [map app]. rewrite <- Hf. reflexivity.
    + cbn [map concat]. rewrite app_nil_r. exact Eq.
  - apply IH in H. destruct H as (fs & Hne & Hfl & Hw).
    exists (etext f :: fs). split; [discriminate|]. split.
    + cbn [map app]. rewrite <- Hf, Hfl. reflexivity.
    + cbn [map concat]. rewrite app_assoc. exact Hw.
Qed.

Theorem part_b_sound : forall es fl, part_b es fl = true -> Covers es fl.
Proof.
  induction es as [|e r IH]; intros fl H; cbn [part_b] in H.
  - apply isnil_true in H. subst. constructor.
  - destruct fl as [|f fl']; [discriminate|].
    destruct (elem_eqb e f) eqn:Ee.
    + apply elem_eqb_eq in Ee. subst f. constructor. apply IH. exact H.
    + apply andb_true_iff in H. destruct H as [Hs H].
      destruct (frag_take e (words (display e)) [] (f :: fl')) as [rest|] eqn:Ef; [|discriminate].
      apply frag_take_sound in Ef. destruct Ef as (fs & Hne & Hfl & Hw).
      rewrite Hfl. apply cov_split; auto.
      rewrite words_join by reflexivity. exact Hw.
Qed.
