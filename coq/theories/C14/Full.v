(** C14 — (1) the partition and heading clauses of the sequential chunker do not depend on the
    counter at all (no [AdditiveContract]): only the budget clause does;
    (2) the section-graph chunker's heading theorem: for well-sectioned input the output is
    grouped section by section (sections cut by the ISO-style "nearest preceding title" rule,
    [sections_spec], not by the parent vector), each group is a faithful partition of its
    section and every chunk of the group carries that section's heading. *)
From OxVerif Require Import Base.Util C14.Model C14.Proofs.
From Coq Require Import Lia.

(** * 1. Sequential chunker: counter-independent invariant *)
Section LoopU.
  Variable count : text -> N.
  Variable additive : bool.
  Variable c : cfg.

  Notation mk_chunk := (mk_chunk count).
  Notation step := (step count additive c).
  Notation flush := (flush count).

  Record InvU (es : list elem) (s : st) : Prop := {
    invu_cov : Covers es (flat (chunks s) ++ buf s);
    invu_chunks : Forall (heading_ok (propagate c)) (chunks s);
    invu_head : buf s <> [] ->
      bhead s = (if propagate c then match buf s with x :: _ => parent x | [] => None end else None)
  }.

  Lemma head_mk_single e h over : h = (if propagate c then parent e else None) ->
    heading_ok (propagate c) (mk_chunk [e] h over).
  Proof.
    intros Hh. unfold Model.mk_chunk. split; unfold head_parent; cbn [celems heading]; [discriminate | exact Hh].
  Qed.

  Lemma head_flush s : buf s <> [] ->
    bhead s = (if propagate c then match buf s with x :: _ => parent x | [] => None end else None) ->
    heading_ok (propagate c) (mk_chunk (buf s) (bhead s) false).
  Proof.
    intros Hne Hh. unfold Model.mk_chunk. split; unfold head_parent; cbn [celems heading]; assumption.
  Qed.

  Lemma step_invU es s e : InvU es s -> InvU (es ++ [e]) (step s e).
  Proof.
    intros [Hcov Hch Hbuf]. unfold Model.step.
    set (et := display e). set (etok := count et).
    set (eh := if propagate c then parent e else None).
    set (jtxt := if negb (isnil (buf s)) && negb additive then Some (btext s ++ [10] ++ et) else None).
    set (jt := match jtxt with Some j => count j
               | None => if isnil (buf s) then etok else btok s + etok end).
    set (cm := last_can_merge (buf s) e (policy c)).
    destruct (merge_adjacent c && negb (isnil (buf s)) && cm && (jt <=? max_tokens c)) eqn:Emerge.
    - (* merge *)
      apply andb_true_iff in Emerge. destruct Emerge as [Em _].
      apply andb_true_iff in Em. destruct Em as [Em _].
      apply andb_true_iff in Em. destruct Em as [_ Hne].
      assert (Hne' : buf s <> []) by (destruct (buf s); [discriminate | discriminate]).
      constructor; cbn [chunks buf btext btok bhead].
      + rewrite app_assoc. apply Covers_app; [exact Hcov | apply Covers_refl].
      + exact Hch.
      + intros _. rewrite (Hbuf Hne'). destruct (propagate c); [|reflexivity].
        symmetry. apply hd_app_nonnil. exact Hne'.
    - (* no merge: a non-empty buffer is always flushed (a Boolean fact, no counting involved) *)
      set (s1 := if negb (isnil (buf s)) && ((max_tokens c <? jt) || negb cm || negb (merge_adjacent c))
                 then flush s else s).
      assert (Hs1 : buf s1 = [] /\ flat (chunks s1) = flat (chunks s) ++ buf s
                    /\ Forall (heading_ok (propagate c)) (chunks s1)).
      { unfold s1. destruct (isnil (buf s)) eqn:En.
        - apply isnil_true in En. cbn [negb andb]. rewrite En, app_nil_r. auto.
        - cbn [negb andb].
          assert (Hc : (max_tokens c <? jt) || negb cm || negb (merge_adjacent c) = true).
          { try rewrite En in Emerge. cbn [negb] in Emerge. rewrite N.ltb_antisym.
            destruct (merge_adjacent c), cm, (jt <=? max_tokens c); cbn in *; congruence. }
          rewrite Hc. cbn [Model.flush chunks buf]. split; [reflexivity|]. split.
          + apply flat_snoc.
          + apply Forall_app. split; [exact Hch|]. constructor; [|constructor].
            apply isnil_false in En. apply head_flush; auto. }
      destruct Hs1 as (Hb1 & Hf1 & Hg1). fold s1. rewrite Hb1. cbn [isnil].
      rewrite andb_true_r.
      assert (Hcov1 : Covers es (flat (chunks s1))) by (rewrite Hf1; exact Hcov).
      destruct (max_tokens c <? etok) eqn:Eover.
      + destruct (is_splittable e) eqn:Espl.
        * constructor; cbn [chunks buf btext btok bhead]; [| |congruence].
          -- rewrite app_nil_r, flat_app.
             apply Covers_app; [exact Hcov1|].
             set (frs := split_by_sentences count additive et (max_tokens c)).
             replace (flat (map (fun f => mk_chunk [frag_elem e (trim f)] eh (max_tokens c <? count (trim f))) frs))
               with (map (frag_elem e) (map trim frs) ++ []).
             2:{ rewrite app_nil_r. unfold flat. induction frs as [|f r IHr]; [reflexivity|].
                 cbn [map concat celems Model.mk_chunk app]. rewrite <- IHr. reflexivity. }
             apply cov_split; [exact Espl | | | constructor].
             ++ pose proof (split_by_sentences_nonempty count additive et (max_tokens c)) as Hn.
                fold frs in Hn. destruct frs; [congruence | discriminate].
             ++ rewrite words_join by reflexivity. rewrite map_map.
                rewrite (map_ext (fun x => words (trim x)) words) by (intro; apply words_trim).
                apply split_by_sentences_words.
          -- apply Forall_app. split; [exact Hg1|].
             apply Forall_forall. intros ch Hin. apply in_map_iff in Hin.
             destruct Hin as (f & <- & _).
             apply head_mk_single. reflexivity.
        * constructor; cbn [chunks buf btext btok bhead]; [| |congruence].
          -- rewrite app_nil_r, flat_snoc. cbn [celems Model.mk_chunk].
             apply Covers_app; [exact Hcov1 | apply Covers_refl].
          -- apply Forall_app. split; [exact Hg1|]. constructor; [|constructor].
             apply head_mk_single. reflexivity.
      + constructor; cbn [chunks buf btext btok bhead app].
        * apply Covers_app; [exact Hcov1 | apply Covers_refl].
        * exact Hg1.
        * intros _. reflexivity.
  Qed.

  Lemma fold_invU es : forall es0 s, InvU es0 s -> InvU (es0 ++ es) (fold_left step es s).
  Proof.
    induction es as [|e r IH]; intros es0 s H; cbn [fold_left].
    - rewrite app_nil_r. exact H.
    - replace (es0 ++ e :: r) with ((es0 ++ [e]) ++ r) by (rewrite <- app_assoc; reflexivity).
      apply IH. apply step_invU. exact H.
  Qed.

  Lemma invU_init : InvU [] (init_st).
  Proof. constructor; cbn; [constructor | constructor | congruence]. Qed.

  Theorem chunk_seq_unconditional es :
    Covers es (flat (chunk_seq count additive c es))
    /\ Forall (heading_ok (propagate c)) (chunk_seq count additive c es).
  Proof.
    unfold Model.chunk_seq.
    pose proof (fold_invU es [] init_st invU_init) as [Hcov Hch Hbuf]. cbn [app] in *.
    set (s := fold_left step es init_st) in *. unfold finish.
    destruct (isnil (buf s)) eqn:En.
    - apply isnil_true in En. rewrite En, app_nil_r in Hcov. auto.
    - apply isnil_false in En. split.
      + rewrite flat_snoc. exact Hcov.
      + apply Forall_app. split; [exact Hch|]. constructor; [|constructor].
        apply head_flush; auto.
  Qed.
End LoopU.

(** * 2. Section-graph chunker: headings *)
(** ISO-style sections: a title owns the elements up to the next title (written from the
    "nearest preceding title" rule, without the parent vector) *)
Fixpoint sections_spec (es : list elem) : list (elem * list elem) :=
  match es with
  | [] => []
  | e :: r => if is_title e then (e, preamble r) :: sections_spec r else sections_spec r
  end.

(** the spec sections tile the input *)
Lemma sections_spec_tile es :
  preamble es ++ flat_map (fun s : elem * list elem => fst s :: snd s) (sections_spec es) = es.
Proof.
  induction es as [|e r IH]; [reflexivity|]. cbn [preamble sections_spec].
  destruct (is_title e); cbn [app flat_map fst snd]; rewrite IH; reflexivity.
Qed.

Lemma select_nearest_preamble r : forall j k, k < j ->
  select k (nearest_from j (Some k) r) r = preamble r.
Proof.
  induction r as [|e r IH]; intros j k Hk; [reflexivity|].
  cbn [nearest_from preamble]. destruct (is_title e).
  - cbn [select option_eqb]. apply select_nearest_nil; lia.
  - cbn [select option_eqb]. rewrite N.eqb_refl. f_equal. apply IH. lia.
Qed.

Definition sec_of (ps : list (option N)) (l : list elem) (t : N * elem) : elem * list elem :=
  (snd t, select (fst t) ps l).

Lemma map_ext_in' {A B} (f g : A -> B) l : (forall x, In x l -> f x = g x) -> map f l = map g l.
Proof.
  induction l as [|a r IH]; intro H; [reflexivity|]. cbn [map].
  rewrite (H a) by (left; reflexivity). rewrite IH; [reflexivity|]. intros x Hx. apply H. right. exact Hx.
Qed.

Lemma sec_skip i p ps e r :
  (forall t, i < t -> option_eqb N.eqb p (Some t) = false) ->
  map (sec_of (p :: ps) (e :: r)) (filter (fun ie : N * elem => is_title (snd ie)) (indexed (N.succ i) r))
  = map (sec_of ps r) (filter (fun ie : N * elem => is_title (snd ie)) (indexed (N.succ i) r)).
Proof.
  intro Hp. apply map_ext_in'. intros [t x] Hin.
  apply filter_In in Hin. destruct Hin as [Hin _]. apply indexed_ge in Hin.
  unfold sec_of. cbn [fst snd select]. rewrite Hp by lia. reflexivity.
Qed.

(** under the nearest-title parent vector the code's sections are the spec's sections *)
Lemma sections_nearest l : forall i cur, (forall t0, cur = Some t0 -> t0 < i) ->
  map (sec_of (nearest_from i cur l) l) (filter (fun ie : N * elem => is_title (snd ie)) (indexed i l))
  = sections_spec l.
Proof.
  induction l as [|e r IH]; intros i cur Hc; [reflexivity|].
  cbn [nearest_from indexed filter snd sections_spec]. destruct (is_title e) eqn:Et.
  - cbn [map]. rewrite sec_skip by reflexivity. f_equal.
    + unfold sec_of. cbn [fst snd select option_eqb]. f_equal. apply select_nearest_preamble. lia.
    + apply IH. intros t0 H. injection H as <-. lia.
  - destruct cur as [t0|].
    + rewrite sec_skip.
      2:{ intros t Ht. cbn [option_eqb]. apply N.eqb_neq. specialize (Hc t0 eq_refl). lia. }
      apply IH. intros t1 H. injection H as <-. specialize (Hc t0 eq_refl). lia.
    + rewrite sec_skip by reflexivity. apply IH. discriminate.
Qed.

Lemma Covers_cons_nonnil e r fl : Covers (e :: r) fl -> fl <> [].
Proof.
  inversion 1; subst; [discriminate|]. destruct fs; [congruence | discriminate].
Qed.

Lemma flat_nonnil cs : flat cs <> [] -> cs <> [].
Proof. destruct cs; [intro H; intros _; apply H; reflexivity | discriminate]. Qed.

(** what one section's chunk group must satisfy: a faithful partition of the section (title, then its
    elements), non-empty, every chunk stamped with the section's heading
    ([title_heading]: the title's parent_heading, else the title's own text) *)
Definition section_group_ok (s : elem * list elem) (chs : list chunk) : Prop :=
  Covers (fst s :: snd s) (flat chs) /\ chs <> [] /\
  Forall (fun ch => celems ch <> [] /\ heading ch = title_heading (fst s)) chs.

Section GraphU.
  Variable count : text -> N.
  Variable additive : bool.
  Variable c : cfg.

  Lemma section_group ps es t :
    section_group_ok (sec_of ps es t) (section_chunks count additive c ps es t).
  Proof.
    destruct t as [ti te]. unfold section_group_ok, sec_of. cbn [fst snd Model.section_chunks].
    match goal with |- context [if ?b then _ else _] => destruct b end.
    - split; [|split].
      + unfold flat. cbn. rewrite app_nil_r. apply Covers_refl.
      + discriminate.
      + constructor; [|constructor]. split; [discriminate | reflexivity].
    - pose proof (chunk_seq_unconditional count additive c (te :: select ti ps es)) as [Hc Hh].
      split; [|split].
      + rewrite flat_set_heading. exact Hc.
      + apply Covers_cons_nonnil in Hc. apply flat_nonnil in Hc.
        destruct (chunk_seq count additive c (te :: select ti ps es)); [congruence | discriminate].
      + apply Forall_forall. intros ch Hin. apply in_map_iff in Hin. destruct Hin as (ch0 & <- & Hin).
        rewrite Forall_forall in Hh. destruct (Hh _ Hin) as [Hne _]. split; [exact Hne | reflexivity].
  Qed.

  (** always (no hypothesis on the input): grouped by the code's own sections *)
  Theorem graph_groups es :
    exists pre secs,
      chunk_graph count additive c es = pre ++ concat secs /\
      Covers (preamble es) (flat pre) /\ Forall (heading_ok (propagate c)) pre /\
      Forall2 section_group_ok (map (sec_of (parents_from 0 [] es) es) (titles_of es)) secs.
  Proof.
    unfold Model.chunk_graph. destruct (isnil es) eqn:En.
    - apply isnil_true in En. subst es. exists [], []. cbn. repeat split; constructor.
    - exists (if isnil (preamble es) then [] else chunk_seq count additive c (preamble es)),
             (map (section_chunks count additive c (parents_from 0 [] es) es) (titles_of es)).
      split; [rewrite flat_map_concat_map; reflexivity|].
      split; [|split].
      + destruct (isnil (preamble es)) eqn:Ep.
        * apply isnil_true in Ep. rewrite Ep. constructor.
        * apply chunk_seq_unconditional.
      + destruct (isnil (preamble es)); [constructor | apply chunk_seq_unconditional].
      + induction (titles_of es) as [|t r IH]; cbn [map]; constructor; [apply section_group | exact IH].
  Qed.

  (** well-sectioned input: the groups are the ISO-style sections of the input, in order *)
  Theorem graph_heading es : well_sectioned es = true ->
    exists pre secs,
      chunk_graph count additive c es = pre ++ concat secs /\
      Covers (preamble es) (flat pre) /\ Forall (heading_ok (propagate c)) pre /\
      Forall2 section_group_ok (sections_spec es) secs.
  Proof.
    intro Hw. destruct (graph_groups es) as (pre & secs & H1 & H2 & H3 & H4).
    exists pre, secs. repeat split; try assumption.
    unfold well_sectioned in Hw. apply (list_eqb_spec _ option_N_eqb_eq) in Hw.
    rewrite Hw in H4. unfold titles_of in H4.
    rewrite (sections_nearest es 0 None ltac:(discriminate)) in H4. exact H4.
  Qed.
End GraphU.

(** * 3. Title-consistent input: every element of a section chunk lies in the section the chunk's
      heading names (the second clause of the heading property), and the executable predicate
      [heading_graph_b] judged on the implementation's output holds of the model's output *)
Definition own_heading (x : elem) : option text := if is_title x then title_heading x else parent x.
Definition shares_heading (ch : chunk) : Prop := Forall (fun x => own_heading x = heading ch) (celems ch).

Lemma indexed_in {A} (l : list A) : forall j t x, In (t, x) (indexed j l) -> In x l.
Proof.
  induction l as [|a r IH]; intros j t x H; cbn in H; [contradiction|].
  destruct H as [H|H]; [injection H as _ <-; left; reflexivity | right; eapply IH; exact H].
Qed.

Lemma indexed_fun {A} (l : list A) : forall j t x y, In (t, x) (indexed j l) -> In (t, y) (indexed j l) -> x = y.
Proof.
  induction l as [|a r IH]; intros j t x y Hx Hy; cbn in Hx, Hy; [contradiction|].
  destruct Hx as [Hx|Hx], Hy as [Hy|Hy].
  - congruence.
  - injection Hx as <- _. apply indexed_ge in Hy. lia.
  - injection Hy as <- _. apply indexed_ge in Hx. lia.
  - eapply IH; eassumption.
Qed.

(** the children [ElementGraph::build] gives title number [t] are non-titles whose parent_heading is the
    title's text *)
Lemma select_parent t te : forall es i act,
  (forall h v, alookup h act = Some v -> v < i /\ (v = t -> h = etext te)) ->
  (forall e, In (t, e) (indexed i es) -> e = te) ->
  forall x, In x (select t (parents_from i act es) es) -> is_title x = false /\ parent x = Some (etext te).
Proof.
  induction es as [|e r IH]; intros i act Hact Hte x Hin; [contradiction|].
  cbn [parents_from] in Hin. destruct (is_title e) eqn:Et.
  - cbn [select option_eqb] in Hin. eapply IH; [| |exact Hin].
    + intros h v. cbn [alookup]. destruct (text_eqb (etext e) h) eqn:Eh.
      * intro H. injection H as <-. split; [lia|]. intros ->.
        rewrite <- (Hte e) by (left; reflexivity). symmetry. apply text_eqb_eq. exact Eh.
      * intro H. destruct (Hact _ _ H). split; [lia | assumption].
    + intros e' H. apply Hte. right. exact H.
  - cbn [select] in Hin.
    assert (Hrest : forall x, In x (select t (parents_from (N.succ i) act r) r) ->
                    is_title x = false /\ parent x = Some (etext te)).
    { intros x' H'. eapply IH; [| |exact H'].
      - intros h v H. destruct (Hact _ _ H). split; [lia | assumption].
      - intros e' H. apply Hte. right. exact H. }
    destruct (option_eqb N.eqb (match parent e with Some h => alookup h act | None => None end) (Some t)) eqn:Ep.
    + destruct Hin as [<-|Hin]; [|apply Hrest; exact Hin].
      split; [exact Et|]. apply option_N_eqb_eq in Ep.
      destruct (parent e) as [h|]; [|discriminate]. destruct (Hact _ _ Ep) as [_ Hh]. rewrite Hh; reflexivity.
    + apply Hrest. exact Hin.
Qed.

Lemma Covers_Forall (P : elem -> Prop) : (forall e f, P e -> is_splittable e = true -> P (frag_elem e f)) ->
  forall es fl, Covers es fl -> Forall P es -> Forall P fl.
Proof.
  intros Hf es fl H. induction H; intro HP.
  - constructor.
  - inversion HP; subst. constructor; auto.
  - inversion HP; subst. apply Forall_app. split; [|auto].
    apply Forall_forall. intros x Hx. apply in_map_iff in Hx. destruct Hx as (f & <- & _). apply Hf; assumption.
Qed.

Lemma Forall_flat (P : elem -> Prop) cs : Forall P (flat cs) -> Forall (fun ch => Forall P (celems ch)) cs.
Proof.
  induction cs as [|ch r IH]; intro H; [constructor|]. unfold flat in H. cbn [map concat] in H.
  apply Forall_app in H. destruct H. constructor; [assumption | apply IH; assumption].
Qed.

Lemma splittable_not_title e : is_splittable e = true -> is_title e = false.
Proof. unfold is_splittable, is_title. destruct (ekind e); cbn; congruence. Qed.

Lemma own_heading_frag th e f : own_heading e = th -> is_splittable e = true -> own_heading (frag_elem e f) = th.
Proof. unfold own_heading. intros H Hs. rewrite (splittable_not_title e Hs) in H. exact H. Qed.

Lemma preamble_no_title es : Forall (fun x => is_title x = false) (preamble es).
Proof.
  induction es as [|e r IH]; [constructor|]. cbn [preamble]. destruct (is_title e) eqn:E; constructor; assumption.
Qed.

Lemma opt_text_eqb_refl (a : option text) : option_eqb text_eqb a a = true.
Proof. destruct a as [t|]; [|reflexivity]. cbn. apply text_eqb_eq. reflexivity. Qed.

Section GraphT.
  Variable count : text -> N.
  Variable additive : bool.
  Variable c : cfg.

  Lemma section_shares es t : title_consistent es = true -> In t (titles_of es) ->
    Forall shares_heading (section_chunks count additive c (parents_from 0 [] es) es t).
  Proof.
    intros Htc Hin. destruct t as [ti te]. unfold titles_of in Hin. apply filter_In in Hin.
    destruct Hin as [Hidx Htitle]. cbn [snd] in Htitle.
    assert (Hth : title_heading te = Some (etext te)).
    { unfold title_consistent in Htc. rewrite forallb_forall in Htc.
      specialize (Htc te (indexed_in _ _ _ _ Hidx)). rewrite Htitle in Htc. cbn [negb orb] in Htc.
      unfold title_heading. destruct (parent te) as [h|]; [|reflexivity].
      apply text_eqb_eq in Htc. rewrite Htc. reflexivity. }
    assert (Hsec : Forall (fun x => own_heading x = title_heading te) (te :: select ti (parents_from 0 [] es) es)).
    { constructor.
      - unfold own_heading. rewrite Htitle. reflexivity.
      - apply Forall_forall. intros x Hx.
        destruct (select_parent ti te es 0 [] ltac:(cbn; discriminate)
                    (fun e H => indexed_fun es 0 ti e te H Hidx) x Hx) as [Hnt Hp].
        unfold own_heading. rewrite Hnt, Hp, Hth. reflexivity. }
    cbn [Model.section_chunks].
    match goal with |- context [if ?b then _ else _] => destruct b end.
    - constructor; [|constructor]. unfold shares_heading. cbn [celems heading Model.mk_chunk]. exact Hsec.
    - pose proof (proj1 (chunk_seq_unconditional count additive c (te :: select ti (parents_from 0 [] es) es))) as Hc.
      pose proof (Covers_Forall _ (own_heading_frag (title_heading te)) _ _ Hc Hsec) as HF.
      apply Forall_flat in HF. apply Forall_forall. intros ch Hin. apply in_map_iff in Hin.
      destruct Hin as (ch0 & <- & Hin). rewrite Forall_forall in HF. exact (HF _ Hin).
  Qed.

  (** the strengthened grouping for title-consistent input *)
  Theorem graph_heading_shared es : title_consistent es = true ->
    exists pre secs,
      chunk_graph count additive c es = pre ++ concat secs /\
      Forall (fun ch => heading_ok (propagate c) ch /\ Forall (fun x => is_title x = false) (celems ch)) pre /\
      Forall (Forall (fun ch => celems ch <> [] /\ shares_heading ch)) secs.
  Proof.
    intro Htc. unfold Model.chunk_graph. destruct (isnil es) eqn:En.
    - exists [], []. cbn. repeat split; constructor.
    - exists (if isnil (preamble es) then [] else chunk_seq count additive c (preamble es)),
             (map (section_chunks count additive c (parents_from 0 [] es) es) (titles_of es)).
      split; [rewrite flat_map_concat_map; reflexivity|]. split.
      + destruct (isnil (preamble es)); [constructor|].
        pose proof (chunk_seq_unconditional count additive c (preamble es)) as [Hc Hh].
        pose proof (Covers_Forall (fun x => is_title x = false) (fun e f _ _ => eq_refl) _ _ Hc (preamble_no_title es)) as HF.
        apply Forall_flat in HF. rewrite Forall_forall in *. intros ch Hin. split; [apply Hh | apply HF]; exact Hin.
      + apply Forall_forall. intros chs Hin. apply in_map_iff in Hin. destruct Hin as (t & <- & Hin).
        pose proof (section_shares es t Htc Hin) as Hs.
        destruct (section_group count additive c (parents_from 0 [] es) es t) as (_ & _ & Hg).
        rewrite Forall_forall in *. intros ch Hch. split; [exact (proj1 (Hg _ Hch)) | exact (Hs _ Hch)].
  Qed.

  (** the executable heading predicate of the correspondence (Check on the implementation's output)
      holds of the model's output for every title-consistent input *)
  Theorem graph_heading_b es : title_consistent es = true ->
    forallb (heading_graph_b (propagate c)) (chunk_graph count additive c es) = true.
  Proof.
    intro Htc. destruct (graph_heading_shared es Htc) as (pre & secs & -> & Hpre & Hsecs).
    rewrite forallb_app. apply andb_true_iff. split; apply forallb_forall; intros ch Hin.
    - rewrite Forall_forall in Hpre. destruct (Hpre _ Hin) as [[Hne Hh] Hnt].
      unfold heading_graph_b. unfold head_parent in Hh. destruct (celems ch) as [|f r]; [congruence|].
      inversion Hnt; subst. rewrite H1. rewrite Hh. destruct (propagate c); cbn [negb andb].
      + rewrite opt_text_eqb_refl. reflexivity.
      + rewrite orb_true_r. reflexivity.
    - apply in_concat in Hin. destruct Hin as (chs & Hchs & Hin).
      rewrite Forall_forall in Hsecs. specialize (Hsecs _ Hchs). rewrite Forall_forall in Hsecs.
      destruct (Hsecs _ Hin) as [Hne Hs]. unfold heading_graph_b, shares_heading in *.
      destruct (celems ch) as [|f r]; [congruence|]. inversion Hs; subst. unfold own_heading in H1.
      destruct (is_title f); rewrite <- H1; rewrite opt_text_eqb_refl; reflexivity.
  Qed.
End GraphT.

(** * Non-vacuity *)
(** a counter that lies about additivity (answers [true], is chars/4) is outside [AdditiveContract] but
    inside the unconditional theorems *)
Example lying_counter_outside_contract : ~ AdditiveContract count_chars4 true.
Proof. intro H. specialize (H eq_refl [97] [98] 32 eq_refl). vm_compute in H. discriminate H. Qed.

(** preamble + a section that is re-chunked (merge, flush, sentence split) + a whole-section chunk *)
Definition ex_es : list elem :=
  [wit_para [112] None; wit_title [65]; wit_para [97;32;98] (Some [65]); wit_para [99] (Some [65]);
   wit_para [97;46;32;98;32;99;46;32;100;32;101;32;102;32;103] (Some [65]); wit_title [66]; wit_para [120] (Some [66])].
Example graph_heading_nonvacuous :
  well_sectioned ex_es = true /\ title_consistent ex_es = true /\
  map (fun s => length (snd s)) (sections_spec ex_es) = [3%nat; 1%nat] /\
  map (fun ch => (length (celems ch), heading ch, oversized ch)) (chunk_graph count_words true (wit_cfg 3) ex_es)
  = [(1%nat, None, false); (1%nat, Some [65], false); (2%nat, Some [65], false); (1%nat, Some [65], false);
     (1%nat, Some [65], true); (2%nat, Some [66], false)].
Proof. vm_compute. repeat split; reflexivity. Qed.
