(** C29 — invariant and refinement proofs for the LRU model. *)
From OxVerif Require Import Base.Util C29.Model.

Local Open Scope N_scope.

(** ** basic facts about lookup / remove / retain_ne *)
Lemma lookup_remove_eq k m : lookup k (remove k m) = None.
Proof.
  induction m as [|[k' v] m IH]; cbn; [reflexivity|].
  destruct (k' =? k) eqn:E; [exact IH|]. cbn. rewrite E. exact IH.
Qed.

Lemma lookup_remove_ne k k' m : k' <> k -> lookup k (remove k' m) = lookup k m.
Proof.
  intros Hne. induction m as [|[k2 v] m IH]; cbn; [reflexivity|].
  destruct (k2 =? k') eqn:E.
  - apply N.eqb_eq in E. subst k2.
    destruct (k' =? k) eqn:E2; [apply N.eqb_eq in E2; congruence | exact IH].
  - cbn. destruct (k2 =? k); [reflexivity | exact IH].
Qed.

Lemma lookup_in_fst k m : lookup k m <> None <-> In k (List.map fst m).
Proof.
  induction m as [|[k' v] m IH]; cbn.
  - split; [congruence | tauto].
  - destruct (k' =? k) eqn:E.
    + apply N.eqb_eq in E. subst. split; [auto | discriminate].
    + apply N.eqb_neq in E. rewrite IH. split; [auto | intros [H|H]; [congruence | exact H]].
Qed.

Lemma contains_in k m : contains k m = true <-> In k (List.map fst m).
Proof.
  unfold contains. rewrite <- lookup_in_fst.
  destruct (lookup k m); split; congruence.
Qed.

Lemma contains_false_in k m : contains k m = false <-> ~ In k (List.map fst m).
Proof.
  rewrite <- contains_in. destruct (contains k m); split; congruence.
Qed.

Lemma in_remove_fst x k m :
  In x (List.map fst (remove k m)) <-> In x (List.map fst m) /\ x <> k.
Proof.
  induction m as [|[k' v] m IH]; cbn; [tauto|].
  destruct (k' =? k) eqn:E.
  - apply N.eqb_eq in E. subst. rewrite IH. intuition congruence.
  - apply N.eqb_neq in E. cbn. rewrite IH. intuition congruence.
Qed.

Lemma nodup_remove k m : NoDup (List.map fst m) -> NoDup (List.map fst (remove k m)).
Proof.
  induction m as [|[k' v] m IH]; cbn; intros H; [constructor|].
  inversion H as [|? ? Hn Hd]; subst.
  destruct (k' =? k); [auto|]. cbn. constructor; [|auto].
  rewrite in_remove_fst. tauto.
Qed.

Lemma length_remove_notin k m : ~ In k (List.map fst m) -> remove k m = m.
Proof.
  induction m as [|[k' v] m IH]; cbn; intros H; [reflexivity|].
  destruct (k' =? k) eqn:E.
  - apply N.eqb_eq in E. subst. tauto.
  - f_equal. apply IH. tauto.
Qed.

Lemma length_remove_in k m :
  NoDup (List.map fst m) -> In k (List.map fst m) ->
  S (length (remove k m)) = length m.
Proof.
  induction m as [|[k' v] m IH]; cbn; intros Hd Hin; [tauto|].
  inversion Hd as [|? ? Hn Hd']; subst.
  destruct (k' =? k) eqn:E.
  - apply N.eqb_eq in E. subst. rewrite length_remove_notin by exact Hn. reflexivity.
  - apply N.eqb_neq in E. cbn. f_equal. apply IH; [exact Hd'|].
    destruct Hin; [congruence | assumption].
Qed.

Lemma in_retain x k o : In x (retain_ne k o) <-> In x o /\ x <> k.
Proof.
  unfold retain_ne. rewrite filter_In. rewrite negb_true_iff, N.eqb_neq. tauto.
Qed.

Lemma nodup_retain k o : NoDup o -> NoDup (retain_ne k o).
Proof. apply NoDup_filter. Qed.

Lemma retain_notin k o : ~ In k o -> retain_ne k o = o.
Proof.
  induction o as [|x o IH]; cbn; intros H; [reflexivity|].
  destruct (x =? k) eqn:E.
  - apply N.eqb_eq in E. subst. tauto.
  - cbn. f_equal. apply IH. tauto.
Qed.

Lemma length_retain_in k o : NoDup o -> In k o -> S (length (retain_ne k o)) = length o.
Proof.
  induction o as [|x o IH]; cbn; intros Hd Hin; [tauto|].
  inversion Hd as [|? ? Hn Hd']; subst.
  destruct (x =? k) eqn:E.
  - apply N.eqb_eq in E. subst. cbn. fold (retain_ne k o). rewrite retain_notin by exact Hn. reflexivity.
  - apply N.eqb_neq in E. cbn. f_equal. apply IH; [exact Hd'|].
    destruct Hin; [congruence | assumption].
Qed.

Lemma pop_back_spec o :
  match pop_back o with
  | (None, o') => o = [] /\ o' = []
  | (Some x, o') => o = o' ++ [x]
  end.
Proof.
  unfold pop_back. destruct (rev o) as [|x r] eqn:E.
  - assert (o = []) by (rewrite <- (rev_involutive o), E; reflexivity). auto.
  - rewrite <- (rev_involutive o), E. cbn. reflexivity.
Qed.

Lemma length_insert_in k v m :
  NoDup (List.map fst m) -> In k (List.map fst m) -> length (insert k v m) = length m.
Proof. intros. unfold insert. cbn [length]. apply length_remove_in; assumption. Qed.

Lemma length_insert_notin k v m :
  ~ In k (List.map fst m) -> length (insert k v m) = S (length m).
Proof. intros. unfold insert. cbn [length]. rewrite length_remove_notin by assumption. reflexivity. Qed.

Lemma fst_insert k v m : List.map fst (insert k v m) = k :: List.map fst (remove k m).
Proof. reflexivity. Qed.

(** ** the invariant *)
Record Inv (s : lru) : Prop := {
  inv_nd_order : NoDup (order s);
  inv_nd_map : NoDup (List.map fst (map s));
  inv_same : forall k, In k (order s) <-> In k (List.map fst (map s));
  inv_len : length (order s) = length (map s);
  inv_cap : N.of_nat (length (map s)) <= cap s
}.

Lemma inv_init c : Inv (init c).
Proof. constructor; cbn; try constructor; try tauto; lia. Qed.

Lemma get_inv s k : Inv s -> Inv (fst (get s k)).
Proof.
  intros [Ho Hm Hs Hl Hc]. unfold get.
  destruct (contains k (map s)) eqn:E; cbn; [|constructor; assumption].
  apply contains_in in E.
  constructor; cbn.
  - constructor; [rewrite in_retain; tauto | apply nodup_retain; exact Ho].
  - exact Hm.
  - intros x. rewrite in_retain. rewrite <- Hs.
    destruct (N.eq_dec x k) as [->|Hne]; [apply Hs in E; tauto | intuition congruence].
  - rewrite length_retain_in; [exact Hl | exact Ho | apply Hs; exact E].
  - exact Hc.
Qed.

Lemma put_inv s k v : Inv s -> Inv (put s k v).
Proof.
  intros [Ho Hm Hs Hl Hc]. unfold put.
  destruct (cap s =? 0) eqn:Ec; [constructor; assumption|].
  apply N.eqb_neq in Ec.
  destruct (contains k (map s)) eqn:E.
  - apply contains_in in E. pose proof (proj2 (Hs k) E) as Eo.
    constructor; cbn [cap map order].
    + constructor; [rewrite in_retain; tauto | apply nodup_retain; exact Ho].
    + rewrite fst_insert. constructor; [rewrite in_remove_fst; tauto | apply nodup_remove; exact Hm].
    + intros x. rewrite fst_insert. cbn [In]. rewrite in_retain, in_remove_fst, <- Hs.
      destruct (N.eq_dec x k) as [->|Hne]; intuition congruence.
    + cbn [length]. rewrite length_retain_in by assumption.
      rewrite length_insert_in by assumption. exact Hl.
    + rewrite length_insert_in by assumption. exact Hc.
  - apply contains_false_in in E.
    assert (Eo : ~ In k (order s)) by (rewrite Hs; exact E).
    destruct (cap s <=? N.of_nat (length (map s))) eqn:Efull.
    + apply N.leb_le in Efull.
      pose proof (pop_back_spec (order s)) as Hp.
      destruct (pop_back (order s)) as [[l|] o'].
      * assert (Hlin : In l (order s)) by (rewrite Hp; apply in_or_app; right; left; reflexivity).
        pose proof (proj1 (Hs l) Hlin) as Hlm.
        assert (Hnd' : NoDup (o' ++ [l])) by (rewrite <- Hp; exact Ho).
        assert (Hlo' : ~ In l o').
        { apply NoDup_remove_2 with (l' := []) in Hnd'. rewrite app_nil_r in Hnd'. exact Hnd'. }
        assert (Hndo' : NoDup o').
        { apply NoDup_remove_1 with (l' := []) in Hnd'. rewrite app_nil_r in Hnd'. exact Hnd'. }
        assert (Hino' : forall x, In x o' <-> In x (order s) /\ x <> l).
        { intros x. rewrite Hp, in_app_iff. cbn [In]. split.
          - intros H. split; [auto|]. intros ->. tauto.
          - intros [[H|[H|[]]] Hne]; [exact H | congruence]. }
        assert (Hlen : S (length o') = length (order s)).
        { rewrite Hp, app_length. cbn [length]. lia. }
        assert (Hkr : ~ In k (List.map fst (remove l (map s)))) by (rewrite in_remove_fst; tauto).
        pose proof (length_remove_in l (map s) Hm Hlm) as Hlr.
        constructor; cbn [cap map order].
        -- constructor; [rewrite Hino'; tauto | exact Hndo'].
        -- rewrite fst_insert. rewrite (length_remove_notin k) by exact Hkr.
           constructor; [exact Hkr | apply nodup_remove; exact Hm].
        -- intros x. rewrite fst_insert. rewrite (length_remove_notin k) by exact Hkr.
           cbn [In]. rewrite Hino', in_remove_fst, <- Hs. tauto.
        -- cbn [length]. rewrite length_insert_notin by exact Hkr. lia.
        -- rewrite length_insert_notin by exact Hkr. lia.
      * destruct Hp as [Hp1 Hp2]. subst o'.
        rewrite Hp1 in Hl. cbn [length] in Hl.
        destruct (map s) as [|p m'] eqn:Em; [|cbn [length] in Hl; discriminate].
        cbn [length] in Efull. lia.
    + apply N.leb_gt in Efull.
      constructor; cbn [cap map order].
      * constructor; assumption.
      * rewrite fst_insert, (length_remove_notin k (map s) E). constructor; assumption.
      * intros x. rewrite fst_insert, (length_remove_notin k (map s) E). cbn [In]. rewrite Hs. tauto.
      * cbn [length]. rewrite length_insert_notin by exact E. lia.
      * rewrite length_insert_notin by exact E. lia.
Qed.

Lemma step_inv s o : Inv s -> Inv (fst (step s o)).
Proof.
  intros H. destruct o as [k|k v| |]; cbn.
  - pose proof (get_inv s k H) as G. destruct (get s k). exact G.
  - apply put_inv. exact H.
  - destruct H. constructor; cbn; try constructor; try tauto. lia.
  - exact H.
Qed.

Lemma run_inv ops : forall s, Inv s -> Inv (fst (run s ops)).
Proof.
  induction ops as [|o ops IH]; intros s H; cbn; [exact H|].
  pose proof (step_inv s o H) as H1.
  destruct (step s o) as [s1 x]. cbn in H1.
  specialize (IH s1 H1). destruct (run s1 ops) as [s2 xs]. exact IH.
Qed.

(** ** refinement *)
Arguments abs : simpl never.
Lemma abs_cap s : acap (abs s) = cap s.
Proof. reflexivity. Qed.

Lemma abs_items s : items (abs s) = List.map (valof (map s)) (order s).
Proof. reflexivity. Qed.

Lemma lookup_map_valof m k o :
  lookup k (List.map (valof m) o) =
  if existsb (fun x => x =? k) o then Some (snd (valof m k)) else None.
Proof.
  induction o as [|x o IH]; [reflexivity|].
  cbn [List.map existsb]. unfold valof at 1. cbn [lookup].
  destruct (x =? k) eqn:E.
  - apply N.eqb_eq in E. subst. reflexivity.
  - cbn [orb]. exact IH.
Qed.

Lemma existsb_eqb_in k o : existsb (fun x => x =? k) o = true <-> In k o.
Proof.
  rewrite existsb_exists. split.
  - intros [x [Hx E]]. apply N.eqb_eq in E. subst. exact Hx.
  - intros H. exists k. split; [exact H | apply N.eqb_refl].
Qed.

Lemma remove_map_valof m k o :
  remove k (List.map (valof m) o) = List.map (valof m) (retain_ne k o).
Proof.
  induction o as [|x o IH]; cbn; [reflexivity|].
  destruct (x =? k); cbn; [exact IH | f_equal; exact IH].
Qed.

Lemma lookup_abs s k : Inv s -> lookup k (items (abs s)) = lookup k (map s).
Proof.
  intros H. rewrite abs_items, lookup_map_valof.
  destruct (existsb (fun x => x =? k) (order s)) eqn:Ex.
  - apply existsb_eqb_in in Ex. apply (inv_same s H) in Ex. apply lookup_in_fst in Ex.
    unfold valof. cbn [snd]. destruct (lookup k (map s)); [reflexivity | congruence].
  - assert (Hnin : ~ In k (order s)) by (rewrite <- existsb_eqb_in; congruence).
    rewrite (inv_same s H) in Hnin. rewrite <- lookup_in_fst in Hnin.
    destruct (lookup k (map s)); [exfalso; apply Hnin; discriminate | reflexivity].
Qed.

Lemma contains_abs s k : Inv s -> contains k (items (abs s)) = contains k (map s).
Proof. intros H. unfold contains. rewrite lookup_abs by exact H. reflexivity. Qed.

Lemma length_abs s : Inv s -> length (items (abs s)) = length (map s).
Proof. intros H. rewrite abs_items, map_length. apply (inv_len s H). Qed.

Lemma removelast_map {A B} (f : A -> B) l : removelast (List.map f l) = List.map f (removelast l).
Proof.
  induction l as [|x l IH]; [reflexivity|].
  destruct l as [|y l]; [reflexivity|].
  cbn [List.map removelast] in *. f_equal. exact IH.
Qed.

Lemma map_valof_ext m m' o :
  (forall x, In x o -> lookup x m = lookup x m') ->
  List.map (valof m) o = List.map (valof m') o.
Proof.
  intros H. apply map_ext_in. intros x Hx. unfold valof. rewrite (H x Hx). reflexivity.
Qed.

Lemma abs_eq s c its : cap s = c -> List.map (valof (map s)) (order s) = its ->
  abs s = {| acap := c; items := its |}.
Proof. intros <- <-. reflexivity. Qed.

Lemma get_refines s k :
  Inv s ->
  let '(s', r) := get s k in
  a_step (abs s) (Get k) = (abs s', OVal r).
Proof.
  intros H. unfold get. cbn [a_step].
  rewrite lookup_abs by exact H. unfold contains.
  destruct (lookup k (map s)) as [v|] eqn:E; [|reflexivity].
  f_equal. symmetry. apply abs_eq; cbn [cap map order]; [reflexivity|].
  cbn [List.map]. unfold valof at 1. rewrite E.
  f_equal. rewrite abs_items. symmetry. apply remove_map_valof.
Qed.

Lemma valof_insert_same k v m : valof (insert k v m) k = (k, v).
Proof. unfold valof, insert. cbn [lookup]. rewrite N.eqb_refl. reflexivity. Qed.

Lemma lookup_insert_ne k v m x : x <> k -> lookup x (insert k v m) = lookup x (remove k m).
Proof.
  intros Hne. unfold insert. cbn [lookup].
  destruct (k =? x) eqn:E2; [apply N.eqb_eq in E2; congruence | reflexivity].
Qed.

Lemma put_refines s k v :
  Inv s -> a_step (abs s) (Put k v) = (abs (put s k v), OUnit).
Proof.
  intros H. cbn [a_step]. unfold put. rewrite abs_cap.
  destruct (cap s =? 0) eqn:Ec; [reflexivity|].
  apply N.eqb_neq in Ec.
  rewrite contains_abs, length_abs by exact H.
  destruct (contains k (map s)) eqn:E.
  - f_equal. symmetry. apply abs_eq; cbn [cap map order]; [reflexivity|].
    cbn [List.map]. rewrite valof_insert_same. f_equal.
    rewrite abs_items, remove_map_valof. apply map_valof_ext.
    intros x Hx. apply in_retain in Hx. destruct Hx as [_ Hne].
    rewrite lookup_insert_ne by exact Hne.
    apply lookup_remove_ne. congruence.
  - apply contains_false_in in E.
    assert (Eo : ~ In k (order s)) by (rewrite (inv_same s H); exact E).
    destruct (cap s <=? N.of_nat (length (map s))) eqn:Efull.
    + apply N.leb_le in Efull.
      pose proof (pop_back_spec (order s)) as Hp.
      destruct (pop_back (order s)) as [[l|] o'].
      * f_equal. symmetry. apply abs_eq; cbn [cap map order]; [reflexivity|].
        cbn [List.map]. rewrite valof_insert_same. f_equal.
        rewrite abs_items, removelast_map.
        rewrite Hp at 1. rewrite removelast_last.
        assert (Hnd' : NoDup (o' ++ [l])) by (rewrite <- Hp; apply (inv_nd_order s H)).
        assert (Hlo' : ~ In l o').
        { apply NoDup_remove_2 with (l' := []) in Hnd'. rewrite app_nil_r in Hnd'. exact Hnd'. }
        apply map_valof_ext. intros x Hx.
        assert (x <> k).
        { intros ->. apply Eo. rewrite Hp. apply in_or_app. left. exact Hx. }
        assert (x <> l) by (intros ->; tauto).
        rewrite lookup_insert_ne by assumption.
        rewrite !lookup_remove_ne by congruence. reflexivity.
      * destruct Hp as [Hp1 Hp2]. subst o'.
        pose proof (inv_len s H) as Hl. rewrite Hp1 in Hl. cbn [length] in Hl.
        destruct (map s) as [|p m'] eqn:Em; [|cbn [length] in Hl; discriminate].
        cbn [length] in Efull. lia.
    + f_equal. symmetry. apply abs_eq; cbn [cap map order]; [reflexivity|].
      cbn [List.map]. rewrite valof_insert_same. f_equal.
      rewrite abs_items. apply map_valof_ext. intros x Hx.
      assert (x <> k) by (intros ->; tauto).
      rewrite lookup_insert_ne by assumption.
      apply lookup_remove_ne. congruence.
Qed.

Lemma step_refines s o :
  Inv s -> a_step (abs s) o = (abs (fst (step s o)), snd (step s o)).
Proof.
  intros H. destruct o as [k|k v| |].
  - pose proof (get_refines s k H) as G. cbn [step]. destruct (get s k) as [s' r]. exact G.
  - cbn [step fst snd]. apply put_refines. exact H.
  - reflexivity.
  - cbn [step fst snd a_step]. rewrite length_abs by exact H. reflexivity.
Qed.

Lemma run_refines ops : forall s,
  Inv s -> a_run (abs s) ops = (abs (fst (run s ops)), snd (run s ops)).
Proof.
  induction ops as [|o ops IH]; intros s H; cbn [run a_run]; [reflexivity|].
  rewrite (step_refines s o H).
  pose proof (step_inv s o H) as H1.
  destruct (step s o) as [s1 x]. cbn [fst snd] in *.
  rewrite (IH s1 H1). destruct (run s1 ops) as [s2 xs]. reflexivity.
Qed.

(** ** corollaries in the vocabulary of the property *)

(** same outputs as the abstract bounded LRU, for every history and capacity *)
Lemma outputs_refine c ops :
  snd (run (init c) ops) = snd (a_run (a_init c) ops).
Proof.
  change (a_init c) with (abs (init c)).
  rewrite (run_refines ops (init c) (inv_init c)). reflexivity.
Qed.

(** never more entries than the capacity *)
Lemma step_cap s o : cap (fst (step s o)) = cap s.
Proof.
  destruct o as [k|k v| |]; cbn [step fst].
  - unfold get. destruct (contains k (map s)); reflexivity.
  - unfold put. destruct (cap s =? 0); [reflexivity|].
    destruct (contains k (map s)); [reflexivity|].
    destruct (cap s <=? _); [|reflexivity].
    destruct (pop_back (order s)) as [[?|] ?]; reflexivity.
  - reflexivity.
  - reflexivity.
Qed.

Lemma run_cap ops : forall s, cap (fst (run s ops)) = cap s.
Proof.
  induction ops as [|o ops IH]; intros s; cbn [run]; [reflexivity|].
  pose proof (step_cap s o) as H1. destruct (step s o) as [s1 x]. cbn [fst] in H1.
  specialize (IH s1). destruct (run s1 ops) as [s2 xs]. cbn [fst] in *. congruence.
Qed.

Lemma size_le_cap c ops :
  N.of_nat (length (map (fst (run (init c) ops)))) <= c.
Proof.
  pose proof (run_inv ops (init c) (inv_init c)) as H.
  pose proof (inv_cap _ H) as Hc. rewrite run_cap in Hc. exact Hc.
Qed.

(** Spec-level facts: the abstract LRU does what the property says. *)

Lemma a_lookup_remove_ne k k' m : k' <> k -> lookup k (remove k' m) = lookup k m.
Proof. apply lookup_remove_ne. Qed.

Lemma lookup_removelast k m :
  lookup k (removelast m) = lookup k m \/ lookup k (removelast m) = None.
Proof.
  induction m as [|[k' v] m IH]; [left; reflexivity|].
  destruct m as [|p m]; [cbn; destruct (k' =? k); auto|].
  cbn [removelast lookup] in *. destruct (k' =? k); [left; reflexivity | exact IH].
Qed.

(** a stored value is what a following lookup returns (capacity > 0) *)
Lemma spec_put_then_lookup a k v :
  acap a <> 0 -> lookup k (items (fst (a_step a (Put k v)))) = Some v.
Proof.
  intros Hc. cbn. destruct (acap a =? 0) eqn:E; [apply N.eqb_eq in E; congruence|].
  cbn. rewrite N.eqb_refl. reflexivity.
Qed.

(** an operation that does not store to [k] and is not [Clear] either leaves
    the value seen for [k] unchanged or evicts [k] *)
Lemma spec_value_stable a o k :
  (forall v, o <> Put k v) -> o <> Clear ->
  let a' := fst (a_step a o) in
  lookup k (items a') = lookup k (items a) \/ lookup k (items a') = None.
Proof.
  intros Hput Hclr. destruct o as [k'|k' v'| |]; cbn.
  - destruct (lookup k' (items a)) as [v|] eqn:E; cbn; [|left; reflexivity].
    destruct (k' =? k) eqn:E2.
    + apply N.eqb_eq in E2. subst. left. symmetry. exact E.
    + apply N.eqb_neq in E2. left. apply lookup_remove_ne. exact E2.
  - destruct (acap a =? 0); cbn; [left; reflexivity|].
    assert (k' <> k) by (intros ->; apply (Hput v'); reflexivity).
    destruct (k' =? k) eqn:E2; [apply N.eqb_eq in E2; congruence|].
    destruct (contains k' (items a)).
    + left. apply lookup_remove_ne. assumption.
    + destruct (acap a <=? _); [apply lookup_removelast | left; reflexivity].
  - congruence.
  - left. reflexivity.
Qed.

(** a lookup returns exactly the value of the recency list, and refreshes it to the front *)
Lemma spec_get_returns a k :
  snd (a_step a (Get k)) = OVal (lookup k (items a)).
Proof. cbn. destruct (lookup k (items a)); reflexivity. Qed.

(** eviction removes exactly the last element of the recency list (the least
    recently used one), and only when a new key arrives at full capacity *)
Lemma spec_evicts_lru a k v :
  acap a <> 0 -> contains k (items a) = false ->
  acap a <= N.of_nat (length (items a)) ->
  items (fst (a_step a (Put k v))) = (k, v) :: removelast (items a).
Proof.
  intros Hc Hk Hfull. cbn. destruct (acap a =? 0) eqn:E; [apply N.eqb_eq in E; congruence|].
  rewrite Hk. apply N.leb_le in Hfull. rewrite Hfull. reflexivity.
Qed.

Lemma spec_no_evict_when_room a k v :
  acap a <> 0 -> contains k (items a) = false ->
  N.of_nat (length (items a)) < acap a ->
  items (fst (a_step a (Put k v))) = (k, v) :: items a.
Proof.
  intros Hc Hk Hroom. cbn. destruct (acap a =? 0) eqn:E; [apply N.eqb_eq in E; congruence|].
  rewrite Hk. apply N.leb_gt in Hroom. rewrite Hroom. reflexivity.
Qed.

(** every touch moves the key to the front: recency order is maintained *)
Lemma spec_touch_moves_front a o k :
  (o = Get k /\ lookup k (items a) <> None) \/ (exists v, o = Put k v /\ acap a <> 0) ->
  exists v r, items (fst (a_step a o)) = (k, v) :: r.
Proof.
  intros [[-> H]|[v [-> H]]]; cbn.
  - destruct (lookup k (items a)) as [v|]; [|congruence]. cbn. eauto.
  - destruct (acap a =? 0) eqn:E; [apply N.eqb_eq in E; congruence|]. cbn. eauto.
Qed.

(** Concurrency: [ObjectCache] performs each operation as one critical section
    under one lock, so a concurrent execution is a sequential run of some
    interleaving [sched] of the threads' operations; whatever the interleaving,
    the sequential theorems apply to it. *)
Lemma any_interleaving_is_lru c (sched : list op) :
  snd (run (init c) sched) = snd (a_run (a_init c) sched)
  /\ N.of_nat (length (map (fst (run (init c) sched)))) <= c.
Proof. split; [apply outputs_refine | apply size_le_cap]. Qed.
