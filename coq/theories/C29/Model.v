(** C29 — code-shaped model of memory/cache.rs [LruCache] and the abstract LRU spec.
    HashMap is an association list with unique keys (iteration order is never
    observed by the modelled methods); VecDeque is a list, front = head. *)
From OxVerif Require Import Base.Util.

Definition key := N.
Definition val := N.

Record lru := { cap : N; map : list (key * val); order : list key }.

Definition init (c : N) : lru := {| cap := c; map := []; order := [] |}.

Fixpoint lookup (k : key) (m : list (key * val)) : option val :=
  match m with
  | [] => None
  | (k', v) :: r => if k' =? k then Some v else lookup k r
  end.

Definition contains (k : key) (m : list (key * val)) : bool :=
  match lookup k m with Some _ => true | None => false end.

Fixpoint remove (k : key) (m : list (key * val)) : list (key * val) :=
  match m with
  | [] => []
  | (k', v) :: r => if k' =? k then remove k r else (k', v) :: remove k r
  end.

(** HashMap::insert: replace or add *)
Definition insert (k : key) (v : val) (m : list (key * val)) : list (key * val) :=
  (k, v) :: remove k m.

Definition retain_ne (k : key) (o : list key) : list key :=
  filter (fun k' => negb (k' =? k)) o.

(** VecDeque::pop_back *)
Definition pop_back (o : list key) : option key * list key :=
  match rev o with
  | [] => (None, o)
  | x :: r => (Some x, rev r)
  end.

Inductive op := Get (k : key) | Put (k : key) (v : val) | Clear | Len.
Inductive out := OVal (v : option val) | OUnit | OLen (n : N).

Definition get (s : lru) (k : key) : lru * option val :=
  if contains k (map s) then
    ({| cap := cap s; map := map s; order := k :: retain_ne k (order s) |}, lookup k (map s))
  else (s, None).

Definition put (s : lru) (k : key) (v : val) : lru :=
  if cap s =? 0 then s
  else
    let '(m1, o1) :=
      if contains k (map s) then (map s, retain_ne k (order s))
      else if cap s <=? N.of_nat (length (map s)) then
        match pop_back (order s) with
        | (Some lruk, o') => (remove lruk (map s), o')
        | (None, o') => (map s, o')
        end
      else (map s, order s) in
    {| cap := cap s; map := insert k v m1; order := k :: o1 |}.

Definition step (s : lru) (o : op) : lru * out :=
  match o with
  | Get k => let '(s', r) := get s k in (s', OVal r)
  | Put k v => (put s k v, OUnit)
  | Clear => ({| cap := cap s; map := []; order := [] |}, OUnit)
  | Len => (s, OLen (N.of_nat (length (map s))))
  end.

Fixpoint run (s : lru) (ops : list op) : lru * list out :=
  match ops with
  | [] => (s, [])
  | o :: r => let '(s1, x) := step s o in let '(s2, xs) := run s1 r in (s2, x :: xs)
  end.

(** * Abstract specification: a recency list, most recent first, at most [cap] long. *)
Record abs_lru := { acap : N; items : list (key * val) }.

Definition a_init (c : N) : abs_lru := {| acap := c; items := [] |}.

Definition a_step (a : abs_lru) (o : op) : abs_lru * out :=
  match o with
  | Get k =>
      match lookup k (items a) with
      | Some v => ({| acap := acap a; items := (k, v) :: remove k (items a) |}, OVal (Some v))
      | None => (a, OVal None)
      end
  | Put k v =>
      if acap a =? 0 then (a, OUnit)
      else
        let rest := remove k (items a) in
        let rest' :=
          if contains k (items a) then rest
          else if acap a <=? N.of_nat (length (items a)) then removelast (items a)
          else items a in
        ({| acap := acap a; items := (k, v) :: rest' |}, OUnit)
  | Clear => ({| acap := acap a; items := [] |}, OUnit)
  | Len => (a, OLen (N.of_nat (length (items a))))
  end.

Fixpoint a_run (a : abs_lru) (ops : list op) : abs_lru * list out :=
  match ops with
  | [] => (a, [])
  | o :: r => let '(a1, x) := a_step a o in let '(a2, xs) := a_run a1 r in (a2, x :: xs)
  end.

(** abstraction function *)
Definition valof (m : list (key * val)) (k : key) : key * val :=
  (k, match lookup k m with Some v => v | None => 0 end).

Definition abs (s : lru) : abs_lru :=
  {| acap := cap s; items := List.map (valof (map s)) (order s) |}.

(** * Executable comparison helpers for the correspondence *)
Definition out_eqb (a b : out) : bool :=
  match a, b with
  | OVal x, OVal y => option_eqb N.eqb x y
  | OUnit, OUnit => true
  | OLen x, OLen y => x =? y
  | _, _ => false
  end.

(** one correspondence case: capacity, op list, implementation outputs.
    Result: (model = impl, spec = impl). *)
Definition check_case (c : N * list op * list out) : bool * bool :=
  let '(cp, ops, impl) := c in
  (list_eqb out_eqb (snd (run (init cp) ops)) impl,
   list_eqb out_eqb (snd (a_run (a_init cp) ops)) impl).

Definition case_code (c : N * list op * list out) : N :=
  let '(a, b) := check_case c in code_of a b.



(** * History-based statement of the three clauses (used by Props):
    for a run of ops, what a lookup must return. *)

(** sequential consistency search for the concurrent tie: does some interleaving of
    the per-thread histories (program order preserved) explain all outputs under the
    abstract spec? *)
Fixpoint interleave_ok (fuel : nat) (a : abs_lru) (ths : list (list (op * out))) : bool :=
  match fuel with
  | O => forallb (fun t => match t with [] => true | _ => false end) ths
  | S f =>
      if forallb (fun t => match t with [] => true | _ => false end) ths then true
      else
        (fix try (pre post : list (list (op * out))) : bool :=
           match post with
           | [] => false
           | [] :: post' => try (pre ++ [[]]) post'
           | ((o, x) :: t) :: post' =>
               let '(a', y) := a_step a o in
               (out_eqb x y && interleave_ok f a' (pre ++ t :: post'))
               || try (pre ++ [(o, x) :: t]) post'
           end) [] ths
  end.

Definition conc_code (c : N * list (list (op * out))) : N :=
  code_of true (interleave_ok 64 (a_init (fst c)) (snd c)).
