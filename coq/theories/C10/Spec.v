(** C10 — the independent reader, written from ISO 32000-1 and not from the library:
    - 7.3.4.2 literal strings (escapes, balanced parentheses, line continuation, and the rule that
      an unescaped end-of-line marker CR, LF or CR LF inside a literal string is read as one LF),
    - 7.3.4.3 hexadecimal strings (white space ignored, odd final digit padded with 0),
    - 7.9.2.2 text strings: UTF-16BE when the string starts with the byte order mark FE FF
      (well-formed UTF-16 only), otherwise PDFDocEncoding (Annex D.3, table [annex_pdf] of
      C25/AnnexD.v, transcribed from the standard by code; a code the annex leaves unassigned
      has no reading).
    Language escape sequences (U+001B ... U+001B inside UTF-16 text) are NOT interpreted. *)
From OxVerif Require Import Base.Util C25.AnnexD.

Definition iso_oct (c : N) : bool := (48 <=? c) && (c <=? 55).
Definition iso_ws (c : N) : bool :=
  (c =? 0) || (c =? 9) || (c =? 10) || (c =? 12) || (c =? 13) || (c =? 32).

Definition ocons (c : N) (r : option (bytes * bytes)) : option (bytes * bytes) :=
  match r with Some (s, rest) => Some (c :: s, rest) | None => None end.

(** Table 3: escape sequences *)
Definition iso_escape (e : N) : N :=
  if e =? 110 then 10        (* \n *)
  else if e =? 114 then 13   (* \r *)
  else if e =? 116 then 9    (* \t *)
  else if e =? 98 then 8     (* \b *)
  else if e =? 102 then 12   (* \f *)
  else e.                    (* \( \) \\ ; any other character: the backslash is ignored *)

(** after the opening parenthesis; [d] = number of currently open inner parentheses *)
Fixpoint iso_lit (bs : bytes) (d : nat) : option (bytes * bytes) :=
  match bs with
  | [] => None
  | c :: r =>
      if c =? 92 then
        match r with
        | [] => None
        | e :: r1 =>
            if iso_oct e then
              match r1 with
              | d1 :: r2 =>
                  if iso_oct d1 then
                    match r2 with
                    | d2 :: r3 =>
                        if iso_oct d2
                        then ocons ((((e - 48) * 8 + (d1 - 48)) * 8 + (d2 - 48)) mod 256) (iso_lit r3 d)
                        else ocons ((e - 48) * 8 + (d1 - 48)) (iso_lit r2 d)
                    | [] => ocons ((e - 48) * 8 + (d1 - 48)) (iso_lit r2 d)
                    end
                  else ocons (e - 48) (iso_lit r1 d)
              | [] => ocons (e - 48) (iso_lit r1 d)
              end
            else if e =? 13 then           (* line continuation: backslash + EOL is dropped *)
              match r1 with
              | l :: r2 => if l =? 10 then iso_lit r2 d else iso_lit r1 d
              | [] => iso_lit r1 d
              end
            else if e =? 10 then iso_lit r1 d
            else ocons (iso_escape e) (iso_lit r1 d)
        end
      else if c =? 13 then                 (* unescaped EOL marker -> LF *)
        match r with
        | l :: r2 => if l =? 10 then ocons 10 (iso_lit r2 d) else ocons 10 (iso_lit r d)
        | [] => ocons 10 (iso_lit r d)
        end
      else if c =? 40 then ocons c (iso_lit r (S d))
      else if c =? 41 then
        match d with
        | O => Some ([], r)
        | S d' => ocons c (iso_lit r d')
        end
      else ocons c (iso_lit r d)
  end.

Definition iso_hexv (c : N) : option N :=
  if (48 <=? c) && (c <=? 57) then Some (c - 48)
  else if (65 <=? c) && (c <=? 70) then Some (c - 55)
  else if (97 <=? c) && (c <=? 102) then Some (c - 87)
  else None.

(** after '<'; [pending] = a first digit waiting for its partner *)
Fixpoint iso_hex (bs : bytes) (pending : option N) : option (bytes * bytes) :=
  match bs with
  | [] => None
  | c :: r =>
      if c =? 62 then Some (match pending with Some h => [h * 16] | None => [] end, r)
      else match iso_hexv c with
           | Some v =>
               match pending with
               | None => iso_hex r (Some v)
               | Some h => ocons (h * 16 + v) (iso_hex r None)
               end
           | None => if iso_ws c then iso_hex r pending else None
           end
  end.

(** the string object at the head of [bs]: its byte content and what follows *)
Definition iso_string (bs : bytes) : option (bytes * bytes) :=
  match bs with
  | c :: r => if c =? 40 then iso_lit r 0
              else if c =? 60 then iso_hex r None
              else None
  | [] => None
  end.

(** * 7.9.2.2 text strings *)
Definition pdfdoc_char (b : N) : option N :=
  if b <? 256 then
    match nth (N.to_nat b) annex_pdf Unc with
    | One c => Some c
    | Two c _ => Some c
    | Unc => None
    end
  else None.

Fixpoint map_opt {A B} (f : A -> option B) (l : list A) : option (list B) :=
  match l with
  | [] => Some []
  | x :: r => match f x, map_opt f r with
              | Some y, Some ys => Some (y :: ys)
              | _, _ => None
              end
  end.

Fixpoint be_units (b : bytes) : option (list N) :=
  match b with
  | [] => Some []
  | h :: l :: r => match be_units r with Some us => Some ((h * 256 + l) :: us) | None => None end
  | _ => None
  end.

Definition hi_sur (u : N) : bool := (55296 <=? u) && (u <=? 56319).
Definition lo_sur (u : N) : bool := (56320 <=? u) && (u <=? 57343).

Fixpoint utf16_strict (u : list N) : option (list N) :=
  match u with
  | [] => Some []
  | a :: r =>
      if hi_sur a then
        match r with
        | b :: r' =>
            if lo_sur b then
              match utf16_strict r' with
              | Some t => Some ((65536 + (a - 55296) * 1024 + (b - 56320)) :: t)
              | None => None
              end
            else None
        | [] => None
        end
      else if lo_sur a then None
      else match utf16_strict r with Some t => Some (a :: t) | None => None end
  end.

Definition spec_decode (b : bytes) : option (list N) :=
  match b with
  | x :: y :: r =>
      if (x =? 254) && (y =? 255)
      then match be_units r with Some us => utf16_strict us | None => None end
      else map_opt pdfdoc_char b
  | _ => map_opt pdfdoc_char b
  end.

(** what an ISO reader takes the written object to say *)
Definition iso_read (bs : bytes) : option (list N) :=
  match iso_string bs with
  | Some (p, _) => spec_decode p
  | None => None
  end.
