(** C10 — the reader on ARBITRARY byte strings (channel [dec]: foreign payloads through
    [PdfString::to_text]).  Proofs only: every executable definition the correspondence run
    judges with ([decode_text], [spec_decode], [same_cell], [agree], [dec_code]) is the one of
    Model.v / Spec.v, unchanged.

    New definitions in this file are SPECIFICATIONS the model is proved equal to:
    - [std_units]            [<[u8]>::chunks_exact(2)] + [u16::from_be_bytes], written by index
                             (chunk i = bytes 2i, 2i+1 for i < len / 2; the remainder is not visited),
    - [std_from_utf16_lossy] [String::from_utf16_lossy] as std implements it:
                             [char::decode_utf16(v).map(|r| r.unwrap_or(U+FFFD)).collect()], the
                             iterator [DecodeUtf16 { iter, buf: Option<u16> }] transcribed as a state
                             machine ([du_next] = one call of [next()]),
    - [differ_cells]         the byte values at which PDFDocEncoding (Annex D.3) and the library's
                             WinAnsi table both give a character and the characters differ.
    The PDFDocEncoding-vs-WinAnsi disagreement itself is C25's recorded finding
    [C25-pdfdoc-textstring-winansi] (theorem [c25_pdfdoc_matches_refuted], class
    [C25.Model.known_class 15 _ = 5]); it is referenced here ([differ_cells_in_c25_class]), not
    restated. *)
From OxVerif Require Import Base.Util C25.AnnexD C25.Model C10.Spec C10.Model C10.Proofs.
From OxGen Require Import Encodings.
Require Import Lia ZifyBool.
Ltac Zify.zify_post_hook ::= Z.to_euclidean_division_equations.

(** * Induction principles for the two-step recursions *)
Lemma pair_ind {A} (P : list A -> Prop) :
  P [] -> (forall a, P [a]) -> (forall a b r, P r -> P (a :: b :: r)) -> forall l, P l.
Proof.
  intros H0 H1 H2. fix IH 1. intros [|a [|b r]]; [exact H0 | apply H1 | apply H2, IH].
Qed.

Lemma look_ahead_ind {A} (P : list A -> Prop) :
  P [] -> (forall a, P [a]) -> (forall a b r, P r -> P (b :: r) -> P (a :: b :: r)) -> forall l, P l.
Proof.
  intros H0 H1 H2.
  assert (Q : forall l, P l /\ forall a, P (a :: l)).
  { induction l as [|b r [IHa IHb]].
    - split; [exact H0 | exact H1].
    - split; [apply IHb | intro a; apply H2; [exact IHa | apply IHb]]. }
  intro l. apply Q.
Qed.

(** * std, written independently of the model *)

(** [bytes.chunks_exact(2).map(|p| u16::from_be_bytes([p[0], p[1]]))] *)
Definition std_units (b : bytes) : list N :=
  List.map (fun i => nth (2 * i) b 0 * 256 + nth (2 * i + 1) b 0) (seq 0 (Nat.div (length b) 2)).

(** [u16::is_surrogate]: [(u & 0xF800) == 0xD800] *)
Definition is_surrogate (u : N) : bool := (55296 <=? u) && (u <=? 57343).

(** [DecodeUtf16::next]: the state is (buf, rest of the inner iterator); the item is [Some c] for
    [Ok(c)] and [None] for [Err(DecodeUtf16Error)]; [None] at the top = the iterator is finished *)
Definition du_take (st : option N * list N) : option (N * list N) :=
  match fst st with
  | Some u => Some (u, snd st)                       (* self.buf.take() *)
  | None => match snd st with u :: r => Some (u, r) | [] => None end   (* self.iter.next()? *)
  end.

Definition du_step (u : N) (it : list N) : option N * (option N * list N) :=
  if negb (is_surrogate u) then (Some u, (None, it))            (* not a surrogate: Ok(u) *)
  else if 56320 <=? u then (None, (None, it))                    (* a trailing surrogate: Err *)
  else match it with
       | [] => (None, (None, []))                                (* no second unit: Err *)
       | u2 :: it2 =>
           if (u2 <? 56320) || (57343 <? u2)
           then (None, (Some u2, it2))                           (* not a trailing surrogate: keep it in buf, Err *)
           else (Some (65536 + (u - 55296) * 1024 + (u2 - 56320)), (None, it2))
       end.

Definition du_next (st : option N * list N) : option (option N * (option N * list N)) :=
  match du_take st with
  | None => None
  | Some (u, it) => Some (du_step u it)
  end.

(** [.map(|r| r.unwrap_or(char::REPLACEMENT_CHARACTER)).collect()] *)
Fixpoint du_collect (fuel : nat) (st : option N * list N) : text :=
  match fuel with
  | O => []
  | S f => match du_next st with
           | None => []
           | Some (r, st') => match r with Some c => c | None => 65533 end :: du_collect f st'
           end
  end.

(** every call of [next] takes at least one unit out of (buf, iter): [length v + 1] calls suffice *)
Definition std_from_utf16_lossy (v : list N) : text := du_collect (S (length v)) (None, v).

(** [decode_text_string] on a payload that starts with FE FF, as std behaves *)
Definition std_decode_bom (r : bytes) : text := std_from_utf16_lossy (std_units r).

(** ** model = std *)
Lemma div2_SS : forall n, Nat.div (S (S n)) 2 = S (Nat.div n 2).
Proof.
  intro n. replace (S (S n)) with (n + 1 * 2)%nat by lia. rewrite Nat.div_add by lia. lia.
Qed.

Lemma units_is_std_units : forall b, units b = std_units b.
Proof.
  apply pair_ind.
  - reflexivity.
  - intro a. reflexivity.
  - intros h l r IH. unfold std_units in *. cbn [units length]. rewrite div2_SS.
    cbn [seq List.map]. rewrite <- seq_shift, map_map, IH. f_equal.
    apply map_ext. intro i.
    replace (2 * S i)%nat with (S (S (2 * i))) by lia.
    replace (S (S (2 * i)) + 1)%nat with (S (S (2 * i + 1))) by lia.
    reflexivity.
Qed.

Definition pending (st : option N * list N) : list N :=
  match fst st with Some u => u :: snd st | None => snd st end.

Lemma du_take_pending : forall st,
  du_take st = match pending st with [] => None | u :: r => Some (u, r) end.
Proof. intros [[u|] [|x r]]; reflexivity. Qed.

Lemma du_collect_done : forall f, du_collect f (None, []) = [].
Proof. destruct f; reflexivity. Qed.

Lemma du_collect_is_lossy : forall fuel st, (length (pending st) < fuel)%nat ->
  du_collect fuel st = utf16_lossy (pending st).
Proof.
  induction fuel as [|f IH]; intros st L; [lia|].
  cbn [du_collect]. unfold du_next. rewrite du_take_pending.
  destruct (pending st) as [|u it] eqn:E; [reflexivity|].
  cbn [length] in L. unfold du_step.
  destruct (is_surrogate u) eqn:S; cbn [negb].
  - destruct (56320 <=? u) eqn:T.
    + (* lone trailing surrogate *)
      assert (A : is_high u = false) by (unfold is_high, is_surrogate in *; lia).
      assert (B : is_low u = true) by (unfold is_low, is_surrogate in *; lia).
      cbn [utf16_lossy]. rewrite A, B. f_equal.
      rewrite IH by (cbn [pending fst snd]; lia). reflexivity.
    + assert (A : is_high u = true) by (unfold is_high, is_surrogate in *; lia).
      cbn [utf16_lossy]. rewrite A.
      destruct it as [|u2 it2].
      * rewrite du_collect_done. reflexivity.
      * destruct ((u2 <? 56320) || (57343 <? u2)) eqn:Q.
        -- assert (B : is_low u2 = false) by (unfold is_low; lia).
           rewrite B. f_equal.
           rewrite IH by (cbn [pending fst snd length] in *; lia). reflexivity.
        -- assert (B : is_low u2 = true) by (unfold is_low; lia).
           rewrite B. f_equal.
           rewrite IH by (cbn [pending fst snd length] in *; lia). reflexivity.
  - assert (A : is_high u = false) by (unfold is_high, is_surrogate in *; lia).
    assert (B : is_low u = false) by (unfold is_low, is_surrogate in *; lia).
    cbn [utf16_lossy]. rewrite A, B. f_equal.
    rewrite IH by (cbn [pending fst snd]; lia). reflexivity.
Qed.

Theorem utf16_lossy_is_std : forall v, utf16_lossy v = std_from_utf16_lossy v.
Proof.
  intro v. unfold std_from_utf16_lossy. rewrite du_collect_is_lossy; [reflexivity|].
  cbn [pending fst snd]. lia.
Qed.

Lemma decode_text_bom_eq : forall r, decode_text (254 :: 255 :: r) = utf16_lossy (units r).
Proof. intro r. reflexivity. Qed.

(** FE FF prefix: the result is std's lossy UTF-16BE reading of the remaining bytes — an unpaired
    surrogate becomes U+FFFD (the unit after an unpaired leading surrogate is read again), an odd
    final byte is not part of any chunk of [chunks_exact(2)] and contributes nothing *)
Theorem decode_bom_is_utf16_lossy : forall r, decode_text (bom ++ r) = std_decode_bom r.
Proof.
  intro r. unfold bom, std_decode_bom. cbn [app]. rewrite decode_text_bom_eq.
  rewrite utf16_lossy_is_std, units_is_std_units. reflexivity.
Qed.

(** the corner cases, by evaluation of the spec side: D83D DE00 -> U+1F600; lone high D800 then 'A';
    lone low; high at the very end; odd tail dropped; odd tail after a complete high surrogate *)
Example std_decode_bom_samples :
  std_decode_bom [216; 61; 222; 0] = [128512] /\
  std_decode_bom [216; 0; 0; 65] = [65533; 65] /\
  std_decode_bom [220; 0; 0; 65] = [65533; 65] /\
  std_decode_bom [0; 65; 216; 0] = [65; 65533] /\
  std_decode_bom [0; 65; 0] = [65] /\
  std_decode_bom [216; 61; 222] = [65533] /\
  std_decode_bom [216; 0; 216; 61; 222; 0] = [65533; 128512] /\
  std_decode_bom [] = [] /\ std_decode_bom [7] = [].
Proof. vm_compute. repeat split; reflexivity. Qed.

(** * Without the byte order mark: byte-wise through the generated table *)
Lemma has_bom_false_decode : forall b, has_bom b = false -> decode_text b = List.map winansi_char b.
Proof.
  intros [|x [|y r]] H; try reflexivity.
  cbn [has_bom] in H. cbn [decode_text]. rewrite H. reflexivity.
Qed.

Lemma has_bom_true_decode : forall b, has_bom b = true ->
  exists r, b = bom ++ r /\ decode_text b = utf16_lossy (units r).
Proof.
  intros [|x [|y r]] H; try discriminate.
  cbn [has_bom] in H. exists r.
  assert (x = 254 /\ y = 255) as [-> ->] by lia. split; reflexivity.
Qed.

(** [winansi_char] is [dec_table win_dec_char win_dec_char_default], the arms of
    [text::encoding::winansi_decode_char] regenerated from the source on every run *)
Theorem decode_single_byte_is_table : forall b, has_bom b = false ->
  decode_text b = List.map (dec_table win_dec_char win_dec_char_default) b
  /\ length (decode_text b) = length b.
Proof.
  intros b H. rewrite (has_bom_false_decode _ H). split; [reflexivity | apply map_length].
Qed.

(** a string shorter than two bytes, or one whose first two bytes are not FE FF, has no BOM — a
    lone FE, and FF FE (the little-endian mark), are read byte-wise *)
Example single_byte_samples :
  has_bom [254] = false /\ decode_text [254] = [254] /\
  has_bom [255; 254; 65; 0] = false /\ decode_text [255; 254; 65; 0] = [255; 254; 65; 0] /\
  has_bom [128; 65; 160] = false /\ decode_text [128; 65; 160] = [8364; 65; 160].
Proof. vm_compute. repeat split; reflexivity. Qed.

(** * Totality: every output element is a Unicode scalar value *)
Lemma winansi_scalar : forall b, b < 256 -> is_scalar (winansi_char b) = true.
Proof.
  intros b H.
  assert (S : allb (fun b => is_scalar (winansi_char b)) 256 = true) by (vm_compute; reflexivity).
  exact (allb_spec _ _ S b H).
Qed.

Lemma units_lt : forall b, bytes_ok b = true -> forallb (fun u => u <? 65536) (units b) = true.
Proof.
  apply (pair_ind (fun b => bytes_ok b = true -> forallb (fun u => u <? 65536) (units b) = true)).
  - reflexivity.
  - reflexivity.
  - intros h l r IH H. unfold bytes_ok in *. cbn [forallb] in H.
    apply andb_true_iff in H. destruct H as [H1 H]. apply andb_true_iff in H. destruct H as [H2 H3].
    unfold byte_ok in H1, H2. cbn [units forallb]. rewrite (IH H3). lia.
Qed.

Lemma utf16_lossy_scalar : forall us, forallb (fun u => u <? 65536) us = true ->
  valid_text (utf16_lossy us) = true.
Proof.
  unfold valid_text.
  apply (look_ahead_ind (fun us => forallb (fun u => u <? 65536) us = true ->
                                   forallb is_scalar (utf16_lossy us) = true)).
  - reflexivity.
  - intros a H. cbn [forallb] in H. cbn [utf16_lossy].
    destruct (is_high a) eqn:A; [reflexivity|].
    destruct (is_low a) eqn:B; [reflexivity|].
    cbn [forallb]. unfold is_scalar, is_high, is_low in *. lia.
  - intros a b r IHr IHb H. cbn [forallb] in H.
    apply andb_true_iff in H. destruct H as [Ha Hb].
    assert (Hr : forallb (fun u => u <? 65536) r = true) by (apply andb_true_iff in Hb; apply Hb).
    assert (Hb' : b < 65536) by (apply andb_true_iff in Hb; destruct Hb as [Hb _]; lia).
    apply N.ltb_lt in Ha.
    specialize (IHr Hr). specialize (IHb Hb).
    cbn [utf16_lossy]. cbn [utf16_lossy] in IHb.
    destruct (is_high a) eqn:A.
    + destruct (is_low b) eqn:B.
      * cbn [forallb]. rewrite IHr. unfold is_scalar, is_high, is_low in *. lia.
      * cbn [forallb]. rewrite IHb. reflexivity.
    + destruct (is_low a) eqn:B.
      * cbn [forallb]. rewrite IHb. reflexivity.
      * cbn [forallb]. rewrite IHb. unfold is_scalar, is_high, is_low in *. lia.
Qed.

Lemma map_winansi_scalar : forall b, bytes_ok b = true -> valid_text (List.map winansi_char b) = true.
Proof.
  unfold valid_text, bytes_ok. induction b as [|x b IH]; intro H; [reflexivity|].
  cbn [forallb] in H. apply andb_true_iff in H. destruct H as [H1 H2].
  cbn [List.map forallb]. rewrite (IH H2), winansi_scalar by (unfold byte_ok in H1; lia). reflexivity.
Qed.

Lemma bytes_ok_tail2 : forall x y r, bytes_ok (x :: y :: r) = true -> bytes_ok r = true.
Proof.
  intros x y r H. unfold bytes_ok in *. cbn [forallb] in H.
  apply andb_true_iff in H. destruct H as [_ H]. apply andb_true_iff in H. apply H.
Qed.

Lemma utf16_lossy_length : forall us, (length (utf16_lossy us) <= length us)%nat.
Proof.
  apply look_ahead_ind.
  - cbn. lia.
  - intro a. cbn [utf16_lossy]. destruct (is_high a); [|destruct (is_low a)]; cbn; lia.
  - intros a b r IHr IHb. cbn [utf16_lossy] in *.
    destruct (is_high a); [destruct (is_low b)|destruct (is_low a)]; cbn [length] in *; lia.
Qed.

Lemma units_length : forall b, (2 * length (units b) <= length b)%nat.
Proof.
  apply pair_ind; [cbn; lia | intro; cbn; lia |].
  intros h l r IH. cbn [units length]. lia.
Qed.

(** [bytes_ok b] is the type of the input ([&[u8]]), not a restriction.  [decode_text] is a total
    Gallina function, so "defined" is the existence of the value; the content of the theorem is
    that the value is a [String] (scalar values only — the lossy decoder never lets a surrogate
    through and the table has no surrogate cell) and is never longer than the input. *)
Theorem decode_text_total : forall b, bytes_ok b = true ->
  exists t, decode_text b = t /\ valid_text t = true /\ (length t <= length b)%nat.
Proof.
  intros b H. exists (decode_text b). split; [reflexivity|].
  destruct (has_bom b) eqn:E.
  - destruct (has_bom_true_decode _ E) as [r [-> D]]. rewrite D. unfold bom in *. cbn [app] in *.
    split.
    + apply utf16_lossy_scalar, units_lt, (bytes_ok_tail2 _ _ _ H).
    + pose proof (utf16_lossy_length (units r)). pose proof (units_length r). cbn [length]. lia.
  - rewrite (has_bom_false_decode _ E). split; [apply map_winansi_scalar, H | rewrite map_length; lia].
Qed.

(** * The two readers on the inputs where both are defined *)
Lemma lossy_step : forall a b r, utf16_lossy (a :: b :: r) =
  if is_high a then (if is_low b then (65536 + (a - 55296) * 1024 + (b - 56320)) :: utf16_lossy r
                     else 65533 :: utf16_lossy (b :: r))
  else if is_low a then 65533 :: utf16_lossy (b :: r) else a :: utf16_lossy (b :: r).
Proof. reflexivity. Qed.

Lemma strict_step : forall a b r, utf16_strict (a :: b :: r) =
  if is_high a then (if is_low b then match utf16_strict r with
                                      | Some t => Some ((65536 + (a - 55296) * 1024 + (b - 56320)) :: t)
                                      | None => None end
                     else None)
  else if is_low a then None
  else match utf16_strict (b :: r) with Some t => Some (a :: t) | None => None end.
Proof. reflexivity. Qed.

Lemma strict_is_lossy : forall us t, utf16_strict us = Some t -> utf16_lossy us = t.
Proof.
  apply (look_ahead_ind (fun us => forall t, utf16_strict us = Some t -> utf16_lossy us = t)).
  - intros t H. cbn in H. injection H as <-. reflexivity.
  - intros a t H. cbn [utf16_strict utf16_lossy] in *.
    change (hi_sur a) with (is_high a) in H. change (lo_sur a) with (is_low a) in H.
    destruct (is_high a); [discriminate|]. destruct (is_low a); [discriminate|].
    injection H as <-. reflexivity.
  - intros a b r IHr IHb t H. rewrite strict_step in H. rewrite lossy_step.
    destruct (is_high a).
    + destruct (is_low b); [|discriminate].
      destruct (utf16_strict r) as [t'|] eqn:E; [|discriminate].
      injection H as <-. rewrite (IHr _ eq_refl). reflexivity.
    + destruct (is_low a); [discriminate|].
      destruct (utf16_strict (b :: r)) as [t'|] eqn:E; [|discriminate].
      injection H as <-. rewrite (IHb _ eq_refl). reflexivity.
Qed.

Lemma be_units_is_units : forall r us, be_units r = Some us -> units r = us /\ Nat.even (length r) = true.
Proof.
  apply (pair_ind (fun r => forall us, be_units r = Some us -> units r = us /\ Nat.even (length r) = true)).
  - intros us H. cbn in H. injection H as <-. split; reflexivity.
  - intros a us H. discriminate.
  - intros h l r IH us H. cbn [be_units] in H.
    destruct (be_units r) as [us'|] eqn:E; [|discriminate].
    injection H as <-. destruct (IH _ eq_refl) as [U Ev]. cbn [units]. rewrite U.
    split; [reflexivity | exact Ev].
Qed.

Lemma even_be_units : forall r, Nat.even (length r) = true -> be_units r = Some (units r).
Proof.
  apply (pair_ind (fun r => Nat.even (length r) = true -> be_units r = Some (units r))).
  - reflexivity.
  - intros a H. discriminate.
  - intros h l r IH H. cbn [be_units units]. cbn [length Nat.even] in H. rewrite (IH H). reflexivity.
Qed.

(** the ISO-shaped reader has a reading of a BOM payload exactly when the rest has even length and
    is well-formed UTF-16 *)
Theorem iso_bom_defined_iff : forall r t,
  spec_decode (bom ++ r) = Some t <-> Nat.even (length r) = true /\ utf16_strict (units r) = Some t.
Proof.
  intros r t. unfold bom. cbn [app spec_decode N.eqb Pos.eqb andb]. split.
  - intro H. destruct (be_units r) as [us|] eqn:E; [|discriminate].
    destruct (be_units_is_units _ _ E) as [<- Ev]. split; assumption.
  - intros [Ev H]. rewrite (even_be_units _ Ev). exact H.
Qed.

(** FE FF payloads: wherever the ISO-shaped reader is defined, the library reads the same text *)
Theorem readers_agree_on_bom : forall r t, spec_decode (bom ++ r) = Some t -> decode_text (bom ++ r) = t.
Proof.
  intros r t H. apply iso_bom_defined_iff in H. destruct H as [_ H].
  unfold bom. cbn [app]. rewrite decode_text_bom_eq. apply strict_is_lossy, H.
Qed.

(** ... and where it is NOT defined (odd tail or ill-formed UTF-16) the library still answers,
    with at least one U+FFFD or by dropping the odd byte: e.g. *)
Example bom_only_library_reads :
  spec_decode (bom ++ [216; 0; 0; 65]) = None /\ decode_text (bom ++ [216; 0; 0; 65]) = [65533; 65] /\
  spec_decode (bom ++ [0; 65; 0]) = None /\ decode_text (bom ++ [0; 65; 0]) = [65].
Proof. vm_compute. repeat split; reflexivity. Qed.

(** single-byte payloads *)
Lemma oN_some_eq : forall a b, option_eqb N.eqb a (Some b) = true -> a = Some b.
Proof. intros a b H. apply (oN_eqb_eq a (Some b)). exact H. Qed.

Lemma same_cells_map_opt : forall p, forallb same_cell p = true ->
  map_opt pdfdoc_char p = Some (List.map winansi_char p).
Proof.
  induction p as [|b p IH]; intro H; [reflexivity|].
  cbn [forallb] in H. apply andb_true_iff in H. destruct H as [H1 H2].
  unfold same_cell in H1. apply oN_some_eq in H1.
  cbn [map_opt List.map]. rewrite H1, (IH H2). reflexivity.
Qed.

Lemma spec_decode_nobom : forall p, has_bom p = false -> spec_decode p = map_opt pdfdoc_char p.
Proof.
  intros [|x [|y r]] H; try reflexivity.
  cbn [has_bom] in H. cbn [spec_decode]. rewrite H. reflexivity.
Qed.

Theorem readers_agree_on_same_cells : forall p, has_bom p = false -> forallb same_cell p = true ->
  spec_decode p = Some (decode_text p).
Proof.
  intros p B H. rewrite (spec_decode_nobom _ B), (has_bom_false_decode _ B).
  apply same_cells_map_opt, H.
Qed.

(** the statement the [dec] channel evaluates ([agree] is Model.v's predicate) *)
Theorem readers_agree_on_agree : forall p t, agree p = true -> spec_decode p = Some t -> decode_text p = t.
Proof.
  intros p t A H. unfold agree in A. destruct (has_bom p) eqn:B.
  - destruct (has_bom_true_decode _ B) as [r [-> _]]. apply readers_agree_on_bom, H.
  - cbn [orb] in A. rewrite (readers_agree_on_same_cells _ B A) in H. injection H as <-. reflexivity.
Qed.

(** ... and exactly there: without BOM, where the ISO reading exists, the library's reading is
    that text if and only if every byte is a cell on which the two tables agree *)
Lemma map_opt_winansi_iff : forall p t, map_opt pdfdoc_char p = Some t ->
  (List.map winansi_char p = t <-> forallb same_cell p = true).
Proof.
  induction p as [|b p IH]; intros t H.
  - cbn in H. injection H as <-. split; reflexivity.
  - cbn [map_opt] in H. destruct (pdfdoc_char b) as [c|] eqn:C; [|discriminate].
    destruct (map_opt pdfdoc_char p) as [t'|] eqn:E; [|discriminate].
    injection H as <-. specialize (IH _ eq_refl).
    cbn [List.map forallb]. unfold same_cell at 1. rewrite C. cbn [option_eqb]. split.
    + intro Q. injection Q as Q1 Q2. apply IH in Q2. rewrite Q2. lia.
    + intro Q. apply andb_true_iff in Q. destruct Q as [Q1 Q2].
      apply IH in Q2. rewrite Q2. f_equal. lia.
Qed.

Theorem readers_differ_exactly : forall p t, has_bom p = false -> spec_decode p = Some t ->
  (decode_text p = t <-> forallb same_cell p = true).
Proof.
  intros p t B H. rewrite (spec_decode_nobom _ B) in H. rewrite (has_bom_false_decode _ B).
  apply map_opt_winansi_iff, H.
Qed.

(** ** which cells: the bytes where both tables give a character and the characters differ *)
Definition differ_cells : list N :=
  [24; 25; 26; 27; 28; 29; 30; 31;                                  (* 0x18..0x1F accents *)
   128; 129; 130; 131; 132; 133; 134; 135; 136; 137; 138; 139; 140; 141; 142; 143;
   144; 145; 146; 147; 148; 149; 150; 151; 152; 153; 154; 155;      (* 0x80..0x9B *)
   157; 160].                                                        (* 0x9D, 0xA0 *)

Definition in_list (b : N) (l : list N) : bool := existsb (N.eqb b) l.

Lemma in_list_In : forall b l, in_list b l = true <-> In b l.
Proof.
  intros b l. unfold in_list. rewrite existsb_exists. split.
  - intros [x [I E]]. apply N.eqb_eq in E. subst. exact I.
  - intro I. exists b. split; [exact I | apply N.eqb_refl].
Qed.

Definition no_iso (b : N) : bool := match pdfdoc_char b with None => true | Some _ => false end.

Lemma same_cell_sweep : forall b, b < 256 ->
  same_cell b = negb (no_iso b || in_list b differ_cells).
Proof.
  intros b H.
  assert (S : allb (fun b => Bool.eqb (same_cell b) (negb (no_iso b || in_list b differ_cells))) 256 = true)
    by (vm_compute; reflexivity).
  apply eqb_prop. exact (allb_spec _ _ S b H).
Qed.

(** for EVERY byte value (also outside u8: no ISO reading there) *)
Theorem same_cell_exactly : forall b,
  same_cell b = false <-> pdfdoc_char b = None \/ In b differ_cells.
Proof.
  intro b. destruct (b <? 256) eqn:L.
  - rewrite same_cell_sweep by lia. rewrite negb_false_iff, orb_true_iff, in_list_In.
    unfold no_iso. destruct (pdfdoc_char b); split; intros [H|H]; try discriminate; auto.
  - assert (P : pdfdoc_char b = None) by (unfold pdfdoc_char; rewrite L; reflexivity).
    unfold same_cell. rewrite P. cbn [option_eqb]. split; auto.
Qed.

(** every such cell lies in the class of C25's finding C25-pdfdoc-textstring-winansi *)
Theorem differ_cells_in_c25_class : forall b, In b differ_cells -> known_class 15 b = 5.
Proof.
  assert (S : forallb (fun b => known_class 15 b =? 5) differ_cells = true) by (vm_compute; reflexivity).
  intros b H. rewrite forallb_forall in S. apply N.eqb_eq, S, H.
Qed.

(** summary: on a payload where both readers are defined they give the same text unless the payload
    has no BOM and contains one of [differ_cells] *)
Theorem readers_agree_unless_differ_cell : forall p t, spec_decode p = Some t ->
  decode_text p = t \/ (has_bom p = false /\ exists b, In b p /\ In b differ_cells).
Proof.
  intros p t H. destruct (has_bom p) eqn:B.
  - left. apply readers_agree_on_agree; [unfold agree; rewrite B; reflexivity | exact H].
  - destruct (forallb same_cell p) eqn:A.
    + left. apply (readers_differ_exactly _ _ B H), A.
    + right. split; [reflexivity|].
      assert (E : existsb (fun b => negb (same_cell b)) p = true).
      { clear -A. induction p as [|b p IH]; [discriminate|].
        cbn [forallb existsb] in *. destruct (same_cell b); cbn [negb orb andb] in *; [apply IH, A | reflexivity]. }
      apply existsb_exists in E. destruct E as [b [I N]]. apply negb_true_iff in N.
      exists b. split; [exact I|].
      apply same_cell_exactly in N. destruct N as [N|N]; [|exact N].
      exfalso. rewrite (spec_decode_nobom _ B) in H. clear -H I N.
      revert t H. induction p as [|x p IH]; intros t H; [destruct I|].
      cbn [map_opt] in H. destruct I as [->|I].
      * rewrite N in H. discriminate.
      * destruct (pdfdoc_char x); [|discriminate].
        destruct (map_opt pdfdoc_char p) eqn:E; [|discriminate]. apply (IH I _ eq_refl).
Qed.

(** the hypotheses are satisfiable on non-trivial values; the disagreement is real (byte 0x80:
    bullet by ISO, Euro by the library — C25's witness) *)
Example agree_samples :
  agree (bom ++ [216; 61; 222; 0; 0; 241]) = true /\
  spec_decode (bom ++ [216; 61; 222; 0; 0; 241]) = Some [128512; 241] /\
  agree [65; 241; 156; 255] = true /\ has_bom [65; 241; 156; 255] = false /\
  spec_decode [65; 241; 156; 255] = Some [65; 241; 339; 255] /\
  decode_text [65; 241; 156; 255] = [65; 241; 339; 255] /\
  agree [65; 128] = false /\ spec_decode [65; 128] = Some [65; 8226] /\ decode_text [65; 128] = [65; 8364].
Proof. vm_compute. repeat split; reflexivity. Qed.

(** * The [dec] channel's property bit follows from its model bit: when the implementation's output
    is the model's ([model_ok]), the predicate the channel evaluates ([prop_ok]) holds — it is no
    longer only observed *)
Lemma text_eqb_eq : forall a b, text_eqb a b = true <-> a = b.
Proof. apply list_eqb_spec. intros. apply N.eqb_eq. Qed.

Lemma otext_eqb_eq : forall a b, otext_eqb a b = true <-> a = b.
Proof.
  intros [a|] [b|]; cbn; split; intro H; try discriminate; try reflexivity.
  - apply text_eqb_eq in H. subst. reflexivity.
  - injection H as ->. apply text_eqb_eq. reflexivity.
Qed.

Theorem dec_prop_follows_from_model : forall p r,
  otext_eqb (option_map of_utf8 r) (Some (decode_text p)) = true -> dec_code (p, r) = 0.
Proof.
  intros p r M. unfold dec_code. rewrite M.
  destruct (spec_decode p) as [t|] eqn:S; [|reflexivity].
  destruct (agree p) eqn:A; [|reflexivity].
  apply otext_eqb_eq in M. rewrite M, <- (readers_agree_on_agree _ _ A S).
  match goal with |- code_of true ?x = 0 =>
    replace x with true; [reflexivity | symmetry; apply otext_eqb_eq; reflexivity] end.
Qed.
