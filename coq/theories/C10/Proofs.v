(** C10 — proofs.  Literal/hex string lexing of the library is taken from C09 ([lex1_str],
    [lex1_hex]); everything about text strings is proved here. *)
From OxVerif Require Import Base.Util C09.Model C09.Proofs C25.AnnexD C25.Model C10.Spec C10.Model.
From OxGen Require Import Encodings.
Require Import Lia ZifyBool.
Ltac Zify.zify_post_hook ::= Z.to_euclidean_division_equations.

(** * finite sweeps *)
Lemma winansi_ascii_fixed : forall b, b < 128 -> winansi_char b = b.
Proof.
  intros b H.
  assert (S : allb (fun b => winansi_char b =? b) 128 = true) by (vm_compute; reflexivity).
  apply N.eqb_eq. exact (allb_spec _ _ S b H).
Qed.

Definition oN_eqb := option_eqb N.eqb.
Lemma oN_eqb_eq a b : oN_eqb a b = true -> a = b.
Proof.
  destruct a, b; cbn; intro H; try discriminate; try reflexivity.
  apply N.eqb_eq in H. subst. reflexivity.
Qed.

Lemma pdfdoc_plain_fixed : forall b, plain_byte b = true -> pdfdoc_char b = Some b.
Proof.
  intros b H.
  assert (S : allb (fun b => implb (plain_byte b) (oN_eqb (pdfdoc_char b) (Some b))) 128 = true)
    by (vm_compute; reflexivity).
  assert (L : b < 128) by (unfold plain_byte in H; lia).
  pose proof (allb_spec _ _ S b L) as K. cbv beta in K. rewrite H in K. cbn [implb] in K.
  apply oN_eqb_eq. exact K.
Qed.

Lemma hexdig_sweep : forall n, n < 16 -> iso_hexv (hexdig n) = Some n /\ (hexdig n =? 62) = false.
Proof.
  intros n H.
  assert (S : allb (fun n => oN_eqb (iso_hexv (hexdig n)) (Some n) && negb (hexdig n =? 62)) 16 = true)
    by (vm_compute; reflexivity).
  pose proof (allb_spec _ _ S n H) as K. cbv beta in K.
  apply andb_true_iff in K. destruct K as [K1 K2]. split.
  - apply oN_eqb_eq. exact K1.
  - apply negb_true_iff. exact K2.
Qed.

(** * plain text: its UTF-8 bytes are its code points *)
Lemma plain_byte_lt : forall b, plain_byte b = true -> b < 127.
Proof. intros b H. unfold plain_byte in H. lia. Qed.

Lemma utf8_plain : forall c, forallb plain_byte (utf8 c) = true -> utf8 c = [c] /\ plain_byte c = true.
Proof.
  intros c H. unfold utf8 in *.
  destruct (c <? 128) eqn:E1.
  - cbn [forallb] in H. apply andb_true_iff in H. tauto.
  - exfalso. destruct (c <? 2048); [|destruct (c <? 65536)];
      cbn [forallb] in H; apply andb_true_iff in H; destruct H as [H _];
      apply plain_byte_lt in H; lia.
Qed.

Lemma utf8s_cons : forall c s, utf8s (c :: s) = utf8 c ++ utf8s s.
Proof. reflexivity. Qed.

Lemma plain_text : forall s, is_plain s = true -> utf8s s = s /\ forallb plain_byte s = true.
Proof.
  unfold is_plain. induction s as [|c s IH]; intro H; [split; reflexivity|].
  rewrite utf8s_cons, forallb_app in H. apply andb_true_iff in H. destruct H as [H1 H2].
  apply utf8_plain in H1. destruct H1 as [U P]. destruct (IH H2) as [IH1 IH2].
  rewrite utf8s_cons, U, IH1. cbn [app forallb]. rewrite P, IH2. split; reflexivity.
Qed.

Lemma ascii_utf8s : forall s, forallb (fun c => c <? 128) s = true -> utf8s s = s.
Proof.
  induction s as [|c s IH]; intro H; [reflexivity|].
  cbn [forallb] in H. apply andb_true_iff in H. destruct H as [H1 H2].
  rewrite utf8s_cons, (IH H2). unfold utf8. rewrite H1. reflexivity.
Qed.

Lemma map_winansi_ascii : forall s, forallb (fun c => c <? 128) s = true -> List.map winansi_char s = s.
Proof.
  induction s as [|c s IH]; intro H; [reflexivity|].
  cbn [forallb] in H. apply andb_true_iff in H. destruct H as [H1 H2].
  cbn [List.map]. rewrite (IH H2), winansi_ascii_fixed by lia. reflexivity.
Qed.

Lemma decode_text_ascii : forall s, forallb (fun c => c <? 128) s = true -> decode_text s = s.
Proof.
  intros s H. unfold decode_text. destruct s as [|x [|y r]]; try apply (map_winansi_ascii _ H).
  assert (X : (x =? 254) = false) by (cbn [forallb] in H; lia).
  rewrite X. cbn [andb]. apply (map_winansi_ascii _ H).
Qed.

Lemma plain_ascii : forall s, forallb plain_byte s = true -> forallb (fun c => c <? 128) s = true.
Proof.
  induction s as [|c s IH]; intro H; [reflexivity|].
  cbn [forallb] in *. apply andb_true_iff in H. destruct H as [H1 H2].
  apply plain_byte_lt in H1. rewrite (IH H2). lia.
Qed.

Lemma map_opt_pdfdoc_plain : forall s, forallb plain_byte s = true -> map_opt pdfdoc_char s = Some s.
Proof.
  induction s as [|c s IH]; intro H; [reflexivity|].
  cbn [forallb] in H. apply andb_true_iff in H. destruct H as [H1 H2].
  cbn [map_opt]. rewrite (pdfdoc_plain_fixed _ H1), (IH H2). reflexivity.
Qed.

Lemma spec_decode_plain : forall s, forallb plain_byte s = true -> spec_decode s = Some s.
Proof.
  intros s H. unfold spec_decode. destruct s as [|x [|y r]]; try apply (map_opt_pdfdoc_plain _ H).
  assert (X : (x =? 254) = false).
  { cbn [forallb] in H. apply andb_true_iff in H. destruct H as [H _]. apply plain_byte_lt in H. lia. }
  rewrite X. cbn [andb]. apply (map_opt_pdfdoc_plain _ H).
Qed.

(** * UTF-16 *)
Lemma units_of_cons : forall c s, units_of (c :: s) = utf16 c ++ units_of s.
Proof. reflexivity. Qed.

Lemma utf16_lossy_roundtrip : forall s, valid_text s = true -> utf16_lossy (units_of s) = s.
Proof.
  induction s as [|c s IH]; intro H; [reflexivity|].
  cbn [valid_text forallb] in H. apply andb_true_iff in H. destruct H as [H1 H2].
  specialize (IH H2). rewrite units_of_cons. unfold utf16, is_scalar in *.
  destruct (c <? 65536) eqn:E.
  - cbn [app utf16_lossy].
    assert (A : is_high c = false) by (unfold is_high; lia).
    assert (B : is_low c = false) by (unfold is_low; lia).
    rewrite A, B, IH. reflexivity.
  - cbn [app utf16_lossy].
    pose proof (N.div_mod' (c - 65536) 1024) as D.
    pose proof (N.mod_lt (c - 65536) 1024 ltac:(lia)) as M.
    assert (Q : (c - 65536) / 1024 < 1024) by (apply N.div_lt_upper_bound; lia).
    assert (A : is_high (55296 + (c - 65536) / 1024) = true) by (unfold is_high; lia).
    assert (B : is_low (56320 + (c - 65536) mod 1024) = true) by (unfold is_low; lia).
    rewrite A, B, IH. f_equal. lia.
Qed.

Lemma utf16_strict_roundtrip : forall s, valid_text s = true -> utf16_strict (units_of s) = Some s.
Proof.
  induction s as [|c s IH]; intro H; [reflexivity|].
  cbn [valid_text forallb] in H. apply andb_true_iff in H. destruct H as [H1 H2].
  specialize (IH H2). rewrite units_of_cons. unfold utf16, is_scalar in *.
  destruct (c <? 65536) eqn:E.
  - cbn [app utf16_strict].
    assert (A : hi_sur c = false) by (unfold hi_sur; lia).
    assert (B : lo_sur c = false) by (unfold lo_sur; lia).
    rewrite A, B, IH. reflexivity.
  - cbn [app utf16_strict].
    pose proof (N.div_mod' (c - 65536) 1024) as D.
    pose proof (N.mod_lt (c - 65536) 1024 ltac:(lia)) as M.
    assert (Q : (c - 65536) / 1024 < 1024) by (apply N.div_lt_upper_bound; lia).
    assert (A : hi_sur (55296 + (c - 65536) / 1024) = true) by (unfold hi_sur; lia).
    assert (B : lo_sur (56320 + (c - 65536) mod 1024) = true) by (unfold lo_sur; lia).
    rewrite A, B, IH. do 2 f_equal. lia.
Qed.

Lemma units_be : forall us, units (flat_map be us) = us.
Proof.
  induction us as [|u us IH]; [reflexivity|].
  cbn [flat_map be app units]. rewrite IH. f_equal.
  pose proof (N.div_mod' u 256). lia.
Qed.

Lemma be_units_be : forall us, be_units (flat_map be us) = Some us.
Proof.
  induction us as [|u us IH]; [reflexivity|].
  cbn [flat_map be app be_units]. rewrite IH. do 2 f_equal.
  pose proof (N.div_mod' u 256). lia.
Qed.

Lemma units_of_lt : forall s, valid_text s = true -> forallb (fun u => u <? 65536) (units_of s) = true.
Proof.
  induction s as [|c s IH]; intro H; [reflexivity|].
  cbn [valid_text forallb] in H. apply andb_true_iff in H. destruct H as [H1 H2].
  rewrite units_of_cons, forallb_app, (IH H2), andb_true_r. unfold utf16, is_scalar in *.
  destruct (c <? 65536) eqn:E; cbn [forallb].
  - lia.
  - pose proof (N.mod_lt (c - 65536) 1024 ltac:(lia)) as M.
    assert (Q : (c - 65536) / 1024 < 1024) by (apply N.div_lt_upper_bound; lia).
    lia.
Qed.

Lemma bytes_ok_be : forall us, forallb (fun u => u <? 65536) us = true -> bytes_ok (flat_map be us) = true.
Proof.
  induction us as [|u us IH]; intro H; [reflexivity|].
  cbn [forallb] in H. apply andb_true_iff in H. destruct H as [H1 H2].
  cbn [flat_map be app]. unfold bytes_ok in *. cbn [forallb]. rewrite (IH H2). unfold byte_ok.
  pose proof (N.mod_lt u 256 ltac:(lia)).
  assert (u / 256 < 256) by (apply N.div_lt_upper_bound; lia). lia.
Qed.

Lemma bytes_ok_utf16 : forall s, valid_text s = true -> bytes_ok (bom ++ utf16be s) = true.
Proof.
  intros s H. unfold bom, utf16be. cbn [app]. unfold bytes_ok. cbn [forallb].
  change (forallb byte_ok (flat_map be (units_of s))) with (bytes_ok (flat_map be (units_of s))).
  rewrite (bytes_ok_be _ (units_of_lt _ H)). reflexivity.
Qed.

Lemma bytes_ok_plain : forall s, forallb plain_byte s = true -> bytes_ok s = true.
Proof.
  induction s as [|c s IH]; intro H; [reflexivity|].
  cbn [forallb] in H. apply andb_true_iff in H. destruct H as [H1 H2].
  unfold bytes_ok in *. cbn [forallb]. rewrite (IH H2). apply plain_byte_lt in H1. unfold byte_ok. lia.
Qed.

(** the two readings of the UTF-16 payload *)
Theorem decode_text_bom : forall s, valid_text s = true -> decode_text (bom ++ utf16be s) = s.
Proof.
  intros s H. unfold bom, utf16be. cbn [app decode_text N.eqb Pos.eqb andb].
  rewrite units_be. apply utf16_lossy_roundtrip, H.
Qed.

Theorem spec_decode_bom : forall s, valid_text s = true -> spec_decode (bom ++ utf16be s) = Some s.
Proof.
  intros s H. unfold bom, utf16be. cbn [app spec_decode N.eqb Pos.eqb andb].
  rewrite be_units_be. apply utf16_strict_roundtrip, H.
Qed.

Theorem decode_payload : forall s, valid_text s = true -> decode_text (payload s) = s /\ spec_decode (payload s) = Some s.
Proof.
  intros s H. unfold payload. destruct (is_plain s) eqn:P.
  - destruct (plain_text _ P) as [U Q]. rewrite U. split.
    + apply decode_text_ascii, plain_ascii, Q.
    + apply spec_decode_plain, Q.
  - split; [apply decode_text_bom | apply spec_decode_bom]; exact H.
Qed.

(** * the ISO reader on what the writers emit *)
Lemma iso_lit_esc : forall s rest, forallb (fun c => negb (c =? 13)) s = true ->
  iso_lit (esc_str s ++ 41 :: rest) 0 = Some (s, rest).
Proof.
  induction s as [|c s IH]; intros rest H.
  - reflexivity.
  - cbn [forallb] in H. apply andb_true_iff in H. destruct H as [H1 H2]. specialize (IH rest H2).
    cbn [esc_str].
    destruct ((c =? 92) || (c =? 40) || (c =? 41)) eqn:E.
    + cbn [app iso_lit N.eqb Pos.eqb].
      assert (O : iso_oct c = false) by (unfold iso_oct; lia).
      assert (A : (c =? 13) = false) by lia.
      assert (B : (c =? 10) = false) by lia.
      assert (C : iso_escape c = c) by (unfold iso_escape;
        repeat match goal with |- context [if ?b then _ else _] => let e := fresh in destruct b eqn:e end; lia).
      rewrite O, A, B, C, IH. reflexivity.
    + cbn [app iso_lit].
      assert (A : (c =? 92) = false) by lia.
      assert (B : (c =? 13) = false) by lia.
      assert (C : (c =? 40) = false) by lia.
      assert (D : (c =? 41) = false) by lia.
      rewrite A, B, C, D, IH. reflexivity.
Qed.

Lemma iso_hex_ser : forall s rest, bytes_ok s = true ->
  iso_hex (ser_hex s ++ 62 :: rest) None = Some (s, rest).
Proof.
  induction s as [|b s IH]; intros rest H.
  - reflexivity.
  - unfold bytes_ok in H. cbn [forallb] in H. apply andb_true_iff in H. destruct H as [H1 H2].
    unfold byte_ok in H1.
    assert (Q : b / 16 < 16) by (apply N.div_lt_upper_bound; lia).
    pose proof (N.mod_lt b 16 ltac:(lia)) as M.
    destruct (hexdig_sweep _ Q) as [Q1 Q2]. destruct (hexdig_sweep _ M) as [M1 M2].
    cbn [ser_hex app iso_hex]. rewrite Q2, Q1. cbn [iso_hex]. rewrite M2, M1.
    rewrite (IH rest H2). cbn [ocons]. do 3 f_equal.
    pose proof (N.div_mod' b 16). lia.
Qed.

Lemma plain_no_cr : forall s, forallb plain_byte s = true -> forallb (fun c => negb (c =? 13)) s = true.
Proof.
  induction s as [|c s IH]; intro H; [reflexivity|].
  cbn [forallb] in *. apply andb_true_iff in H. destruct H as [H1 H2].
  rewrite (IH H2). unfold plain_byte in H1. lia.
Qed.

(** * Round trips through the written object *)
Theorem lib_roundtrip_whole : forall s rest, valid_text s = true -> lib_read (emit_whole s ++ rest) = Some s.
Proof.
  intros s rest H. unfold emit_whole, lib_read. destruct (is_plain s) eqn:P.
  - destruct (plain_text _ P) as [U Q].
    cbn [app]. rewrite <- app_assoc. cbn [app]. rewrite lex1_str, U.
    f_equal. apply decode_text_ascii, plain_ascii, Q.
  - cbn [app]. rewrite <- app_assoc. cbn [app]. rewrite (lex1_hex _ _ (bytes_ok_utf16 _ H)).
    f_equal. apply decode_text_bom, H.
Qed.

Lemma bytes_ok_payload : forall s, valid_text s = true -> bytes_ok (payload s) = true.
Proof.
  intros s H. unfold payload. destruct (is_plain s) eqn:P.
  - destruct (plain_text _ P) as [U Q]. rewrite U. apply bytes_ok_plain, Q.
  - apply bytes_ok_utf16, H.
Qed.

Theorem lib_roundtrip_incr : forall s rest, valid_text s = true -> lib_read (emit_incr s ++ rest) = Some s.
Proof.
  intros s rest H. unfold emit_incr, lib_read.
  cbn [app]. rewrite <- app_assoc. cbn [app]. rewrite (lex1_hex _ _ (bytes_ok_payload _ H)).
  f_equal. apply decode_payload, H.
Qed.

Theorem iso_roundtrip_whole : forall s rest, valid_text s = true -> iso_read (emit_whole s ++ rest) = Some s.
Proof.
  intros s rest H. unfold emit_whole, iso_read, iso_string. destruct (is_plain s) eqn:P.
  - destruct (plain_text _ P) as [U Q].
    cbn [app N.eqb Pos.eqb]. rewrite <- app_assoc. cbn [app]. rewrite U, (iso_lit_esc _ _ (plain_no_cr _ Q)).
    apply spec_decode_plain, Q.
  - cbn [app N.eqb Pos.eqb]. rewrite <- app_assoc. cbn [app]. rewrite (iso_hex_ser _ _ (bytes_ok_utf16 _ H)).
    apply spec_decode_bom, H.
Qed.

Theorem iso_roundtrip_incr : forall s rest, valid_text s = true -> iso_read (emit_incr s ++ rest) = Some s.
Proof.
  intros s rest H. unfold emit_incr, iso_read, iso_string.
  cbn [app N.eqb Pos.eqb]. rewrite <- app_assoc. cbn [app]. rewrite (iso_hex_ser _ _ (bytes_ok_payload _ H)).
  apply decode_payload, H.
Qed.

(** the hypotheses are satisfiable on non-trivial values: "Año ✓ 😀 (x)\\" CR LF, and U+FEFF first *)
Definition sample : text := [65; 241; 111; 32; 10003; 32; 128512; 40; 120; 41; 92; 13; 10].
Example sample_valid : valid_text sample = true /\ is_plain sample = false
  /\ lib_read (emit_whole sample) = Some sample /\ iso_read (emit_whole sample) = Some sample
  /\ lib_read (emit_incr sample) = Some sample /\ iso_read (emit_incr sample) = Some sample.
Proof. vm_compute. repeat split; reflexivity. Qed.
Example sample_plain : valid_text [40; 97; 92; 41; 9; 10] = true /\ is_plain [40; 97; 92; 41; 9; 10] = true
  /\ emit_whole [40; 97; 92; 41; 9; 10] = [40; 92; 40; 97; 92; 92; 92; 41; 9; 10; 41].
Proof. vm_compute. repeat split; reflexivity. Qed.
Example sample_bom_first : lib_read (emit_whole [65279; 254; 255]) = Some [65279; 254; 255]
  /\ iso_read (emit_whole [65279; 254; 255]) = Some [65279; 254; 255].
Proof. vm_compute. split; reflexivity. Qed.

(** * The behaviour before the repair: what held and what did not *)
Theorem raw_roundtrip_ascii : forall s rest, forallb (fun c => c <? 128) s = true ->
  lib_read (emit_whole_raw s ++ rest) = Some s.
Proof.
  intros s rest H. unfold emit_whole_raw, lib_read.
  cbn [app]. rewrite <- app_assoc. cbn [app]. rewrite lex1_str, (ascii_utf8s _ H).
  f_equal. apply decode_text_ascii, H.
Qed.

(** "ñ": UTF-8 C3 B1 is read as the two WinAnsi characters Ã ± — by the library and by the ISO reader *)
Lemma raw_utf8_refuted : exists s, valid_text s = true /\
  lib_read (emit_whole_raw s) = Some [195; 177] /\ iso_read (emit_whole_raw s) = Some [195; 177] /\
  lib_read (emit_incr_raw s) = Some [195; 177] /\ s = [241].
Proof. exists [241]. vm_compute. repeat split; reflexivity. Qed.

(** a raw CR inside a literal string: the library keeps it, an ISO reader sees LF *)
Lemma raw_cr_refuted : exists s, forallb (fun c => c <? 128) s = true /\
  lib_read (emit_whole_raw s) = Some s /\ iso_read (emit_whole_raw s) = Some [97; 10; 98] /\ s = [97; 13; 98].
Proof. exists [97; 13; 98]. vm_compute. repeat split; reflexivity. Qed.

(** U+0018: PDFDocEncoding has BREVE at code 0x18 *)
Lemma raw_ctrl_refuted : exists s, forallb (fun c => c <? 128) s = true /\
  iso_read (emit_whole_raw s) = Some [728] /\ s = [24].
Proof. exists [24]. vm_compute. repeat split; reflexivity. Qed.

(** the transport decoder inverts UTF-8 on a sample of every length class *)
Example of_utf8_sample : of_utf8 (utf8s sample) = sample.
Proof. vm_compute. reflexivity. Qed.
