(** C10 — text given through the API reads back unchanged.
    Executable model of (a) how the library turns a Rust [String] into the bytes of a PDF text
    string object at every text-bearing entry point and (b) how the library reads such an object
    back as text.  Nothing in this file depends on a proof.

    Anchors (oxidize-pdf-core/src):
    - objects/primitive.rs  [Object::text_string], [text_string_is_plain], [text_string_utf16be]
      (used by writer/pdf_writer/mod.rs write_info x6, structure/outline.rs outline_item_to_dict,
      annotations/annotation.rs + popup.rs /Contents, forms/field_type.rs + working_field.rs +
      document.rs fill_field /V)
    - writer/pdf_writer/mod.rs [write_object_value]: Object::String -> literal string with
      [escape_pdf_string_bytes] (C09.Model.esc_str), Object::ByteString -> upper-case hex string
    - writer/incremental_form_fill.rs [fill_many_impl]: /V = PdfString(plain ? utf8 : BOM+utf16be),
      written by incremental_update.rs [write_string] (always a hex string)
    - parser/lexer.rs string tokens (C09.Model.lex1) and parser/objects.rs [decode_text_string]
      (BOM FE FF -> chunks_exact(2) + String::from_utf16_lossy; else winansi_decode_char per byte,
      table generated from text/encoding.rs into OxGen.Encodings.win_dec_char). *)
From OxVerif Require Import Base.Util C09.Model C25.Model C10.Spec.
From OxGen Require Import Encodings.

(** text = list of Unicode scalar values (what a Rust [String] is) *)
Definition text := list N.

Definition is_scalar (c : N) : bool := (c <? 55296) || ((57344 <=? c) && (c <? 1114112)).
Definition valid_text (s : text) : bool := forallb is_scalar s.

(** [str::as_bytes]: UTF-8 (C25.Model.utf8 is one scalar value) *)
Definition utf8s (s : text) : bytes := flat_map utf8 s.

(** [str::encode_utf16] and [u16::to_be_bytes] *)
Definition utf16 (c : N) : list N :=
  if c <? 65536 then [c]
  else [55296 + (c - 65536) / 1024; 56320 + (c - 65536) mod 1024].
Definition be (u : N) : bytes := [u / 256; u mod 256].
Definition units_of (s : text) : list N := flat_map utf16 s.
Definition utf16be (s : text) : bytes := flat_map be (units_of s).

(** [Object::text_string_is_plain]: every BYTE of the UTF-8 form is TAB, LF or printable ASCII *)
Definition plain_byte (b : N) : bool := (b =? 9) || (b =? 10) || ((32 <=? b) && (b <=? 126)).
Definition is_plain (s : text) : bool := forallb plain_byte (utf8s s).

Definition bom : bytes := [254; 255].

(** the byte content of the string object *)
Definition payload (s : text) : bytes :=
  if is_plain s then utf8s s else bom ++ utf16be s.

(** whole-document writer: [Object::text_string] then [write_object_value] *)
Definition emit_whole (s : text) : bytes :=
  if is_plain s then 40 :: esc_str (utf8s s) ++ [41]
  else 60 :: ser_hex (bom ++ utf16be s) ++ [62].

(** incremental form fill: [PdfString(payload)] through [write_string] (always hex) *)
Definition emit_incr (s : text) : bytes := 60 :: ser_hex (payload s) ++ [62].

(** the filler refuses (EncodingError) a /Tx value that WinAnsiEncoding cannot carry
    ([TextEncoding::WinAnsiEncoding.encode_strict] in build_text_ap) — an accepted outcome *)
Definition winansi_ok (s : text) : bool :=
  forallb (fun c => match enc_table win_enc_strict win_enc_strict_default c with Some _ => true | None => false end) s.

(** * Reading: [decode_text_string] *)
Definition is_high (u : N) : bool := (55296 <=? u) && (u <=? 56319).
Definition is_low (u : N) : bool := (56320 <=? u) && (u <=? 57343).

(** [chunks_exact(2)] + [u16::from_be_bytes]: a trailing odd byte is dropped *)
Fixpoint units (b : bytes) : list N :=
  match b with
  | h :: l :: r => (h * 256 + l) :: units r
  | _ => []
  end.

(** [String::from_utf16_lossy]: an unpaired surrogate becomes U+FFFD; the unit after an unpaired
    high surrogate is looked at again *)
Fixpoint utf16_lossy (u : list N) : text :=
  match u with
  | [] => []
  | a :: r =>
      if is_high a then
        match r with
        | b :: r' => if is_low b then (65536 + (a - 55296) * 1024 + (b - 56320)) :: utf16_lossy r'
                     else 65533 :: utf16_lossy r
        | [] => [65533]
        end
      else if is_low a then 65533 :: utf16_lossy r
      else a :: utf16_lossy r
  end.

Definition winansi_char (b : N) : N := dec_table win_dec_char win_dec_char_default b.

(** [bytes.len() >= 2 && bytes[0] == 0xFE && bytes[1] == 0xFF] *)
Definition decode_text (b : bytes) : text :=
  match b with
  | x :: y :: r => if (x =? 254) && (y =? 255) then utf16_lossy (units r)
                   else List.map winansi_char b
  | _ => List.map winansi_char b
  end.

(** the library as a reader of the written object: lexer token, then [PdfString::to_text] *)
Definition lib_read (bs : bytes) : option text :=
  match lex1 bs with
  | (TStr p, _) => Some (decode_text p)
  | _ => None
  end.

(** * The behaviour before the repair (kept for the refutation lemmas): every string was the
    UTF-8 bytes of the text in a literal string / in the filler's hex string *)
Definition emit_whole_raw (s : text) : bytes := 40 :: esc_str (utf8s s) ++ [41].
Definition emit_incr_raw (s : text) : bytes := 60 :: ser_hex (utf8s s) ++ [62].

(** * Helpers for the correspondence *)
Definition text_eqb (a b : text) : bool := list_eqb N.eqb a b.
Definition otext_eqb (a b : option text) : bool := option_eqb text_eqb a b.

(** UTF-8 decoding of the case transport (strings travel as hex of their UTF-8 bytes); total,
    malformed input yields U+FFFD — only ever applied to bytes produced by Rust's [str]. *)
Fixpoint unutf8 (fuel : nat) (b : bytes) : text :=
  match fuel with
  | O => []
  | S f =>
      match b with
      | [] => []
      | a :: r =>
          if a <? 128 then a :: unutf8 f r
          else if a <? 224 then
            match r with
            | b1 :: r1 => ((a - 192) * 64 + (b1 - 128)) :: unutf8 f r1
            | _ => [65533]
            end
          else if a <? 240 then
            match r with
            | b1 :: b2 :: r2 => ((a - 224) * 4096 + (b1 - 128) * 64 + (b2 - 128)) :: unutf8 f r2
            | _ => [65533]
            end
          else
            match r with
            | b1 :: b2 :: b3 :: r3 =>
                ((a - 240) * 262144 + (b1 - 128) * 4096 + (b2 - 128) * 64 + (b3 - 128)) :: unutf8 f r3
            | _ => [65533]
            end
      end
  end.
Definition of_utf8 (b : bytes) : text := unutf8 (S (length b)) b.

(** * Correspondence case.
    [kind]: 0 = whole-document writer (Info x6, outline /Title, annotation /Contents, field /V),
    1 = IncrementalFormFiller on a field that is not /Tx, 2 = on a /Tx field, 3 = Document::fill_field
    then the whole-document writer (2 and 3 refuse text WinAnsiEncoding cannot carry: they build
    the /AP appearance with a built-in font).  [u8] = UTF-8 bytes of the text given to the API.  [written] = the bytes
    of the string object found in the written file ([None] = the call returned an error).
    [readback] = UTF-8 of what the library's own reader returned for that entry.
    Code bits: 1 = written bytes differ from the model (or the transport is broken),
    2 = the library does not read the text back, 4 = the ISO reader does not read the text back. *)
Definition obytes_eqb (a b : option bytes) : bool := option_eqb bytes_eqb a b.

Definition expected (kind : N) (s : text) : option bytes :=
  if kind =? 0 then Some (emit_whole s)
  else if kind =? 1 then Some (emit_incr s)
  else if negb (winansi_ok s) then None
  else if kind =? 2 then Some (emit_incr s) else Some (emit_whole s).

Definition c10_case := (N * bytes * option bytes * option bytes)%type.

Definition case_code (c : c10_case) : N :=
  let '(kind, u8, written, readback) := c in
  let s := of_utf8 u8 in
  let model_ok := bytes_eqb (utf8s s) u8 && valid_text s && obytes_eqb written (expected kind s) in
  match written with
  | None => if model_ok then 0 else 1
  | Some w =>
      let lib_ok := otext_eqb (option_map of_utf8 readback) (Some s) in
      let iso_ok := otext_eqb (iso_read w) (Some s) in
      (if model_ok then 0 else 1) + (if lib_ok then 0 else 2) + (if iso_ok then 0 else 4)
  end.

(** * Reader channel: a byte string given to [PdfString::to_text].
    Bit 1: the implementation differs from [decode_text].  Bit 2: the ISO reading is defined,
    the payload is one on which WinAnsi and PDFDocEncoding agree byte for byte (or it carries the
    byte order mark; the disagreeing cells are C25's business), and the library reads something else. *)
Definition same_cell (b : N) : bool := option_eqb N.eqb (pdfdoc_char b) (Some (winansi_char b)).
Definition has_bom (p : bytes) : bool :=
  match p with x :: y :: _ => (x =? 254) && (y =? 255) | _ => false end.
Definition agree (p : bytes) : bool := has_bom p || forallb same_cell p.

Definition dec_code (c : bytes * option bytes) : N :=
  let '(p, r) := c in
  let impl := option_map of_utf8 r in
  let model_ok := otext_eqb impl (Some (decode_text p)) in
  let prop_ok := match spec_decode p with
                 | Some t => if agree p then otext_eqb impl (Some t) else true
                 | None => true
                 end in
  code_of model_ok prop_ok.
