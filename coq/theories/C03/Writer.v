(** C03 — code-shaped model of the emission bookkeeping of writer/pdf_writer/mod.rs
    (classic cross-reference table; no object streams, no encryption):

      write_bytes        out := out ++ data ; current_position += data.len()
      write_header       "%PDF-" ver "\n"  then  '%' E2 E3 CF D3 '\n'
      write_object id o  xref_positions.insert(id, current_position);
                         "id 0 obj\n"  <value>  "\nendobj\n"
      write_xref         "xref\n" "0 " (max+1) "\n" "0000000000 65535 f \n"
                         then for n in 1..=max  format!("{:010} {:05} n \n", pos, 0)  or the free line
      write_trailer      "trailer\n" <</Info /Root /Size>> (keys sorted) "\nstartxref\n" pos "\n%%EOF\n"

    The serialised VALUE of an object is opaque here (a byte string: the C09 package models
    the serialiser); what is modelled is where it lands and what the table says about it. *)
From OxVerif Require Import Base.Util C03.Checker.

Record wstate := { out : bytes; pos : N; xref : list (N * N) }.   (* xref: newest insert first *)

Definition w_init : wstate := {| out := []; pos := 0; xref := [] |}.

(** [write_bytes] *)
Definition wbytes (s : wstate) (d : bytes) : wstate :=
  {| out := out s ++ d; pos := pos s + len d; xref := xref s |}.

Definition hdr_bytes (ver : bytes) : bytes := S_ "%PDF-" ++ ver ++ [10].
Definition bin_comment : bytes := [37; 226; 227; 207; 211; 10].
Definition obj_hdr (id : N) : bytes := dec id ++ S_ " 0 obj" ++ [10].
Definition obj_end : bytes := 10 :: S_ "endobj" ++ [10].

Inductive step :=
| WHeader (ver : bytes)
| WObject (id : N) (body : bytes).

Definition do_step (s : wstate) (st : step) : wstate :=
  match st with
  | WHeader ver => wbytes (wbytes s (hdr_bytes ver)) bin_comment
  | WObject id body =>
      let s1 := {| out := out s; pos := pos s; xref := (id, pos s) :: xref s |} in
      wbytes (wbytes (wbytes s1 (obj_hdr id)) body) obj_end
  end.

Definition run (s : wstate) (l : list step) : wstate := fold_left do_step l s.

(** HashMap lookup: the newest insert for the key *)
Fixpoint xlookup (id : N) (x : list (N * N)) : option N :=
  match x with
  | [] => None
  | (i, p) :: r => if i =? id then Some p else xlookup id r
  end.

Fixpoint xmax (x : list (N * N)) : N :=
  match x with [] => 0 | (i, _) :: r => N.max i (xmax r) end.

(** [{:010}]: zero-padded to at least ten characters *)
Definition pad_to (k : nat) (d : bytes) : bytes := repeat 48 (k - length d) ++ d.
Definition fmt_in_use (p : N) : bytes := pad_to 10 (dec p) ++ S_ " 00000 n " ++ [10].
Definition free_gap : bytes := S_ "0000000000 00000 f " ++ [10].
Definition free_head : bytes := S_ "0000000000 65535 f " ++ [10].

Definition entry_line (x : list (N * N)) (n : N) : bytes :=
  match xlookup n x with Some p => fmt_in_use p | None => free_gap end.

(** the numbers 1..=max in order *)
Definition upto (m : N) : list N := List.map (fun k => N.of_nat (S k)) (seq 0 (N.to_nat m)).

Definition xref_bytes (x : list (N * N)) : bytes :=
  S_ "xref" ++ [10] ++ S_ "0 " ++ dec (xmax x + 1) ++ [10] ++ free_head
  ++ concat (List.map (entry_line x) (upto (xmax x))).

Definition trailer_bytes (x : list (N * N)) (root info xpos : N) : bytes :=
  S_ "trailer" ++ [10] ++ S_ "<<" ++ [10]
  ++ S_ "/Info " ++ dec info ++ S_ " 0 R" ++ [10]
  ++ S_ "/Root " ++ dec root ++ S_ " 0 R" ++ [10]
  ++ S_ "/Size " ++ dec (xmax x + 1) ++ [10] ++ S_ ">>"
  ++ [10] ++ S_ "startxref" ++ [10] ++ dec xpos ++ [10] ++ S_ "%%EOF" ++ [10].

(** [write_document] after the objects: xref_position := current_position; write_xref; write_trailer *)
Definition finish (s : wstate) (root info : N) : wstate :=
  let xpos := pos s in
  wbytes (wbytes s (xref_bytes (xref s))) (trailer_bytes (xref s) root info xpos).

Definition emit (ver : bytes) (objs : list (N * bytes)) (root info : N) : bytes :=
  out (finish (run w_init (WHeader ver :: List.map (fun o => WObject (fst o) (snd o)) objs)) root info).

(** ** a mutant used by the tests of the check itself: forgets to count the separator *)
Definition do_step_bad (s : wstate) (st : step) : wstate :=
  match st with
  | WHeader ver => wbytes (wbytes s (hdr_bytes ver)) bin_comment
  | WObject id body =>
      let s1 := {| out := out s; pos := pos s; xref := (id, pos s) :: xref s |} in
      let s2 := wbytes (wbytes s1 (obj_hdr id)) body in
      {| out := out s2 ++ obj_end; pos := pos s2 + len obj_end - 1; xref := xref s2 |}
  end.
