(** C03 — the full statement: the emission model's output satisfies [ValidPdf], for ALL
    object lists, under the hypotheses on the opaque bodies named in FullObjects.v.

      Theorem writer_output_valid : forall ver objs root info,
        VerOk ver ->
        (forall id body, In (id, body) objs -> BodyOk (RefOk (map fst objs)) body) ->
        RefOk (map fst objs) (root, 0) -> RefOk (map fst objs) (info, 0) ->
        len (emit ver objs root info) < 10^10 ->
        ValidPdf (emit ver objs root info).

    Hypotheses, precisely:
      [VerOk ver]      the version string is  digit '.' digit ...  (the writer passes "1.4".."1.7")
      [BodyOk P body]  (FullObjects.v) the serialised value reads back with the checker's value
                       reader up to the "\nendobj\n" the writer appends, whatever follows; a
                       stream is dictionary "\nstream\n" data "\nendstream" with the direct
                       /Length = |data|; every reference inside satisfies P
      [RefOk ids r]    r = (n, 0) with n >= 1 one of the written ids (also asked of /Root, /Info)
      file < 10^10 bytes   ([{:010}] would print an 11-digit offset otherwise)
    Everything the writer itself emits (header line, "id 0 obj\n", "\nendobj\n", the table, the
    trailer dictionary, startxref, %%EOF) is read back by proof, not by hypothesis. *)
From OxVerif Require Import Base.Util C03.Checker C03.Writer C03.Sound C03.WriterProofs
  C03.FullTable C03.FullObjects.
Require Import Lia.

Definition RefOk (ids : list N) (r : N * N) : Prop := snd r = 0 /\ 1 <= fst r /\ In (fst r) ids.

Definition VerOk (ver : bytes) : Prop :=
  exists ma mi r, ver = ma :: 46 :: mi :: r /\ is_digit ma = true /\ is_digit mi = true.

(** putting the per-object facts together: one list of references for the whole file *)
Lemma collect_exists : forall (R : entry -> list (N * N) -> Prop) (Ok : N * N -> Prop) (t : list entry),
  (forall e, In e t -> exists bs, R e bs /\ (forall r, In r bs -> Ok r)) ->
  exists all, (forall e, In e t -> exists bs, R e bs /\ incl bs all) /\ (forall r, In r all -> Ok r).
Proof.
  induction t as [|a t IH]; intro H.
  - exists []. split; [intros e []|intros r []].
  - destruct IH as [all [H1 H2]]. { intros e He. apply H. right. exact He. }
    destruct (H a (or_introl eq_refl)) as [bs [Hr Hok]].
    exists (bs ++ all). split.
    + intros e [<-|He].
      * exists bs. split; [exact Hr|apply incl_appl, incl_refl].
      * destruct (H1 e He) as [bs' [Hr' Hi]]. exists bs'. split; [exact Hr'|apply incl_appr; exact Hi].
    + intros r Hi. apply in_app_or in Hi. destruct Hi as [Hi|Hi]; [apply Hok|apply H2]; exact Hi.
Qed.

Lemma final_bytes : forall steps root info,
  final steps root info =
  out (run w_init steps) ++ xref_bytes (xref (run w_init steps))
    ++ trailer_bytes (xref (run w_init steps)) root info (pos (run w_init steps)).
Proof. intros. unfold final, finish, wbytes. cbn [out]. rewrite <- app_assoc. reflexivity. Qed.

(** clause 3 (with [StartxrefSays] of the partial theorem): the table is inside the file and
    what follows the offset named by startxref is the table then the trailer *)
Theorem writer_tail : forall steps root info,
  let s := run w_init steps in
  let b := final steps root info in
  StartxrefSays b (pos s) /\ pos s < len b /\
  drop (pos s) b = xref_bytes (xref s) ++ trailer_bytes (xref s) root info (pos s).
Proof.
  intros steps root info s b.
  destruct (writer_output_valid_partial steps root info) as [Hs [Ha _]]. fold s b in Hs, Ha.
  split; [exact Hs|]. split.
  - destruct Ha as [pre [E L]]. unfold b in *. rewrite E, <- L, len_app.
    unfold xref_bytes. rewrite <- app_assoc, len_app. change (len (S_ "xref")) with 4. lia.
  - apply drop_at_off. exact Ha.
Qed.

Section Main.
Variables (ver : bytes) (steps : list step) (root info : N).
Let all := WHeader ver :: steps.
Let ids := flat_map step_id steps.
Let s := run w_init all.
Let x := xref s.
Let b := final all root info.

Hypothesis Hver : VerOk ver.
Hypothesis Hbodies : forall st, In st steps -> step_ok (BodyOk (RefOk ids)) st.
Hypothesis Hroot : RefOk ids (root, 0).
Hypothesis Hinfo : RefOk ids (info, 0).
Hypothesis Hsize : len b < ten10.

Lemma main_inv : Inv1 s /\ Inv3 (BodyOk (RefOk ids)) s.
Proof.
  apply run_inv3; [|reflexivity|apply init_inv3].
  intros st [<-|Hi]; [exact I|apply Hbodies; exact Hi].
Qed.

Lemma main_fit : OffsetsFit x.
Proof.
  intros n p Hl. apply xlookup_in in Hl. destruct main_inv as [H1 H3].
  destruct (H3 n p Hl) as [body [rest [_ Ha]]]. apply at_off_le in Ha.
  unfold b in Hsize. rewrite final_bytes in Hsize. fold s in Hsize. rewrite len_app in Hsize. lia.
Qed.

Lemma main_header : HeaderOk b.
Proof.
  destruct Hver as [ma [mi [r [E [Ha Hi]]]]].
  unfold b. rewrite final_bytes. unfold all. cbn [run fold_left].
  destruct (run_prefix steps (do_step w_init (WHeader ver))) as [suf Es].
  unfold run in Es. rewrite Es. cbn [do_step wbytes out w_init app]. unfold hdr_bytes. rewrite E.
  exists ma, mi. eexists. split; [|split; assumption].
  repeat rewrite <- app_assoc. cbn [app]. reflexivity.
Qed.

Lemma main_refok : forall r, RefOk ids r -> Resolves (table_of x) r.
Proof.
  intros [n g] [Hg [Hn Hi]]. cbn [fst snd] in *. subst g.
  assert (Hk : In n (List.map fst x)).
  { unfold x, s, all. apply run_keys. right. cbn [flat_map step_id app]. exact Hi. }
  destruct (xlookup_key _ _ Hk) as [p Hp]. eapply table_resolves; [exact Hn|exact Hp].
Qed.

(** clauses 6 and 7 at every in-use line: the object there has the writer's header, a body the
    reader accepts (stream /Length exact), endobj; its references are written ids *)
Lemma main_object : forall e, In e (table_of x) -> e_used e = true ->
  exists r refs_e, obj_header (drop (e_off e) b) (e_num e) (e_gen e) = Some r /\
                   read_body r = Some refs_e /\ forall q, In q refs_e -> RefOk ids q.
Proof.
  intros e He Hu. destruct (table_in_use x e He Hu) as [Hn [Hg Hl]].
  apply xlookup_in in Hl. destruct main_inv as [H1 H3].
  destruct (H3 _ _ Hl) as [body [rest [Hq Ha]]].
  assert (Hb : at_off b (e_off e)
            (obj_hdr (e_num e) ++ body ++ obj_end ++ rest ++ xref_bytes x
               ++ trailer_bytes x root info (pos s))).
  { unfold b. rewrite final_bytes. fold s. fold x.
    replace (obj_hdr (e_num e) ++ body ++ obj_end ++ rest ++ xref_bytes x ++ trailer_bytes x root info (pos s))
      with ((obj_hdr (e_num e) ++ body ++ obj_end ++ rest) ++ xref_bytes x ++ trailer_bytes x root info (pos s))
      by (repeat rewrite <- app_assoc; reflexivity).
    apply at_off_app. exact Ha. }
  rewrite (drop_at_off _ _ _ Hb), Hg, obj_header_emitted.
  destruct (read_body_emitted (RefOk ids) body
              (rest ++ xref_bytes x ++ trailer_bytes x root info (pos s)) Hq) as [refs_e [Hr Hok]].
  exists (10 :: body ++ obj_end ++ rest ++ xref_bytes x ++ trailer_bytes x root info (pos s)), refs_e.
  split; [reflexivity|]. split; assumption.
Qed.

Theorem final_valid : ValidPdf b.
Proof.
  destruct (writer_tail all root info) as [Hs [Hlt Hd]]. fold s b x in Hs, Hlt, Hd.
  destruct (writer_output_valid_partial all root info) as [_ [_ Hh]]. fold s b x in Hh.
  rewrite trailer_bytes_shape in Hd.
  destruct (collect_exists
    (fun e bs => e_used e = true ->
       exists r, obj_header (drop (e_off e) b) (e_num e) (e_gen e) = Some r /\ read_body r = Some bs)
    (RefOk ids) (table_of x)) as [refs [Hc Hok]].
  { intros e He. destruct (e_used e) eqn:Hu.
    - destruct (main_object e He Hu) as [r [refs_e [Ho [Hr Hq]]]].
      exists refs_e. split; [intros _; exists r; split; assumption|exact Hq].
    - exists []. split; [intro; discriminate|intros r []]. }
  exists (pos s), (table_of x), (trailer_after root info (xmax x + 1) (pos s)),
         (trailer_dict root info (xmax x + 1)), (trailer_tail (pos s)),
         (Z.of_N (xmax x + 1)), root, 0, refs.
  destruct (trailer_dict_shape root info (xmax x + 1)) as [D1 [D2 [_ D4]]].
  split; [exact main_header|]. split; [exact Hs|]. split; [exact Hlt|].
  split. { rewrite Hd. apply read_xref_emitted; [exact main_fit|reflexivity]. }
  split; [apply parse_trailer_emitted|].
  split; [exact D1|]. split; [exact D2|]. split; [exact D4|].
  split. { rewrite table_max_num. reflexivity. }
  split; [apply table_unique|].
  split.
  { intros e He Hu. destruct (table_in_use x e He Hu) as [_ [Hg Hl]]. rewrite Hg. apply Hh. exact Hl. }
  split.
  { intros e He Hu. destruct (Hc e He) as [bs [Hr Hi]]. destruct (Hr Hu) as [r [Ho Hb]].
    exists r, bs. repeat split; assumption. }
  intros r Hi. apply main_refok. apply in_app_or in Hi. destruct Hi as [Hi|Hi].
  - apply trailer_dict_refs in Hi. destruct Hi as [->| ->]; assumption.
  - apply Hok. exact Hi.
Qed.
End Main.

(** * the full statement for [emit] *)
Theorem writer_output_valid : forall ver objs root info,
  VerOk ver ->
  (forall id body, In (id, body) objs -> BodyOk (RefOk (List.map fst objs)) body) ->
  RefOk (List.map fst objs) (root, 0) -> RefOk (List.map fst objs) (info, 0) ->
  len (emit ver objs root info) < ten10 ->
  ValidPdf (emit ver objs root info).
Proof.
  intros ver objs root info Hv Hb Hr Hi Hs.
  assert (E : flat_map step_id (List.map (fun o => WObject (fst o) (snd o)) objs) = List.map fst objs).
  { clear. induction objs as [|o objs IH]; [reflexivity|]. cbn [List.map flat_map step_id app]. rewrite IH. reflexivity. }
  change (emit ver objs root info)
    with (final (WHeader ver :: List.map (fun o => WObject (fst o) (snd o)) objs) root info) in *.
  apply final_valid; try rewrite E; try assumption.
  intros st Hst. apply in_map_iff in Hst. destruct Hst as [[id body] [<- Ho]]. cbn [step_ok fst snd].
  eapply Hb. exact Ho.
Qed.

(** * non-vacuity: the hypotheses hold for the demo object list (dictionary with references,
    strings, a stream) — so the theorem, not the evaluation, yields its validity *)
Ltac plain_body o :=
  apply (BodyPlain _ _ o);
  [ intro rest; vm_compute; reflexivity
  | intros fuel r Hi; destruct fuel as [|[|[|fuel]]]; cbn in Hi;
    repeat (destruct Hi as [<-|Hi]; [unfold RefOk; cbn; repeat split; try lia; tauto|]); contradiction ].

Example demo_hyps :
  VerOk (S_ "1.7") /\
  (forall id body, In (id, body) demo_objs -> BodyOk (RefOk (List.map fst demo_objs)) body) /\
  RefOk (List.map fst demo_objs) (1, 0) /\ RefOk (List.map fst demo_objs) (3, 0) /\
  len (emit (S_ "1.7") demo_objs 1 3) < ten10.
Proof.
  split. { exists 49, 55, []. repeat split. }
  split.
  { intros id body [E|[E|[E|[E|[]]]]]; injection E as <- <-.
    - plain_body (ODict [(S_ "Type", OName (S_ "Pages")); (S_ "Kids", OArr []); (S_ "Count", OInt 0)]).
    - plain_body (ODict [(S_ "Type", OName (S_ "Catalog")); (S_ "Pages", ORef 2 0)]).
    - plain_body (ODict [(S_ "Title", OStr); (S_ "X", OStr); (S_ "Len", OInt 5)]).
    - apply (BodyStream _ (S_ "<< /Length 3 >>") [(S_ "Length", OInt 3)] (S_ "abc")).
      + intro rest. vm_compute. reflexivity.
      + reflexivity.
      + intros fuel r Hi. destruct fuel as [|[|fuel]]; cbn in Hi; contradiction. }
  split. { unfold RefOk. cbn. repeat split; try lia; tauto. }
  split. { unfold RefOk. cbn. repeat split; try lia; tauto. }
  vm_compute. reflexivity.
Qed.

Example demo_valid_by_theorem : ValidPdf (emit (S_ "1.7") demo_objs 1 3).
Proof.
  destruct demo_hyps as [H1 [H2 [H3 [H4 H5]]]]. apply writer_output_valid; assumption.
Qed.

(** * the clauses, one theorem each (consumed above; restated for Props/C03.v) *)

(** clause 1: the trailer the writer emits is the keyword, then a dictionary that reads back
    with /Size = highest number of the table + 1, /Root a reference, no /Prev *)
Theorem writer_trailer_size : forall x root info xpos,
  let after := trailer_after root info (xmax x + 1) xpos in
  let d := trailer_dict root info (xmax x + 1) in
  trailer_bytes x root info xpos = S_ "trailer" ++ after /\
  parse_obj (S (length after)) after = Some (ODict d, trailer_tail xpos) /\
  dict_get (S_ "Size") d = Some (OInt (Z.of_N (max_num (table_of x) + 1))) /\
  dict_get (S_ "Root") d = Some (ORef root 0) /\
  dict_get (S_ "Prev") d = None.
Proof.
  intros x root info xpos after d.
  split; [apply trailer_bytes_shape|]. split; [apply parse_trailer_emitted|].
  rewrite table_max_num. repeat split.
Qed.

Lemma entry_line_length : forall x n, OffsetsFit x -> length (entry_line x n) = 20%nat.
Proof.
  intros x n H. unfold entry_line. destruct (xlookup n x) as [p|] eqn:E; [|reflexivity].
  pose proof (dec_length_10 p (H n p E)) as L.
  unfold fmt_in_use, pad_to. rewrite !app_length, repeat_length. cbn [length S_ bytes_of_string]. lia.
Qed.

(** clause 2: one subsection "0 max+1"; it reads back as the table whose numbers are
    0,1,..,max in file order, first the free head (generation 65535); every line is 20 bytes *)
Theorem writer_xref_layout : forall x tail, OffsetsFit x -> boundary tail = true ->
  read_xref (xref_bytes x ++ S_ "trailer" ++ tail) = Some (table_of x, tail) /\
  List.map e_num (rev (table_of x)) = 0 :: upto (xmax x) /\
  (exists t, rev (table_of x) = head_entry :: t) /\
  length free_head = 20%nat /\ (forall n, length (entry_line x n) = 20%nat).
Proof.
  intros x tail Hx Hb. split; [apply read_xref_emitted; assumption|].
  split; [apply table_nums|]. split; [apply table_head|]. split; [reflexivity|].
  intro n. apply entry_line_length. exact Hx.
Qed.

(** clause 5: a reference [id 0 R] to any id >= 1 written by the step sequence resolves *)
Theorem writer_refs_resolve : forall steps id,
  In id (flat_map step_id steps) -> 1 <= id ->
  Resolves (table_of (xref (run w_init steps))) (id, 0).
Proof.
  intros steps id Hi H1.
  assert (Hk : In id (List.map fst (xref (run w_init steps)))) by (apply run_keys; right; exact Hi).
  destruct (xlookup_key _ _ Hk) as [p Hp]. eapply table_resolves; [exact H1|exact Hp].
Qed.

(** clause 7: the writer's own object framing reads back *)
Theorem writer_object_framing : forall id v o rest,
  parse_obj (S (length (10 :: v ++ obj_end ++ rest))) (10 :: v ++ obj_end ++ rest)
    = Some (o, obj_end ++ rest) ->
  obj_header (obj_hdr id ++ v ++ obj_end ++ rest) id 0 = Some (10 :: v ++ obj_end ++ rest) /\
  read_body (10 :: v ++ obj_end ++ rest) = Some (refs_of (S (length (10 :: v ++ obj_end ++ rest))) o).
Proof. intros. split; [apply obj_header_emitted|apply read_body_plain; assumption]. Qed.

(** hypotheses of the clause theorems are satisfiable *)
Example layout_hyps : OffsetsFit [(2, 77); (1, 15)] /\ boundary (trailer_after 1 2 3 99) = true.
Proof.
  split; [|reflexivity]. intros n p H. cbn [xlookup] in H.
  destruct (2 =? n); [injection H as <-; reflexivity|].
  destruct (1 =? n); [injection H as <-; reflexivity|discriminate].
Qed.

Example stream_hyps : forall rest,
  parse_obj (S (length (10 :: S_ "<< /Length 3 >>" ++ stream_open ++ S_ "abc" ++ stream_close ++ obj_end ++ rest)))
            (10 :: S_ "<< /Length 3 >>" ++ stream_open ++ S_ "abc" ++ stream_close ++ obj_end ++ rest)
    = Some (ODict [(S_ "Length", OInt 3)], stream_open ++ S_ "abc" ++ stream_close ++ obj_end ++ rest)
  /\ dict_get (S_ "Length") [(S_ "Length", OInt 3)] = Some (OInt (Z.of_N (len (S_ "abc")))).
Proof. intro rest. split; [vm_compute; reflexivity|reflexivity]. Qed.

Example framing_hyps : forall rest,
  parse_obj (S (length (10 :: S_ "[1 0 R (a\)b) /N#41 -2.5]" ++ obj_end ++ rest)))
            (10 :: S_ "[1 0 R (a\)b) /N#41 -2.5]" ++ obj_end ++ rest)
    = Some (OArr [ORef 1 0; OStr; OName (S_ "NA"); OReal], obj_end ++ rest).
Proof. intro rest. vm_compute. reflexivity. Qed.
