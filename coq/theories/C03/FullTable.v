(** C03 — the checker's readers run on what the emission model writes AFTER the objects:
    the cross-reference table ([xref_bytes]) and the trailer ([trailer_bytes]), for ALL maps.

      [read_xref_emitted]     the table reads back as [table_of x] (clause 2: one subsection
                              "0 max+1", the free head entry, one 20-byte line per number)
      [table_nums]            the numbers are 0,1,..,max in order (contiguous from 0)
      [table_max_num]         highest number = xmax            (clause 1, with the trailer)
      [table_unique]          one entry per number              (clause 4)
      [table_in_use]          the in-use lines are exactly the map's entries, generation 0
      [table_resolves]        a reference to a written id (>= 1) resolves (clause 5)
      [parse_trailer_emitted] the trailer dictionary reads back as Info/Root/Size (clause 1)

    Only hypothesis: every recorded offset is below 10^10 ([OffsetsFit]; [{:010}] prints
    more than ten digits otherwise and the line is no longer 20 bytes). *)
From OxVerif Require Import Base.Util C03.Checker C03.Writer C03.Sound C03.WriterProofs.
From OxVerif Require C09.Model C09.Tokens.
Require Import Lia.
From Coq Require FinFun.

(** * generic reader facts *)
Lemma strip_app : forall p r, strip p (p ++ r) = Some r.
Proof.
  induction p as [|a p IH]; intro r; cbn [strip app]; [reflexivity|].
  rewrite N.eqb_refl. apply IH.
Qed.

Lemma read_kw_app : forall kw r, boundary r = true -> read_kw kw (kw ++ r) = Some r.
Proof. intros kw r H. unfold read_kw. rewrite strip_app, H. reflexivity. Qed.

Lemma span_app_stop : forall f a c r, forallb f a = true -> f c = false ->
  span f (a ++ c :: r) = (a, c :: r).
Proof.
  induction a as [|x a IH]; intros c r Ha Hc; cbn [app span].
  - rewrite Hc. reflexivity.
  - cbn [forallb] in Ha. apply andb_true_iff in Ha. destruct Ha as [Hx Ha].
    rewrite Hx, (IH c r Ha Hc). reflexivity.
Qed.

Lemma dec_cons : forall n, exists d ds, dec n = d :: ds /\ is_digit d = true /\ forallb is_digit ds = true.
Proof.
  intro n. pose proof (C09.Tokens.dec_nonempty n) as Hn. pose proof (C09.Tokens.dec_digits n) as Hd.
  unfold dec, is_digit. destruct (C09.Model.dec n) as [|d ds]; [contradiction|].
  cbn [forallb] in Hd. apply andb_true_iff in Hd. destruct Hd as [H1 H2].
  exists d, ds. repeat split; assumption.
Qed.

Lemma dec_val' : forall n, dval 0 (dec n) = n.
Proof. exact C09.Tokens.dec_val. Qed.
Lemma dec_digits' : forall n, forallb is_digit (dec n) = true.
Proof. exact C09.Tokens.dec_digits. Qed.

Lemma read_uint_digits : forall ds c r, ds <> [] -> forallb is_digit ds = true -> is_digit c = false ->
  read_uint (ds ++ c :: r) = Some (dval 0 ds, c :: r).
Proof.
  intros ds c r Hn Hd Hc. unfold read_uint. rewrite (span_app_stop _ _ _ _ Hd Hc).
  destruct ds; [contradiction|reflexivity].
Qed.

Lemma read_uint_dec : forall n c r, is_digit c = false ->
  read_uint (dec n ++ c :: r) = Some (n, c :: r).
Proof.
  intros n c r Hc. rewrite read_uint_digits.
  - rewrite dec_val'. reflexivity.
  - apply C09.Tokens.dec_nonempty.
  - apply dec_digits'.
  - exact Hc.
Qed.

(** * [{:010}] read back by [read_fixed 10] *)
Lemma read_fixed_digits : forall ds r acc, forallb is_digit ds = true ->
  read_fixed (length ds) (ds ++ r) acc = Some (dval acc ds, r).
Proof.
  induction ds as [|d ds IH]; intros r acc H; cbn [length read_fixed app].
  - reflexivity.
  - cbn [forallb] in H. apply andb_true_iff in H. destruct H as [Hd Hs].
    rewrite Hd. rewrite (IH r _ Hs). reflexivity.
Qed.

Lemma dval_zeros : forall k, dval 0 (repeat 48 k) = 0.
Proof. induction k as [|k IH]; [reflexivity|]. cbn [repeat]. unfold dval in *. cbn [fold_left]. exact IH. Qed.

Lemma forallb_repeat_48 : forall k, forallb is_digit (repeat 48 k) = true.
Proof. induction k as [|k IH]; [reflexivity|]. cbn [repeat forallb]. rewrite IH. reflexivity. Qed.

Lemma dec_f_length : forall f n k, (1 <= k)%nat -> n < 10 ^ N.of_nat k ->
  (length (C09.Model.dec_f f n []) <= k)%nat.
Proof.
  induction f as [|f IH]; intros n k Hk Hn.
  - cbn. lia.
  - cbn [C09.Model.dec_f]. destruct (n <? 10) eqn:E.
    + cbn [length]. lia.
    + apply N.ltb_ge in E. rewrite C09.Tokens.dec_f_acc, app_length. cbn [length].
      destruct k as [|k]; [lia|]. destruct k as [|k].
      { cbn in Hn. lia. }
      assert (length (C09.Model.dec_f f (n / 10) []) <= S k)%nat; [|lia].
      apply IH; [lia|].
      rewrite Nnat.Nat2N.inj_succ, N.pow_succ_r' in Hn.
      apply N.div_lt_upper_bound; [lia|]. exact Hn.
Qed.

Definition ten10 : N := 10000000000.

Lemma dec_length_10 : forall p, p < ten10 -> (length (dec p) <= 10)%nat.
Proof. intros p H. unfold dec, C09.Model.dec. apply dec_f_length; [lia|exact H]. Qed.

Lemma read_fixed_pad : forall p r, p < ten10 ->
  read_fixed 10 (pad_to 10 (dec p) ++ r) 0 = Some (p, r).
Proof.
  intros p r H. pose proof (dec_length_10 p H) as L.
  unfold pad_to.
  assert (E : 10%nat = length (repeat 48 (10 - length (dec p)) ++ dec p)).
  { rewrite app_length, repeat_length. lia. }
  rewrite E at 1. rewrite read_fixed_digits.
  - rewrite C09.Tokens.dval_app. fold dval. rewrite dval_zeros, dec_val'. reflexivity.
  - rewrite forallb_app, forallb_repeat_48, dec_digits'. reflexivity.
Qed.

(** * the entries *)
Definition head_entry : entry := {| e_num := 0; e_off := 0; e_gen := 65535; e_used := false |}.
Definition mk_entry (x : list (N * N)) (n : N) : entry :=
  match xlookup n x with
  | Some p => {| e_num := n; e_off := p; e_gen := 0; e_used := true |}
  | None => {| e_num := n; e_off := 0; e_gen := 0; e_used := false |}
  end.

(** the table as the checker builds it (newest entry first) *)
Definition table_of (x : list (N * N)) : list entry :=
  rev (head_entry :: List.map (mk_entry x) (upto (xmax x))).

Definition OffsetsFit (x : list (N * N)) : Prop := forall n p, xlookup n x = Some p -> p < ten10.

Lemma read_entry_in_use : forall n p r, p < ten10 ->
  read_entry n (fmt_in_use p ++ r) = Some ({| e_num := n; e_off := p; e_gen := 0; e_used := true |}, r).
Proof.
  intros n p r H. unfold read_entry, fmt_in_use. repeat rewrite <- app_assoc.
  rewrite (read_fixed_pad p _ H). reflexivity.
Qed.

Lemma read_entry_gap : forall n r,
  read_entry n (free_gap ++ r) = Some ({| e_num := n; e_off := 0; e_gen := 0; e_used := false |}, r).
Proof. intros. reflexivity. Qed.

Lemma read_entry_head : forall r, read_entry 0 (free_head ++ r) = Some (head_entry, r).
Proof. intros. reflexivity. Qed.

Lemma read_entry_line : forall x n r, OffsetsFit x ->
  read_entry n (entry_line x n ++ r) = Some (mk_entry x n, r).
Proof.
  intros x n r H. unfold entry_line, mk_entry. destruct (xlookup n x) as [p|] eqn:E.
  - apply read_entry_in_use. eapply H. exact E.
  - apply read_entry_gap.
Qed.

Definition nums (a m : nat) : list N := List.map (fun k => N.of_nat (S k)) (seq a m).

Lemma read_entries_lines : forall x, OffsetsFit x -> forall m a r acc,
  read_entries m (N.of_nat (S a)) (concat (List.map (entry_line x) (nums a m)) ++ r) acc
  = Some (rev (List.map (mk_entry x) (nums a m)) ++ acc, r).
Proof.
  intros x Hx. induction m as [|m IH]; intros a r acc.
  - reflexivity.
  - unfold nums in *. cbn [seq List.map concat read_entries]. rewrite <- app_assoc.
    rewrite (read_entry_line x _ _ Hx).
    replace (N.of_nat (S a) + 1) with (N.of_nat (S (S a))) by lia.
    rewrite IH. cbn [rev]. rewrite <- app_assoc. reflexivity.
Qed.

(** * clause 2: the emitted cross-reference section reads back *)
Lemma xref_bytes_shape : forall x tail,
  xref_bytes x ++ S_ "trailer" ++ tail =
  S_ "xref" ++ 10 :: 48 :: 32 :: dec (xmax x + 1) ++ 10 :: free_head
    ++ concat (List.map (entry_line x) (nums 0 (N.to_nat (xmax x)))) ++ S_ "trailer" ++ tail.
Proof. intros. unfold xref_bytes, upto, nums. repeat rewrite <- app_assoc. reflexivity. Qed.

Lemma read_eol_lf : forall r, read_eol (10 :: r) = Some r.
Proof. reflexivity. Qed.

Lemma read_subsections_S : forall f l acc,
  read_subsections (S f) l acc =
    match read_kw (S_ "trailer") l with
    | Some r => Some (acc, r)
    | None =>
      match read_uint l with
      | Some (first, 32 :: l1) =>
          match read_uint l1 with
          | Some (count, l2) =>
              match read_eol l2 with
              | Some l3 =>
                  match read_entries (N.to_nat count) first l3 acc with
                  | Some (acc', l4) => read_subsections f l4 acc'
                  | None => None
                  end
              | None => None
              end
          | None => None
          end
      | _ => None
      end
    end.
Proof. reflexivity. Qed.

Lemma read_subsections_emitted : forall f x tail, OffsetsFit x -> boundary tail = true ->
  read_subsections (S (S f))
    (48 :: 32 :: dec (xmax x + 1) ++ 10 :: free_head
      ++ concat (List.map (entry_line x) (nums 0 (N.to_nat (xmax x)))) ++ S_ "trailer" ++ tail) []
  = Some (table_of x, tail).
Proof.
  intros f x tail Hx Hb. rewrite read_subsections_S.
  change (read_kw (S_ "trailer") (48 :: ?l)) with (@None bytes). cbv iota.
  change (read_uint (48 :: 32 :: ?l)) with (Some (0, 32 :: l)). cbv iota.
  rewrite read_uint_dec by reflexivity. rewrite read_eol_lf.
  replace (N.to_nat (xmax x + 1)) with (S (N.to_nat (xmax x))) by lia.
  cbn [read_entries]. rewrite read_entry_head.
  change (0 + 1) with (N.of_nat 1).
  rewrite (read_entries_lines x Hx).
  rewrite read_subsections_S. rewrite (read_kw_app _ _ Hb).
  reflexivity.
Qed.

Theorem read_xref_emitted : forall x tail, OffsetsFit x -> boundary tail = true ->
  read_xref (xref_bytes x ++ S_ "trailer" ++ tail) = Some (table_of x, tail).
Proof.
  intros x tail Hx Hb. rewrite xref_bytes_shape. unfold read_xref.
  rewrite strip_app, read_eol_lf.
  change (length (48 :: 32 :: ?l)) with (S (S (length l))).
  apply read_subsections_emitted; assumption.
Qed.

(** * the table: numbering, highest number, uniqueness, what is in use *)
Lemma in_upto : forall n m, In n (upto m) <-> 1 <= n /\ n <= m.
Proof.
  unfold upto. intros n m. rewrite in_map_iff. split.
  - intros [k [<- Hk]]. apply in_seq in Hk. lia.
  - intros [H1 H2]. exists (N.to_nat n - 1)%nat. split; [lia|apply in_seq; lia].
Qed.

Lemma e_num_mk : forall x n, e_num (mk_entry x n) = n.
Proof. intros. unfold mk_entry. destruct (xlookup n x); reflexivity. Qed.

Lemma in_table : forall x e,
  In e (table_of x) <-> e = head_entry \/ exists n, (1 <= n /\ n <= xmax x) /\ e = mk_entry x n.
Proof.
  unfold table_of. intros x e. rewrite <- in_rev. cbn [In]. rewrite in_map_iff. split.
  - intros [H|[n [H1 H2]]]; [left; auto|right]. exists n. apply in_upto in H2. split; auto.
  - intros [H|[n [H1 H2]]]; [left; auto|right]. exists n. split; auto. apply in_upto. auto.
Qed.

(** contiguous numbering from 0: read in file order the numbers are 0, 1, .., max *)
Theorem table_nums : forall x, List.map e_num (rev (table_of x)) = 0 :: upto (xmax x).
Proof.
  intro x. unfold table_of. rewrite rev_involutive. cbn [List.map e_num head_entry]. f_equal.
  rewrite map_map. erewrite map_ext; [apply map_id|]. intro; apply e_num_mk.
Qed.

(** the first entry of the file's table is the free head, generation 65535 *)
Theorem table_head : forall x, exists t, rev (table_of x) = head_entry :: t.
Proof. intro x. unfold table_of. rewrite rev_involutive. eexists. reflexivity. Qed.

Lemma max_num_ge : forall t e, In e t -> e_num e <= max_num t.
Proof.
  induction t as [|a t IH]; intros e H; [contradiction|]. cbn [max_num].
  destruct H as [<-|H]; [lia|]. specialize (IH e H). lia.
Qed.

Lemma max_num_le : forall t m, (forall e, In e t -> e_num e <= m) -> max_num t <= m.
Proof.
  induction t as [|a t IH]; intros m H; cbn [max_num]; [lia|].
  assert (e_num a <= m) by (apply H; left; reflexivity).
  assert (max_num t <= m) by (apply IH; intros e He; apply H; right; exact He). lia.
Qed.

Theorem table_max_num : forall x, max_num (table_of x) = xmax x.
Proof.
  intro x. apply N.le_antisymm.
  - apply max_num_le. intros e He. apply in_table in He.
    destruct He as [->|[n [H ->]]]; [cbn; lia|]. rewrite e_num_mk. lia.
  - destruct (N.eq_dec (xmax x) 0) as [E|E]; [rewrite E; lia|].
    rewrite <- (e_num_mk x (xmax x)) at 1. apply max_num_ge. apply in_table. right.
    exists (xmax x). split; [lia|reflexivity].
Qed.

Lemma upto_NoDup : forall m, NoDup (0 :: upto m).
Proof.
  intro m. constructor.
  - rewrite in_upto. lia.
  - unfold upto. apply FinFun.Injective_map_NoDup; [|apply seq_NoDup].
    intros a b H. lia.
Qed.

Theorem table_unique : forall x e1 e2 l1 l2 l3,
  table_of x = l1 ++ e1 :: l2 ++ e2 :: l3 -> e_num e1 <> e_num e2.
Proof.
  intros x e1 e2 l1 l2 l3 H.
  assert (ND : NoDup (List.map e_num (table_of x))).
  { rewrite <- (rev_involutive (table_of x)), map_rev, table_nums. apply NoDup_rev, upto_NoDup. }
  rewrite H, map_app in ND. cbn [List.map] in ND. apply NoDup_remove_2 in ND.
  intro E. apply ND. apply in_or_app. right. rewrite map_app. apply in_or_app. right.
  cbn [List.map]. left. symmetry. exact E.
Qed.

Lemma xlookup_le_xmax : forall x n p, xlookup n x = Some p -> n <= xmax x.
Proof.
  induction x as [|[i q] x IH]; intros n p H; cbn [xlookup xmax] in *; [discriminate|].
  destruct (i =? n) eqn:E.
  - apply N.eqb_eq in E. lia.
  - specialize (IH n p H). lia.
Qed.

Lemma xlookup_in : forall x n p, xlookup n x = Some p -> In (n, p) x.
Proof.
  induction x as [|[i q] x IH]; intros n p H; cbn [xlookup] in H; [discriminate|].
  destruct (i =? n) eqn:E.
  - injection H as <-. apply N.eqb_eq in E. subst. left. reflexivity.
  - right. apply IH. exact H.
Qed.

Lemma xlookup_key : forall x n, In n (List.map fst x) -> exists p, xlookup n x = Some p.
Proof.
  induction x as [|[i q] x IH]; intros n H; [contradiction|]. cbn [xlookup].
  destruct (i =? n) eqn:E; [eexists; reflexivity|].
  destruct H as [H|H]; [cbn in H; apply N.eqb_neq in E; contradiction|]. apply IH. exact H.
Qed.

(** an in-use line is a line of the map: number >= 1, generation 0, the recorded offset *)
Theorem table_in_use : forall x e, In e (table_of x) -> e_used e = true ->
  1 <= e_num e /\ e_gen e = 0 /\ xlookup (e_num e) x = Some (e_off e).
Proof.
  intros x e He Hu. apply in_table in He. destruct He as [->|[n [[H1 H2] ->]]]; [discriminate|].
  unfold mk_entry in *. destruct (xlookup n x) as [p|] eqn:E; [|discriminate].
  cbn [e_num e_gen e_off]. repeat split; assumption.
Qed.

(** clause 5, table side: a reference [n 0 R] to a written id n >= 1 resolves *)
Theorem table_resolves : forall x n p, 1 <= n -> xlookup n x = Some p -> Resolves (table_of x) (n, 0).
Proof.
  intros x n p H1 Hl. exists (mk_entry x n). split.
  - apply in_table. right. exists n. split; [|reflexivity]. split; [exact H1|].
    eapply xlookup_le_xmax. exact Hl.
  - unfold mk_entry. rewrite Hl. repeat split.
Qed.

(** * clause 1: the trailer dictionary reads back *)
Definition dict_items (f : nat) : nat -> bytes -> list (bytes * obj) -> option (obj * bytes) :=
  fix items (k : nat) (l1 : bytes) (acc : list (bytes * obj)) {struct k} : option (obj * bytes) :=
    match k with
    | O => None
    | S k' =>
      match skip_ws l1 with
      | 62 :: 62 :: r2 => Some (ODict (rev acc), r2)
      | 47 :: r2 =>
          match read_name (S (length r2)) r2 [] with
          | Some (key, r3) =>
              match parse_obj f r3 with
              | Some (v, r4) => items k' r4 ((key, v) :: acc)
              | None => None
              end
          | None => None
          end
      | _ => None
      end
    end.

Lemma dict_items_S : forall f k l1 acc,
  dict_items f (S k) l1 acc =
    match skip_ws l1 with
    | 62 :: 62 :: r2 => Some (ODict (rev acc), r2)
    | 47 :: r2 =>
        match read_name (S (length r2)) r2 [] with
        | Some (key, r3) =>
            match parse_obj f r3 with
            | Some (v, r4) => dict_items f k r4 ((key, v) :: acc)
            | None => None
            end
        | None => None
        end
    | _ => None
    end.
Proof. reflexivity. Qed.

Lemma parse_obj_dict : forall f l r1, skip_ws l = 60 :: 60 :: r1 ->
  parse_obj (S f) l = dict_items f f r1 [].
Proof. intros f l r1 H. cbn [parse_obj]. rewrite H. reflexivity. Qed.

(** the numeric arm *)
Lemma parse_obj_digit : forall f l c r, skip_ws l = c :: r -> is_digit c = true ->
  parse_obj (S f) l =
    match read_number (c :: r) with
    | Some (v, plain, n, r1) =>
        if plain then match read_ref_tail r1 with
                      | Some (g, r2) => Some (ORef n g, r2)
                      | None => Some (v, r1)
                      end
        else Some (v, r1)
    | None => None
    end.
Proof.
  intros f l c r H Hd. cbn [parse_obj]. rewrite H.
  assert (R : 48 <= c /\ c <= 57) by (unfold is_digit, C09.Model.is_digit in Hd; lia).
  replace (c =? 47) with false by lia. replace (c =? 40) with false by lia.
  replace (c =? 60) with false by lia. replace (c =? 91) with false by lia.
  rewrite Hd. reflexivity.
Qed.

Lemma skip_ws_digit : forall c r, is_digit c = true -> skip_ws (c :: r) = c :: r.
Proof.
  intros c r Hd. unfold skip_ws. cbn [skip_ws_c].
  assert (R : 48 <= c /\ c <= 57) by (unfold is_digit, C09.Model.is_digit in Hd; lia).
  replace (is_ws c) with false by (unfold is_ws; lia). replace (c =? 37) with false by lia.
  reflexivity.
Qed.

Lemma skip_ws_ws : forall c r, is_ws c = true -> skip_ws (c :: r) = skip_ws r.
Proof. intros c r H. unfold skip_ws. cbn [skip_ws_c]. rewrite H. reflexivity. Qed.

(** an unsigned decimal followed by a space or a line feed *)
Lemma read_number_dec : forall n c r, c = 32 \/ c = 10 ->
  read_number (dec n ++ c :: r) = Some (OInt (Z.of_N n), true, n, c :: r).
Proof.
  intros n c r Hc. destruct (dec_cons n) as [d [ds [E [Hd Hds]]]].
  assert (Hall : forallb is_digit (dec n) = true) by apply dec_digits'.
  unfold read_number. rewrite E. cbn [app].
  assert (R : 48 <= d /\ d <= 57) by (unfold is_digit, C09.Model.is_digit in Hd; lia).
  replace ((d =? 43) || (d =? 45)) with false by lia.
  change (d :: ds ++ c :: r) with ((d :: ds) ++ c :: r). rewrite <- E.
  rewrite (span_app_stop is_digit (dec n) c r Hall) by (destruct Hc; subst c; reflexivity).
  destruct Hc; subst c; rewrite E; cbn [boundary]; rewrite <- E, dec_val'; reflexivity.
Qed.

Lemma parse_obj_ref_lf : forall f n r,
  parse_obj (S f) (32 :: dec n ++ 32 :: 48 :: 32 :: 82 :: 10 :: r) = Some (ORef n 0, 10 :: r).
Proof.
  intros f n r. destruct (dec_cons n) as [d [ds [E [Hd _]]]].
  rewrite (parse_obj_digit f _ d (ds ++ 32 :: 48 :: 32 :: 82 :: 10 :: r)).
  - change (d :: ds ++ ?t) with ((d :: ds) ++ t). rewrite <- E.
    rewrite read_number_dec by (left; reflexivity). reflexivity.
  - rewrite skip_ws_ws by reflexivity. rewrite E. cbn [app]. apply skip_ws_digit. exact Hd.
  - exact Hd.
Qed.

Lemma parse_obj_int_close : forall f n r,
  parse_obj (S f) (32 :: dec n ++ 10 :: 62 :: r) = Some (OInt (Z.of_N n), 10 :: 62 :: r).
Proof.
  intros f n r. destruct (dec_cons n) as [d [ds [E [Hd _]]]].
  rewrite (parse_obj_digit f _ d (ds ++ 10 :: 62 :: r)).
  - change (d :: ds ++ ?t) with ((d :: ds) ++ t). rewrite <- E.
    rewrite read_number_dec by (right; reflexivity). reflexivity.
  - rewrite skip_ws_ws by reflexivity. rewrite E. cbn [app]. apply skip_ws_digit. exact Hd.
  - exact Hd.
Qed.

Definition trailer_dict (root info sz : N) : list (bytes * obj) :=
  [(S_ "Info", ORef info 0); (S_ "Root", ORef root 0); (S_ "Size", OInt (Z.of_N sz))].

Lemma parse_trailer_dict : forall f root info sz tail,
  parse_obj (S (S (S (S (S f)))))
    (10 :: 60 :: 60 :: 10 :: 47 :: S_ "Info" ++ 32 :: dec info ++ 32 :: 48 :: 32 :: 82 :: 10
        :: 47 :: S_ "Root" ++ 32 :: dec root ++ 32 :: 48 :: 32 :: 82 :: 10
        :: 47 :: S_ "Size" ++ 32 :: dec sz ++ 10 :: 62 :: 62 :: tail)
  = Some (ODict (trailer_dict root info sz), tail).
Proof.
  intros f root info sz tail.
  erewrite parse_obj_dict by reflexivity.
  rewrite dict_items_S.
  change (skip_ws (10 :: 47 :: ?t)) with (47 :: t). cbv iota.
  change (read_name (S (length (S_ "Info" ++ 32 :: ?t))) (S_ "Info" ++ 32 :: ?t) [])
    with (Some (S_ "Info", 32 :: t)). cbv iota.
  rewrite parse_obj_ref_lf.
  rewrite dict_items_S.
  change (skip_ws (10 :: 47 :: ?t)) with (47 :: t). cbv iota.
  change (read_name (S (length (S_ "Root" ++ 32 :: ?t))) (S_ "Root" ++ 32 :: ?t) [])
    with (Some (S_ "Root", 32 :: t)). cbv iota.
  rewrite parse_obj_ref_lf.
  rewrite dict_items_S.
  change (skip_ws (10 :: 47 :: ?t)) with (47 :: t). cbv iota.
  change (read_name (S (length (S_ "Size" ++ 32 :: ?t))) (S_ "Size" ++ 32 :: ?t) [])
    with (Some (S_ "Size", 32 :: t)). cbv iota.
  rewrite parse_obj_int_close.
  rewrite dict_items_S. reflexivity.
Qed.

(** the bytes after the keyword [trailer], and after the dictionary *)
Definition trailer_tail (xpos : N) : bytes :=
  10 :: S_ "startxref" ++ 10 :: dec xpos ++ 10 :: S_ "%%EOF" ++ [10].
Definition trailer_after (root info sz xpos : N) : bytes :=
  10 :: 60 :: 60 :: 10 :: 47 :: S_ "Info" ++ 32 :: dec info ++ 32 :: 48 :: 32 :: 82 :: 10
     :: 47 :: S_ "Root" ++ 32 :: dec root ++ 32 :: 48 :: 32 :: 82 :: 10
     :: 47 :: S_ "Size" ++ 32 :: dec sz ++ 10 :: 62 :: 62 :: trailer_tail xpos.

Lemma trailer_bytes_shape : forall x root info xpos,
  trailer_bytes x root info xpos = S_ "trailer" ++ trailer_after root info (xmax x + 1) xpos.
Proof.
  intros. unfold trailer_bytes, trailer_after, trailer_tail. repeat rewrite <- app_assoc. reflexivity.
Qed.

Theorem parse_trailer_emitted : forall root info sz xpos,
  parse_obj (S (length (trailer_after root info sz xpos))) (trailer_after root info sz xpos)
  = Some (ODict (trailer_dict root info sz), trailer_tail xpos).
Proof.
  intros. unfold trailer_after.
  change (length (10 :: 60 :: 60 :: 10 :: 47 :: ?t)) with (S (S (S (S (S (length t)))))).
  rewrite parse_trailer_dict. reflexivity.
Qed.

(** trailer dictionary shape: /Size is the integer, /Root a reference, no /Prev *)
Lemma trailer_dict_shape : forall root info sz,
  dict_get (S_ "Size") (trailer_dict root info sz) = Some (OInt (Z.of_N sz)) /\
  dict_get (S_ "Root") (trailer_dict root info sz) = Some (ORef root 0) /\
  dict_get (S_ "Info") (trailer_dict root info sz) = Some (ORef info 0) /\
  dict_get (S_ "Prev") (trailer_dict root info sz) = None.
Proof. intros. repeat split. Qed.

Lemma trailer_dict_refs : forall fuel root info sz r,
  In r (refs_of fuel (ODict (trailer_dict root info sz))) -> r = (info, 0) \/ r = (root, 0).
Proof.
  intros fuel root info sz r H. destruct fuel as [|[|f]]; cbn in H; try contradiction.
  destruct H as [H|[H|H]]; auto; contradiction.
Qed.
