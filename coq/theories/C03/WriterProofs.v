(** C03 — theorems about the emission model (Writer.v), for ALL step sequences. *)
From OxVerif Require Import Base.Util C03.Checker C03.Writer C03.Sound.
From OxVerif Require C09.Model C09.Tokens.
Require Import Lia.

Lemma len_app : forall a b, len (a ++ b) = len a + len b.
Proof. intros. unfold len. rewrite app_length. lia. Qed.

(** * pos = |out| *)
Definition Inv1 (s : wstate) : Prop := pos s = len (out s).

Lemma wbytes_inv1 : forall s d, Inv1 s -> Inv1 (wbytes s d).
Proof. unfold Inv1, wbytes. intros s d H. cbn [pos out]. rewrite len_app, H. reflexivity. Qed.

Lemma step_inv1 : forall s st, Inv1 s -> Inv1 (do_step s st).
Proof.
  intros s [ver|id body] H; cbn [do_step]; repeat apply wbytes_inv1; exact H.
Qed.

Lemma run_inv1 : forall l s, Inv1 s -> Inv1 (run s l).
Proof.
  induction l as [|st l IH]; intros s H; cbn [run fold_left]; [exact H|].
  apply IH. apply step_inv1. exact H.
Qed.

Lemma finish_inv1 : forall s root info, Inv1 s -> Inv1 (finish s root info).
Proof. intros. unfold finish. repeat apply wbytes_inv1. assumption. Qed.

Theorem pos_is_length : forall steps root info,
  pos (run w_init steps) = len (out (run w_init steps)) /\
  pos (finish (run w_init steps) root info) = len (out (finish (run w_init steps) root info)).
Proof.
  intros. split; [apply run_inv1 | apply finish_inv1, run_inv1]; reflexivity.
Qed.

(** * every recorded offset is where "id 0 obj\n" starts *)
Definition Inv2 (s : wstate) : Prop :=
  forall id off, In (id, off) (xref s) -> exists rest, at_off (out s) off (obj_hdr id ++ rest).

Lemma at_off_app : forall b off suf d, at_off b off suf -> at_off (b ++ d) off (suf ++ d).
Proof.
  intros b off suf d [pre [-> Hl]]. exists pre. split; [rewrite <- app_assoc; reflexivity|exact Hl].
Qed.

Lemma wbytes_inv2 : forall s d, Inv2 s -> Inv2 (wbytes s d).
Proof.
  unfold Inv2, wbytes. cbn [xref out]. intros s d H id off Hi.
  destruct (H id off Hi) as [rest Ha]. exists (rest ++ d).
  rewrite app_assoc. apply at_off_app. exact Ha.
Qed.

Lemma step_inv2 : forall s st, Inv1 s -> Inv2 s -> Inv2 (do_step s st).
Proof.
  intros s [ver|id body] H1 H2; cbn [do_step].
  - repeat apply wbytes_inv2. exact H2.
  - do 2 apply wbytes_inv2.
    intros id' off Hi. cbn [xref out wbytes] in *. destruct Hi as [E|Hi].
    + injection E as <- <-. exists [].  rewrite app_nil_r.
      exists (out s). split; [reflexivity|]. symmetry. exact H1.
    + destruct (H2 id' off Hi) as [rest Ha]. exists (rest ++ obj_hdr id).
      rewrite app_assoc. apply at_off_app. exact Ha.
Qed.

Lemma run_inv12 : forall l s, Inv1 s -> Inv2 s -> Inv1 (run s l) /\ Inv2 (run s l).
Proof.
  induction l as [|st l IH]; intros s H1 H2; cbn [run fold_left]; [split; assumption|].
  apply IH; [apply step_inv1 | apply step_inv2]; assumption.
Qed.

Lemma init_inv2 : Inv2 w_init.
Proof. intros id off []. Qed.

Theorem xref_points_at_header : forall steps root info id off,
  In (id, off) (xref (finish (run w_init steps) root info)) ->
  exists rest, at_off (out (finish (run w_init steps) root info)) off (obj_hdr id ++ rest).
Proof.
  intros steps root info id off Hi.
  destruct (run_inv12 steps w_init eq_refl init_inv2) as [_ H2].
  unfold finish in *. cbn [xref wbytes] in Hi.
  apply (wbytes_inv2 _ _ (wbytes_inv2 _ _ H2)). exact Hi.
Qed.

(** the model's header line is an object header in the sense of the declarative predicate *)
Lemma digits_dec : forall n, digits (dec n) n.
Proof.
  intro n. unfold digits, dec, dval, is_digit.
  split; [apply C09.Tokens.dec_nonempty|].
  split; [apply C09.Tokens.dec_digits | apply C09.Tokens.dec_val].
Qed.

Lemma obj_hdr_is_header : forall b off id rest,
  at_off b off (obj_hdr id ++ rest) -> ObjHeaderAt b off id 0.
Proof.
  intros b off id rest H. unfold obj_hdr in H.
  exists (dec id), (S_ " 0 obj" ++ [10] ++ rest), [48], (S_ " obj" ++ [10] ++ rest), (10 :: rest).
  split. { repeat rewrite <- app_assoc in H. exact H. }
  split; [apply digits_dec|].
  split. { exists 32, (S_ "0 obj" ++ [10] ++ rest). split; reflexivity. }
  split; [reflexivity|].
  split. { unfold digits. split; [discriminate|]. split; reflexivity. }
  split. { exists 32, (S_ "obj" ++ [10] ++ rest). split; reflexivity. }
  split; reflexivity.
Qed.

(** * the emitted file: what the end of the file says, where the table is, what it lists *)
Definition final (steps : list step) (root info : N) : bytes :=
  out (finish (run w_init steps) root info).

(** Full statement (checked per produced file by vm_compute through [valid_pdf] and
    [valid_pdf_sound], proved here only in part):
      forall steps root info, well-formed bodies -> offsets below 10^10 ->
        ValidPdf (final (WHeader ver :: steps) root info).
    Proved for every step sequence: the end of the file names the position [xpos] of the
    keyword xref; the bytes there are exactly the table the model builds from its map,
    followed by the trailer with /Size = highest number + 1; every entry of the map —
    hence every in-use line of the table — points at the header of its object. *)
Theorem writer_output_valid_partial : forall steps root info,
  let s := run w_init steps in
  let b := final steps root info in
  StartxrefSays b (pos s) /\
  at_off b (pos s) (xref_bytes (xref s) ++ trailer_bytes (xref s) root info (pos s)) /\
  (forall id off, xlookup id (xref s) = Some off -> ObjHeaderAt b off id 0).
Proof.
  intros steps root info s b.
  destruct (run_inv12 steps w_init eq_refl init_inv2) as [H1 H2]. fold s in H1, H2.
  split; [|split].
  - unfold b, final, finish, wbytes. cbn [out]. unfold trailer_bytes.
    exists (out s ++ xref_bytes (xref s) ++ S_ "trailer" ++ [10] ++ S_ "<<" ++ [10]
            ++ S_ "/Info " ++ dec info ++ S_ " 0 R" ++ [10]
            ++ S_ "/Root " ++ dec root ++ S_ " 0 R" ++ [10]
            ++ S_ "/Size " ++ dec (xmax (xref s) + 1) ++ [10] ++ S_ ">>" ++ [10]),
           [10], (dec (pos s)), [10], [10].
    split. { repeat rewrite <- app_assoc. reflexivity. }
    split; [reflexivity|]. split; [discriminate|]. split; [apply digits_dec|].
    split; [reflexivity|]. split; [discriminate|reflexivity].
  - unfold b, final, finish, wbytes. cbn [out]. exists (out s).
    split; [rewrite <- app_assoc; reflexivity | symmetry; exact H1].
  - intros id off Hl.
    assert (Hin : In (id, off) (xref s)).
    { clear - Hl. induction (xref s) as [|[i p] x IH]; cbn [xlookup] in Hl; [discriminate|].
      destruct (i =? id) eqn:E.
      - injection Hl as <-. apply N.eqb_eq in E. subst. left. reflexivity.
      - right. apply IH. exact Hl. }
    destruct (xref_points_at_header steps root info id off) as [rest Ha].
    { unfold finish. cbn [xref wbytes]. exact Hin. }
    eapply obj_hdr_is_header. exact Ha.
Qed.

(** non-vacuity: a two-object file; the model's output is accepted by the verified checker *)
Definition demo_objs : list (N * bytes) :=
  [(2, S_ "<< /Type /Pages /Kids [] /Count 0 >>"); (1, S_ "<< /Type /Catalog /Pages 2 0 R >>");
   (3, S_ "<< /Title (a\)b) /X <41 42> /Len 5 >>");
   (5, S_ "<< /Length 3 >>" ++ [10] ++ S_ "stream" ++ [10] ++ S_ "abc" ++ [10] ++ S_ "endstream")].

Example demo_valid : valid_pdf (emit (S_ "1.7") demo_objs 1 3) = true.
Proof. vm_compute. reflexivity. Qed.

(** the mutant that forgets to count one separator byte is rejected (clause 3: the table is not where
    startxref says; with a correct startxref it would be clause 7) *)
Example demo_mutant_rejected :
  pdf_code (out (finish (fold_left do_step_bad
     (WHeader (S_ "1.7") :: List.map (fun o => WObject (fst o) (snd o)) demo_objs) w_init) 1 3)) = 3.
Proof. vm_compute. reflexivity. Qed.

(** /Size off by one and a stale /Length are rejected *)
Example demo_size_off_by_one :
  pdf_code (S_ "%PDF-1.4" ++ [10] ++ S_ "1 0 obj" ++ [10] ++ S_ "<< /Type /Catalog >>" ++ [10] ++ S_ "endobj" ++ [10]
            ++ S_ "xref" ++ [10] ++ S_ "0 2" ++ [10] ++ S_ "0000000000 65535 f " ++ [10]
            ++ S_ "0000000009 00000 n " ++ [10] ++ S_ "trailer" ++ [10] ++ S_ "<< /Size 3 /Root 1 0 R >>" ++ [10]
            ++ S_ "startxref" ++ [10] ++ S_ "45" ++ [10] ++ S_ "%%EOF" ++ [10]) = 5.
Proof. vm_compute. reflexivity. Qed.

Example demo_stale_length :
  pdf_code (emit (S_ "1.7")
     [(1, S_ "<< /Type /Catalog >>");
      (2, S_ "<< /Length 2 >>" ++ [10] ++ S_ "stream" ++ [10] ++ S_ "abc" ++ [10] ++ S_ "endstream")] 1 1) = 7.
Proof. vm_compute. reflexivity. Qed.

Example demo_dangling_reference :
  pdf_code (emit (S_ "1.7") [(1, S_ "<< /Type /Catalog /Pages 9 0 R >>")] 1 1) = 8.
Proof. vm_compute. reflexivity. Qed.

Example demo_bad_name_token :
  pdf_code (emit (S_ "1.7") [(1, S_ "<< /Type /Catalog /A#ZZ 1 >>")] 1 1) = 7.
Proof. vm_compute. reflexivity. Qed.
