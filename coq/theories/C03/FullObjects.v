(** C03 — the checker's object reader run on what the emission model writes for ONE object:
    ["id 0 obj\n"  body  "\nendobj\n"], for every id and every body satisfying [BodyOk].

      [obj_header_emitted]   the writer's own header tokens read back (clause 7)
      [read_body_plain]      a non-stream value followed by the writer's "\nendobj\n" (clause 7)
      [read_body_stream]     a stream whose dictionary carries the direct /Length = |data| is
                             accepted: the data is skipped by exactly /Length bytes and the
                             keyword endstream is found there (clause 6)
      [run_inv3]             every offset of the map is where "id 0 obj\n" body "\nendobj\n"
                             of an object with a [BodyOk] body starts in the output

    HYPOTHESIS ON THE BODIES ([BodyOk P], stated through the checker's value reader
    [parse_obj]; this is what a serialiser theorem in the style of C09 has to provide):
    the opaque byte string written between "id 0 obj\n" and "\nendobj\n" is either
      - a value [v] that [parse_obj] reads as one object [o] up to the "\nendobj\n" the writer
        appends, whatever follows in the file, or
      - [dv ++ "\nstream\n" ++ data ++ "\nendstream"] where [dv] reads as a dictionary [d] up
        to "\nstream\n", whatever follows, and [d] has the direct entry /Length = |data|,
    and every reference found in [o] / [d] satisfies [P]. *)
From OxVerif Require Import Base.Util C03.Checker C03.Writer C03.Sound C03.WriterProofs C03.FullTable.
Require Import Lia.

Definition stream_open : bytes := 10 :: S_ "stream" ++ [10].
Definition stream_close : bytes := 10 :: S_ "endstream".

Section Bodies.
Variable P : N * N -> Prop.

Inductive BodyOk : bytes -> Prop :=
| BodyPlain : forall v o,
    (forall rest, parse_obj (S (length (10 :: v ++ obj_end ++ rest))) (10 :: v ++ obj_end ++ rest)
                  = Some (o, obj_end ++ rest)) ->
    (forall fuel r, In r (refs_of fuel o) -> P r) ->
    BodyOk v
| BodyStream : forall dv d data,
    (forall rest,
       parse_obj (S (length (10 :: dv ++ stream_open ++ data ++ stream_close ++ obj_end ++ rest)))
                 (10 :: dv ++ stream_open ++ data ++ stream_close ++ obj_end ++ rest)
       = Some (ODict d, stream_open ++ data ++ stream_close ++ obj_end ++ rest)) ->
    dict_get (S_ "Length") d = Some (OInt (Z.of_N (len data))) ->
    (forall fuel r, In r (refs_of fuel (ODict d)) -> P r) ->
    BodyOk (dv ++ stream_open ++ data ++ stream_close).

(** * clause 7: the writer's own tokens around the body *)
Lemma obj_header_emitted : forall id R, obj_header (obj_hdr id ++ R) id 0 = Some (10 :: R).
Proof.
  intros id R. unfold obj_hdr.
  replace ((dec id ++ S_ " 0 obj" ++ [10]) ++ R)
    with (dec id ++ 32 :: 48 :: 32 :: S_ "obj" ++ 10 :: R)
    by (repeat rewrite <- app_assoc; reflexivity).
  unfold obj_header. rewrite read_uint_dec by reflexivity.
  rewrite N.eqb_refl. reflexivity.
Qed.

Lemma read_body_plain : forall v o rest,
  parse_obj (S (length (10 :: v ++ obj_end ++ rest))) (10 :: v ++ obj_end ++ rest)
    = Some (o, obj_end ++ rest) ->
  read_body (10 :: v ++ obj_end ++ rest)
    = Some (refs_of (S (length (10 :: v ++ obj_end ++ rest))) o).
Proof.
  intros v o rest H. unfold read_body. rewrite H.
  change (skip_ws (obj_end ++ rest)) with (S_ "endobj" ++ 10 :: rest).
  rewrite read_kw_app by reflexivity. reflexivity.
Qed.

Lemma drop_len_app : forall a b, drop (len a) (a ++ b) = b.
Proof.
  intros a b. unfold drop, len. rewrite Nnat.Nat2N.id.
  rewrite skipn_app, skipn_all, Nat.sub_diag. reflexivity.
Qed.

(** * clause 6: a stream with the exact direct /Length *)
Lemma read_body_stream : forall dv d data rest,
  parse_obj (S (length (10 :: dv ++ stream_open ++ data ++ stream_close ++ obj_end ++ rest)))
            (10 :: dv ++ stream_open ++ data ++ stream_close ++ obj_end ++ rest)
    = Some (ODict d, stream_open ++ data ++ stream_close ++ obj_end ++ rest) ->
  dict_get (S_ "Length") d = Some (OInt (Z.of_N (len data))) ->
  read_body (10 :: (dv ++ stream_open ++ data ++ stream_close) ++ obj_end ++ rest)
    = Some (refs_of (S (length (10 :: dv ++ stream_open ++ data ++ stream_close ++ obj_end ++ rest))) (ODict d)).
Proof.
  intros dv d data rest H HL.
  replace ((dv ++ stream_open ++ data ++ stream_close) ++ obj_end ++ rest)
    with (dv ++ stream_open ++ data ++ stream_close ++ obj_end ++ rest)
    by (repeat rewrite <- app_assoc; reflexivity).
  unfold read_body. rewrite H.
  change (skip_ws (stream_open ++ ?t)) with (S_ "stream" ++ 10 :: t).
  change (read_kw (S_ "endobj") (S_ "stream" ++ ?t)) with (@None bytes). cbv iota.
  rewrite strip_app. cbv iota. rewrite HL.
  rewrite N2Z.id.
  replace (0 <=? Z.of_N (len data))%Z with true by lia.
  replace (len (data ++ stream_close ++ obj_end ++ rest) <? len data) with false
    by (rewrite len_app; lia).
  rewrite drop_len_app.
  change (stream_close ++ obj_end ++ rest) with (10 :: S_ "endstream" ++ obj_end ++ rest). cbv iota.
  rewrite read_kw_app by reflexivity.
  change (skip_ws (obj_end ++ rest)) with (S_ "endobj" ++ 10 :: rest).
  rewrite read_kw_app by reflexivity. reflexivity.
Qed.
End Bodies.

(** both kinds of body: the reader accepts the framed object, and every reference it reports
    satisfies [P] *)
Lemma read_body_emitted : forall P body rest, BodyOk P body ->
  exists refs_e, read_body (10 :: body ++ obj_end ++ rest) = Some refs_e /\
                 forall r, In r refs_e -> P r.
Proof.
  intros P body rest [v o Hp Hr | dv d data Hp HL Hr].
  - eexists. split; [apply read_body_plain; apply Hp|]. intros r Hi. eapply Hr. exact Hi.
  - eexists. split; [apply read_body_stream; [apply Hp|exact HL]|]. intros r Hi. eapply Hr. exact Hi.
Qed.

(** * where the objects are: every offset of the map starts a framed object with a good body *)
Definition Inv3 (Q : bytes -> Prop) (s : wstate) : Prop :=
  forall id off, In (id, off) (xref s) ->
    exists body rest, Q body /\ at_off (out s) off (obj_hdr id ++ body ++ obj_end ++ rest).

Definition step_ok (Q : bytes -> Prop) (st : step) : Prop :=
  match st with WHeader _ => True | WObject _ body => Q body end.

Lemma wbytes_inv3 : forall Q s d, Inv3 Q s -> Inv3 Q (wbytes s d).
Proof.
  unfold Inv3, wbytes. cbn [xref out]. intros Q s d H id off Hi.
  destruct (H id off Hi) as [body [rest [Hq Ha]]]. exists body, (rest ++ d). split; [exact Hq|].
  replace (obj_hdr id ++ body ++ obj_end ++ rest ++ d)
    with ((obj_hdr id ++ body ++ obj_end ++ rest) ++ d) by (repeat rewrite <- app_assoc; reflexivity).
  apply at_off_app. exact Ha.
Qed.

Lemma step_inv3 : forall Q s st, step_ok Q st -> Inv1 s -> Inv3 Q s -> Inv3 Q (do_step s st).
Proof.
  intros Q s [ver|id body] Hq H1 H3; cbn [do_step].
  - repeat apply wbytes_inv3. exact H3.
  - intros id' off Hi. cbn [xref out wbytes] in Hi. destruct Hi as [E|Hi].
    + injection E as <- <-. exists body, []. split; [exact Hq|].
      cbn [out wbytes]. exists (out s). split; [|symmetry; exact H1].
      rewrite app_nil_r. repeat rewrite <- app_assoc. reflexivity.
    + destruct (H3 id' off Hi) as [b' [rest [Hq' Ha]]].
      exists b', (rest ++ obj_hdr id ++ body ++ obj_end). split; [exact Hq'|].
      cbn [out wbytes].
      replace (obj_hdr id' ++ b' ++ obj_end ++ rest ++ obj_hdr id ++ body ++ obj_end)
        with ((obj_hdr id' ++ b' ++ obj_end ++ rest) ++ obj_hdr id ++ body ++ obj_end)
        by (repeat rewrite <- app_assoc; reflexivity).
      replace (((out s ++ obj_hdr id) ++ body) ++ obj_end)
        with (out s ++ obj_hdr id ++ body ++ obj_end) by (repeat rewrite <- app_assoc; reflexivity).
      apply at_off_app. exact Ha.
Qed.

Lemma run_inv3 : forall Q l s, (forall st, In st l -> step_ok Q st) -> Inv1 s -> Inv3 Q s ->
  Inv1 (run s l) /\ Inv3 Q (run s l).
Proof.
  induction l as [|st l IH]; intros s Hl H1 H3; cbn [run fold_left]; [split; assumption|].
  apply IH.
  - intros st' Hi. apply Hl. right. exact Hi.
  - apply step_inv1. exact H1.
  - apply step_inv3; [apply Hl; left; reflexivity|exact H1|exact H3].
Qed.

Lemma init_inv3 : forall Q, Inv3 Q w_init.
Proof. intros Q id off []. Qed.

(** the written ids are the keys of the map; the output only grows *)
Definition step_id (st : step) : list N := match st with WHeader _ => [] | WObject id _ => [id] end.

Lemma run_keys : forall l s id,
  In id (List.map fst (xref s)) \/ In id (flat_map step_id l) -> In id (List.map fst (xref (run s l))).
Proof.
  induction l as [|st l IH]; intros s id H; cbn [run fold_left flat_map] in *.
  - destruct H as [H|[]]. exact H.
  - apply IH. destruct H as [H|H].
    + left. destruct st; cbn [do_step wbytes xref List.map]; [exact H|right; exact H].
    + apply in_app_or in H. destruct H as [H|H]; [|right; exact H].
      left. destruct st as [ver|id' body]; cbn [step_id] in H; [contradiction|].
      destruct H as [<-|[]]. cbn [do_step wbytes xref List.map fst]. left. reflexivity.
Qed.

Lemma run_prefix : forall l s, exists suf, out (run s l) = out s ++ suf.
Proof.
  induction l as [|st l IH]; intro s; cbn [run fold_left].
  - exists []. rewrite app_nil_r. reflexivity.
  - destruct (IH (do_step s st)) as [suf E]. unfold run in E. rewrite E.
    destruct st as [ver|id body]; cbn [do_step wbytes out];
      eexists; repeat rewrite <- app_assoc; reflexivity.
Qed.

Lemma at_off_le : forall b off suf, at_off b off suf -> off <= len b.
Proof. intros b off suf [pre [-> <-]]. rewrite len_app. lia. Qed.

Lemma drop_at_off : forall b off suf, at_off b off suf -> drop off b = suf.
Proof. intros b off suf [pre [-> <-]]. apply drop_len_app. Qed.
