(** C03 — an independent strict structural reader for classic-xref PDF files, written from
    ISO 32000-1 (7.2 lexical conventions, 7.3 objects, 7.5 file structure), NOT from the
    library's parser.  [valid_pdf : bytes -> bool]; the declarative [ValidPdf] and the
    soundness theorem live in Sound.v.  Bytes are [N]. *)
From OxVerif Require Import Base.Util.
From OxVerif Require C09.Model.

Definition dec := C09.Model.dec.
Definition dval := C09.Model.dval.
Definition is_digit := C09.Model.is_digit.

Definition len (l : bytes) : N := N.of_nat (length l).
Definition drop (n : N) (l : bytes) : bytes := skipn (N.to_nat n) l.
Definition S_ (s : string) : bytes := bytes_of_string s.

(** * 7.2.2 character classes *)
Definition is_ws (c : N) : bool :=
  (c =? 0) || (c =? 9) || (c =? 10) || (c =? 12) || (c =? 13) || (c =? 32).
Definition is_delim (c : N) : bool :=
  (c =? 40) || (c =? 41) || (c =? 60) || (c =? 62) || (c =? 91) || (c =? 93)
  || (c =? 123) || (c =? 125) || (c =? 47) || (c =? 37).
Definition is_regular (c : N) : bool := negb (is_ws c || is_delim c).
Definition is_eol (c : N) : bool := (c =? 10) || (c =? 13).
Definition hexv (c : N) : option N :=
  if is_digit c then Some (c - 48)
  else if (97 <=? c) && (c <=? 102) then Some (c - 87)
  else if (65 <=? c) && (c <=? 70) then Some (c - 55)
  else None.

(** * generic list readers *)
Fixpoint span (f : N -> bool) (l : bytes) : bytes * bytes :=
  match l with
  | c :: r => if f c then let '(a, b) := span f r in (c :: a, b) else ([], l)
  | [] => ([], [])
  end.

Fixpoint strip (p l : bytes) : option bytes :=
  match p, l with
  | [], _ => Some l
  | a :: p', b :: l' => if a =? b then strip p' l' else None
  | _ :: _, [] => None
  end.

(** the next byte is not a regular character (token boundary) *)
Definition boundary (l : bytes) : bool :=
  match l with [] => true | c :: _ => negb (is_regular c) end.

(** white space and comments between tokens *)
Fixpoint skip_ws_c (incomment : bool) (l : bytes) : bytes :=
  match l with
  | [] => []
  | c :: r =>
      if incomment then (if is_eol c then skip_ws_c false r else skip_ws_c true r)
      else if is_ws c then skip_ws_c false r
      else if c =? 37 then skip_ws_c true r
      else l
  end.
Definition skip_ws := skip_ws_c false.

(** an unsigned decimal integer: maximal run of digits, at least one *)
Definition read_uint (l : bytes) : option (N * bytes) :=
  match span is_digit l with
  | ([], _) => None
  | (ds, r) => Some (dval 0 ds, r)
  end.

(** * 7.3 objects *)
Inductive obj :=
| ONull | OBool (b : bool) | OInt (z : Z) | OReal
| OStr | OName (n : bytes) | OArr (l : list obj) | ODict (l : list (bytes * obj))
| ORef (n g : N).

(** 7.3.5 name: regular characters; '#' must be followed by two hex digits *)
Fixpoint read_name (fuel : nat) (l : bytes) (acc : bytes) : option (bytes * bytes) :=
  match fuel with
  | O => None
  | S f =>
    match l with
    | c :: r =>
        if is_regular c then
          if c =? 35 then
            match r with
            | h1 :: h2 :: r2 =>
                match hexv h1, hexv h2 with
                | Some a, Some b => if (a * 16 + b) =? 0 then None else read_name f r2 ((a * 16 + b) :: acc)
                | _, _ => None
                end
            | _ => None
            end
          else read_name f r (c :: acc)
        else Some (rev acc, l)
    | [] => Some (rev acc, [])
    end
  end.

(** 7.3.4.2 literal string: balanced parentheses, backslash takes the next byte *)
Fixpoint read_lit (depth : N) (l : bytes) : option bytes :=
  match l with
  | [] => None
  | c :: r =>
      if c =? 92 then match r with _ :: r2 => read_lit depth r2 | [] => None end
      else if c =? 40 then read_lit (depth + 1) r
      else if c =? 41 then (if depth =? 0 then Some r else read_lit (depth - 1) r)
      else read_lit depth r
  end.

(** 7.3.4.3 hexadecimal string: hex digits and white space up to '>' *)
Fixpoint read_hex (l : bytes) : option bytes :=
  match l with
  | [] => None
  | c :: r =>
      if c =? 62 then Some r
      else if is_ws c then read_hex r
      else match hexv c with Some _ => read_hex r | None => None end
  end.

(** 7.3.3 number: optional sign, digits with at most one '.', at least one digit *)
Definition read_number (l : bytes) : option (obj * bool * N * bytes) :=
  (* returns the value, whether it is a plain unsigned integer, its value, and the rest *)
  let '(sign, l1) := match l with
                     | c :: r => if (c =? 43) || (c =? 45) then (Some c, r) else (None, l)
                     | [] => (None, l) end in
  let '(ip, l2) := span is_digit l1 in
  match l2 with
  | 46 :: l3 =>
      let '(fp, l4) := span is_digit l3 in
      match ip ++ fp with
      | [] => None
      | _ => if boundary l4 then Some (OReal, false, 0, l4) else None
      end
  | _ =>
      match ip with
      | [] => None
      | _ => if boundary l2 then
               let v := dval 0 ip in
               let neg := match sign with Some 45 => true | _ => false end in
               Some (OInt (if neg then (- Z.of_N v)%Z else Z.of_N v),
                     match sign with None => true | _ => false end, v, l2)
             else None
      end
  end.

(** after an unsigned integer n: "ws uint ws R" with a token boundary makes a reference *)
Definition read_ref_tail (l : bytes) : option (N * bytes) :=
  match l with
  | c :: _ =>
      if is_ws c then
        match read_uint (skip_ws l) with
        | Some (g, r1) =>
            match r1 with
            | c1 :: _ =>
                if is_ws c1 then
                  match skip_ws r1 with
                  | 82 :: r2 => if boundary r2 then Some (g, r2) else None
                  | _ => None
                  end
                else None
            | [] => None
            end
        | None => None
        end
      else None
  | [] => None
  end.

Definition read_kw (kw : bytes) (l : bytes) : option bytes :=
  match strip kw l with
  | Some r => if boundary r then Some r else None
  | None => None
  end.

Fixpoint parse_obj (fuel : nat) (l0 : bytes) : option (obj * bytes) :=
  match fuel with
  | O => None
  | S f =>
    let l := skip_ws l0 in
    match l with
    | [] => None
    | c :: r =>
      if c =? 47 then                                   (* /name *)
        match read_name (S (length r)) r [] with
        | Some (n, r') => Some (OName n, r')
        | None => None
        end
      else if c =? 40 then                              (* (string) *)
        match read_lit 0 r with Some r' => Some (OStr, r') | None => None end
      else if c =? 60 then                              (* << or <hex> *)
        match r with
        | 60 :: r1 =>
            (fix items (k : nat) (l1 : bytes) (acc : list (bytes * obj)) {struct k}
               : option (obj * bytes) :=
               match k with
               | O => None
               | S k' =>
                 match skip_ws l1 with
                 | 62 :: 62 :: r2 => Some (ODict (rev acc), r2)
                 | 47 :: r2 =>
                     match read_name (S (length r2)) r2 [] with
                     | Some (key, r3) =>
                         match parse_obj f r3 with
                         | Some (v, r4) => items k' r4 ((key, v) :: acc)
                         | None => None
                         end
                     | None => None
                     end
                 | _ => None
                 end
               end) f r1 []
        | _ => match read_hex r with Some r' => Some (OStr, r') | None => None end
        end
      else if c =? 91 then                              (* [array] *)
        (fix items (k : nat) (l1 : bytes) (acc : list obj) {struct k} : option (obj * bytes) :=
           match k with
           | O => None
           | S k' =>
             match skip_ws l1 with
             | 93 :: r2 => Some (OArr (rev acc), r2)
             | _ => match parse_obj f l1 with
                    | Some (v, r3) => items k' r3 (v :: acc)
                    | None => None
                    end
             end
           end) f r []
      else if is_digit c || (c =? 43) || (c =? 45) || (c =? 46) then
        match read_number l with
        | Some (v, plain, n, r1) =>
            if plain then
              match read_ref_tail r1 with
              | Some (g, r2) => Some (ORef n g, r2)
              | None => Some (v, r1)
              end
            else Some (v, r1)
        | None => None
        end
      else
        match read_kw (S_ "true") l with
        | Some r' => Some (OBool true, r')
        | None =>
          match read_kw (S_ "false") l with
          | Some r' => Some (OBool false, r')
          | None =>
            match read_kw (S_ "null") l with
            | Some r' => Some (ONull, r')
            | None => None
            end
          end
        end
    end
  end.

Fixpoint dict_get (k : bytes) (d : list (bytes * obj)) : option obj :=
  match d with
  | [] => None
  | (k', v) :: r => if bytes_eqb k' k then Some v else dict_get k r
  end.

Fixpoint refs_of (fuel : nat) (o : obj) : list (N * N) :=
  match fuel with
  | O => []
  | S f =>
    match o with
    | ORef n g => [(n, g)]
    | OArr l => flat_map (refs_of f) l
    | ODict d => flat_map (fun kv => refs_of f (snd kv)) d
    | _ => []
    end
  end.

(** * 7.5.4 cross-reference table *)
Record entry := { e_num : N; e_off : N; e_gen : N; e_used : bool }.

(** exactly [k] digits *)
Fixpoint read_fixed (k : nat) (l : bytes) (acc : N) : option (N * bytes) :=
  match k with
  | O => Some (acc, l)
  | S k' => match l with
            | c :: r => if is_digit c then read_fixed k' r (acc * 10 + (c - 48)) else None
            | [] => None
            end
  end.

(** one 20-byte entry: nnnnnnnnnn SP ggggg SP (n|f) EOL2, EOL2 in {SP CR, SP LF, CR LF} *)
Definition read_entry (num : N) (l : bytes) : option (entry * bytes) :=
  match read_fixed 10 l 0 with
  | Some (off, sp1 :: l1) =>
      match read_fixed 5 l1 0 with
      | Some (gen, sp2 :: t :: e1 :: e2 :: l2) =>
          if (sp1 =? 32) && (sp2 =? 32) && ((t =? 110) || (t =? 102))
             && (((e1 =? 32) && is_eol e2) || ((e1 =? 13) && (e2 =? 10)))
          then Some ({| e_num := num; e_off := off; e_gen := gen; e_used := t =? 110 |}, l2)
          else None
      | _ => None
      end
  | _ => None
  end.

Fixpoint read_entries (k : nat) (num : N) (l : bytes) (acc : list entry) : option (list entry * bytes) :=
  match k with
  | O => Some (acc, l)
  | S k' => match read_entry num l with
            | Some (e, r) => read_entries k' (num + 1) r (e :: acc)
            | None => None
            end
  end.

(** horizontal white space then one end-of-line marker *)
Definition read_eol (l : bytes) : option bytes :=
  match snd (span (fun c => (c =? 32) || (c =? 9)) l) with
  | 13 :: 10 :: r => Some r
  | 13 :: r => Some r
  | 10 :: r => Some r
  | _ => None
  end.

(** subsections until the keyword [trailer]; the table is returned newest-entry-first *)
Fixpoint read_subsections (fuel : nat) (l : bytes) (acc : list entry) : option (list entry * bytes) :=
  match fuel with
  | O => None
  | S f =>
    match read_kw (S_ "trailer") l with
    | Some r => Some (acc, r)
    | None =>
      match read_uint l with
      | Some (first, 32 :: l1) =>
          match read_uint l1 with
          | Some (count, l2) =>
              match read_eol l2 with
              | Some l3 =>
                  match read_entries (N.to_nat count) first l3 acc with
                  | Some (acc', l4) => read_subsections f l4 acc'
                  | None => None
                  end
              | None => None
              end
          | None => None
          end
      | _ => None
      end
    end
  end.

Definition read_xref (l : bytes) : option (list entry * bytes) :=
  match strip (S_ "xref") l with
  | Some l1 => match read_eol l1 with
               | Some l2 => read_subsections (S (length l2)) l2 []
               | None => None
               end
  | None => None
  end.

(** * 7.5.5 the end of the file, read backwards:  startxref EOL digits EOL %%EOF [EOL] *)
Definition read_tail (b : bytes) : option N :=
  let rb := rev b in
  let '(_, r1) := span is_ws rb in
  match strip (rev (S_ "%%EOF")) r1 with
  | Some r2 =>
      let '(w2, r3) := span is_ws r2 in
      let '(dsr, r4) := span is_digit r3 in
      let '(w1, r5) := span is_ws r4 in
      match w2, dsr, w1, strip (rev (S_ "startxref")) r5 with
      | _ :: _, _ :: _, _ :: _, Some _ => Some (dval 0 (rev dsr))
      | _, _, _, _ => None
      end
  | None => None
  end.

(** * 7.5.2 header *)
Definition read_header (b : bytes) : bool :=
  match strip (S_ "%PDF-") b with
  | Some (ma :: dot :: mi :: r) => (dot =? 46) && is_digit ma && is_digit mi && boundary r
  | _ => false
  end.

(** * 7.3.10 / 7.3.8 an indirect object at a given offset *)
Definition obj_header (l : bytes) (n g : N) : option bytes :=
  match read_uint l with
  | Some (n', (c1 :: _) as l1) =>
      if (n' =? n) && is_ws c1 then
        match read_uint (skip_ws l1) with
        | Some (g', (c2 :: _) as l2) =>
            if (g' =? g) && is_ws c2 then read_kw (S_ "obj") (skip_ws l2) else None
        | _ => None
        end
      else None
  | _ => None
  end.

(** the value, then for a dictionary an optional stream whose direct /Length is exact,
    then [endobj]; returns the references found *)
Definition read_body (l : bytes) : option (list (N * N)) :=
  let fuel := S (length l) in
  match parse_obj fuel l with
  | Some (o, r) =>
      let refs := refs_of fuel o in
      let r1 := skip_ws r in
      match read_kw (S_ "endobj") r1 with
      | Some _ => Some refs
      | None =>
          match o, strip (S_ "stream") r1 with
          | ODict d, Some r2 =>
              match (match r2 with 13 :: 10 :: r3 => Some r3 | 10 :: r3 => Some r3 | _ => None end),
                    dict_get (S_ "Length") d with
              | Some data, Some (OInt z) =>
                  if (0 <=? z)%Z then
                    let after := drop (Z.to_N z) data in
                    if len data <? Z.to_N z then None
                    else
                      let after' := match after with
                                    | 13 :: 10 :: a => a | 13 :: a => a | 10 :: a => a | a => a end in
                      match read_kw (S_ "endstream") after' with
                      | Some r4 => match read_kw (S_ "endobj") (skip_ws r4) with
                                   | Some _ => Some refs
                                   | None => None
                                   end
                      | None => None
                      end
                  else None
              | _, _ => None
              end
          | _, _ => None
          end
      end
  | None => None
  end.

Definition check_object (b : bytes) (e : entry) : option (list (N * N)) :=
  if e_used e then
    match obj_header (drop (e_off e) b) (e_num e) (e_gen e) with
    | Some r => read_body r
    | None => None
    end
  else Some [].

Fixpoint find_entry (n : N) (t : list entry) : option entry :=
  match t with
  | [] => None
  | e :: r => if e_num e =? n then Some e else find_entry n r
  end.

Definition resolves (t : list entry) (r : N * N) : bool :=
  match find_entry (fst r) t with
  | Some e => e_used e && (e_gen e =? snd r)
  | None => false
  end.

Fixpoint max_num (t : list entry) : N :=
  match t with [] => 0 | e :: r => N.max (e_num e) (max_num r) end.

Fixpoint nodup_nums (t : list entry) : bool :=
  match t with
  | [] => true
  | e :: r => match find_entry (e_num e) r with Some _ => false | None => nodup_nums r end
  end.

Fixpoint collect_refs (b : bytes) (t : list entry) : option (list (N * N)) :=
  match t with
  | [] => Some []
  | e :: r => match check_object b e, collect_refs b r with
              | Some a, Some c => Some (a ++ c)
              | _, _ => None
              end
  end.

(** failure code of the checker: 0 = valid; otherwise the first clause that fails
    1 header, 2 startxref/EOF, 3 xref section, 4 trailer dictionary, 5 /Size, 6 duplicate
    entries, 7 an in-use entry does not point at a well-formed object (offset, tokens,
    /Length), 8 a reference does not resolve, 9 /Prev present (not a single-section file) *)
Definition pdf_code (b : bytes) : N :=
  if negb (read_header b) then 1 else
  match read_tail b with
  | None => 2
  | Some xoff =>
    if len b <=? xoff then 2 else
    match read_xref (drop xoff b) with
    | None => 3
    | Some (t, r) =>
      match parse_obj (S (length r)) r with
      | Some (ODict d, _) =>
          match dict_get (S_ "Prev") d with
          | Some _ => 9
          | None =>
          match dict_get (S_ "Size") d, dict_get (S_ "Root") d with
          | Some (OInt sz), Some (ORef rn rg) =>
              if negb (sz =? Z.of_N (max_num t + 1))%Z then 5 else
              if negb (nodup_nums t) then 6 else
              match collect_refs b t with
              | None => 7
              | Some refs =>
                  if forallb (resolves t) (refs_of (S (length r)) (ODict d) ++ refs) then 0 else 8
              end
          | _, _ => 4
          end
          end
      | _ => 4
      end
    end
  end.

Definition valid_pdf (b : bytes) : bool := pdf_code b =? 0.
