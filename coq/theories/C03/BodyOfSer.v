(** C03 — [BodyOk] DERIVED for the bytes of C09's serialiser model ([C09.Model.ser esc_iso]):
    the checker's own value reader [parse_obj] reads [ser esc_iso v ++ tail] back as the
    checker's value [cv v] and stops exactly at [tail].  Proofs only: no executable definition
    used by the correspondence is changed ([num_body]/[read_number'] restate [read_number] with
    a boolean test instead of a constant pattern and are proved equal to it).

      [read_scalar]    (1) null, booleans, integers (signed), reals, literal strings with
                           escapes, hex strings, names incl. #XX escapes, references
      [read_array_flat](2) arrays of those
      [read_dict_flat] (3) dictionaries of those, in the writer's (sorted) order
      [read_ser]       (4) full nesting
      [bodyok_of_ser]      BodyOk P (ser esc_iso v)
      [bodyok_of_ser_stream]  BodyOk P (ser esc_iso (ODict l) ++ "\nstream\n" data "\nendstream")
      [writer_output_valid_ser] (5) the validity theorem with the BodyOk hypothesis replaced

    Class of values ([ck_ok], weaker than C09's [wf] + [nonul_names]): hex-string bytes < 256,
    name bytes in 1..255.  A NUL byte in a name is written "#00" by [esc_iso]; ISO 32000-1 7.3.5
    excludes it and this checker rejects it ([nul_name_refuted]) — exactly that class is excluded. *)
From OxVerif Require Import Base.Util C03.Checker C03.Writer C03.Sound C03.WriterProofs C03.FullTable
  C03.FullObjects C03.Full.
From OxVerif Require C09.Model C09.Tokens C09.Proofs C09.Reals.
Require Import Lia ZifyBool.
Module M := C09.Model.
Module MP := C09.Proofs.

Local Notation ser := (M.ser M.esc_iso).

(** * the checker's value for a source value *)
Fixpoint cv (v : M.obj) : obj :=
  match v with
  | M.ONull => ONull
  | M.OBool b => OBool b
  | M.OInt z => OInt z
  | M.OReal neg m => if m mod 1000000 =? 0 then OInt (M.real_int neg m) else OReal
  | M.OStr _ => OStr
  | M.OHex _ => OStr
  | M.OName n => OName n
  | M.OArr l => OArr (List.map cv l)
  | M.ODict l => ODict (M.sort_kv (List.map (fun '(k, x) => (k, cv x)) l))
  | M.ORef n g => ORef n g
  end.

Fixpoint orefs (v : M.obj) : list (N * N) :=
  match v with
  | M.ORef n g => [(n, g)]
  | M.OArr l => flat_map orefs l
  | M.ODict l => flat_map (fun kv => orefs (snd kv)) l
  | _ => []
  end.

Definition name_ok (n : bytes) : bool := forallb (fun c => (0 <? c) && (c <? 256)) n.

Fixpoint ck_ok (v : M.obj) : bool :=
  match v with
  | M.OHex s => bytes_ok s
  | M.OName n => name_ok n
  | M.OArr l => forallb ck_ok l
  | M.ODict l => forallb (fun kv => name_ok (fst kv) && ck_ok (snd kv)) l
  | _ => true
  end.

Definition nonul (n : bytes) : bool := forallb (fun c => negb (c =? 0)) n.
Fixpoint nonul_names (v : M.obj) : bool :=
  match v with
  | M.OName n => nonul n
  | M.OArr l => forallb nonul_names l
  | M.ODict l => forallb (fun kv => nonul (fst kv) && nonul_names (snd kv)) l
  | _ => true
  end.

Lemma cv_dict : forall l, cv (M.ODict l) = ODict (List.map (MP.on_snd cv) (M.sort_kv l)).
Proof. intro l. cbn [cv]. rewrite MP.map_pair_on_snd, MP.sort_kv_map. reflexivity. Qed.

(** * what may follow a value: a non-regular byte, the next token is not a bare R, and the
    reference look-ahead fails *)
Definition bnd (t : bytes) : bool := match t with c :: _ => negb (is_regular c) | [] => false end.
Definition nextR (t : bytes) : bool := match skip_ws t with 82 :: _ => true | _ => false end.
Definition TailOk (t : bytes) : Prop := bnd t = true /\ nextR t = false /\ read_ref_tail t = None.

Lemma tail_rb : forall r, TailOk (93 :: r).
Proof. intro r. repeat split. Qed.
Lemma tail_lf_gt : forall r, TailOk (10 :: 62 :: r).
Proof. intro r. repeat split. Qed.
Lemma tail_lf_slash : forall r, TailOk (10 :: 47 :: r).
Proof. intro r. repeat split. Qed.
Lemma tail_obj_end : forall r, TailOk (obj_end ++ r).
Proof. intro r. repeat split. Qed.
Lemma tail_stream_open : forall r, TailOk (stream_open ++ r).
Proof. intro r. repeat split. Qed.

Lemma bnd_cons : forall t, bnd t = true -> exists c r, t = c :: r /\ is_regular c = false.
Proof.
  intros [|c r] H; [discriminate|]. exists c, r. split; [reflexivity|].
  cbn [bnd] in H. apply negb_true_iff in H. exact H.
Qed.
Lemma bnd_boundary : forall t, bnd t = true -> boundary t = true.
Proof. intros [|c r] H; [discriminate|exact H]. Qed.

Lemma nonreg_facts : forall c, is_regular c = false ->
  is_digit c = false /\ (c =? 46) = false /\ (c =? 82) = false.
Proof.
  intros c H. unfold is_regular, is_ws, is_delim in H. unfold is_digit, M.is_digit. lia.
Qed.

(** first byte of a token the serialiser writes that is not a digit *)
Definition startc (c : N) : bool :=
  (c =? 110) || (c =? 116) || (c =? 102) || (c =? 45) || (c =? 40) || (c =? 60) || (c =? 47) || (c =? 91).

Lemma startc_cases : forall c, startc c = true ->
  c = 110 \/ c = 116 \/ c = 102 \/ c = 45 \/ c = 40 \/ c = 60 \/ c = 47 \/ c = 91.
Proof. intros c H. unfold startc in H. lia. Qed.

Lemma skip_ws_start : forall c r, is_ws c = false -> (c =? 37) = false -> skip_ws (c :: r) = c :: r.
Proof. intros c r H1 H2. unfold skip_ws. cbn [skip_ws_c]. rewrite H1, H2. reflexivity. Qed.

Lemma tail_sp_start : forall c r, startc c = true -> TailOk (32 :: c :: r).
Proof.
  intros c r H. apply startc_cases in H.
  destruct H as [->|[->|[->|[->|[->|[->|[->| ->]]]]]]]; repeat split.
Qed.

Lemma dec_app_cons : forall n t, exists d ds, dec n ++ t = d :: ds ++ t /\ dec n = d :: ds /\ is_digit d = true.
Proof.
  intros n t. destruct (dec_cons n) as [d [ds [E [Hd _]]]]. exists d, ds. rewrite E. repeat split. exact Hd.
Qed.

Lemma digit_ws : forall d, is_digit d = true -> is_ws d = false /\ (d =? 37) = false /\ (d =? 82) = false /\ (d =? 93) = false.
Proof. intros d H. unfold is_digit, M.is_digit in H. unfold is_ws. lia. Qed.

(** a space, an unsigned integer, then a good tail *)
Lemma tail_sp_uint : forall n t, TailOk t -> TailOk (32 :: dec n ++ t).
Proof.
  intros n t [Hb [Hr Hf]]. destruct (bnd_cons t Hb) as [c [r [-> Hc]]].
  destruct (nonreg_facts c Hc) as [Hcd _].
  destruct (dec_app_cons n (c :: r)) as [d [ds [E [E' Hd]]]].
  destruct (digit_ws d Hd) as [W1 [W2 [W3 _]]].
  assert (SK : skip_ws (32 :: dec n ++ c :: r) = dec n ++ c :: r).
  { rewrite skip_ws_ws by reflexivity. rewrite E. apply skip_ws_start; assumption. }
  repeat split.
  - unfold nextR. rewrite SK, E. destruct d as [|p]; [reflexivity|].
    repeat (destruct p; try reflexivity). discriminate.
  - unfold read_ref_tail. change (is_ws 32) with true. cbv iota. rewrite SK.
    rewrite read_uint_dec by exact Hcd.
    destruct (is_ws c); [|reflexivity].
    unfold nextR in Hr. destruct (skip_ws (c :: r)) as [|x y]; [reflexivity|].
    destruct x as [|p]; [reflexivity|]. repeat (destruct p; try reflexivity). discriminate.
Qed.

(** a space, an unsigned integer, a '.', ... *)
Lemma tail_sp_uint_dot : forall n t, TailOk (32 :: dec n ++ 46 :: t).
Proof.
  intros n t.
  destruct (dec_app_cons n (46 :: t)) as [d [ds [E [E' Hd]]]].
  destruct (digit_ws d Hd) as [W1 [W2 [W3 _]]].
  assert (SK : skip_ws (32 :: dec n ++ 46 :: t) = dec n ++ 46 :: t).
  { rewrite skip_ws_ws by reflexivity. rewrite E. apply skip_ws_start; assumption. }
  repeat split.
  - unfold nextR. rewrite SK, E. destruct d as [|p]; [reflexivity|].
    repeat (destruct p; try reflexivity). discriminate.
  - unfold read_ref_tail. change (is_ws 32) with true. cbv iota. rewrite SK.
    rewrite read_uint_dec by reflexivity. reflexivity.
Qed.

(** a space, then a reference *)
Lemma tail_sp_ref : forall n g t, TailOk (32 :: dec n ++ 32 :: dec g ++ 32 :: 82 :: t).
Proof.
  intros n g t.
  destruct (dec_app_cons n (32 :: dec g ++ 32 :: 82 :: t)) as [d [ds [E [E' Hd]]]].
  destruct (digit_ws d Hd) as [W1 [W2 [W3 _]]].
  assert (SK : skip_ws (32 :: dec n ++ 32 :: dec g ++ 32 :: 82 :: t) = dec n ++ 32 :: dec g ++ 32 :: 82 :: t).
  { rewrite skip_ws_ws by reflexivity. rewrite E. apply skip_ws_start; assumption. }
  repeat split.
  - unfold nextR. rewrite SK, E. destruct d as [|p]; [reflexivity|].
    repeat (destruct p; try reflexivity). discriminate.
  - unfold read_ref_tail. change (is_ws 32) with true. cbv iota. rewrite SK.
    rewrite read_uint_dec by reflexivity. change (is_ws 32) with true. cbv iota.
    destruct (dec_app_cons g (32 :: 82 :: t)) as [d2 [ds2 [F [F' Hd2]]]].
    destruct (digit_ws d2 Hd2) as [V1 [V2 [V3 _]]].
    rewrite skip_ws_ws by reflexivity. rewrite F. rewrite skip_ws_start by assumption.
    destruct d2 as [|p]; [reflexivity|]. repeat (destruct p; try reflexivity). discriminate.
Qed.

(** * the numeric reader with a boolean test for '.' *)
Definition num_body (sign : option N) (l1 : bytes) : option (obj * bool * N * bytes) :=
  let '(ip, l2) := span is_digit l1 in
  let int_branch :=
      match ip with
      | [] => None
      | _ => if boundary l2 then
               let v := dval 0 ip in
               let neg := match sign with Some 45 => true | _ => false end in
               Some (OInt (if neg then (- Z.of_N v)%Z else Z.of_N v),
                     match sign with None => true | _ => false end, v, l2)
             else None
      end in
  match l2 with
  | c :: l3 =>
      if c =? 46 then
        let '(fp, l4) := span is_digit l3 in
        match ip ++ fp with
        | [] => None
        | _ => if boundary l4 then Some (OReal, false, 0, l4) else None
        end
      else int_branch
  | [] => int_branch
  end.

Definition read_number' (l : bytes) : option (obj * bool * N * bytes) :=
  let '(sign, l1) := match l with
                     | c :: r => if (c =? 43) || (c =? 45) then (Some c, r) else (None, l)
                     | [] => (None, l) end in
  num_body sign l1.

Lemma read_number_eq : forall l, read_number l = read_number' l.
Proof.
  intro l. unfold read_number, read_number', num_body.
  destruct (match l with
            | c :: r => if (c =? 43) || (c =? 45) then (Some c, r) else (None, l)
            | [] => (None, l) end) as [sign l1].
  destruct (span is_digit l1) as [ip l2].
  destruct l2 as [|c l3]; [reflexivity|].
  destruct c as [|p]; [reflexivity|].
  do 6 (destruct p; try reflexivity).
Qed.

Lemma read_number_neg : forall l1, read_number (45 :: l1) = num_body (Some 45) l1.
Proof. intro l1. rewrite read_number_eq. reflexivity. Qed.
Lemma read_number_pos : forall d l1, is_digit d = true -> read_number (d :: l1) = num_body None (d :: l1).
Proof.
  intros d l1 H. rewrite read_number_eq. unfold read_number'.
  assert (R : 48 <= d /\ d <= 57) by (unfold is_digit, M.is_digit in H; lia).
  replace ((d =? 43) || (d =? 45)) with false by lia. reflexivity.
Qed.

Lemma num_body_int : forall sign ds c r, ds <> [] -> forallb is_digit ds = true -> is_regular c = false ->
  num_body sign (ds ++ c :: r) =
    Some (OInt (if match sign with Some 45 => true | _ => false end then (- Z.of_N (dval 0 ds))%Z else Z.of_N (dval 0 ds)),
          match sign with None => true | _ => false end, dval 0 ds, c :: r).
Proof.
  intros sign ds c r Hn Hd Hc. destruct (nonreg_facts c Hc) as [Hcd [Hc46 _]].
  unfold num_body. rewrite (span_app_stop _ _ _ _ Hd Hcd). rewrite Hc46.
  destruct ds as [|d ds]; [contradiction|]. cbn [boundary]. rewrite Hc. reflexivity.
Qed.

Lemma num_body_real : forall sign ip fp c r, forallb is_digit ip = true -> forallb is_digit fp = true ->
  ip <> [] -> is_regular c = false ->
  num_body sign (ip ++ 46 :: fp ++ c :: r) = Some (OReal, false, 0, c :: r).
Proof.
  intros sign ip fp c r Hi Hf Hn Hc. destruct (nonreg_facts c Hc) as [Hcd _].
  unfold num_body. rewrite (span_app_stop _ _ _ _ Hi) by reflexivity.
  change (46 =? 46) with true. cbv iota.
  rewrite (span_app_stop _ _ _ _ Hf Hcd).
  destruct ip as [|d ip]; [contradiction|]. cbn [app boundary]. rewrite Hc. reflexivity.
Qed.

(** * branch selection of [parse_obj] *)
Lemma parse_obj_skip : forall fuel l l', skip_ws l = skip_ws l' -> parse_obj fuel l = parse_obj fuel l'.
Proof. intros [|f] l l' H; [reflexivity|]. cbn [parse_obj]. rewrite H. reflexivity. Qed.
Lemma parse_obj_ws : forall fuel c l, is_ws c = true -> parse_obj fuel (c :: l) = parse_obj fuel l.
Proof. intros. apply parse_obj_skip. apply skip_ws_ws. assumption. Qed.

Lemma parse_obj_name : forall f l r, skip_ws l = 47 :: r ->
  parse_obj (S f) l = match read_name (S (length r)) r [] with
                      | Some (n, r') => Some (OName n, r') | None => None end.
Proof. intros f l r H. cbn [parse_obj]. rewrite H. reflexivity. Qed.
Lemma parse_obj_lit : forall f l r, skip_ws l = 40 :: r ->
  parse_obj (S f) l = match read_lit 0 r with Some r' => Some (OStr, r') | None => None end.
Proof. intros f l r H. cbn [parse_obj]. rewrite H. reflexivity. Qed.
Lemma parse_obj_hex : forall f l r, skip_ws l = 60 :: r ->
  match r with 60 :: _ => False | _ => True end ->
  parse_obj (S f) l = match read_hex r with Some r' => Some (OStr, r') | None => None end.
Proof.
  intros f l r H K. cbn [parse_obj]. rewrite H. change (60 =? 47) with false. change (60 =? 40) with false.
  change (60 =? 60) with true. cbv iota.
  destruct r as [|c r']; [reflexivity|]. destruct c as [|p]; [reflexivity|].
  repeat (destruct p; try reflexivity). exfalso; exact K.
Qed.
Lemma parse_obj_minus : forall f l r, skip_ws l = 45 :: r ->
  parse_obj (S f) l =
    match read_number (45 :: r) with
    | Some (v, plain, n, r1) =>
        if plain then match read_ref_tail r1 with
                      | Some (g, r2) => Some (ORef n g, r2)
                      | None => Some (v, r1)
                      end
        else Some (v, r1)
    | None => None
    end.
Proof. intros f l r H. cbn [parse_obj]. rewrite H. reflexivity. Qed.
Lemma parse_obj_kw : forall f l c r, skip_ws l = c :: r -> c = 110 \/ c = 116 \/ c = 102 ->
  parse_obj (S f) l =
    match read_kw (S_ "true") (c :: r) with
    | Some r' => Some (OBool true, r')
    | None =>
      match read_kw (S_ "false") (c :: r) with
      | Some r' => Some (OBool false, r')
      | None => match read_kw (S_ "null") (c :: r) with
                | Some r' => Some (ONull, r') | None => None end
      end
    end.
Proof. intros f l c r H Hc. cbn [parse_obj]. rewrite H. destruct Hc as [->|[->| ->]]; reflexivity. Qed.

Definition arr_items (f : nat) : nat -> bytes -> list obj -> option (obj * bytes) :=
  fix items (k : nat) (l1 : bytes) (acc : list obj) {struct k} : option (obj * bytes) :=
    match k with
    | O => None
    | S k' =>
      match skip_ws l1 with
      | 93 :: r2 => Some (OArr (rev acc), r2)
      | _ => match parse_obj f l1 with
             | Some (v, r3) => items k' r3 (v :: acc)
             | None => None
             end
      end
    end.
Lemma parse_obj_arr : forall f l r, skip_ws l = 91 :: r -> parse_obj (S f) l = arr_items f f r [].
Proof. intros f l r H. cbn [parse_obj]. rewrite H. reflexivity. Qed.
Lemma arr_items_end : forall f k t acc, arr_items f (S k) (93 :: t) acc = Some (OArr (rev acc), t).
Proof. reflexivity. Qed.
Lemma arr_items_item : forall f k l1 acc c r, skip_ws l1 = c :: r -> (c =? 93) = false ->
  arr_items f (S k) l1 acc = match parse_obj f l1 with
                             | Some (v, r3) => arr_items f k r3 (v :: acc)
                             | None => None end.
Proof.
  intros f k l1 acc c r H Hc. cbn [arr_items]. rewrite H.
  destruct c as [|p]; [reflexivity|]. repeat (destruct p; try reflexivity). discriminate.
Qed.
Lemma dict_items_entry : forall f k r2 acc,
  dict_items f (S k) (10 :: 47 :: r2) acc =
    match read_name (S (length r2)) r2 [] with
    | Some (key, r3) =>
        match parse_obj f r3 with
        | Some (v, r4) => dict_items f k r4 ((key, v) :: acc)
        | None => None
        end
    | None => None
    end.
Proof. reflexivity. Qed.
Lemma dict_items_end : forall f k t acc, dict_items f (S k) (10 :: 62 :: 62 :: t) acc = Some (ODict (rev acc), t).
Proof. reflexivity. Qed.

(** * (1) scalars *)
(** literal strings: the writer escapes \ ( ) so the depth stays 0 *)
Lemma read_lit_esc : forall s t, read_lit 0 (M.esc_str s ++ 41 :: t) = Some t.
Proof.
  induction s as [|c s IH]; intro t; [reflexivity|].
  cbn [M.esc_str]. destruct ((c =? 92) || (c =? 40) || (c =? 41)) eqn:E.
  - cbn [app read_lit]. change (92 =? 92) with true. cbv iota. apply IH.
  - cbn [app read_lit].
    replace (c =? 92) with false by lia. replace (c =? 40) with false by lia.
    replace (c =? 41) with false by lia. apply IH.
Qed.

(** hex strings *)
Definition hexb_ok (b : N) : bool :=
  let h := M.hexdig (b / 16) in let l := M.hexdig (b mod 16) in
  negb (h =? 62) && negb (is_ws h) && (match hexv h with Some _ => true | None => false end) &&
  negb (l =? 62) && negb (is_ws l) && (match hexv l with Some _ => true | None => false end).
Lemma hexb_sweep : forall b, b < 256 -> hexb_ok b = true.
Proof. apply allb_spec. vm_compute. reflexivity. Qed.

Lemma read_hex_ser : forall s t, bytes_ok s = true -> read_hex (M.ser_hex s ++ 62 :: t) = Some t.
Proof.
  induction s as [|b s IH]; intros t H; [reflexivity|].
  cbn [bytes_ok forallb] in H. apply andb_true_iff in H. destruct H as [Hb Hs].
  unfold byte_ok in Hb. apply N.ltb_lt in Hb.
  pose proof (hexb_sweep b Hb) as K. unfold hexb_ok in K.
  apply andb_true_iff in K. destruct K as [K K6]. apply andb_true_iff in K. destruct K as [K K5].
  apply andb_true_iff in K. destruct K as [K K4]. apply andb_true_iff in K. destruct K as [K K3].
  apply andb_true_iff in K. destruct K as [K1 K2].
  apply negb_true_iff in K1, K2, K4, K5.
  cbn [M.ser_hex app read_hex]. rewrite K1, K2.
  destruct (hexv (M.hexdig (b / 16))); [|discriminate].
  rewrite K4, K5. destruct (hexv (M.hexdig (b mod 16))); [|discriminate].
  apply IH. exact Hs.
Qed.

(** names: plain bytes are regular and not '#', the others come back from their #XX *)
Definition nmb_ok (c : N) : bool :=
  if M.iso_plain c then is_regular c && negb (c =? 35)
  else match hexv (M.hexdig (c / 16)), hexv (M.hexdig (c mod 16)) with
       | Some a, Some b => (a * 16 + b =? c)
       | _, _ => false
       end.
Lemma nmb_sweep : forall c, c < 256 -> nmb_ok c = true.
Proof. apply allb_spec. vm_compute. reflexivity. Qed.

Lemma read_name_esc_iso : forall n, name_ok n = true -> forall fuel acc c r, is_regular c = false ->
  (length (M.esc_iso n) < fuel)%nat ->
  read_name fuel (M.esc_iso n ++ c :: r) acc = Some (rev acc ++ n, c :: r).
Proof.
  induction n as [|x n IH]; intros H fuel acc c r Hc Hf.
  - destruct fuel as [|f]; [cbn in Hf; lia|]. cbn [M.esc_iso app read_name]. rewrite Hc, app_nil_r. reflexivity.
  - cbn [name_ok forallb] in H. apply andb_true_iff in H. destruct H as [Hx Hn].
    assert (X0 : (x =? 0) = false) by lia. assert (X1 : x < 256) by lia.
    pose proof (nmb_sweep x X1) as K. unfold nmb_ok in K.
    destruct fuel as [|f]; [cbn in Hf; lia|].
    cbn [M.esc_iso] in *. destruct (M.iso_plain x).
    + apply andb_true_iff in K. destruct K as [K1 K2]. apply negb_true_iff in K2.
      cbn [app read_name]. rewrite K1, K2.
      rewrite IH; [|exact Hn|exact Hc|cbn [length] in Hf; lia].
      cbn [rev]. rewrite <- app_assoc. reflexivity.
    + cbn [app read_name]. change (is_regular 35) with true. change (35 =? 35) with true. cbv iota.
      destruct (hexv (M.hexdig (x / 16))) as [a|]; [|discriminate].
      destruct (hexv (M.hexdig (x mod 16))) as [b|]; [|discriminate].
      apply N.eqb_eq in K. rewrite K, X0.
      rewrite IH; [|exact Hn|exact Hc|cbn [length] in Hf; lia].
      cbn [rev]. rewrite <- app_assoc. reflexivity.
Qed.

Definition ReadP (v : M.obj) : Prop :=
  ck_ok v = true -> forall tail fuel, TailOk tail -> (length (ser v) < fuel)%nat ->
  parse_obj fuel (ser v ++ tail) = Some (cv v, tail).

Lemma read_null : ReadP M.ONull.
Proof.
  intros _ tail fuel [Hb _] Hf. destruct fuel as [|f]; [lia|].
  change (ser M.ONull ++ tail) with (S_ "null" ++ tail).
  rewrite (parse_obj_kw f _ 110 (117 :: 108 :: 108 :: tail)); [|reflexivity|left; reflexivity].
  change (110 :: 117 :: 108 :: 108 :: tail) with (S_ "null" ++ tail).
  rewrite (read_kw_app (S_ "null")) by (apply bnd_boundary; exact Hb). reflexivity.
Qed.
Lemma read_bool : forall b, ReadP (M.OBool b).
Proof.
  intros b _ tail fuel [Hb _] Hf. destruct fuel as [|f]; [lia|].
  destruct b.
  - change (ser (M.OBool true) ++ tail) with (S_ "true" ++ tail).
    rewrite (parse_obj_kw f _ 116 (114 :: 117 :: 101 :: tail)); [|reflexivity|right; left; reflexivity].
    change (116 :: 114 :: 117 :: 101 :: tail) with (S_ "true" ++ tail).
    rewrite (read_kw_app (S_ "true")) by (apply bnd_boundary; exact Hb). reflexivity.
  - change (ser (M.OBool false) ++ tail) with (S_ "false" ++ tail).
    rewrite (parse_obj_kw f _ 102 (97 :: 108 :: 115 :: 101 :: tail)); [|reflexivity|right; right; reflexivity].
    change (102 :: 97 :: 108 :: 115 :: 101 :: tail) with (S_ "false" ++ tail).
    rewrite (read_kw_app (S_ "false")) by (apply bnd_boundary; exact Hb). reflexivity.
Qed.

(** sign, digits, then the tail: an integer; the look-ahead for "g R" fails on a good tail *)
Lemma parse_signed : forall (neg : bool) n tail f, TailOk tail ->
  parse_obj (S f) ((if neg then [45] else []) ++ dec n ++ tail)
    = Some (OInt (if neg then (- Z.of_N n)%Z else Z.of_N n), tail).
Proof.
  intros neg n tail f [Hb [Hr Hf]]. destruct (bnd_cons tail Hb) as [c [r [-> Hc]]].
  destruct (dec_app_cons n (c :: r)) as [d [ds [E [E' Hd]]]].
  destruct (digit_ws d Hd) as [W1 [W2 _]].
  destruct neg; cbn [app].
  - rewrite (parse_obj_minus f _ (dec n ++ c :: r)) by reflexivity.
    rewrite read_number_neg, num_body_int; [|apply C09.Tokens.dec_nonempty|apply dec_digits'|exact Hc].
    rewrite dec_val'. reflexivity.
  - rewrite E. rewrite (parse_obj_digit f _ d (ds ++ c :: r)); [|apply skip_ws_start; assumption|exact Hd].
    rewrite read_number_pos by exact Hd. rewrite <- E.
    rewrite num_body_int; [|apply C09.Tokens.dec_nonempty|apply dec_digits'|exact Hc].
    rewrite dec_val', Hf. reflexivity.
Qed.

Lemma read_int : forall z, ReadP (M.OInt z).
Proof.
  intros z _ tail fuel HT Hf.
  destruct fuel as [|f]; [lia|].
  cbn [M.ser cv]. destruct z as [|p|p]; cbn [M.dec_z].
  - apply (parse_signed false 0 tail f HT).
  - change (M.dec (Z.to_N (Z.pos p))) with (dec (N.pos p)). apply (parse_signed false (N.pos p) tail f HT).
  - change (45 :: M.dec (N.pos p)) with ([45] ++ dec (N.pos p)). rewrite <- app_assoc.
    apply (parse_signed true (N.pos p) tail f HT).
Qed.

Ltac norm_app := cbn [app]; repeat (rewrite <- app_assoc; cbn [app]).

(** sign, digits, '.', digits: a real *)
Lemma parse_real_lit : forall (neg : bool) ip fp tail f, forallb is_digit fp = true -> TailOk tail ->
  parse_obj (S f) ((if neg then [45] else []) ++ dec ip ++ 46 :: fp ++ tail) = Some (OReal, tail).
Proof.
  intros neg ip fp tail f Hfp [Hb _]. destruct (bnd_cons tail Hb) as [c [r [-> Hc]]].
  destruct (dec_app_cons ip (46 :: fp ++ c :: r)) as [d [ds [E [E' Hd]]]].
  destruct (digit_ws d Hd) as [W1 [W2 _]].
  destruct neg; cbn [app].
  - rewrite (parse_obj_minus f _ (dec ip ++ 46 :: fp ++ c :: r)) by reflexivity.
    rewrite read_number_neg, num_body_real;
      [reflexivity|apply dec_digits'|exact Hfp|apply C09.Tokens.dec_nonempty|exact Hc].
  - rewrite E. rewrite (parse_obj_digit f _ d (ds ++ 46 :: fp ++ c :: r)); [|apply skip_ws_start; assumption|exact Hd].
    rewrite read_number_pos by exact Hd. rewrite <- E.
    rewrite num_body_real;
      [reflexivity|apply dec_digits'|exact Hfp|apply C09.Tokens.dec_nonempty|exact Hc].
Qed.

Lemma read_real : forall neg m, ReadP (M.OReal neg m).
Proof.
  intros neg m _ tail fuel HT Hf. destruct fuel as [|f]; [lia|].
  change (ser (M.OReal neg m)) with ((if neg then [45] else []) ++ dec (m / 1000000) ++ M.frac6 (m mod 1000000)).
  cbn [cv].
  assert (X : m mod 1000000 < 1000000) by (apply N.mod_lt; lia).
  destruct (C09.Reals.frac_facts _ X) as [Fd [_ [_ Fz]]]. cbv zeta in Fd, Fz.
  unfold M.frac6. destruct (M.trim0 (M.pad6 (m mod 1000000))) as [|d0 dd] eqn:T.
  - replace (m mod 1000000 =? 0) with true by (symmetry; apply N.eqb_eq; apply Fz; reflexivity).
    rewrite <- !app_assoc. cbn [app]. unfold M.real_int. apply parse_signed. exact HT.
  - replace (m mod 1000000 =? 0) with false
      by (symmetry; apply N.eqb_neq; intro E0; apply Fz in E0; discriminate).
    rewrite <- !app_assoc. cbn [app].
    change (46 :: d0 :: dd ++ tail) with (46 :: (d0 :: dd) ++ tail).
    apply parse_real_lit; assumption.
Qed.

Lemma read_str : forall s, ReadP (M.OStr s).
Proof.
  intros s _ tail fuel _ Hf. destruct fuel as [|f]; [lia|].
  change (ser (M.OStr s)) with (40 :: M.esc_str s ++ [41]). norm_app. cbn [cv].
  rewrite (parse_obj_lit f _ (M.esc_str s ++ 41 :: tail)) by reflexivity.
  rewrite read_lit_esc. reflexivity.
Qed.

Lemma read_hexs : forall s, ReadP (M.OHex s).
Proof.
  intros s Hok tail fuel _ Hf. destruct fuel as [|f]; [lia|]. cbn [ck_ok] in Hok.
  change (ser (M.OHex s)) with (60 :: M.ser_hex s ++ [62]). norm_app. cbn [cv].
  rewrite (parse_obj_hex f _ (M.ser_hex s ++ 62 :: tail)); [|reflexivity|apply MP.ser_hex_not_lt].
  rewrite read_hex_ser by exact Hok. reflexivity.
Qed.

Lemma read_nm : forall n, ReadP (M.OName n).
Proof.
  intros n Hok tail fuel [Hb _] Hf. destruct fuel as [|f]; [lia|]. cbn [ck_ok] in Hok.
  destruct (bnd_cons tail Hb) as [c [r [-> Hc]]].
  change (ser (M.OName n)) with (47 :: M.esc_iso n). cbn [app cv].
  rewrite (parse_obj_name f _ (M.esc_iso n ++ c :: r)) by reflexivity.
  rewrite read_name_esc_iso; [reflexivity|exact Hok|exact Hc|rewrite app_length; cbn [length]; lia].
Qed.

Lemma read_ref_tail_ok : forall g t, bnd t = true -> read_ref_tail (32 :: dec g ++ 32 :: 82 :: t) = Some (g, t).
Proof.
  intros g t Hb. unfold read_ref_tail. change (is_ws 32) with true. cbv iota.
  destruct (dec_app_cons g (32 :: 82 :: t)) as [d [ds [E [E' Hd]]]].
  destruct (digit_ws d Hd) as [W1 [W2 _]].
  rewrite skip_ws_ws by reflexivity. rewrite E, skip_ws_start by assumption. rewrite <- E.
  rewrite read_uint_dec by reflexivity. change (is_ws 32) with true. cbv iota.
  change (skip_ws (32 :: 82 :: t)) with (82 :: t). cbv iota.
  rewrite (bnd_boundary t Hb). reflexivity.
Qed.

Lemma read_ref : forall n g, ReadP (M.ORef n g).
Proof.
  intros n g _ tail fuel [Hb _] Hf. destruct fuel as [|f]; [lia|].
  change (ser (M.ORef n g)) with (dec n ++ 32 :: dec g ++ [32; 82]). norm_app. cbn [cv].
  destruct (dec_app_cons n (32 :: dec g ++ 32 :: 82 :: tail)) as [d [ds [E [E' Hd]]]].
  destruct (digit_ws d Hd) as [W1 [W2 _]].
  rewrite E. rewrite (parse_obj_digit f _ d (ds ++ 32 :: dec g ++ 32 :: 82 :: tail)); [|apply skip_ws_start; assumption|exact Hd].
  rewrite read_number_pos by exact Hd. rewrite <- E.
  rewrite num_body_int; [|apply C09.Tokens.dec_nonempty|apply dec_digits'|reflexivity].
  cbv iota. rewrite read_ref_tail_ok by exact Hb. rewrite dec_val'. reflexivity.
Qed.

(** (1) every scalar *)
Definition scalar (v : M.obj) : bool :=
  match v with M.OArr _ | M.ODict _ => false | _ => true end.
Theorem read_scalar : forall v, scalar v = true -> ReadP v.
Proof.
  intros [| b | z | neg m | s | s | n | l | l | n g] H; try discriminate.
  - apply read_null. - apply read_bool. - apply read_int. - apply read_real. - apply read_str.
  - apply read_hexs. - apply read_nm. - apply read_ref.
Qed.

(** * how a serialised value starts, and a value after a space is a good tail *)
Definition tokc (c : N) : bool := startc c || is_digit c.
Lemma tokc_facts : forall c, tokc c = true -> is_ws c = false /\ (c =? 37) = false /\ (c =? 93) = false.
Proof. intros c H. unfold tokc, startc, is_digit, M.is_digit in H. unfold is_ws. lia. Qed.

Lemma dec_start : forall n t, exists c r, dec n ++ t = c :: r /\ tokc c = true /\ (1 <= length (dec n))%nat.
Proof.
  intros n t. destruct (dec_app_cons n t) as [d [ds [E [E' Hd]]]]. exists d, (ds ++ t).
  split; [exact E|]. split; [unfold tokc; rewrite Hd; apply orb_true_r|rewrite E'; cbn [length]; lia].
Qed.

Lemma ser_start : forall v t, exists c r, ser v ++ t = c :: r /\ tokc c = true /\ (1 <= length (ser v))%nat.
Proof.
  intros v t. destruct v as [| b | z | neg m | s | s | n | l | l | n g].
  - eexists _, _. split; [reflexivity|]. split; [reflexivity|cbn; lia].
  - destruct b; (eexists _, _; split; [reflexivity|]; split; [reflexivity|cbn; lia]).
  - destruct z as [|p|p].
    + apply (dec_start 0).
    + apply (dec_start (N.pos p)).
    + eexists _, _. split; [reflexivity|]. split; [reflexivity|cbn [M.ser M.dec_z length]; lia].
  - change (ser (M.OReal neg m)) with ((if neg then [45] else []) ++ dec (m / 1000000) ++ M.frac6 (m mod 1000000)).
    destruct neg.
    + eexists _, _. split; [reflexivity|]. split; [reflexivity|cbn [app length]; lia].
    + cbn [app]. rewrite <- app_assoc.
      destruct (dec_start (m / 1000000) (M.frac6 (m mod 1000000) ++ t)) as [c [r [E [Hc Hl]]]].
      exists c, r. split; [exact E|]. split; [exact Hc|rewrite app_length; lia].
  - eexists _, _. split; [reflexivity|]. split; [reflexivity|cbn [M.ser length]; lia].
  - eexists _, _. split; [reflexivity|]. split; [reflexivity|cbn [M.ser length]; lia].
  - eexists _, _. split; [reflexivity|]. split; [reflexivity|cbn [M.ser length]; lia].
  - eexists _, _. split; [reflexivity|]. split; [reflexivity|cbn [M.ser length]; lia].
  - eexists _, _. split; [reflexivity|]. split; [reflexivity|cbn [M.ser length]; lia].
  - change (ser (M.ORef n g)) with (dec n ++ 32 :: dec g ++ [32; 82]). rewrite <- app_assoc.
    destruct (dec_start n ((32 :: dec g ++ [32; 82]) ++ t)) as [c [r [E [Hc Hl]]]].
    exists c, r. split; [exact E|]. split; [exact Hc|rewrite app_length; lia].
Qed.

Lemma tail_sep : forall v t, TailOk t -> TailOk (32 :: ser v ++ t).
Proof.
  intros v t HT. destruct v as [| b | z | neg m | s | s | n | l | l | n g].
  - apply (tail_sp_start 110). reflexivity.
  - destruct b; [apply (tail_sp_start 116)|apply (tail_sp_start 102)]; reflexivity.
  - destruct z as [|p|p].
    + apply (tail_sp_uint 0). exact HT.
    + apply (tail_sp_uint (N.pos p)). exact HT.
    + apply (tail_sp_start 45). reflexivity.
  - change (ser (M.OReal neg m)) with ((if neg then [45] else []) ++ dec (m / 1000000) ++ M.frac6 (m mod 1000000)).
    destruct neg.
    + apply (tail_sp_start 45). reflexivity.
    + cbn [app]. rewrite <- app_assoc. unfold M.frac6.
      destruct (M.trim0 (M.pad6 (m mod 1000000))) as [|d0 dd].
      * cbn [app]. apply tail_sp_uint. exact HT.
      * cbn [app]. apply tail_sp_uint_dot.
  - apply (tail_sp_start 40). reflexivity.
  - apply (tail_sp_start 60). reflexivity.
  - apply (tail_sp_start 47). reflexivity.
  - apply (tail_sp_start 91). reflexivity.
  - apply (tail_sp_start 60). reflexivity.
  - change (ser (M.ORef n g)) with (dec n ++ 32 :: dec g ++ [32; 82]). norm_app. apply tail_sp_ref.
Qed.

(** * (2) arrays *)
Definition elems_sp (l : list M.obj) : bytes := flat_map (fun x => 32 :: ser x) l.

Lemma ser_elems_cons : forall r x, M.ser_elems ser (x :: r) = ser x ++ elems_sp r.
Proof.
  induction r as [|y r IH]; intro x.
  - change (M.ser_elems ser [x]) with (ser x). cbn [elems_sp flat_map]. rewrite app_nil_r. reflexivity.
  - change (M.ser_elems ser (x :: y :: r)) with (ser x ++ 32 :: M.ser_elems ser (y :: r)).
    rewrite IH. reflexivity.
Qed.

Lemma elems_sp_cons : forall x r T, elems_sp (x :: r) ++ T = 32 :: ser x ++ elems_sp r ++ T.
Proof. intros. unfold elems_sp. cbn [flat_map app]. rewrite <- app_assoc. reflexivity. Qed.
Lemma elems_sp_len : forall x r, length (elems_sp (x :: r)) = S (length (ser x) + length (elems_sp r)).
Proof. intros. unfold elems_sp. cbn [flat_map app length]. rewrite app_length. reflexivity. Qed.

Lemma tail_elems : forall r t, TailOk (elems_sp r ++ 93 :: t).
Proof.
  induction r as [|x r IH]; intro t.
  - apply tail_rb.
  - rewrite elems_sp_cons. apply tail_sep. apply IH.
Qed.

Lemma arr_loop : forall r, Forall ReadP r -> forallb ck_ok r = true -> forall f k acc t,
  (length (elems_sp r) < k)%nat -> (length (elems_sp r) < f)%nat ->
  arr_items f k (elems_sp r ++ 93 :: t) acc = Some (OArr (rev acc ++ List.map cv r), t).
Proof.
  induction r as [|x r IH]; intros HP Hok f k acc t Hk Hf.
  - destruct k as [|k]; [lia|]. cbn [elems_sp flat_map app List.map]. rewrite arr_items_end, app_nil_r. reflexivity.
  - inversion HP as [|x' r' Px Pr]; subst. cbn [forallb] in Hok. apply andb_true_iff in Hok. destruct Hok as [Ox Or].
    rewrite elems_sp_len in Hk, Hf.
    destruct k as [|k]; [lia|].
    rewrite elems_sp_cons.
    destruct (ser_start x (elems_sp r ++ 93 :: t)) as [c [rr [E [Hc Hl]]]].
    destruct (tokc_facts c Hc) as [C1 [C2 C3]].
    rewrite (arr_items_item f k _ acc c rr);
      [|rewrite skip_ws_ws by reflexivity; rewrite E; apply skip_ws_start; assumption|exact C3].
    rewrite parse_obj_ws by reflexivity.
    rewrite (Px Ox _ f (tail_elems r t)) by lia.
    rewrite IH; [|exact Pr|exact Or|lia|lia].
    cbn [rev List.map]. rewrite <- app_assoc. reflexivity.
Qed.

Lemma read_arr : forall l, Forall ReadP l -> ReadP (M.OArr l).
Proof.
  intros l HP Hok tail fuel HT Hf. destruct fuel as [|f]; [lia|]. cbn [ck_ok] in Hok.
  change (ser (M.OArr l)) with (91 :: M.ser_elems ser l ++ [93]) in *.
  destruct l as [|x r].
  - change (M.ser_elems ser []) with (@nil N) in *. cbn [app length] in *.
    rewrite (parse_obj_arr f _ (93 :: tail)) by reflexivity.
    destruct f as [|k]; [lia|]. reflexivity.
  - inversion HP as [|x' r' Px Pr]; subst. cbn [forallb] in Hok. apply andb_true_iff in Hok. destruct Hok as [Ox Or].
    rewrite ser_elems_cons in *. cbn [length] in Hf. rewrite !app_length in Hf. cbn [length] in Hf.
    norm_app.
    rewrite (parse_obj_arr f _ (ser x ++ elems_sp r ++ 93 :: tail)) by reflexivity.
    destruct (ser_start x (elems_sp r ++ 93 :: tail)) as [c [rr [E [Hc Hl]]]].
    destruct (tokc_facts c Hc) as [C1 [C2 C3]].
    destruct f as [|k]; [lia|].
    rewrite (arr_items_item (S k) k _ [] c rr); [|rewrite E; apply skip_ws_start; assumption|exact C3].
    rewrite (Px Ox _ (S k) (tail_elems r tail)) by lia.
    rewrite arr_loop; [reflexivity|exact Pr|exact Or|lia|lia].
Qed.

(** * (3) dictionaries, entries in the writer's order *)
Definition ents (L : list (bytes * M.obj)) : bytes :=
  flat_map (fun kv => 10 :: 47 :: M.esc_iso (fst kv) ++ 32 :: ser (snd kv)) L.

Lemma ser_entries_ents : forall L, M.ser_entries M.esc_iso (List.map (MP.on_snd ser) L) = ents L.
Proof.
  induction L as [|kv L IH]; [reflexivity|].
  unfold M.ser_entries, ents in *. cbn [List.map flat_map]. rewrite IH. reflexivity.
Qed.
Lemma ents_cons : forall kv L T,
  ents (kv :: L) ++ T = 10 :: 47 :: M.esc_iso (fst kv) ++ 32 :: ser (snd kv) ++ ents L ++ T.
Proof. intros. unfold ents. cbn [flat_map app]. rewrite <- !app_assoc. reflexivity. Qed.
Lemma ents_len : forall kv L,
  length (ents (kv :: L)) = (3 + length (M.esc_iso (fst kv)) + length (ser (snd kv)) + length (ents L))%nat.
Proof. intros. unfold ents. cbn [flat_map app length]. repeat (rewrite app_length; cbn [length]). lia. Qed.

Lemma tail_ents : forall L t, TailOk (ents L ++ 10 :: 62 :: 62 :: t).
Proof. intros [|kv L] t; [apply tail_lf_gt|rewrite ents_cons; apply tail_lf_slash]. Qed.

Lemma dict_loop : forall L, Forall (fun kv => ReadP (snd kv)) L ->
  forallb (fun kv => name_ok (fst kv) && ck_ok (snd kv)) L = true -> forall f k acc t,
  (length (ents L) < k)%nat -> (length (ents L) < f)%nat ->
  dict_items f k (ents L ++ 10 :: 62 :: 62 :: t) acc = Some (ODict (rev acc ++ List.map (MP.on_snd cv) L), t).
Proof.
  induction L as [|kv L IH]; intros HP Hok f k acc t Hk Hf.
  - destruct k as [|k]; [lia|]. cbn [ents flat_map app List.map]. rewrite dict_items_end, app_nil_r. reflexivity.
  - inversion HP as [|x' r' Px Pr]; subst. cbn [forallb] in Hok. apply andb_true_iff in Hok. destruct Hok as [Ox Or].
    apply andb_true_iff in Ox. destruct Ox as [On Ov].
    rewrite ents_len in Hk, Hf.
    destruct k as [|k]; [lia|].
    rewrite ents_cons, dict_items_entry.
    rewrite read_name_esc_iso; [|exact On|reflexivity|rewrite app_length; cbn [length]; lia].
    cbn [rev app]. rewrite parse_obj_ws by reflexivity.
    rewrite (Px Ov _ f (tail_ents L t)) by lia.
    rewrite IH; [|exact Pr|exact Or|lia|lia].
    cbn [rev List.map]. rewrite <- app_assoc. reflexivity.
Qed.

Lemma forallb_sort : forall {A} (q : bytes * A -> bool) l, forallb q l = true -> forallb q (M.sort_kv l) = true.
Proof.
  intros A q l H. apply forallb_forall. intros x Hx. apply MP.sort_kv_in in Hx.
  rewrite forallb_forall in H. apply H. exact Hx.
Qed.

Lemma read_dict : forall l, Forall (fun kv => ReadP (snd kv)) l -> ReadP (M.ODict l).
Proof.
  intros l HP Hok tail fuel HT Hf. destruct fuel as [|f]; [lia|]. cbn [ck_ok] in Hok.
  rewrite MP.ser_dict, ser_entries_ents in *. rewrite cv_dict.
  cbn [length] in Hf. rewrite app_length in Hf. cbn [length] in Hf.
  norm_app.
  rewrite (parse_obj_dict f _ (ents (M.sort_kv l) ++ 10 :: 62 :: 62 :: tail)) by reflexivity.
  rewrite dict_loop; [reflexivity|apply MP.sort_kv_Forall; exact HP|apply forallb_sort; exact Hok|lia|lia].
Qed.

(** * (4) full nesting *)
Theorem read_ser : forall v, ReadP v.
Proof.
  induction v using MP.obj_ind'.
  - apply read_null. - apply read_bool. - apply read_int. - apply read_real. - apply read_str.
  - apply read_hexs. - apply read_nm. - apply read_arr; assumption. - apply read_dict; assumption.
  - apply read_ref.
Qed.

(** fragments (2) and (3) on their own: one level of scalars *)
Theorem read_array_flat : forall l, forallb scalar l = true -> ReadP (M.OArr l).
Proof.
  intros l H. apply read_arr. apply Forall_forall. intros x Hx. apply read_scalar.
  rewrite forallb_forall in H. apply H. exact Hx.
Qed.
Theorem read_dict_flat : forall l, forallb (fun kv => scalar (snd kv)) l = true -> ReadP (M.ODict l).
Proof.
  intros l H. apply read_dict. apply Forall_forall. intros x Hx. apply read_scalar.
  rewrite forallb_forall in H. apply (H x). exact Hx.
Qed.

(** * the references the checker reports are references of the source value *)
Lemma refs_cv : forall v fuel r, In r (refs_of fuel (cv v)) -> In r (orefs v).
Proof.
  induction v using MP.obj_ind'; intros fuel r Hi; destruct fuel as [|f]; try (cbn in Hi; contradiction).
  - cbn [cv] in Hi. destruct (m mod 1000000 =? 0); cbn in Hi; contradiction.
  - cbn [cv refs_of] in Hi. apply in_flat_map in Hi. destruct Hi as [o [Ho Hr]].
    apply in_map_iff in Ho. destruct Ho as [x [<- Hx]].
    cbn [orefs]. apply in_flat_map. exists x. split; [exact Hx|].
    rewrite Forall_forall in H. eapply H; eassumption.
  - rewrite cv_dict in Hi. cbn [refs_of] in Hi. apply in_flat_map in Hi. destruct Hi as [o [Ho Hr]].
    apply in_map_iff in Ho. destruct Ho as [x [<- Hx]]. apply MP.sort_kv_in in Hx.
    cbn [orefs]. apply in_flat_map. exists x. split; [exact Hx|].
    rewrite Forall_forall in H. eapply (H x Hx). exact Hr.
  - exact Hi.
Qed.

(** * the hypothesis of [writer_output_valid], derived *)
Theorem bodyok_of_ser : forall (P : N * N -> Prop) v, ck_ok v = true ->
  (forall r, In r (orefs v) -> P r) -> BodyOk P (ser v).
Proof.
  intros P v Hok Hr. apply (BodyPlain P (ser v) (cv v)).
  - intro rest. rewrite parse_obj_ws by reflexivity.
    apply read_ser; [exact Hok|apply tail_obj_end|cbn [length]; rewrite app_length; lia].
  - intros fuel r Hi. apply Hr. eapply refs_cv. exact Hi.
Qed.

Definition cv_entries (l : list (bytes * M.obj)) : list (bytes * obj) := List.map (MP.on_snd cv) (M.sort_kv l).

Theorem bodyok_of_ser_stream : forall (P : N * N -> Prop) l data, ck_ok (M.ODict l) = true ->
  dict_get (S_ "Length") (cv_entries l) = Some (OInt (Z.of_N (len data))) ->
  (forall r, In r (orefs (M.ODict l)) -> P r) ->
  BodyOk P (ser (M.ODict l) ++ stream_open ++ data ++ stream_close).
Proof.
  intros P l data Hok HL Hr. apply (BodyStream P (ser (M.ODict l)) (cv_entries l) data).
  - intro rest. rewrite parse_obj_ws by reflexivity. unfold cv_entries. rewrite <- cv_dict.
    apply read_ser; [exact Hok|apply tail_stream_open|cbn [length]; rewrite app_length; lia].
  - exact HL.
  - intros fuel r Hi. apply Hr. unfold cv_entries in Hi. rewrite <- cv_dict in Hi. eapply refs_cv. exact Hi.
Qed.

(** C09's [wf] plus "no NUL byte in a name" is inside the class *)
Lemma name_ok_of : forall n, bytes_ok n = true -> nonul n = true -> name_ok n = true.
Proof.
  induction n as [|c n IH]; intros H1 H2; [reflexivity|].
  cbn [bytes_ok nonul name_ok forallb] in *. unfold byte_ok in H1.
  apply andb_true_iff in H1. destruct H1 as [A1 A2]. apply andb_true_iff in H2. destruct H2 as [B1 B2].
  apply andb_true_iff. split; [lia|]. apply IH; assumption.
Qed.

Lemma wf_ck : forall v, M.wf v = true -> nonul_names v = true -> ck_ok v = true.
Proof.
  unfold M.wf. induction v using MP.obj_ind'; intros W Z; try reflexivity.
  - exact W.
  - apply name_ok_of; assumption.
  - cbn [M.wf_gen nonul_names ck_ok] in *. apply andb_true_iff in W. destruct W as [W _].
    apply forallb_forall. intros x Hx. rewrite Forall_forall in H.
    rewrite forallb_forall in W, Z. apply (H x Hx); [apply W|apply Z]; exact Hx.
  - cbn [M.wf_gen nonul_names ck_ok] in *.
    apply forallb_forall. intros x Hx. rewrite Forall_forall in H.
    rewrite forallb_forall in W, Z. specialize (W x Hx). specialize (Z x Hx).
    apply andb_true_iff in W. destruct W as [W1 W2]. apply andb_true_iff in Z. destruct Z as [Z1 Z2].
    apply andb_true_iff. split; [apply name_ok_of; assumption|apply (H x Hx); assumption].
Qed.

Theorem bodyok_of_ser_wf : forall (P : N * N -> Prop) v, M.wf v = true -> nonul_names v = true ->
  (forall r, In r (orefs v) -> P r) -> BodyOk P (ser v).
Proof. intros P v W Z. apply bodyok_of_ser. apply wf_ck; assumption. Qed.

(** the excluded class is really rejected by this checker: a NUL byte in a name is written
    "#00", which ISO 32000-1 7.3.5 forbids *)
Lemma nul_name_refuted : exists v, M.wf v = true /\ nonul_names v = false /\
  read_body (10 :: ser v ++ obj_end) = None.
Proof. exists (M.OName [65; 0]). vm_compute. repeat split. Qed.

(** * (5) the validity theorem with the [BodyOk] hypothesis replaced: every body is the
    serialiser model's bytes of a value in the class (or such a dictionary followed by a
    stream with the exact direct /Length), whose references name written ids *)
Definition SerBody (ids : list N) (body : bytes) : Prop :=
  (exists v, body = ser v /\ ck_ok v = true /\ forall r, In r (orefs v) -> RefOk ids r)
  \/ (exists l data, body = ser (M.ODict l) ++ stream_open ++ data ++ stream_close /\
        ck_ok (M.ODict l) = true /\
        dict_get (S_ "Length") (cv_entries l) = Some (OInt (Z.of_N (len data))) /\
        forall r, In r (orefs (M.ODict l)) -> RefOk ids r).

Lemma serbody_bodyok : forall ids body, SerBody ids body -> BodyOk (RefOk ids) body.
Proof.
  intros ids body [[v [-> [Hok Hr]]] | [l [data [-> [Hok [HL Hr]]]]]].
  - apply bodyok_of_ser; assumption.
  - apply bodyok_of_ser_stream; assumption.
Qed.

Theorem writer_output_valid_ser : forall ver objs root info,
  VerOk ver ->
  (forall id body, In (id, body) objs -> SerBody (List.map fst objs) body) ->
  RefOk (List.map fst objs) (root, 0) -> RefOk (List.map fst objs) (info, 0) ->
  len (emit ver objs root info) < ten10 ->
  ValidPdf (emit ver objs root info).
Proof.
  intros ver objs root info Hv Hb. apply writer_output_valid; [exact Hv|].
  intros id body Hi. apply serbody_bodyok. eapply Hb. exact Hi.
Qed.

(** the same in C09's terms, stream bodies left to [BodyOk]: every NON-stream body is the
    serialiser's bytes of a [wf] value without NUL in names whose references name written ids *)
Theorem writer_output_valid_ser_wf : forall ver objs root info,
  VerOk ver ->
  (forall id body, In (id, body) objs ->
     (exists v, body = ser v /\ M.wf v = true /\ nonul_names v = true /\
                forall r, In r (orefs v) -> RefOk (List.map fst objs) r)
     \/ (exists dv data, body = dv ++ stream_open ++ data ++ stream_close /\
                          BodyOk (RefOk (List.map fst objs)) body)) ->
  RefOk (List.map fst objs) (root, 0) -> RefOk (List.map fst objs) (info, 0) ->
  len (emit ver objs root info) < ten10 ->
  ValidPdf (emit ver objs root info).
Proof.
  intros ver objs root info Hv Hb. apply writer_output_valid; [exact Hv|].
  intros id body Hi. destruct (Hb id body Hi) as [[v [-> [W [Z Hr]]]] | [dv [data [_ Hk]]]].
  - apply bodyok_of_ser_wf; assumption.
  - exact Hk.
Qed.

(** * non-vacuity *)
Definition sample_value : M.obj :=
  M.ODict [ (S_ "Type", M.OName (S_ "Pa ge#/x"));
            (S_ "Kids", M.OArr [M.ORef 2 0; M.OInt (-5); M.OInt 7; M.ORef 1 0; M.OReal true 1500000;
                                M.OReal false 3000000; M.OInt 0; M.OName [82];
                                M.OStr (S_ "a(b\c)"); M.OHex [255; 0; 60]; M.OBool true; M.ONull;
                                M.OArr []; M.OArr [M.OArr [M.OInt 1; M.OInt 2]; M.ODict []];
                                M.ODict [(S_ "Z z", M.OBool false); (S_ "A", M.ORef 2 0)]]);
            ([195; 169], M.OReal false 250000) ].

(** in the class; not in C09's [wf] (the array holds  3 0 /R , which C09's reader takes for a
    reference and this checker does not: the class here is larger) *)
Example sample_in_class : ck_ok sample_value = true /\ nonul_names sample_value = true /\ M.wf sample_value = false.
Proof. vm_compute. repeat split. Qed.

Example sample_bodyok : BodyOk (RefOk [1; 2]) (ser sample_value).
Proof.
  apply bodyok_of_ser; [vm_compute; reflexivity|].
  intros r Hi. cbn in Hi.
  repeat (destruct Hi as [<-|Hi]; [unfold RefOk; cbn; repeat split; try lia; tauto|]). contradiction.
Qed.

(** the value the theorem predicts is what evaluation gives *)
Example sample_reads : forall rest,
  parse_obj (S (length (10 :: ser sample_value ++ obj_end ++ rest))) (10 :: ser sample_value ++ obj_end ++ rest)
  = Some (cv sample_value, obj_end ++ rest).
Proof.
  intro rest. rewrite parse_obj_ws by reflexivity.
  apply read_ser; [vm_compute; reflexivity|apply tail_obj_end|cbn [length]; rewrite app_length; lia].
Qed.

Definition dv_pages : M.obj :=
  M.ODict [(S_ "Type", M.OName (S_ "Pages")); (S_ "Kids", M.OArr [M.ORef 4 0]); (S_ "Count", M.OInt 1)].
Definition dv_catalog : M.obj :=
  M.ODict [(S_ "Type", M.OName (S_ "Catalog")); (S_ "Pages", M.ORef 2 0); (S_ "My Name#", M.OReal true 1250000)].
Definition dv_info : M.obj :=
  M.ODict [(S_ "Title", M.OStr (S_ "a(b)\")); (S_ "X", M.OHex [1; 171]); (S_ "Len", M.OInt (-5))].
Definition dv_stream : list (bytes * M.obj) := [(S_ "Length", M.OInt 3); (S_ "Parent", M.ORef 2 0)].
Definition ser_demo_objs : list (N * bytes) :=
  [ (2, ser dv_pages); (1, ser dv_catalog); (3, ser dv_info);
    (4, ser (M.ODict dv_stream) ++ stream_open ++ S_ "abc" ++ stream_close) ].

Example ser_demo_hyps :
  VerOk (S_ "1.7") /\
  (forall id body, In (id, body) ser_demo_objs -> SerBody (List.map fst ser_demo_objs) body) /\
  RefOk (List.map fst ser_demo_objs) (1, 0) /\ RefOk (List.map fst ser_demo_objs) (3, 0) /\
  len (emit (S_ "1.7") ser_demo_objs 1 3) < ten10.
Proof.
  assert (RO : forall (l : list (N * N)) r, In r l -> forallb (fun r => (snd r =? 0) && (1 <=? fst r) && (fst r <=? 4)) l = true ->
               RefOk [2; 1; 3; 4] r).
  { intros l r Hi Hall. rewrite forallb_forall in Hall. specialize (Hall r Hi). destruct r as [n g].
    cbn [fst snd] in Hall. unfold RefOk. cbn [fst snd In]. lia. }
  split. { exists 49, 55, []. repeat split. }
  split.
  { change (List.map fst ser_demo_objs) with [2; 1; 3; 4].
    intros id body Hi. unfold ser_demo_objs in Hi. cbn [In] in Hi.
    destruct Hi as [E|[E|[E|[E|[]]]]]; injection E as <- <-.
    - left. exists dv_pages. split; [reflexivity|]. split; [vm_compute; reflexivity|]. intros r Hi. eapply RO; [exact Hi|vm_compute; reflexivity].
    - left. exists dv_catalog. split; [reflexivity|]. split; [vm_compute; reflexivity|]. intros r Hi. eapply RO; [exact Hi|vm_compute; reflexivity].
    - left. exists dv_info. split; [reflexivity|]. split; [vm_compute; reflexivity|]. intros r Hi. eapply RO; [exact Hi|vm_compute; reflexivity].
    - right. exists dv_stream, (S_ "abc"). split; [reflexivity|]. split; [vm_compute; reflexivity|]. split; [vm_compute; reflexivity|].
      intros r Hi. eapply RO; [exact Hi|vm_compute; reflexivity]. }
  split. { unfold RefOk. cbn. repeat split; try lia; tauto. }
  split. { unfold RefOk. cbn. repeat split; try lia; tauto. }
  vm_compute. reflexivity.
Qed.

Example ser_demo_valid_by_theorem : ValidPdf (emit (S_ "1.7") ser_demo_objs 1 3).
Proof.
  destruct ser_demo_hyps as [H1 [H2 [H3 [H4 H5]]]]. apply writer_output_valid_ser; assumption.
Qed.

(** cross-check by evaluation: the executable checker accepts the same file *)
Example ser_demo_valid_by_evaluation : valid_pdf (emit (S_ "1.7") ser_demo_objs 1 3) = true.
Proof. vm_compute. reflexivity. Qed.
