(** C03 — case checkers evaluated by vm_compute on what the REAL writer produced.
    Failure code bits: 1 = the emission model does not reproduce the file byte for byte,
    2 = the verified checker rejects the file (the clause number is carried in code / 16),
    4 = the library's own strict open (recovery forbidden) or object walk failed,
    8 = the cross-reference stream could not be decoded by the harness. *)
From OxVerif Require Import Base.Util C03.Checker C03.Writer.

(** run-length transport of long runs (XMP padding) *)
Definition rep (b n : N) : bytes := repeat b (N.to_nat n).

(** the object bodies are cut out of the file at the positions the MODEL predicts *)
Fixpoint slice_objs (b : bytes) (p : N) (objs : list (N * N)) : list (N * bytes) :=
  match objs with
  | [] => []
  | (id, l) :: r =>
      let start := p + len (obj_hdr id) in
      (id, firstn (N.to_nat l) (drop start b)) :: slice_objs b (start + l + len obj_end) r
  end.

Definition reemit (b ver : bytes) (objs : list (N * N)) (root info : N) : bytes :=
  emit ver (slice_objs b (len (hdr_bytes ver) + len bin_comment) objs) root info.

Definition file_code (c : bytes * bytes * list (N * N) * N * N * bool) : N :=
  let '(b, ver, objs, root, info, strict_ok) := c in
  let model_ok := bytes_eqb (reemit b ver objs root info) b in
  let pc := pdf_code b in
  (if model_ok then 0 else 1) + (if pc =? 0 then 0 else 2 + 16 * pc) + (if strict_ok then 0 else 4).

(** cross-reference STREAM files: the table (num, type, f2, f3) was decoded by the harness
    (inflate + /W); everything else is re-checked here on the bytes *)
Definition xs_entry (e : N * N * N * N) : entry :=
  let '(n, t, a, g) := e in
  {| e_num := n; e_off := a; e_gen := (if t =? 1 then g else 0); e_used := (t =? 1) |}.

Definition xs_resolves (ents : list (N * N * N * N)) (r : N * N) : bool :=
  existsb (fun e => let '(n, t, a, g) := e in
                    (n =? fst r) && (((t =? 1) && (g =? snd r)) || ((t =? 2) && (snd r =? 0)))) ents.

Definition xs_pdf_code (b : bytes) (ents : list (N * N * N * N)) (size : N) : N :=
  if negb (read_header b) then 1 else
  match read_tail b with
  | None => 2
  | Some xoff =>
    let t := List.map xs_entry ents in
    match List.filter (fun e => e_used e && (e_off e =? xoff)) t with
    | [xe] =>
        match obj_header (drop xoff b) (e_num xe) (e_gen xe) with
        | Some r =>
            match parse_obj (S (length r)) r with
            | Some (ODict d, _) =>
                match dict_get (S_ "Size") d, dict_get (S_ "Root") d, dict_get (S_ "Type") d with
                | Some (OInt sz), Some (ORef _ _), Some (OName ty) =>
                    if negb (bytes_eqb ty (S_ "XRef")) then 4 else
                    if negb ((sz =? Z.of_N size)%Z && (size =? max_num t + 1)
                             && (size =? N.of_nat (length ents))) then 5 else
                    if negb (nodup_nums t) then 6 else
                    match collect_refs b t with
                    | None => 7
                    | Some refs => if forallb (xs_resolves ents) refs then 0 else 8
                    end
                | _, _, _ => 4
                end
            | _ => 4
            end
        | None => 3
        end
    | _ => 3
    end
  end.

Definition xs_code (c : bytes * list (N * N * N * N) * N * bool * bool) : N :=
  let '(b, ents, size, decode_ok, strict_ok) := c in
  let pc := if decode_ok then xs_pdf_code b ents size else 0 in
  (if pc =? 0 then 0 else 2 + 16 * pc) + (if strict_ok then 0 else 4) + (if decode_ok then 0 else 8).

Definition strict_code (c : N * bool) : N := if snd c then 0 else 4.

(** object-stream files (judged by the library's strict reader; the table is decoded by the
    harness): expected pages, pages read, walk of every type-1/type-2 entry ok, number of
    compressed members, and for every container named by a type-2 entry its own entry type
    and whether the object at that offset is an /ObjStm *)
Definition strict_code2 (c : N * N * bool * N * list (N * N * bool)) : N :=
  let '(exp_pages, got_pages, ok, members, conts) := c in
  (if ok then 0 else 4)
  + (if (exp_pages =? got_pages)
        && forallb (fun x => let '(_, ty, is_os) := x in (ty =? 1) && is_os) conts
        && (members <=? N.of_nat (length conts) * 100)
        && ((members =? 0) || negb (N.of_nat (length conts) =? 0))
     then 0 else 2).

(** user-chosen resource name through a validated entry point: rejected, or the written file
    is valid, the strict reader opens it, and the page's /Resources /<category> dictionary has
    the chosen name as a key *)
Definition obj_at (b : bytes) (e : entry) : option obj :=
  if e_used e then
    match obj_header (drop (e_off e) b) (e_num e) (e_gen e) with
    | Some r => match parse_obj (S (length r)) r with Some (o, _) => Some o | None => None end
    | None => None
    end
  else None.

Definition is_name (s : string) (o : option obj) : bool :=
  match o with Some (OName n) => bytes_eqb n (S_ s) | _ => false end.

Definition page_has_key (b : bytes) (cat name : bytes) : bool :=
  match read_tail b with
  | Some xoff =>
    match read_xref (drop xoff b) with
    | Some (t, _) =>
        existsb (fun e =>
          match obj_at b e with
          | Some (ODict d) =>
              is_name "Page" (dict_get (S_ "Type") d) &&
              match dict_get (S_ "Resources") d with
              | Some (ODict rd) =>
                  match dict_get cat rd with
                  | Some (ODict cd) => match dict_get name cd with Some _ => true | None => false end
                  | _ => false
                  end
              | _ => false
              end
          | _ => false
          end) t
    | None => false
    end
  | None => false
  end.

Definition names_code (c : bytes * bytes * bytes * bool * bool) : N :=
  let '(b, cat, name, accepted, strict_ok) := c in
  if negb accepted then 0
  else
    let pc := pdf_code b in
    (if pc =? 0 then (if page_has_key b cat name then 0 else 2 + 16 * 10) else 2 + 16 * pc)
    + (if strict_ok then 0 else 4).
