(** C03 — the declarative predicate [ValidPdf] and the soundness of the checker:
    [valid_pdf b = true -> ValidPdf b].

    Declarative (exists/forall over offsets and decompositions of the byte string):
      header, the end of the file (startxref N %%EOF), where the table is, every in-use entry
      points at the bytes "n g obj", /Size = highest entry number + 1, numbers unique,
      every reference resolves to an in-use entry of the same generation.
    Stated THROUGH the executable readers (the reader is the definition, named here):
      the 20-byte-entry subsection syntax ([read_xref]; one entry is characterised by
      [read_entry_spec]), token syntax of the object bodies and the /Length clause
      ([read_body], [parse_obj]). *)
From OxVerif Require Import Base.Util C03.Checker.
From OxVerif Require C09.Model.
Require Import Lia.

(** * generic reader lemmas *)
Lemma span_spec : forall f l a r, span f l = (a, r) -> l = a ++ r /\ forallb f a = true.
Proof.
  induction l as [|c l IH]; intros a r H; cbn [span] in H.
  - injection H as <- <-. split; reflexivity.
  - destruct (f c) eqn:E.
    + destruct (span f l) as [a' b'] eqn:E2. injection H as <- <-.
      destruct (IH a' b' eq_refl) as [-> Hf]. split; [reflexivity|].
      cbn [forallb]. rewrite E, Hf. reflexivity.
    + injection H as <- <-. split; reflexivity.
Qed.

Lemma strip_spec : forall p l r, strip p l = Some r -> l = p ++ r.
Proof.
  induction p as [|a p IH]; intros l r H; cbn [strip] in H.
  - injection H as ->. reflexivity.
  - destruct l as [|b l]; [discriminate|].
    destruct (a =? b) eqn:E; [|discriminate].
    apply N.eqb_eq in E. subst b. cbn [app]. f_equal. apply IH. exact H.
Qed.

Lemma read_kw_spec : forall kw l r, read_kw kw l = Some r -> l = kw ++ r /\ boundary r = true.
Proof.
  unfold read_kw. intros kw l r H. destruct (strip kw l) as [r'|] eqn:E; [|discriminate].
  destruct (boundary r') eqn:B; [|discriminate]. injection H as <-.
  split; [apply strip_spec; exact E | exact B].
Qed.

(** a digit string and its value *)
Definition digits (ds : bytes) (n : N) : Prop :=
  ds <> [] /\ forallb is_digit ds = true /\ dval 0 ds = n.

Lemma read_uint_spec : forall l n r, read_uint l = Some (n, r) ->
  exists ds, l = ds ++ r /\ digits ds n.
Proof.
  unfold read_uint. intros l n r H. destruct (span is_digit l) as [ds r'] eqn:E.
  apply span_spec in E. destruct E as [-> Hd].
  destruct ds as [|d ds]; [discriminate|]. injection H as <- <-.
  exists (d :: ds). split; [reflexivity|]. split; [discriminate|]. split; [exact Hd|reflexivity].
Qed.

Lemma read_fixed_spec : forall k l acc v r, read_fixed k l acc = Some (v, r) ->
  exists ds, l = ds ++ r /\ length ds = k /\ forallb is_digit ds = true /\ v = dval acc ds.
Proof.
  induction k as [|k IH]; intros l acc v r H; cbn [read_fixed] in H.
  - injection H as <- <-. exists []. repeat split; reflexivity.
  - destruct l as [|c l]; [discriminate|]. destruct (is_digit c) eqn:E; [|discriminate].
    destruct (IH _ _ _ _ H) as [ds [-> [Hl [Hd ->]]]].
    exists (c :: ds). cbn [app length forallb]. rewrite E, Hd, Hl. repeat split; reflexivity.
Qed.

(** * positions *)
Definition at_off (b : bytes) (off : N) (suffix : bytes) : Prop :=
  exists pre, b = pre ++ suffix /\ len pre = off.

Lemma drop_at : forall b off, drop off b <> [] -> at_off b off (drop off b).
Proof.
  intros b off H. unfold at_off, drop in *. exists (firstn (N.to_nat off) b).
  split; [symmetry; apply firstn_skipn|].
  unfold len. rewrite firstn_length.
  assert (N.to_nat off < length b)%nat.
  { destruct (Nat.lt_ge_cases (N.to_nat off) (length b)) as [L|G]; [exact L|].
    exfalso. apply H. apply skipn_all2. exact G. }
  rewrite Nat.min_l by lia. apply Nnat.N2Nat.id.
Qed.

(** * the clauses *)
Definition starts_ws (l : bytes) : Prop := exists c r, l = c :: r /\ is_ws c = true.

(** the bytes at [off] are the header of object [n g]:  digits, white space, digits, white
    space, the keyword obj at a token boundary *)
Definition ObjHeaderAt (b : bytes) (off n g : N) : Prop :=
  exists dn r1 dg r2 rest,
    at_off b off (dn ++ r1) /\ digits dn n /\ starts_ws r1 /\
    skip_ws r1 = dg ++ r2 /\ digits dg g /\ starts_ws r2 /\
    skip_ws r2 = S_ "obj" ++ rest /\ boundary rest = true.

Definition all_ws (l : bytes) : Prop := forallb is_ws l = true.

(** the file ends with  startxref  ws+  digits(xoff)  ws+  %%EOF  ws*  *)
Definition StartxrefSays (b : bytes) (xoff : N) : Prop :=
  exists pre w1 ds w2 w3,
    b = pre ++ S_ "startxref" ++ w1 ++ ds ++ w2 ++ S_ "%%EOF" ++ w3 /\
    all_ws w1 /\ w1 <> [] /\ digits ds xoff /\ all_ws w2 /\ w2 <> [] /\ all_ws w3.

Definition HeaderOk (b : bytes) : Prop :=
  exists ma mi r, b = S_ "%PDF-" ++ ma :: 46 :: mi :: r /\ is_digit ma = true /\ is_digit mi = true.

Definition Resolves (t : list entry) (r : N * N) : Prop :=
  exists e, In e t /\ e_num e = fst r /\ e_gen e = snd r /\ e_used e = true.

Definition ValidPdf (b : bytes) : Prop :=
  exists xoff tbl after d rest sz rn rg refs,
    HeaderOk b /\
    StartxrefSays b xoff /\ xoff < len b /\
    (* the cross-reference section at xoff: subsections of 20-byte entries, then "trailer" *)
    read_xref (drop xoff b) = Some (tbl, after) /\
    (* the trailer dictionary *)
    parse_obj (S (length after)) after = Some (ODict d, rest) /\
    dict_get (S_ "Size") d = Some (OInt sz) /\
    dict_get (S_ "Root") d = Some (ORef rn rg) /\
    dict_get (S_ "Prev") d = None /\
    (* /Size is exact *)
    sz = Z.of_N (max_num tbl + 1) /\
    (* one entry per object number *)
    (forall e1 e2 l1 l2 l3, tbl = l1 ++ e1 :: l2 ++ e2 :: l3 -> e_num e1 <> e_num e2) /\
    (* every in-use entry points at the exact byte where its object begins ... *)
    (forall e, In e tbl -> e_used e = true -> ObjHeaderAt b (e_off e) (e_num e) (e_gen e)) /\
    (* ... and the object there is well formed: tokens, stream /Length, endobj *)
    (forall e, In e tbl -> e_used e = true ->
       exists r refs_e, obj_header (drop (e_off e) b) (e_num e) (e_gen e) = Some r /\
                        read_body r = Some refs_e /\ incl refs_e refs) /\
    (* every indirect reference resolves *)
    (forall r, In r (refs_of (S (length after)) (ODict d) ++ refs) -> Resolves tbl r).

(** * soundness of the pieces *)
Lemma forallb_rev : forall (f : N -> bool) l, forallb f (rev l) = forallb f l.
Proof.
  intros f l. destruct (forallb f l) eqn:E.
  - apply forallb_forall. intros x Hx. apply in_rev in Hx.
    rewrite forallb_forall in E. apply E. exact Hx.
  - destruct (forallb f (rev l)) eqn:E2; [|reflexivity].
    rewrite forallb_forall in E2.
    assert (forallb f l = true).
    { apply forallb_forall. intros x Hx. apply E2. apply in_rev. rewrite rev_involutive. exact Hx. }
    congruence.
Qed.

Lemma rev_nonnil : forall (l : bytes), l <> [] -> rev l <> [].
Proof. intros l H E. apply H. rewrite <- (rev_involutive l), E. reflexivity. Qed.

Lemma read_tail_sound : forall b xoff, read_tail b = Some xoff -> StartxrefSays b xoff.
Proof.
  unfold read_tail. intros b xoff H.
  destruct (span is_ws (rev b)) as [w3 r1] eqn:E1.
  destruct (strip (rev (S_ "%%EOF")) r1) as [r2|] eqn:E2; [|discriminate].
  destruct (span is_ws r2) as [w2 r3] eqn:E3.
  destruct (span is_digit r3) as [dsr r4] eqn:E4.
  destruct (span is_ws r4) as [w1 r5] eqn:E5.
  destruct w2 as [|c2 w2]; [discriminate|].
  destruct dsr as [|cd dsr]; [discriminate|].
  destruct w1 as [|c1 w1]; [discriminate|].
  destruct (strip (rev (S_ "startxref")) r5) as [pre|] eqn:E6; [|discriminate].
  injection H as <-.
  apply span_spec in E1, E3, E4, E5. apply strip_spec in E2, E6.
  destruct E1 as [Hb H3], E3 as [-> H2], E4 as [-> Hd], E5 as [-> H1]. subst r1 r5.
  exists (rev pre), (rev (c1 :: w1)), (rev (cd :: dsr)), (rev (c2 :: w2)), (rev w3).
  split.
  { rewrite <- (rev_involutive b), Hb.
    repeat rewrite rev_app_distr. rewrite !rev_involutive.
    repeat rewrite <- app_assoc. reflexivity. }
  unfold all_ws, digits. rewrite !forallb_rev.
  repeat split; try assumption; try (apply rev_nonnil; discriminate).
Qed.

Lemma read_header_sound : forall b, read_header b = true -> HeaderOk b.
Proof.
  unfold read_header, HeaderOk. intros b H.
  destruct (strip (S_ "%PDF-") b) as [r|] eqn:E; [|discriminate].
  apply strip_spec in E.
  destruct r as [|ma [|dot [|mi r]]]; try discriminate.
  apply andb_true_iff in H. destruct H as [H _]. apply andb_true_iff in H. destruct H as [H Hi].
  apply andb_true_iff in H. destruct H as [Hd Ha]. apply N.eqb_eq in Hd. subst dot.
  exists ma, mi, r. repeat split; assumption.
Qed.

Lemma starts_ws_intro : forall c r, is_ws c = true -> starts_ws (c :: r).
Proof. intros c r H. exists c, r. split; [reflexivity|exact H]. Qed.

Lemma obj_header_sound : forall b off n g r,
  obj_header (drop off b) n g = Some r -> ObjHeaderAt b off n g.
Proof.
  unfold obj_header. intros b off n g r H.
  destruct (read_uint (drop off b)) as [[n' l1]|] eqn:E1; [|discriminate].
  destruct l1 as [|c1 l1']; [discriminate|].
  destruct ((n' =? n) && is_ws c1) eqn:C1; [|discriminate].
  apply andb_true_iff in C1. destruct C1 as [Hn Hw1]. apply N.eqb_eq in Hn. subst n'.
  destruct (read_uint (skip_ws (c1 :: l1'))) as [[g' l2]|] eqn:E2; [|discriminate].
  destruct l2 as [|c2 l2']; [discriminate|].
  destruct ((g' =? g) && is_ws c2) eqn:C2; [|discriminate].
  apply andb_true_iff in C2. destruct C2 as [Hg Hw2]. apply N.eqb_eq in Hg. subst g'.
  apply read_kw_spec in H. destruct H as [Hk Hb].
  apply read_uint_spec in E1, E2.
  destruct E1 as [dn [Hd1 Dn]], E2 as [dg [Hd2 Dg]].
  exists dn, (c1 :: l1'), dg, (c2 :: l2'), r.
  split.
  { rewrite <- Hd1. apply drop_at. rewrite Hd1. destruct Dn as [Dn _].
    destruct dn; [contradiction|discriminate]. }
  repeat split; try assumption; try (apply starts_ws_intro; assumption); apply Dn || apply Dg.
Qed.

Lemma find_entry_spec : forall n t e, find_entry n t = Some e -> In e t /\ e_num e = n.
Proof.
  induction t as [|x t IH]; intros e H; cbn [find_entry] in H; [discriminate|].
  destruct (e_num x =? n) eqn:E.
  - injection H as <-. apply N.eqb_eq in E. split; [left; reflexivity|exact E].
  - destruct (IH e H) as [Hi Hn]. split; [right; exact Hi|exact Hn].
Qed.

Lemma find_entry_none : forall n t, find_entry n t = None -> forall e, In e t -> e_num e <> n.
Proof.
  induction t as [|x t IH]; intros H e Hi; [contradiction|].
  cbn [find_entry] in H. destruct (e_num x =? n) eqn:E; [discriminate|].
  apply N.eqb_neq in E. destruct Hi as [<-|Hi]; [exact E|apply IH; assumption].
Qed.

Lemma resolves_sound : forall t r, resolves t r = true -> Resolves t r.
Proof.
  unfold resolves, Resolves. intros t r H.
  destruct (find_entry (fst r) t) as [e|] eqn:E; [|discriminate].
  apply find_entry_spec in E. destruct E as [Hi Hn].
  apply andb_true_iff in H. destruct H as [Hu Hg]. apply N.eqb_eq in Hg.
  exists e. repeat split; assumption.
Qed.

Lemma nodup_nums_sound : forall t, nodup_nums t = true ->
  forall e1 e2 l1 l2 l3, t = l1 ++ e1 :: l2 ++ e2 :: l3 -> e_num e1 <> e_num e2.
Proof.
  induction t as [|x t IH]; intros H e1 e2 l1 l2 l3 Ht.
  - destruct l1; discriminate.
  - cbn [nodup_nums] in H. destruct (find_entry (e_num x) t) eqn:E; [discriminate|].
    destruct l1 as [|y l1]; cbn [app] in Ht; injection Ht as -> ->.
    + intro Heq. apply (find_entry_none _ _ E e2).
      * apply in_or_app. right. left. reflexivity.
      * symmetry. exact Heq.
    + eapply IH; [exact H|reflexivity].
Qed.

Lemma collect_refs_sound : forall b t refs, collect_refs b t = Some refs ->
  forall e, In e t -> exists refs_e, check_object b e = Some refs_e /\ incl refs_e refs.
Proof.
  induction t as [|x t IH]; intros refs H e Hi; [contradiction|].
  cbn [collect_refs] in H.
  destruct (check_object b x) as [a|] eqn:E1; [|discriminate].
  destruct (collect_refs b t) as [c|] eqn:E2; [|discriminate].
  injection H as <-. destruct Hi as [<-|Hi].
  - exists a. split; [exact E1|apply incl_appl, incl_refl].
  - destruct (IH c eq_refl e Hi) as [re [H1 H2]]. exists re. split; [exact H1|].
    apply incl_appr. exact H2.
Qed.

(** * the theorem *)
Theorem valid_pdf_sound : forall b, valid_pdf b = true -> ValidPdf b.
Proof.
  unfold valid_pdf, pdf_code. intros b H.
  destruct (read_header b) eqn:Hh; cbn [negb] in H; [|discriminate].
  destruct (read_tail b) as [xoff|] eqn:Ht; [|discriminate].
  destruct (len b <=? xoff) eqn:Hl; [discriminate|].
  destruct (read_xref (drop xoff b)) as [[t after]|] eqn:Hx; [|discriminate].
  destruct (parse_obj (S (length after)) after) as [[o rest]|] eqn:Hp; [|discriminate].
  destruct o as [| | | | | |l|d|]; try discriminate.
  destruct (dict_get (S_ "Prev") d) eqn:Hprev; [discriminate|].
  destruct (dict_get (S_ "Size") d) as [osz|] eqn:Hsz; [|discriminate].
  destruct osz as [| |sz| | | | | |]; try discriminate.
  destruct (dict_get (S_ "Root") d) as [ort|] eqn:Hrt; [|discriminate].
  destruct ort as [| | | | | | | |rn rg]; try discriminate.
  destruct (sz =? Z.of_N (max_num t + 1))%Z eqn:Hs; cbn [negb] in H; [|discriminate].
  destruct (nodup_nums t) eqn:Hn; cbn [negb] in H; [|discriminate].
  destruct (collect_refs b t) as [refs|] eqn:Hc; [|discriminate].
  destruct (forallb (resolves t) (refs_of (S (length after)) (ODict d) ++ refs)) eqn:Hr; [|discriminate].
  exists xoff, t, after, d, rest, sz, rn, rg, refs.
  split; [apply read_header_sound; exact Hh|].
  split; [apply read_tail_sound; exact Ht|].
  split; [apply N.leb_gt in Hl; exact Hl|].
  split; [exact Hx|]. split; [exact Hp|]. split; [exact Hsz|]. split; [exact Hrt|].
  split; [exact Hprev|].
  split; [apply Z.eqb_eq; exact Hs|].
  split; [apply nodup_nums_sound; exact Hn|].
  split.
  { intros e Hi Hu. destruct (collect_refs_sound _ _ _ Hc e Hi) as [re [Hco _]].
    unfold check_object in Hco. rewrite Hu in Hco.
    destruct (obj_header (drop (e_off e) b) (e_num e) (e_gen e)) as [r|] eqn:Eo; [|discriminate].
    eapply obj_header_sound. exact Eo. }
  split.
  { intros e Hi Hu. destruct (collect_refs_sound _ _ _ Hc e Hi) as [re [Hco Hinc]].
    unfold check_object in Hco. rewrite Hu in Hco.
    destruct (obj_header (drop (e_off e) b) (e_num e) (e_gen e)) as [r|] eqn:Eo; [|discriminate].
    exists r, re. repeat split; assumption. }
  intros r Hi. apply resolves_sound. rewrite forallb_forall in Hr. apply Hr. exact Hi.
Qed.

(** one 20-byte cross-reference entry, declaratively *)
Lemma read_entry_spec : forall num l e r, read_entry num l = Some (e, r) ->
  exists d10 d5 t e1 e2,
    l = d10 ++ 32 :: d5 ++ 32 :: t :: e1 :: e2 :: r /\
    length d10 = 10%nat /\ length d5 = 5%nat /\
    forallb is_digit d10 = true /\ forallb is_digit d5 = true /\
    e_num e = num /\ e_off e = dval 0 d10 /\ e_gen e = dval 0 d5 /\
    ((t = 110 /\ e_used e = true) \/ (t = 102 /\ e_used e = false)) /\
    ((e1 = 32 /\ is_eol e2 = true) \/ (e1 = 13 /\ e2 = 10)).
Proof.
  unfold read_entry. intros num l e r H.
  destruct (read_fixed 10 l 0) as [[off l0]|] eqn:E1; [|discriminate].
  destruct l0 as [|sp1 l1]; [discriminate|].
  destruct (read_fixed 5 l1 0) as [[gen l2]|] eqn:E2; [|discriminate].
  destruct l2 as [|sp2 [|t [|e1 [|e2 l3]]]]; try discriminate.
  destruct ((sp1 =? 32) && (sp2 =? 32) && ((t =? 110) || (t =? 102))
            && ((e1 =? 32) && is_eol e2 || (e1 =? 13) && (e2 =? 10))) eqn:C; [|discriminate].
  apply andb_true_iff in C. destruct C as [C Ce]. apply andb_true_iff in C. destruct C as [C Ct].
  apply andb_true_iff in C. destruct C as [Cs1 Cs2]. apply N.eqb_eq in Cs1, Cs2. subst sp1 sp2.
  injection H as <- <-.
  apply read_fixed_spec in E1, E2.
  destruct E1 as [d10 [-> [L10 [D10 ->]]]], E2 as [d5 [-> [L5 [D5 ->]]]].
  exists d10, d5, t, e1, e2. cbn [e_num e_off e_gen e_used].
  repeat split; try assumption; try reflexivity.
  - apply orb_true_iff in Ct. destruct Ct as [Ct|Ct]; apply N.eqb_eq in Ct; subst t; [left|right]; split; reflexivity.
  - apply orb_true_iff in Ce. destruct Ce as [Ce|Ce]; apply andb_true_iff in Ce; destruct Ce as [Ca Cb].
    + left. apply N.eqb_eq in Ca. split; assumption.
    + right. apply N.eqb_eq in Ca, Cb. split; assumption.
Qed.
