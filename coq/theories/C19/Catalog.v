(** C19 — the catalog search of the recovery finds the true /Root on a rendered document.

    [catalog_found]: for a well-formed, quiet document whose catalog hypotheses [cat_hyp] hold,
    [recover (render d root)] reports [RFound root]. *)
From OxVerif Require Import Base.Util C09.Model C09.Tokens C19.Model C19.Proofs.
Require Import Lia.
Open Scope N_scope.

(** * [find] on a sorted list *)
Fixpoint sortedN (l : list N) : Prop :=
  match l with
  | [] => True
  | x :: r => (forall y, In y r -> x <= y) /\ sortedN r
  end.

Lemma find_sorted (P : N -> bool) (r : N) : forall l,
  sortedN l -> In r l -> P r = true ->
  (forall x, In x l -> x < r -> P x = false) ->
  find P l = Some r.
Proof.
  induction l as [|a l IH]; intros S I Pr Lo; [destruct I|].
  destruct S as [Sa Sl]. cbn [find].
  destruct (N.eq_dec a r) as [E|NE].
  - subst a. rewrite Pr. reflexivity.
  - destruct I as [E|I]; [contradiction|].
    pose proof (Sa r I) as LE.
    rewrite (Lo a (or_introl eq_refl)) by lia.
    apply IH; auto. intros x Ix Lx. apply Lo; [right; exact Ix|exact Lx].
Qed.

(** * [sort_tbl]: sorted keys, same keys *)
Lemma ins_key_in e : forall l k,
  In k (map fst (ins_key e l)) <-> k = fst e \/ In k (map fst l).
Proof.
  induction l as [|x r IH]; intro k.
  - cbn [ins_key map In]. intuition.
  - cbn [ins_key]. destruct (fst e <? fst x).
    + cbn [map In]. intuition.
    + cbn [map In]. rewrite IH. intuition.
Qed.

Lemma ins_key_sorted e : forall l,
  sortedN (map fst l) -> sortedN (map fst (ins_key e l)).
Proof.
  induction l as [|x r IH]; intro S.
  - cbn [ins_key map sortedN In]. split; [intros y []|exact I].
  - cbn [ins_key]. destruct (fst e <? fst x) eqn:LT.
    + apply N.ltb_lt in LT. cbn [map sortedN]. split; [|exact S].
      cbn [map sortedN] in S. destruct S as [Sx _].
      intros y [<-|Iy]; [lia|]. pose proof (Sx y Iy). lia.
    + apply N.ltb_ge in LT. cbn [map sortedN] in S |- *. destruct S as [Sx Sr].
      split; [|apply IH; exact Sr].
      intros y Iy. apply ins_key_in in Iy. destruct Iy as [->|Iy]; [exact LT|apply Sx; exact Iy].
Qed.

Lemma sort_tbl_sorted : forall t, sortedN (map fst (sort_tbl t)).
Proof.
  induction t as [|e r IH]; [exact I|]. cbn [sort_tbl]. apply ins_key_sorted. exact IH.
Qed.

Lemma sort_tbl_in : forall t k, In k (map fst (sort_tbl t)) <-> In k (map fst t).
Proof.
  induction t as [|e r IH]; intro k; [reflexivity|].
  cbn [sort_tbl]. rewrite ins_key_in, IH. cbn [map In]. intuition.
Qed.

Lemma tlookup_in : forall t k, In k (map fst t) <-> tlookup t k <> None.
Proof.
  induction t as [|[m v] r IH]; intro k.
  - cbn [map In tlookup]. intuition.
  - cbn [map In tlookup fst]. destruct (m =? k) eqn:E.
    + apply N.eqb_eq in E. split; [discriminate|]. intros _. left. exact E.
    + apply N.eqb_neq in E. rewrite <- IH. intuition.
Qed.

(** * membership, duplicates *)
Lemma memN_true x l : memN x l = true <-> In x l.
Proof.
  unfold memN. rewrite existsb_exists. split.
  - intros [y [Iy E]]. apply N.eqb_eq in E. subst y. exact Iy.
  - intro Ix. exists x. split; [exact Ix|apply N.eqb_refl].
Qed.

Lemma nodupb_app_r : forall a b, nodupb (a ++ b) = true -> nodupb b = true.
Proof.
  induction a as [|x a IH]; intros b H; [exact H|].
  cbn [app nodupb] in H. apply andb_true_iff in H. apply IH. exact (proj2 H).
Qed.

(** * true offsets of a duplicate-free document *)
Definition toff (n : N) (acc : option N) (h : hdr) : option N :=
  if h_obj h =? n then Some (h_off h) else acc.

Lemma true_off_toff d n : true_off d n = fold_left (toff n) (offsets d) None.
Proof. reflexivity. Qed.

Lemma fold_nomatch n : forall d s acc, memN n (map fst d) = false ->
  fold_left (toff n) (offsets_from s d) acc = acc.
Proof.
  induction d as [|x r IH]; intros s acc M; [reflexivity|].
  cbn [map] in M. unfold memN in M. cbn [existsb] in M. apply orb_false_iff in M.
  destruct M as [M1 M2].
  cbn [offsets_from fold_left]. unfold toff at 2. unfold h_obj. cbn [fst].
  rewrite N.eqb_sym, M1. apply IH. exact M2.
Qed.

Lemma fold_split n : forall pre o post s acc,
  fst o = n -> memN n (map fst post) = false ->
  fold_left (toff n) (offsets_from s (pre ++ o :: post)) acc = Some (s + len (body_bytes pre)).
Proof.
  induction pre as [|x pre IH]; intros o post s acc E M.
  - cbn [app offsets_from fold_left]. unfold toff at 2. unfold h_obj, h_off. cbn [fst snd].
    rewrite E, N.eqb_refl. rewrite fold_nomatch by exact M.
    unfold body_bytes. cbn [flat_map]. rewrite len_nil. f_equal. lia.
  - cbn [app offsets_from fold_left]. rewrite (IH o post _ _ E M).
    unfold body_bytes. cbn [flat_map]. rewrite len_app. f_equal. unfold body_bytes. lia.
Qed.

Lemma true_off_split pre o post :
  nodupb (map fst (pre ++ o :: post)) = true ->
  true_off (pre ++ o :: post) (fst o) = Some (len HEADER + len (body_bytes pre)).
Proof.
  intro ND. rewrite true_off_toff. unfold offsets. apply fold_split; [reflexivity|].
  rewrite map_app in ND. apply nodupb_app_r in ND. cbn [map nodupb] in ND.
  apply andb_true_iff in ND. destruct ND as [ND _]. apply negb_true_iff in ND. exact ND.
Qed.

Lemma true_off_some_in d n : true_off d n <> None -> exists o, In o d /\ fst o = n.
Proof.
  intro H. destruct (memN n (map fst d)) eqn:M.
  - apply memN_true in M. apply in_map_iff in M. destruct M as [o [E Io]].
    exists o. split; [exact Io|exact E].
  - exfalso. apply H. rewrite true_off_toff. unfold offsets. apply fold_nomatch. exact M.
Qed.

(** * list surgery *)
Lemma skipn_app_exact {A} : forall (a b : list A), skipn (length a) (a ++ b) = b.
Proof. induction a as [|x a IH]; intro b; [reflexivity|]. cbn [length app skipn]. apply IH. Qed.

Lemma firstn_app_exact {A} : forall (a b : list A), firstn (length a) (a ++ b) = a.
Proof.
  induction a as [|x a IH]; intro b; [reflexivity|]. cbn [length app firstn]. f_equal. apply IH.
Qed.

Lemma firstn_window {A} (w k : nat) (l : list A) :
  (length l <= w)%nat -> firstn w (skipn k l) = skipn k l.
Proof.
  intro L. apply firstn_all2. rewrite skipn_length. lia.
Qed.

(** * pattern search *)
Lemma prefixb_app : forall p y, prefixb p (p ++ y) = true.
Proof.
  induction p as [|a p IH]; intro y; [reflexivity|].
  cbn [app prefixb]. rewrite N.eqb_refl, IH. reflexivity.
Qed.

Lemma find_sub_prefix p y : find_sub p (p ++ y) = Some O.
Proof.
  destruct (p ++ y) as [|b l] eqn:E.
  - apply app_eq_nil in E. destruct E as [-> _]. reflexivity.
  - cbn [find_sub]. rewrite <- E, prefixb_app. reflexivity.
Qed.

Lemma prefixb_app_true : forall p l y, prefixb p l = true -> prefixb p (l ++ y) = true.
Proof.
  induction p as [|a p IH]; intros l y H; [reflexivity|].
  destruct l as [|b l]; [discriminate|].
  cbn [app prefixb] in H |- *. apply andb_true_iff in H. destruct H as [H1 H2].
  rewrite H1, (IH _ _ H2). reflexivity.
Qed.

Lemma prefixb_app_false : forall p l y,
  prefixb p l = false -> (length p <= length l)%nat -> prefixb p (l ++ y) = false.
Proof.
  induction p as [|a p IH]; intros l y H L; [discriminate|].
  destruct l as [|b l]; [cbn [length] in L; lia|].
  cbn [app prefixb length] in H, L |- *.
  destruct (a =? b); [|reflexivity]. cbn [andb] in H |- *. apply IH; [exact H|lia].
Qed.

Lemma prefixb_len : forall p l, prefixb p l = true -> (length p <= length l)%nat.
Proof.
  induction p as [|a p IH]; intros l H; [cbn [length]; lia|].
  destruct l as [|b l]; [discriminate|].
  cbn [prefixb] in H. apply andb_true_iff in H. destruct H as [_ H].
  apply IH in H. cbn [length]. lia.
Qed.

Lemma find_sub_bound : forall l p k, find_sub p l = Some k -> (k + length p <= length l)%nat.
Proof.
  induction l as [|b l IH]; intros p k H.
  - cbn [find_sub] in H. destruct p; [|discriminate]. injection H as <-. cbn [length]. lia.
  - cbn [find_sub] in H. destruct (prefixb p (b :: l)) eqn:PF.
    + injection H as <-. apply prefixb_len in PF. lia.
    + destruct (find_sub p l) as [k'|] eqn:F; [|discriminate].
      cbn [option_map] in H. injection H as <-. apply IH in F. cbn [length]. lia.
Qed.

Lemma find_sub_app : forall x p y k, find_sub p x = Some k -> find_sub p (x ++ y) = Some k.
Proof.
  induction x as [|a x IH]; intros p y k H.
  - cbn [find_sub] in H. destruct p; [|discriminate]. injection H as <-.
    cbn [app]. destruct y; reflexivity.
  - cbn [app find_sub] in H |- *. destruct (prefixb p (a :: x)) eqn:PF.
    + change (a :: x ++ y) with ((a :: x) ++ y). rewrite (prefixb_app_true _ _ y PF). exact H.
    + destruct (find_sub p x) as [k'|] eqn:F; [|discriminate].
      cbn [option_map] in H. injection H as <-.
      change (a :: x ++ y) with ((a :: x) ++ y). rewrite (prefixb_app_false _ _ y PF).
      * rewrite (IH _ y _ F). reflexivity.
      * apply find_sub_bound in F. cbn [length]. lia.
Qed.

(** * read_object_content on a rendered object *)
Lemma render_obj_head o rest :
  render_obj o ++ rest = (dec (fst o) ++ B " 0 obj") ++ ([10] ++ snd o ++ S_END ++ rest).
Proof. unfold render_obj, S_OBJ_NL. rewrite <- !app_assoc. reflexivity. Qed.

Lemma render_obj_content o rest :
  render_obj o ++ rest = content_of o ++ (P_ENDOBJ ++ [10] ++ rest).
Proof.
  unfold render_obj, content_of.
  change S_END with ([10] ++ P_ENDOBJ ++ [10]). rewrite <- !app_assoc. reflexivity.
Qed.

Lemma endobj_clean_spec o : endobj_clean o = true ->
  find_sub P_ENDOBJ (content_of o ++ P_ENDOBJ) = Some (length (content_of o)).
Proof.
  unfold endobj_clean. destruct (find_sub P_ENDOBJ (content_of o ++ P_ENDOBJ)) as [k|]; [|discriminate].
  intro H. apply Nat.eqb_eq in H. subst k. reflexivity.
Qed.

Lemma obj_content_window file offs o rest :
  (length file <= 65536)%nat ->
  skipn (N.to_nat offs) file = render_obj o ++ rest ->
  endobj_clean o = true ->
  obj_content file (fst o) offs = Some (content_of o).
Proof.
  intros L SK EC. unfold obj_content.
  rewrite (firstn_window _ _ _ L), SK.
  rewrite (render_obj_head o rest) at 1. rewrite find_sub_prefix.
  cbn [skipn].
  assert (F : find_sub P_ENDOBJ (render_obj o ++ rest) = Some (length (content_of o))).
  { rewrite render_obj_content, app_assoc. apply find_sub_app. apply endobj_clean_spec. exact EC. }
  rewrite F. rewrite render_obj_content, firstn_app_exact. reflexivity.
Qed.

Lemma render_split pre o post root :
  render (pre ++ o :: post) root
  = (HEADER ++ body_bytes pre) ++ render_obj o ++ (body_bytes post ++ tail_bytes (pre ++ o :: post) root).
Proof.
  unfold render, body_bytes. rewrite flat_map_app. cbn [flat_map].
  rewrite <- !app_assoc. reflexivity.
Qed.

Lemma obj_content_render d root o :
  nodupb (map fst d) = true -> (length (render d root) <= 65536)%nat ->
  In o d -> endobj_clean o = true ->
  exists offs, true_off d (fst o) = Some offs
            /\ obj_content (render d root) (fst o) offs = Some (content_of o).
Proof.
  intros ND L Io EC. apply in_split in Io. destruct Io as [pre [post ->]].
  exists (len HEADER + len (body_bytes pre)). split; [apply true_off_split; exact ND|].
  eapply obj_content_window; [exact L| |exact EC].
  rewrite render_split.
  replace (N.to_nat (len HEADER + len (body_bytes pre))) with (length (HEADER ++ body_bytes pre)).
  - apply skipn_app_exact.
  - rewrite app_length. unfold len. lia.
Qed.

(** [content_has] on the recovered table = the predicate on the object's own text *)
Lemma content_has_render d root o f :
  nodupb (map fst d) = true -> (length (render d root) <= 65536)%nat ->
  In o d -> endobj_clean o = true ->
  content_has (render d root) (add_headers (offsets d)) (fst o) f = f (content_of o).
Proof.
  intros ND L Io EC. destruct (obj_content_render d root o ND L Io EC) as [offs [T C]].
  unfold content_has. rewrite add_headers_offsets, T. cbn [option_map]. rewrite C. reflexivity.
Qed.

Lemma nat_le_N a : (a <= 65536)%nat -> N.of_nat a <= 65536.
Proof.
  intro H. change 65536 with (N.of_nat 65536%nat).
  unfold N.le. rewrite <- Nat2N.inj_compare. apply Nat.compare_le_iff. exact H.
Qed.

(** * the theorem *)
Theorem catalog_found : forall d root, wf d = true -> quiet_doc d = true -> cat_hyp d root = true ->
  option_map (fun r => snd (fst r)) (recover (render d root)) = Some (RFound root).
Proof.
  intros d root W Q C.
  unfold cat_hyp in C. repeat rewrite andb_true_iff in C.
  destruct C as [[[[H1 H2] H3] H4] H5].
  apply Nat.leb_le in H5.
  assert (LN : len (render d root) <= 65536) by (apply nat_le_N; exact H5).
  assert (W' := W). unfold wf in W'. repeat rewrite andb_true_iff in W'.
  destruct W' as [[W1 ND] _]. apply negb_true_iff in W1.
  unfold recover. rewrite (scan_file_render d root W Q LN).
  pose proof (offsets_nonempty d W1) as NE.
  destruct (add_headers (offsets d)) as [|e0 t0] eqn:ET; [contradiction|].
  rewrite <- ET. clear NE. cbn [option_map fst snd]. f_equal.
  (* stage 4a finds nothing *)
  unfold find_catalog.
  destruct (extract_root (render d root)) as [x|] eqn:ER; [discriminate|].
  (* stage 4b *)
  assert (KEYS : forall k, In k (map fst (sort_tbl (add_headers (offsets d)))) ->
                           exists o, In o d /\ fst o = k).
  { intros k Ik. apply (proj1 (sort_tbl_in _ _)) in Ik. apply (proj1 (tlookup_in _ _)) in Ik. rewrite add_headers_offsets in Ik.
    apply true_off_some_in. intro TN. rewrite TN in Ik. apply Ik. reflexivity. }
  apply existsb_exists in H2. destruct H2 as [o [Io H2]]. apply andb_true_iff in H2.
  destruct H2 as [Eo Co]. apply N.eqb_eq in Eo. subst root.
  rewrite forallb_forall in H1, H3.
  rewrite (find_sorted (fun n => content_has (render d (fst o)) (add_headers (offsets d)) n (contains P_CAT)) (fst o)).
  - reflexivity.
  - apply sort_tbl_sorted.
  - apply (proj2 (sort_tbl_in _ _)). apply (proj2 (tlookup_in _ _)). rewrite add_headers_offsets.
    destruct (obj_content_render d (fst o) o ND H5 Io (H1 o Io)) as [offs [T _]].
    rewrite T. discriminate.
  - rewrite (content_has_render d (fst o) o _ ND H5 Io (H1 o Io)). exact Co.
  - intros x Ix Lx. destruct (KEYS x Ix) as [ox [Iox Eox]]. subst x.
    rewrite (content_has_render d (fst o) ox _ ND H5 Iox (H1 ox Iox)).
    pose proof (H3 ox Iox) as K. apply N.ltb_lt in Lx. rewrite Lx in K. cbn [negb orb] in K.
    apply negb_true_iff in K. exact K.
Qed.

(** the hypotheses are satisfiable *)
Example catalog_found_nonvacuous :
  wf D_OK = true /\ quiet_doc D_OK = true /\ cat_hyp D_OK 1 = true.
Proof. vm_compute. repeat split; reflexivity. Qed.

Example catalog_found_D_OK :
  option_map (fun r => snd (fst r)) (recover (render D_OK 1)) = Some (RFound 1).
Proof. apply catalog_found; vm_compute; reflexivity. Qed.
