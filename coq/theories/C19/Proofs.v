(** C19 — proofs.  See Model.v for the model/spec and Props/C19.v for the statements. *)
From OxVerif Require Import Base.Util C09.Model C09.Tokens C19.Model.
Require Import Lia.
Open Scope N_scope.

(** * small facts *)
Lemma len_app a b : len (a ++ b) = len a + len b.
Proof. unfold len. rewrite app_length. lia. Qed.
Lemma len_cons x a : len (x :: a) = len a + 1.
Proof. unfold len. cbn [length]. lia. Qed.
Lemma len_nil : len [] = 0.
Proof. reflexivity. Qed.

(** bytes that are neither 'j' nor an end-of-line *)
Definition plain (b : N) : bool := negb (b =? 106) && negb (is_eol b).
Definition noj (b : N) : bool := negb (b =? 106).

Lemma digit_plain b : is_digit b = true -> plain b = true.
Proof.
  unfold is_digit, plain, is_eol. intro H.
  apply andb_true_iff in H. destruct H as [H1 H2].
  apply N.leb_le in H1. apply N.leb_le in H2.
  assert (b =? 106 = false) by (apply N.eqb_neq; lia).
  assert (b =? 10 = false) by (apply N.eqb_neq; lia).
  assert (b =? 13 = false) by (apply N.eqb_neq; lia).
  rewrite H, H0, H3. reflexivity.
Qed.

Lemma forallb_impl {A} (f g : A -> bool) l :
  (forall x, f x = true -> g x = true) -> forallb f l = true -> forallb g l = true.
Proof.
  intros H. induction l; cbn; intro E; [reflexivity|].
  apply andb_true_iff in E. destruct E. rewrite H, IHl; auto.
Qed.

Lemma plain_noj b : plain b = true -> noj b = true.
Proof. unfold plain, noj. intro H. apply andb_true_iff in H. tauto. Qed.
Lemma plain_noeol b : plain b = true -> is_eol b = false.
Proof. unfold plain. intro H. apply andb_true_iff in H. destruct H as [_ H]. now apply negb_true_iff in H. Qed.

Lemma dec_plain n : forallb plain (dec n) = true.
Proof. eapply forallb_impl; [apply digit_plain | apply dec_digits]. Qed.

(** * the scan as a left fold: quiet segments *)
Lemma run_app base a b s : run base (a ++ b) s = run base b (run base a s).
Proof. unfold run. apply fold_left_app. Qed.

Fixpoint line_after (lr seg : bytes) : bytes :=
  match seg with
  | [] => lr
  | b :: r => if is_eol b then line_after [] r else line_after (b :: lr) r
  end.
Fixpoint ls_after (o l : N) (seg : bytes) : N :=
  match seg with
  | [] => l
  | b :: r => if is_eol b then ls_after (o + 1) (o + 1) r else ls_after (o + 1) l r
  end.

Lemma step_eol base s b : is_eol b = true ->
  step base s b = mk (off s + 1) (off s + 1) [] (seen s) (out s).
Proof. intro E. unfold step. rewrite E. reflexivity. Qed.

Lemma step_quiet base s b : is_eol b = false -> fires (b :: lrev s) = false ->
  step base s b = mk (off s + 1) (ls s) (b :: lrev s) (seen s) (out s).
Proof.
  intros E F. unfold step. rewrite E. cbv zeta. unfold fires in F.
  destruct (obj_shape (b :: lrev s)); [|reflexivity].
  destruct (6 <=? off s); [|reflexivity].
  cbn [andb] in F.
  destruct (parse_obj_header (rev (b :: lrev s))) as [[n g]|]; [discriminate|reflexivity].
Qed.

Lemma run_quiet base : forall seg s, quiet_from (lrev s) seg = true ->
  run base seg s =
  mk (off s + len seg) (ls_after (off s) (ls s) seg) (line_after (lrev s) seg) (seen s) (out s).
Proof.
  induction seg as [|b r IH]; intros s Q.
  - destruct s. unfold run, len. cbn [fold_left length N.of_nat Model.off Model.ls Model.lrev Model.seen Model.out ls_after line_after]. rewrite N.add_0_r. reflexivity.
  - unfold run in *. cbn [fold_left]. cbn [quiet_from] in Q.
    cbn [line_after ls_after]. rewrite len_cons.
    destruct (is_eol b) eqn:E.
    + rewrite (step_eol base s b E). rewrite IH by exact Q. cbn [Model.off Model.ls Model.lrev Model.seen Model.out].
      f_equal. lia.
    + destruct (fires (b :: lrev s)) eqn:F; [discriminate|].
      rewrite (step_quiet base s b E F). rewrite IH by exact Q. cbn [Model.off Model.ls Model.lrev Model.seen Model.out].
      f_equal. lia.
Qed.

Lemma fires_noj b lr : noj b = true -> fires (b :: lr) = false.
Proof.
  unfold noj, fires, obj_shape. intro H. apply negb_true_iff in H.
  destruct lr as [|x [|y t]]; try reflexivity. rewrite H. reflexivity.
Qed.

Lemma quiet_noj : forall seg lr, forallb noj seg = true -> quiet_from lr seg = true.
Proof.
  induction seg as [|b r IH]; intros lr H; [reflexivity|].
  cbn in H. apply andb_true_iff in H. destruct H as [H1 H2].
  cbn [quiet_from]. destruct (is_eol b); [apply IH; exact H2|].
  rewrite fires_noj by exact H1. apply IH. exact H2.
Qed.

Lemma after_plain : forall seg lr o l, forallb plain seg = true ->
  line_after lr seg = rev seg ++ lr /\ ls_after o l seg = l.
Proof.
  induction seg as [|b r IH]; intros lr o l H; [split; reflexivity|].
  cbn in H. apply andb_true_iff in H. destruct H as [H1 H2].
  cbn [line_after ls_after]. rewrite (plain_noeol b H1).
  destruct (IH (b :: lr) (o + 1) l H2) as [A B]. rewrite A, B. split; [|reflexivity].
  cbn [rev]. rewrite <- app_assoc. reflexivity.
Qed.

Lemma after_eol_end : forall x e lr o l, is_eol e = true ->
  line_after lr (x ++ [e]) = [] /\ ls_after o l (x ++ [e]) = o + len (x ++ [e]).
Proof.
  induction x as [|b r IH]; intros e lr o l E.
  - cbn [app line_after ls_after]. rewrite E. split; [reflexivity|]. unfold len. cbn [length]. lia.
  - cbn [app line_after ls_after]. rewrite len_cons.
    destruct (is_eol b).
    + destruct (IH e [] (o + 1) (o + 1) E) as [A0 B0]. rewrite A0, B0. split; [reflexivity|lia].
    + destruct (IH e (b :: lr) (o + 1) l E) as [A0 B0]. rewrite A0, B0. split; [reflexivity|lia].
Qed.

(** * parse_obj_header on a rendered header line *)
Lemma ws_len_digit d r : is_digit d = true -> ws_len (d :: r) = O.
Proof.
  unfold is_digit. intro H. apply andb_true_iff in H. destruct H as [H1 H2].
  apply N.leb_le in H1. apply N.leb_le in H2. unfold ws_len.
  assert (E1 : (9 <=? d) && (d <=? 13) = false).
  { apply andb_false_iff. right. apply N.leb_gt. lia. }
  assert (E2 : d =? 32 = false) by (apply N.eqb_neq; lia).
  assert (E3 : d =? 194 = false) by (apply N.eqb_neq; lia).
  assert (E4 : d =? 225 = false) by (apply N.eqb_neq; lia).
  assert (E5 : d =? 226 = false) by (apply N.eqb_neq; lia).
  assert (E6 : d =? 227 = false) by (apply N.eqb_neq; lia).
  rewrite E1, E2, E3, E4, E5, E6. reflexivity.
Qed.

Lemma split_ws_digits : forall ds l cur acc, forallb is_digit ds = true ->
  split_ws (ds ++ l) O cur acc = split_ws l O (rev ds ++ cur) acc.
Proof.
  induction ds as [|d r IH]; intros l cur acc H; [reflexivity|].
  cbn in H. apply andb_true_iff in H. destruct H as [H1 H2].
  cbn [app split_ws]. rewrite (ws_len_digit d (r ++ l) H1).
  rewrite IH by exact H2. cbn [rev]. rewrite <- app_assoc. reflexivity.
Qed.

Lemma parse_uint_dec n m : n <= m -> parse_uint m (dec n) = Some n.
Proof.
  intro L. unfold parse_uint.
  pose proof (dec_digits n) as D. pose proof (dec_nonempty n) as NE. pose proof (dec_val n) as V.
  destruct (dec n) as [|c r] eqn:E; [contradiction|].
  assert (c =? 43 = false) as C.
  { cbn in D. apply andb_true_iff in D. destruct D as [D _]. unfold is_digit in D.
    apply andb_true_iff in D. destruct D as [D _]. apply N.leb_le in D. apply N.eqb_neq. lia. }
  rewrite C, D, V. apply N.leb_le in L. rewrite L. reflexivity.
Qed.

Lemma split_tail cur : cur <> [] -> split_ws (B " 0 obj") O cur [] = [rev cur; [48]; w_obj].
Proof. destruct cur as [|c r]; [contradiction|]. intros _. vm_compute. reflexivity. Qed.

Lemma parse_hdr_render n : n <= U32MAX ->
  parse_obj_header (dec n ++ B " 0 obj") = Some (n, 0).
Proof.
  intro L. unfold parse_obj_header, tokens.
  rewrite split_ws_digits by apply dec_digits. rewrite app_nil_r.
  pose proof (dec_nonempty n) as NE.
  assert (R : rev (dec n) <> []).
  { intro E. apply NE. rewrite <- (rev_involutive (dec n)), E. reflexivity. }
  rewrite (split_tail _ R), rev_involutive.
  cbv beta iota.
  replace (bytes_eqb w_obj w_obj) with true by reflexivity. cbv iota.
  rewrite (parse_uint_dec n U32MAX L).
  replace (parse_uint U16MAX [48]) with (Some 0) by reflexivity.
  reflexivity.
Qed.

(** * one rendered object *)
Definition clean (s : st) : Prop := lrev s = [] /\ ls s = off s.

Definition PRE : bytes := [32; 48; 32; 111; 98].   (* " 0 ob" *)

Lemma render_obj_split o :
  render_obj o = (dec (fst o) ++ PRE) ++ [106] ++ [10] ++ (snd o ++ S_END).
Proof. unfold render_obj, S_OBJ_NL, PRE. cbn [B bytes_of_string]. rewrite <- !app_assoc. reflexivity. Qed.

Lemma pre_plain n : forallb plain (dec n ++ PRE) = true.
Proof. rewrite forallb_app, dec_plain. reflexivity. Qed.

Lemma s_end_split : S_END = (10 :: B "endobj") ++ [10].
Proof. reflexivity. Qed.

Lemma memN_false x l : (forall y, In y l -> y < x) -> memN x l = false.
Proof.
  intro H. unfold memN. induction l as [|y r IH]; [reflexivity|].
  cbn. assert (x =? y = false) by (apply N.eqb_neq; specialize (H y (or_introl eq_refl)); lia).
  rewrite H0. apply IH. intros z Hz. apply H. now right.
Qed.

Lemma step_fire base s n :
  lrev s = rev (dec n ++ PRE) -> 6 <= off s -> n <= U32MAX ->
  memN (base + ls s) (seen s) = false ->
  step base s 106 = mk (off s + 1) (ls s) (106 :: lrev s) ((base + ls s) :: seen s)
                       ((n, 0, base + ls s) :: out s).
Proof.
  intros HL H6 L M. unfold step. change (is_eol 106) with false. cbv zeta iota.
  assert (SH : obj_shape (106 :: lrev s) = true).
  { rewrite HL, rev_app_distr. reflexivity. }
  rewrite SH. apply N.leb_le in H6. rewrite H6.
  assert (E : rev (106 :: lrev s) = dec n ++ B " 0 obj").
  { rewrite HL. cbn [rev]. rewrite rev_involutive, <- app_assoc. reflexivity. }
  rewrite E, (parse_hdr_render n L), M. reflexivity.
Qed.

Lemma run_render_obj base s o :
  clean s -> fst o <= U32MAX -> quiet_body o = true ->
  (forall y, In y (seen s) -> y < base + off s) ->
  run base (render_obj o) s =
  mk (off s + len (render_obj o)) (off s + len (render_obj o)) []
     ((base + off s) :: seen s) ((fst o, 0, base + off s) :: out s).
Proof.
  intros [C1 C2] L Q SN.
  rewrite render_obj_split at 1.
  rewrite (run_app base (dec (fst o) ++ PRE)), (run_app base [106]), (run_app base [10]).
  pose proof (pre_plain (fst o)) as PL.
  rewrite (run_quiet base (dec (fst o) ++ PRE) s)
    by (apply quiet_noj; eapply forallb_impl; [apply plain_noj|exact PL]).
  destruct (after_plain (dec (fst o) ++ PRE) (lrev s) (off s) (ls s) PL) as [A1 A2].
  rewrite A1, A2, C1, C2, app_nil_r.
  set (o1 := off s + len (dec (fst o) ++ PRE)).
  assert (O6 : 6 <= o1).
  { unfold o1. rewrite len_app.
    pose proof (dec_nonempty (fst o)). unfold len. destruct (dec (fst o)); [contradiction|].
    unfold PRE. cbn [length]. lia. }
  unfold run at 3. cbn [fold_left].
  rewrite (step_fire base _ (fst o)); cbn [Model.off Model.ls Model.lrev Model.seen Model.out];
    [| reflexivity | exact O6 | exact L | apply memN_false; exact SN].
  unfold run at 2. cbn [fold_left]. rewrite step_eol by reflexivity. cbn [Model.off Model.ls Model.lrev Model.seen Model.out].
  rewrite run_quiet by (cbn [Model.lrev]; exact Q). cbn [Model.off Model.ls Model.lrev Model.seen Model.out].
  rewrite s_end_split, app_assoc.
  destruct (after_eol_end (snd o ++ 10 :: B "endobj") 10 [] (o1 + 1 + 1) (o1 + 1 + 1) eq_refl) as [E1 E2].
  rewrite E1, E2.
  assert (LEN : o1 + 1 + 1 + len ((snd o ++ 10 :: B "endobj") ++ [10]) = off s + len (render_obj o)).
  { unfold o1. rewrite render_obj_split. rewrite s_end_split.
    rewrite !len_app. unfold len. cbn [length]. lia. }
  rewrite LEN. reflexivity.
Qed.

(** * all objects of a document *)
Lemma render_obj_len_pos o : 0 < len (render_obj o).
Proof. unfold render_obj. rewrite !len_app. unfold S_END, len. cbn [length]. lia. Qed.

Lemma run_body base : forall d s,
  clean s -> forallb (fun o => fst o <=? U32MAX) d = true -> quiet_doc d = true ->
  (forall y, In y (seen s) -> y < base + off s) ->
  off (run base (body_bytes d) s) = off s + len (body_bytes d)
  /\ clean (run base (body_bytes d) s)
  /\ out (run base (body_bytes d) s) = rev (offsets_from (base + off s) d) ++ out s
  /\ (forall y, In y (seen (run base (body_bytes d) s)) -> y < base + off (run base (body_bytes d) s)).
Proof.
  induction d as [|o r IH]; intros s C U Q SN.
  - unfold body_bytes, run. cbn [flat_map fold_left offsets_from rev app]. rewrite len_nil, N.add_0_r.
    repeat split; try apply C; auto.
  - unfold body_bytes. cbn [flat_map]. fold (body_bytes r). rewrite run_app.
    cbn [forallb] in U. apply andb_true_iff in U. destruct U as [U1 U2]. apply N.leb_le in U1.
    unfold quiet_doc in Q. cbn [forallb] in Q. apply andb_true_iff in Q. destruct Q as [Q1 Q2].
    rewrite (run_render_obj base s o C U1 Q1 SN).
    set (s1 := mk (off s + len (render_obj o)) (off s + len (render_obj o)) []
                  ((base + off s) :: seen s) ((fst o, 0, base + off s) :: out s)).
    pose proof (render_obj_len_pos o) as P.
    assert (C1 : clean s1) by (split; reflexivity).
    assert (SN1 : forall y, In y (seen s1) -> y < base + off s1).
    { unfold s1. cbn [Model.seen Model.off]. intros y [<-|Hy]; [lia|]. specialize (SN y Hy). lia. }
    destruct (IH s1 C1 U2 Q2 SN1) as [A [B0 [C0 D]]].
    repeat split; try apply B0.
    + rewrite A. unfold s1. cbn [Model.off]. rewrite len_app. lia.
    + rewrite C0. unfold s1. cbn [Model.off Model.out offsets_from rev].
      rewrite <- app_assoc. cbn [app]. rewrite N.add_assoc. reflexivity.
    + exact D.
Qed.

(** * header and tail *)
Lemma noj_repeat k : forallb noj (repeat 48 k) = true.
Proof. induction k; [reflexivity|]. cbn [repeat forallb]. rewrite IHk. reflexivity. Qed.
Lemma dec_noj n : forallb noj (dec n) = true.
Proof. eapply forallb_impl; [apply plain_noj | apply dec_plain]. Qed.
Lemma noj_flat_map {A} (f : A -> bytes) l :
  (forall x, forallb noj (f x) = true) -> forallb noj (flat_map f l) = true.
Proof.
  intro H. induction l as [|x r IH]; [reflexivity|].
  cbn [flat_map]. rewrite forallb_app, H, IH. reflexivity.
Qed.
Lemma xref_entry_noj d i : forallb noj (xref_entry d i) = true.
Proof.
  unfold xref_entry. destruct (if i =? 0 then None else true_off d i).
  - unfold pad10. rewrite !forallb_app, noj_repeat, dec_noj. reflexivity.
  - reflexivity.
Qed.
Lemma tail_noj d root : forallb noj (tail_bytes d root) = true.
Proof.
  unfold tail_bytes.
  rewrite !forallb_app, !dec_noj, (noj_flat_map (xref_entry d) _ (xref_entry_noj d)).
  reflexivity.
Qed.

Lemma wf_u32 d : wf d = true -> forallb (fun o => fst o <=? U32MAX) d = true.
Proof.
  unfold wf. intro H. apply andb_true_iff in H. destruct H as [_ H].
  eapply forallb_impl; [|exact H]. intros x Hx. apply andb_true_iff in Hx. tauto.
Qed.

Lemma run_header : run 0 HEADER (mk 0 0 [] [] []) = mk 15 15 [] [] [].
Proof. vm_compute. reflexivity. Qed.

(** the whole-file window finds exactly the true offsets (any file size) *)
Lemma scan_window_render d root : wf d = true -> quiet_doc d = true ->
  snd (scan_window (render d root) 0 [] []) = rev (offsets d).
Proof.
  intros W Q. unfold scan_window, render. rewrite !run_app, run_header.
  set (s1 := mk 15 15 [] [] []).
  assert (C1 : clean s1) by (split; reflexivity).
  assert (SN1 : forall y, In y (seen s1) -> y < 0 + off s1) by (intros y []).
  destruct (run_body 0 d s1 C1 (wf_u32 d W) Q SN1) as [A [[B1 B2] [C0 D]]].
  rewrite run_quiet by (apply quiet_noj, tail_noj).
  cbn [snd Model.out]. rewrite C0. unfold s1. cbn [Model.off Model.out].
  rewrite app_nil_r. reflexivity.
Qed.

(** * the chunked loop on a file of at most one chunk that ends with an end-of-line *)
Definition cs_f := (fun '(i, s) (b : N) => (i + 1, if is_eol b then i + 1 else s)) : N * N -> N -> N * N.
Lemma cs_fst : forall w i s, fst (fold_left cs_f w (i, s)) = i + len w.
Proof.
  induction w as [|b r IH]; intros i s.
  - cbn [fold_left fst]. rewrite len_nil. lia.
  - cbn [fold_left cs_f]. rewrite IH, len_cons. lia.
Qed.
Lemma carry_start_eol x e : is_eol e = true -> carry_start (x ++ [e]) = len (x ++ [e]).
Proof.
  intro E. unfold carry_start. fold cs_f. rewrite fold_left_app.
  pose proof (cs_fst x 0 0) as F. destruct (fold_left cs_f x (0, 0)) as [i s]. cbn [fst] in F.
  cbn [fold_left cs_f snd]. rewrite E, F, len_app. unfold len at 3. cbn [length]. lia.
Qed.

Lemma chunked_step f chunk rest carry wbase sn o :
  chunked (S f) chunk rest carry wbase sn o =
    let filled := firstn chunk rest in
    let rest' := skipn chunk rest in
    let eof := is_nil filled in
    if eof && is_nil carry then o
    else
      let window := carry ++ filled in
      let '(sn', o') := scan_window window wbase sn o in
      if eof then o'
      else
        let start0 := carry_start window in
        let start := if CARRY_CAP <? len window - start0 then len window - CARRY_CAP else start0 in
        chunked f chunk rest' (skipn (N.to_nat start) window) (wbase + start) sn' o'.
Proof. reflexivity. Qed.

Lemma chunked_eof f chunk wb sn o : chunked (S f) chunk [] [] wb sn o = o.
Proof. rewrite chunked_step. cbv zeta. rewrite firstn_nil. reflexivity. Qed.

Lemma chunked_one_window f chunk x e :
  is_eol e = true -> (length (x ++ [e]) <= chunk)%nat ->
  chunked (S (S f)) chunk (x ++ [e]) [] 0 [] [] = snd (scan_window (x ++ [e]) 0 [] []).
Proof.
  intros E L. pose proof (carry_start_eol x e E) as CS.
  assert (NE : is_nil (x ++ [e]) = false) by (destruct x; reflexivity).
  remember (x ++ [e]) as file eqn:EF. clear EF.
  rewrite chunked_step. cbv zeta.
  rewrite (firstn_all2 file L), (skipn_all2 file L), NE. cbn [andb app].
  destruct (scan_window file 0 [] []) as [sn o]. cbn [snd].
  rewrite CS, N.sub_diag. replace (CARRY_CAP <? 0) with false by reflexivity. cbv iota.
  unfold len. rewrite Nat2N.id, skipn_all. apply chunked_eof.
Qed.

Lemma render_ends_eol d root : exists x, render d root = x ++ [10].
Proof. unfold render, tail_bytes. rewrite !app_assoc. eexists. reflexivity. Qed.

(** offsets are strictly increasing, so the final stable sort changes nothing *)
Lemma isort_offsets_from : forall d o, isort_off (offsets_from o d) = offsets_from o d.
Proof.
  induction d as [|x r IH]; intro o; [reflexivity|].
  cbn [offsets_from isort_off]. rewrite IH.
  destruct r as [|y r']; [reflexivity|].
  cbn [offsets_from ins_off h_off snd].
  replace (o <=? o + len (render_obj x)) with true; [reflexivity|].
  symmetry. apply N.leb_le. lia.
Qed.

Lemma scan_file_render d root : wf d = true -> quiet_doc d = true ->
  len (render d root) <= 65536 ->
  scan_file 65536 (render d root) = offsets d.
Proof.
  intros W Q L. unfold scan_file.
  destruct (render_ends_eol d root) as [x EX].
  replace (N.max 65536 1) with 65536 by reflexivity.
  rewrite EX at 2. rewrite (chunked_one_window _ _ x 10 eq_refl).
  - rewrite <- EX, (scan_window_render d root W Q), rev_involutive. apply isort_offsets_from.
  - rewrite <- EX. unfold len in L. lia.
Qed.

(** * latest-wins table and its lookups *)
Lemma tlookup_upsert : forall t m v n,
  tlookup (upsert t m v) n = if m =? n then Some v else tlookup t n.
Proof.
  induction t as [|[k w] r IH]; intros m v n.
  - reflexivity.
  - cbn [upsert]. destruct (k =? m) eqn:KM.
    + apply N.eqb_eq in KM. subst k. cbn [tlookup]. destruct (m =? n); reflexivity.
    + cbn [tlookup]. rewrite IH. destruct (k =? n) eqn:KN; destruct (m =? n) eqn:MN; try reflexivity.
      apply N.eqb_eq in KN. apply N.eqb_eq in MN. subst. rewrite N.eqb_refl in KM. discriminate.
Qed.

Definition upd_full (n : N) (acc : option (N * N)) (h : hdr) : option (N * N) :=
  if h_obj h =? n then Some (h_off h, h_gen h) else acc.

Lemma tlookup_fold : forall hs t n,
  tlookup (fold_left (fun t h => upsert t (h_obj h) (h_off h, h_gen h)) hs t) n
  = fold_left (upd_full n) hs (tlookup t n).
Proof.
  induction hs as [|h r IH]; intros t n; [reflexivity|].
  cbn [fold_left]. rewrite IH, tlookup_upsert. reflexivity.
Qed.

Lemma offsets_from_gen0 : forall d o h, In h (offsets_from o d) -> h_gen h = 0.
Proof.
  induction d as [|x r IH]; intros o h H; [destruct H|].
  cbn [offsets_from] in H. destruct H as [<-|H]; [reflexivity|]. eapply IH; exact H.
Qed.

Lemma fold_gen0 n : forall hs acc, (forall h, In h hs -> h_gen h = 0) ->
  fold_left (upd_full n) hs (option_map (fun o => (o, 0)) acc)
  = option_map (fun o => (o, 0))
      (fold_left (fun acc h => if h_obj h =? n then Some (h_off h) else acc) hs acc).
Proof.
  induction hs as [|h r IH]; intros acc G; [reflexivity|].
  cbn [fold_left]. rewrite <- IH by (intros; apply G; now right).
  f_equal. unfold upd_full. rewrite (G h (or_introl eq_refl)).
  destruct (h_obj h =? n); reflexivity.
Qed.

Lemma add_headers_offsets d n :
  tlookup (add_headers (offsets d)) n = option_map (fun o => (o, 0)) (true_off d n).
Proof.
  unfold add_headers, true_off. rewrite tlookup_fold.
  change (tlookup [] n) with (option_map (fun o : N => (o, 0)) None).
  apply fold_gen0. intros h H. eapply offsets_from_gen0. exact H.
Qed.

Lemma recovered_table d root n : wf d = true -> quiet_doc d = true ->
  len (render d root) <= 65536 ->
  tlookup (recover_tbl (render d root)) n = option_map (fun o => (o, 0)) (true_off d n).
Proof.
  intros W Q L. unfold recover_tbl. rewrite (scan_file_render d root W Q L).
  apply add_headers_offsets.
Qed.

Lemma fold_some n : forall hs acc, acc <> None ->
  fold_left (fun acc h => if h_obj h =? n then Some (h_off h) else acc) hs acc <> None.
Proof.
  induction hs as [|h t IH]; intros acc A; [exact A|]. cbn [fold_left]. apply IH.
  destruct (h_obj h =? n); [discriminate|exact A].
Qed.

Lemma offsets_nonempty d : is_nil d = false -> add_headers (offsets d) <> [].
Proof.
  destruct d as [|x r]; [discriminate|]. intros _ E.
  pose proof (add_headers_offsets (x :: r) (fst x)) as H. rewrite E in H. cbn [tlookup] in H.
  assert (K : true_off (x :: r) (fst x) <> None).
  { unfold true_off, offsets. cbn [offsets_from fold_left]. unfold h_obj at 1. cbn [fst].
    rewrite N.eqb_refl. apply fold_some. discriminate. }
  destruct (true_off (x :: r) (fst x)); [discriminate|contradiction].
Qed.

(** when the primary parse fails and recovery is allowed the reader works with the true table *)
Lemma recovery_faithful d root attempts n : wf d = true -> quiet_doc d = true ->
  len (render d root) <= 65536 -> 0 < attempts ->
  exists t, table_used None (render d root) attempts = Some t
            /\ tlookup t n = option_map (fun o => (o, 0)) (true_off d n).
Proof.
  intros W Q L A. unfold table_used, decide. apply N.ltb_lt in A. rewrite A.
  replace (1 =? 0) with false by reflexivity. replace (1 =? 1) with true by reflexivity.
  pose proof (recovered_table d root n W Q L) as R.
  assert (NE : recover_tbl (render d root) <> []).
  { unfold recover_tbl. rewrite (scan_file_render d root W Q L). apply offsets_nonempty.
    unfold wf in W. apply andb_true_iff in W. destruct W as [W _]. apply andb_true_iff in W.
    destruct W as [W _]. now apply negb_true_iff in W. }
  destruct (recover_tbl (render d root)) as [|e t] eqn:E; [contradiction|].
  exists (e :: t). split; [reflexivity|exact R].
Qed.

(** * witnesses (hypotheses satisfiable; findings) *)
Definition D_OK : doc :=
  [(1, B "<< /Type /Catalog /Pages 2 0 R >>"); (2, B "<< /Type /Pages /Kids [] /Count 0 >>"); (5, B "(obj 7 0 objx)")].
Definition D_HIJACK : doc :=
  [(1, B "<< /Type /Catalog /Pages 2 0 R >>"); (2, B "<< /Type /Pages /Kids [] /Count 0 >>");
   (3, B "<< /Length 14 >>" ++ [10] ++ B "stream" ++ [10] ++ B "q" ++ [10] ++ B "1 0 obj" ++ [10] ++ B "Q" ++ [10] ++ B "endstream")].
Definition D_DECOY : doc :=
  [(1, B "<< /Note (/Type /Catalog) >>"); (2, B "<< /Type /Catalog /Pages 3 0 R >>"); (3, B "<< /Type /Pages /Kids [] /Count 0 >>")].

Lemma hyps_satisfiable : wf D_OK = true /\ quiet_doc D_OK = true /\ len (render D_OK 1) <= 65536
  /\ cat_hyp D_OK 1 = true /\ scan_file 65536 (render D_OK 1) = offsets D_OK
  /\ recover (render D_OK 1) = Some (true_tbl D_OK, RFound 1, 3).
Proof. vm_compute. repeat split; try reflexivity; discriminate. Qed.

Lemma header_like_line_refuted :
  wf D_HIJACK = true /\ quiet_doc D_HIJACK = false /\
  tlookup (recover_tbl (render D_HIJACK 1)) 1 <> option_map (fun o => (o, 0)) (true_off D_HIJACK 1).
Proof. vm_compute. repeat split; try reflexivity; discriminate. Qed.

Lemma catalog_text_refuted :
  wf D_DECOY = true /\ quiet_doc D_DECOY = true /\ cat_hyp D_DECOY 2 = false /\
  option_map (fun r => snd (fst r)) (recover (render D_DECOY 2)) = Some (RFound 1).
Proof. vm_compute. repeat split; reflexivity. Qed.

(** a parseable but shifted section is used as it is *)
Lemma parseable_damage_refuted :
  exists t, wf D_OK = true /\ quiet_doc D_OK = true
    /\ table_used (Some t) (render D_OK 1) 3 = Some t
    /\ tlookup t 2 <> option_map (fun o => (o, 0)) (true_off D_OK 2).
Proof.
  exists (map (fun e => (fst e, (fst (snd e) + 1, snd (snd e)))) (true_tbl D_OK)).
  vm_compute. repeat split; try reflexivity; discriminate.
Qed.
