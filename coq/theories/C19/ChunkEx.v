(** C19 — examples for the carry argument (Chunk.v, ChunkLong.v): the side condition on long lines is
    genuine, and the hypotheses are satisfiable on a file of more than one chunk. *)
From OxVerif Require Import Base.Util C09.Model C09.Tokens C19.Model C19.Proofs C19.Chunk C19.ChunkLong.
Require Import Lia.
Open Scope N_scope.

(** * the side condition is genuine *)
(** (a) a header line longer than the carry is MISSED: "1", 1100 blanks, "0 obj" — one window
    finds object 1 at offset 0, the chunked scan (chunk 64) drops the "1" with the capped carry *)
Definition F_LONGHDR : bytes := B "1 " ++ repeat 32 1100 ++ B "0 obj" ++ [10].
Example long_header_line_missed :
  snd (scan_window F_LONGHDR 0 [] []) = [(1, 0, 0)] /\ scan_file 64 F_LONGHDR = [].
Proof. vm_compute. split; reflexivity. Qed.
Lemma long_header_line_outside : long_lines_dead F_LONGHDR = false.
Proof.
  destruct (long_lines_dead F_LONGHDR) eqn:E; [|reflexivity].
  destruct long_header_line_missed as [A S].
  rewrite (scan_file_whole2 F_LONGHDR 64 E), A in S. discriminate S.
Qed.

(** (b) a rendered, well-formed, quiet document larger than one chunk whose object 2 is one body
    line longer than the carry: "x", 65550 blanks, "1 0 obj".  The window after the capped carry
    starts inside that line and reports a second object 1 at the truncation offset 64512; being the
    later one it wins, so the recovered table sends object 1 (the catalog) into object 2's body.
    (quiet_doc is proved, not computed: [rev] on a 65 KB line at every byte is too slow.) *)
Definition LL_BODY (n : nat) : bytes := 120 :: 32 :: repeat 32 n ++ B "1 0 obj".
Definition D_LONGLINE : doc :=
  [(1, B "<< /Type /Catalog /Pages 2 0 R >>"); (2, LL_BODY 65549)].

Lemma quiet_from_plain : forall a lr b, forallb plain a = true ->
  quiet_from lr (a ++ b) = quiet_from (rev a ++ lr) b.
Proof.
  induction a as [|c a IH]; intros lr b H; [reflexivity|].
  cbn [forallb] in H. apply andb_true_iff in H. destruct H as [H1 H2].
  cbn [app quiet_from]. rewrite (plain_noeol c H1), (fires_noj c lr (plain_noj c H1)).
  rewrite IH by exact H2. cbn [rev]. rewrite <- app_assoc. reflexivity.
Qed.

Lemma plain_repeat32 n : forallb plain (repeat 32 n) = true.
Proof. induction n as [|n IH]; [reflexivity|]. cbn [repeat forallb]. rewrite IH. reflexivity. Qed.

Lemma split_ws_spaces : forall n l acc,
  split_ws (repeat 32 n ++ l) O [] acc = split_ws l O [] acc.
Proof. induction n as [|n IH]; intros l acc; [reflexivity|]. cbn [repeat app]. rewrite <- (IH l acc). reflexivity. Qed.

Lemma parse_ll n : parse_obj_header (LL_BODY n) = None.
Proof.
  unfold parse_obj_header, tokens, LL_BODY.
  change (split_ws (120 :: 32 :: repeat 32 n ++ B "1 0 obj") O [] [])
    with (split_ws (repeat 32 n ++ B "1 0 obj") O [] [[120]]).
  rewrite split_ws_spaces. vm_compute. reflexivity.
Qed.

Lemma quiet_ll n : quiet_body (2, LL_BODY n) = true.
Proof.
  unfold quiet_body. cbn [snd].
  set (a := 120 :: 32 :: repeat 32 n ++ B "1 0 ob").
  assert (E0 : LL_BODY n = a ++ [106]).
  { unfold LL_BODY, a. change (B "1 0 obj") with (B "1 0 ob" ++ [106]). cbn [app].
    rewrite <- !app_assoc. reflexivity. }
  assert (PL : forallb plain a = true).
  { unfold a. cbn [forallb]. rewrite forallb_app, plain_repeat32. reflexivity. }
  rewrite E0, <- app_assoc, (quiet_from_plain a [] _ PL).
  cbn [app quiet_from]. change (is_eol 106) with false. cbv iota.
  assert (F : fires (106 :: rev a ++ []) = false).
  { unfold fires. rewrite app_nil_r.
    replace (rev (106 :: rev a)) with (LL_BODY n) by (rewrite E0; cbn [rev]; rewrite rev_involutive; reflexivity).
    rewrite parse_ll. apply andb_false_r. }
  rewrite F. unfold S_END. cbn [quiet_from]. change (is_eol 10) with true. cbv iota.
  vm_compute. reflexivity.
Qed.

Lemma longline_quiet : quiet_doc D_LONGLINE = true.
Proof.
  unfold quiet_doc, D_LONGLINE. cbn [forallb]. rewrite quiet_ll, andb_true_r. vm_compute. reflexivity.
Qed.

Example long_body_line_refuted :
  wf D_LONGLINE = true /\ quiet_doc D_LONGLINE = true
  /\ 65536 < len (render D_LONGLINE 1)
  /\ offsets D_LONGLINE = [(1, 0, 15); (2, 0, 64)]
  /\ scan_file 65536 (render D_LONGLINE 1) = [(1, 0, 15); (2, 0, 64); (1, 0, 64512)]
  /\ tlookup (recover_tbl (render D_LONGLINE 1)) 1 = Some (64512, 0)
  /\ true_off D_LONGLINE 1 = Some 15.
Proof.
  split; [vm_compute; reflexivity|]. split; [exact longline_quiet|].
  vm_compute. repeat split; reflexivity.
Qed.

Lemma long_body_line_outside : long_lines_dead (render D_LONGLINE 1) = false.
Proof.
  destruct (long_lines_dead (render D_LONGLINE 1)) eqn:E; [|reflexivity].
  destruct long_body_line_refuted as [W [Q [_ [O [S _]]]]].
  rewrite (scan_file_finds_all2 D_LONGLINE 1 65536 W Q E), O in S. discriminate S.
Qed.

(** (c) the hypotheses are satisfiable beyond one chunk: 2200 short lines, one line of 1100 bytes
    without 'j' (longer than the carry, dead), a string with "obj" in it; about 70 KB *)
Definition D_BIG : doc :=
  [(1, B "<< /Type /Catalog /Pages 2 0 R >>");
   (2, flat_map (fun _ => repeat 65 30 ++ [10]) (seq 0 2200));
   (3, repeat 66 1100);
   (5, B "(obj 7 0 objx)")].
Lemma big_lines_ok : long_lines_dead (render D_BIG 1) = true.
Proof. apply lines_ok_noj_ok. vm_compute. reflexivity. Qed.
Lemma big_quiet : quiet_doc D_BIG = true.
Proof.
  unfold quiet_doc, D_BIG. cbn [forallb].
  apply andb_true_iff. split; [vm_compute; reflexivity|].
  apply andb_true_iff. split; [vm_compute; reflexivity|].
  apply andb_true_iff. split; [|vm_compute; reflexivity].
  unfold quiet_body. cbn [snd]. rewrite quiet_from_plain by (vm_compute; reflexivity).
  vm_compute. reflexivity.
Qed.
Lemma big_doc_ok : long_lines_dead_doc D_BIG = true.
Proof. apply long_lines_noj_doc_ok. vm_compute. reflexivity. Qed.
Example full_nonvacuous :
  wf D_BIG = true /\ quiet_doc D_BIG = true /\ long_lines_dead_doc D_BIG = true
  /\ long_lines_dead (render D_BIG 1) = true
  /\ short_lines (render D_BIG 1) = false /\ 65536 < len (render D_BIG 1)
  /\ scan_file 65536 (render D_BIG 1) = offsets D_BIG.
Proof.
  split; [vm_compute; reflexivity|]. split; [exact big_quiet|]. split; [exact big_doc_ok|].
  split; [exact big_lines_ok|]. vm_compute. repeat split; reflexivity.
Qed.
